(* Bytes are N values below 256; blobs are lists.  Positions inside a blob are
   [nat] (bounded by the list that is already in memory); wire-level numbers
   are [N]. *)
From Coq Require Import List NArith Arith Lia.
Import ListNotations.

Definition byte := N.
Definition bytes := list byte.
Definition wf_byte (b : byte) : Prop := (b < 256)%N.
Definition wf_bytes (l : bytes) : Prop := Forall wf_byte l.

Definition slice {A} (l : list A) (start len : nat) : list A := firstn len (skipn start l).

Lemma slice_length {A} (l : list A) s n : s + n <= length l -> length (slice l s n) = n.
Proof. intros. unfold slice. rewrite firstn_length, skipn_length. lia. Qed.

Lemma slice_0 {A} (l : list A) n : slice l 0 n = firstn n l.
Proof. reflexivity. Qed.

Lemma skipn_skipn {A} (l : list A) a b : skipn a (skipn b l) = skipn (b + a) l.
Proof.
  revert l. induction b as [|b IH]; intros l; cbn [plus]; [reflexivity|].
  destruct l; [now rewrite !skipn_nil|]. cbn [skipn]. apply IH.
Qed.

(* Cut a list into consecutive pieces of the given sizes. *)
Fixpoint split_by {A} (sizes : list nat) (l : list A) : list (list A) :=
  match sizes with
  | [] => []
  | n :: r => firstn n l :: split_by r (skipn n l)
  end.

Definition total (sizes : list nat) : nat := fold_right plus 0 sizes.

Lemma split_by_length {A} sizes (l : list A) : length (split_by sizes l) = length sizes.
Proof. revert l. induction sizes; cbn; intros; [reflexivity|]. now rewrite IHsizes. Qed.

Lemma concat_split_by {A} sizes (l : list A) :
  total sizes = length l -> concat (split_by sizes l) = l.
Proof.
  unfold total. revert l. induction sizes as [|n r IH]; cbn; intros l E.
  - destruct l; [reflexivity|discriminate].
  - rewrite IH; [apply firstn_skipn|]. rewrite skipn_length. lia.
Qed.

Lemma split_by_concat {A} (cs : list (list A)) :
  split_by (map (@length A) cs) (concat cs) = cs.
Proof.
  induction cs as [|c r IH]; cbn; [reflexivity|].
  rewrite firstn_app, firstn_all, Nat.sub_diag, firstn_O, app_nil_r.
  rewrite skipn_app, skipn_all, Nat.sub_diag. cbn. now rewrite IH.
Qed.

Lemma total_app a b : total (a ++ b) = total a + total b.
Proof. unfold total. induction a; cbn; lia. Qed.
