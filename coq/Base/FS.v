(* A small abstract POSIX-ish file system.

   - a tree [node := Dir | File | Symlink], each with an opaque [meta] record;
   - paths are lists of names (a name is a byte string without '/'), relative to the root;
   - operations: [resolve]/[lookup]/[stat] (lstat-like: the last component is never followed, and
     intermediate symlinks are NOT resolved here -- extend in your own file if you need that),
     [mkdir], [ensure_dir] (one level of os.MkdirAll), [mkdir_all], [create_excl], [write_file],
     [write_prefix] (a write cut short), [rename] (atomic replace), [unlink], [rmdir], [remove],
     [readdir] (sorted, duplicate-free listing);
   - [op], [exec], [crash_states]: all file-system states reachable by executing a prefix of an
     op list, where the last executed write may have written any prefix of its bytes;
   - the extensional view [stat : path -> node -> option ent] and the point-update lemmas
     ([stat_create_excl], [stat_write_file], [stat_unlink], [stat_mkdir], [stat_rename_leaf], ...):
     a successful operation on a leaf changes [stat] at exactly one path (two for rename).

   Everything is executable (extraction, vm_compute).  Directory entries are association lists;
   the first binding of a name is the live one, deletion removes all bindings of the name, so no
   well-formedness invariant is needed for the lemmas below.  Parent mtime updates are not
   modelled ([meta] is opaque and only set by the creating operation). *)
From Coq Require Import List NArith Arith Bool Lia.
From DS Require Import Base.Bytes.
Import ListNotations.

Definition name := bytes.
Definition path := list name.

Record meta := mkMeta { m_mode : N; m_uid : N; m_gid : N; m_mtime : N; m_xattrs : list (bytes * bytes) }.
Definition meta0 : meta := mkMeta 0 0 0 0 [].

Inductive node :=
| Dir (m : meta) (ents : list (name * node))
| File (m : meta) (data : bytes)
| Symlink (m : meta) (target : bytes).

Inductive errno := ENOENT | EEXIST | ENOTDIR | EISDIR | ENOTEMPTY | EINVAL | EIO.
Inductive res (A : Type) := Ok (a : A) | Err (e : errno).
Arguments Ok {A} a.
Arguments Err {A} e.

(* ---------- names and paths ---------- *)

Fixpoint bytes_eqb (a b : bytes) : bool :=
  match a, b with
  | [], [] => true
  | x :: a', y :: b' => N.eqb x y && bytes_eqb a' b'
  | _, _ => false
  end.

Fixpoint path_eqb (p q : path) : bool :=
  match p, q with
  | [], [] => true
  | x :: p', y :: q' => bytes_eqb x y && path_eqb p' q'
  | _, _ => false
  end.

(* p is a (not necessarily strict) prefix of q *)
Fixpoint is_prefix (p q : path) : bool :=
  match p, q with
  | [], _ => true
  | x :: p', y :: q' => bytes_eqb x y && is_prefix p' q'
  | _ :: _, [] => false
  end.

(* Go string order (byte-wise lexicographic), as used by filepath.Walk's sorted listing *)
Fixpoint bytes_cmp (a b : bytes) : comparison :=
  match a, b with
  | [], [] => Eq
  | [], _ :: _ => Lt
  | _ :: _, [] => Gt
  | x :: a', y :: b' => match N.compare x y with Eq => bytes_cmp a' b' | c => c end
  end.

Fixpoint insert_name (x : name) (l : list name) : list name :=
  match l with
  | [] => [x]
  | y :: r => match bytes_cmp x y with Lt => x :: l | Eq => l | Gt => y :: insert_name x r end
  end.
Definition sort_names (l : list name) : list name := fold_right insert_name [] l.

(* ---------- lookup ---------- *)

Fixpoint assoc (nm : name) (l : list (name * node)) : option node :=
  match l with
  | [] => None
  | (k, v) :: r => if bytes_eqb k nm then Some v else assoc nm r
  end.

Fixpoint resolve (p : path) (n : node) : res node :=
  match p with
  | [] => Ok n
  | nm :: rest =>
      match n with
      | Dir _ l => match assoc nm l with Some c => resolve rest c | None => Err ENOENT end
      | _ => Err ENOTDIR
      end
  end.

Definition lookup (p : path) (n : node) : option node :=
  match resolve p n with Ok x => Some x | Err _ => None end.

(* what lstat + reading the object shows of a node: everything but a directory's children *)
Inductive ent := EDir (m : meta) | EFile (m : meta) (data : bytes) | ELink (m : meta) (target : bytes).
Definition ent_of (n : node) : ent :=
  match n with Dir m _ => EDir m | File m b => EFile m b | Symlink m t => ELink m t end.
Definition stat (p : path) (n : node) : option ent := option_map ent_of (lookup p n).

Definition is_dir (o : option ent) : bool := match o with Some (EDir _) => true | _ => false end.

(* ---------- generic update ---------- *)

(* apply g to the binding of nm (None if unbound); None as a result deletes every binding of nm *)
Fixpoint upd_list (g : option node -> res (option node)) (nm : name) (l : list (name * node))
  : res (list (name * node)) :=
  match l with
  | [] => match g None with
          | Ok (Some n) => Ok [(nm, n)]
          | Ok None => Ok []
          | Err e => Err e
          end
  | (k, v) :: r =>
      if bytes_eqb k nm then
        match g (Some v) with
        | Ok (Some n) => Ok ((k, n) :: r)
        | Ok None => Ok (filter (fun e => negb (bytes_eqb (fst e) nm)) r)
        | Err e => Err e
        end
      else match upd_list g nm r with
           | Ok r' => Ok ((k, v) :: r')
           | Err e => Err e
           end
  end.

(* walk down p through directories, then apply f to what is found there (None = nothing) *)
Fixpoint update (p : path) (f : option node -> res (option node)) (o : option node) : res (option node) :=
  match p with
  | [] => f o
  | nm :: rest =>
      match o with
      | None => Err ENOENT
      | Some (Dir m l) =>
          match upd_list (update rest f) nm l with
          | Ok l' => Ok (Some (Dir m l'))
          | Err e => Err e
          end
      | Some _ => Err ENOTDIR
      end
  end.

Definition upd (p : path) (f : option node -> res (option node)) (s : node) : res node :=
  match update p f (Some s) with
  | Ok (Some s') => Ok s'
  | Ok None => Err EINVAL          (* the root cannot be removed *)
  | Err e => Err e
  end.

(* ---------- operations ---------- *)

Definition mkdir (p : path) : node -> res node :=
  upd p (fun o => match o with None => Ok (Some (Dir meta0 [])) | Some _ => Err EEXIST end).

(* one level of os.MkdirAll: nothing if p is a directory, ENOTDIR if it is something else, mkdir otherwise *)
Definition ensure_dir (p : path) (s : node) : res node :=
  match resolve p s with
  | Ok (Dir _ _) => Ok s
  | Ok _ => Err ENOTDIR
  | Err ENOENT => mkdir p s
  | Err e => Err e
  end.

(* the non-empty prefixes of p, shortest first *)
Fixpoint prefixes (p : path) : list path :=
  match p with
  | [] => []
  | nm :: rest => [nm] :: map (cons nm) (prefixes rest)
  end.

Fixpoint ensure_dirs (ps : list path) (s : node) : res node :=
  match ps with
  | [] => Ok s
  | p :: r => match ensure_dir p s with Ok s' => ensure_dirs r s' | Err e => Err e end
  end.

(* os.MkdirAll *)
Definition mkdir_all (p : path) (s : node) : res node := ensure_dirs (prefixes p) s.

(* open(O_CREAT|O_EXCL): a new empty file *)
Definition create_excl (p : path) : node -> res node :=
  upd p (fun o => match o with None => Ok (Some (File meta0 [])) | Some _ => Err EEXIST end).

(* the file's whole content becomes b *)
Definition write_file (p : path) (b : bytes) : node -> res node :=
  upd p (fun o => match o with
                  | Some (File m _) => Ok (Some (File m b))
                  | Some (Dir _ _) => Err EISDIR
                  | Some (Symlink _ _) => Err EINVAL
                  | None => Err ENOENT
                  end).

(* a write of b cut short after k bytes *)
Definition write_prefix (k : nat) (p : path) (b : bytes) : node -> res node := write_file p (firstn k b).

Definition unlink (p : path) : node -> res node :=
  upd p (fun o => match o with
                  | Some (Dir _ _) => Err EISDIR
                  | Some _ => Ok None
                  | None => Err ENOENT
                  end).

Definition rmdir (p : path) : node -> res node :=
  upd p (fun o => match o with
                  | Some (Dir _ []) => Ok None
                  | Some (Dir _ (_ :: _)) => Err ENOTEMPTY
                  | Some _ => Err ENOTDIR
                  | None => Err ENOENT
                  end).

(* os.Remove: unlink, or rmdir for a directory *)
Definition remove (p : path) (s : node) : res node :=
  match resolve p s with
  | Ok (Dir _ _) => rmdir p s
  | _ => unlink p s
  end.

(* rename(2): atomically replaces the destination *)
Definition rename (a b : path) (s : node) : res node :=
  match resolve a s with
  | Err e => Err e
  | Ok n =>
      if path_eqb a b then Ok s
      else if is_prefix a b then Err EINVAL
      else if is_prefix b a then Err (match n with Dir _ _ => ENOTEMPTY | _ => EISDIR end)
      else match upd a (fun _ => Ok None) s with
           | Err e => Err e
           | Ok s1 =>
               upd b (fun o => match o, n with
                               | Some (Dir _ (_ :: _)), Dir _ _ => Err ENOTEMPTY
                               | Some (Dir _ []), Dir _ _ => Ok (Some n)
                               | Some (Dir _ _), _ => Err EISDIR
                               | Some _, Dir _ _ => Err ENOTDIR
                               | _, _ => Ok (Some n)
                               end) s1
           end
  end.

Definition readdir (p : path) (s : node) : res (list name) :=
  match resolve p s with
  | Ok (Dir _ l) => Ok (sort_names (map fst l))
  | Ok _ => Err ENOTDIR
  | Err e => Err e
  end.

(* all entries of the tree below n, as (path, ent), parents before children *)
Fixpoint listing (pre : path) (n : node) : list (path * ent) :=
  (pre, ent_of n) ::
  match n with
  | Dir _ l => (fix go (l : list (name * node)) : list (path * ent) :=
                  match l with
                  | [] => []
                  | (k, c) :: r => listing (pre ++ [k]) c ++ go r
                  end) l
  | _ => []
  end.

Definition empty_fs : node := Dir meta0 [].

(* ---------- operation lists and crashes ---------- *)

Inductive op :=
| OpEnsureDir (p : path)          (* one level of os.MkdirAll *)
| OpMkdir (p : path)
| OpCreateExcl (p : path)
| OpWrite (p : path) (b : bytes)  (* whole content; a crash may cut it short *)
| OpClose (p : path)              (* no effect on the tree; keeps op lists aligned with syscall traces *)
| OpRename (a b : path)
| OpUnlink (p : path)
| OpRmdir (p : path).

Definition exec (o : op) (s : node) : res node :=
  match o with
  | OpEnsureDir p => ensure_dir p s
  | OpMkdir p => mkdir p s
  | OpCreateExcl p => create_excl p s
  | OpWrite p b => write_file p b s
  | OpClose _ => Ok s
  | OpRename a b => rename a b s
  | OpUnlink p => unlink p s
  | OpRmdir p => rmdir p s
  end.

Fixpoint oks {A} (l : list (res A)) : list A :=
  match l with
  | [] => []
  | Ok a :: r => a :: oks r
  | Err _ :: r => oks r
  end.

(* the states a crash in the middle of o can leave (besides "not started" and "done"):
   only a write is not atomic; it may have written any strict prefix of its bytes *)
Definition partial (o : op) (s : node) : list node :=
  match o with
  | OpWrite p b => oks (map (fun k => write_prefix k p b s) (seq 0 (length b)))
  | _ => []
  end.

(* execute the list; stop at the first failing operation *)
Fixpoint run_ops (ops : list op) (s : node) : node * option errno :=
  match ops with
  | [] => (s, None)
  | o :: r => match exec o s with Ok s' => run_ops r s' | Err e => (s, Some e) end
  end.

(* every state in which the process can die while executing ops from s *)
Fixpoint crash_states (ops : list op) (s : node) : list node :=
  s :: match ops with
       | [] => []
       | o :: r => partial o s ++ match exec o s with Ok s' => crash_states r s' | Err _ => [] end
       end.

(* ---------- laws ---------- *)

Lemma bytes_eqb_eq a b : bytes_eqb a b = true <-> a = b.
Proof.
  revert b. induction a as [|x a IH]; destruct b as [|y b]; cbn; try (split; congruence).
  rewrite andb_true_iff, N.eqb_eq, IH. split; [intros [-> ->]; reflexivity|intros E; inversion E; auto].
Qed.

Lemma bytes_eqb_refl a : bytes_eqb a a = true.
Proof. now apply bytes_eqb_eq. Qed.

Lemma bytes_eqb_neq a b : bytes_eqb a b = false <-> a <> b.
Proof.
  split.
  - intros E ->. now rewrite bytes_eqb_refl in E.
  - intros N. destruct (bytes_eqb a b) eqn:E; [|reflexivity]. apply bytes_eqb_eq in E. contradiction.
Qed.

Lemma bytes_eqb_sym a b : bytes_eqb a b = bytes_eqb b a.
Proof.
  destruct (bytes_eqb a b) eqn:E.
  - apply bytes_eqb_eq in E. subst. now rewrite bytes_eqb_refl.
  - symmetry. apply bytes_eqb_neq. apply bytes_eqb_neq in E. congruence.
Qed.

Lemma path_eqb_eq p q : path_eqb p q = true <-> p = q.
Proof.
  revert q. induction p as [|x p IH]; destruct q as [|y q]; cbn; try (split; congruence).
  rewrite andb_true_iff, bytes_eqb_eq, IH. split; [intros [-> ->]; reflexivity|intros E; inversion E; auto].
Qed.

Lemma path_eqb_refl p : path_eqb p p = true.
Proof. now apply path_eqb_eq. Qed.

Lemma path_eqb_neq p q : path_eqb p q = false <-> p <> q.
Proof.
  split.
  - intros E ->. now rewrite path_eqb_refl in E.
  - intros N. destruct (path_eqb p q) eqn:E; [|reflexivity]. apply path_eqb_eq in E. contradiction.
Qed.

Lemma path_eq_dec (p q : path) : {p = q} + {p <> q}.
Proof. destruct (path_eqb p q) eqn:E; [left; now apply path_eqb_eq|right; now apply path_eqb_neq]. Qed.

Lemma is_prefix_spec p q : is_prefix p q = true <-> exists r, q = p ++ r.
Proof.
  revert q. induction p as [|x p IH]; intros q; cbn.
  - split; [intros _; now exists q|reflexivity].
  - destruct q as [|y q].
    + split; [discriminate|intros [r E]; discriminate].
    + rewrite andb_true_iff, bytes_eqb_eq, IH. split.
      * intros [-> [r ->]]. now exists r.
      * intros [r E]. inversion E; subst. split; [reflexivity|now exists r].
Qed.

Lemma is_prefix_refl p : is_prefix p p = true.
Proof. apply is_prefix_spec. exists []. now rewrite app_nil_r. Qed.

Lemma is_prefix_app p r : is_prefix p (p ++ r) = true.
Proof. apply is_prefix_spec. now exists r. Qed.

Lemma bytes_cmp_eq a b : bytes_cmp a b = Eq <-> a = b.
Proof.
  revert b. induction a as [|x a IH]; destruct b as [|y b]; cbn; try (split; congruence).
  destruct (N.compare x y) eqn:C.
  - apply N.compare_eq in C. subst. rewrite IH. split; [congruence|intros E; now inversion E].
  - split; [discriminate|intros E; inversion E; subst; rewrite N.compare_refl in C; discriminate].
  - split; [discriminate|intros E; inversion E; subst; rewrite N.compare_refl in C; discriminate].
Qed.

Lemma in_insert_name x y l : In y (insert_name x l) <-> y = x \/ In y l.
Proof.
  induction l as [|z l IH]; cbn.
  - intuition.
  - destruct (bytes_cmp x z) eqn:C; cbn.
    + apply bytes_cmp_eq in C. subst. intuition.
    + intuition.
    + rewrite IH. intuition.
Qed.

Lemma in_sort_names y l : In y (sort_names l) <-> In y l.
Proof.
  induction l as [|x l IH]; cbn; [reflexivity|]. rewrite in_insert_name, IH. intuition.
Qed.

Definition lookup_opt (p : path) (o : option node) : option node :=
  match o with Some n => lookup p n | None => None end.
Definition stat_opt (p : path) (o : option node) : option ent := option_map ent_of (lookup_opt p o).

Lemma lookup_nil n : lookup [] n = Some n.
Proof. reflexivity. Qed.

Lemma lookup_opt_nil o : lookup_opt [] o = o.
Proof. destruct o; reflexivity. Qed.

Lemma lookup_cons nm rest n :
  lookup (nm :: rest) n = match n with Dir _ l => lookup_opt rest (assoc nm l) | _ => None end.
Proof.
  unfold lookup. cbn [resolve]. destruct n as [m l| |]; try reflexivity.
  destruct (assoc nm l); reflexivity.
Qed.

Lemma lookup_opt_app p q o : lookup_opt (p ++ q) o = lookup_opt q (lookup_opt p o).
Proof.
  revert o. induction p as [|nm rest IH]; intros o.
  - destruct o; reflexivity.
  - destruct o as [n|]; [|reflexivity]. cbn [app lookup_opt]. rewrite !lookup_cons.
    destruct n as [m l| |]; try reflexivity. apply IH.
Qed.

Lemma lookup_app p q n : lookup (p ++ q) n = lookup_opt q (lookup p n).
Proof. exact (lookup_opt_app p q (Some n)). Qed.

(* a node without children: below it nothing resolves *)
Definition childless (o : option node) : Prop :=
  match o with Some (Dir _ (_ :: _)) => False | _ => True end.

Lemma lookup_opt_childless o q : childless o -> q <> [] -> lookup_opt q o = None.
Proof.
  intros C Hq. destruct q as [|nm rest]; [congruence|]. destruct o as [n|]; [|reflexivity].
  cbn [lookup_opt]. rewrite lookup_cons. destruct n as [m [|e l]| |]; try reflexivity. destruct C.
Qed.

Lemma assoc_filter_other nm k l : bytes_eqb k nm = false ->
  assoc k (filter (fun e => negb (bytes_eqb (fst e) nm)) l) = assoc k l.
Proof.
  intros Hk. induction l as [|[k0 v] l IH]; [reflexivity|]. cbn [filter fst assoc].
  destruct (bytes_eqb k0 nm) eqn:E0; cbn [negb].
  - apply bytes_eqb_eq in E0. subst k0. rewrite bytes_eqb_sym, Hk. exact IH.
  - cbn [assoc]. now rewrite IH.
Qed.

Lemma assoc_filter_same nm l : assoc nm (filter (fun e => negb (bytes_eqb (fst e) nm)) l) = None.
Proof.
  induction l as [|[k0 v] l IH]; [reflexivity|]. cbn [filter fst].
  destruct (bytes_eqb k0 nm) eqn:E0; cbn [negb]; [exact IH|]. cbn [assoc]. now rewrite E0.
Qed.

Lemma assoc_upd_list g nm l l' : upd_list g nm l = Ok l' ->
  exists r, g (assoc nm l) = Ok r /\ forall k, assoc k l' = if bytes_eqb k nm then r else assoc k l.
Proof.
  revert l'. induction l as [|[k0 v] l IH]; intros l' E; cbn [upd_list] in E.
  - destruct (g None) as [[n|]|e] eqn:G; inversion E; subst; clear E.
    + exists (Some n). split; [exact G|]. intros k. cbn [assoc]. now rewrite bytes_eqb_sym.
    + exists None. split; [exact G|]. intros k. cbn. now destruct (bytes_eqb k nm).
  - cbn [assoc]. destruct (bytes_eqb k0 nm) eqn:E0.
    + apply bytes_eqb_eq in E0. subst k0.
      destruct (g (Some v)) as [[n|]|e] eqn:G; inversion E; subst; clear E.
      * exists (Some n). split; [reflexivity|]. intros k. cbn [assoc]. rewrite (bytes_eqb_sym nm k).
        now destruct (bytes_eqb k nm).
      * exists None. split; [reflexivity|]. intros k. destruct (bytes_eqb k nm) eqn:Ek.
        -- apply bytes_eqb_eq in Ek. subst k. apply assoc_filter_same.
        -- rewrite assoc_filter_other by exact Ek. now rewrite bytes_eqb_sym, Ek.
    + destruct (upd_list g nm l) as [r'|e] eqn:U; inversion E; subst; clear E.
      destruct (IH _ eq_refl) as (r & G & A). exists r. split; [exact G|]. intros k. cbn [assoc].
      destruct (bytes_eqb k0 k) eqn:E1.
      * apply bytes_eqb_eq in E1. subst k0. now rewrite E0.
      * apply A.
Qed.

(* what a successful update does at and below p *)
Lemma lookup_update_at p f : forall o o', update p f o = Ok o' ->
  exists r, f (lookup_opt p o) = Ok r /\ forall q, lookup_opt (p ++ q) o' = lookup_opt q r.
Proof.
  induction p as [|nm rest IH]; intros o o' E; cbn [update] in E.
  - exists o'. split; [destruct o; exact E|]. intros q. reflexivity.
  - destruct o as [[m l| |]|]; try discriminate.
    destruct (upd_list (update rest f) nm l) as [l'|e] eqn:U; inversion E; subst; clear E.
    destruct (assoc_upd_list _ _ _ _ U) as (r1 & G & A). destruct (IH _ _ G) as (r & F & B).
    exists r. split.
    + cbn [lookup_opt]. rewrite lookup_cons. exact F.
    + intros q. cbn [app lookup_opt]. rewrite lookup_cons, A, bytes_eqb_refl. apply B.
Qed.

(* ... and everywhere else: only paths that extend p can change *)
Lemma stat_update_frame p f : forall o o', update p f o = Ok o' ->
  forall q, is_prefix p q = false -> stat_opt q o' = stat_opt q o.
Proof.
  induction p as [|nm rest IH]; intros o o' E q Hq; [discriminate|]. cbn [update] in E.
  destruct o as [[m l| |]|]; try discriminate.
  destruct (upd_list (update rest f) nm l) as [l'|e] eqn:U; inversion E; subst; clear E.
  destruct (assoc_upd_list _ _ _ _ U) as (r1 & G & A).
  destruct q as [|k q']; [reflexivity|]. unfold stat_opt. cbn [lookup_opt]. rewrite !lookup_cons, A.
  cbn [is_prefix] in Hq. rewrite (bytes_eqb_sym nm k) in Hq.
  destruct (bytes_eqb k nm) eqn:Ek; [|reflexivity]. cbn [andb] in Hq.
  apply bytes_eqb_eq in Ek. subst k. exact (IH _ _ G q' Hq).
Qed.

Lemma upd_inv p f s s' : upd p f s = Ok s' -> update p f (Some s) = Ok (Some s').
Proof. unfold upd. destruct (update p f (Some s)) as [[x|]|e]; congruence. Qed.

(* The point-update lemma: replacing something childless by something childless changes
   [stat] at p and nowhere else. *)
Lemma stat_upd_point p f s s' : upd p f s = Ok s' ->
  exists r, f (lookup p s) = Ok r /\ lookup p s' = r /\
            (childless (lookup p s) -> childless r ->
             forall q, stat q s' = if path_eqb q p then option_map ent_of r else stat q s).
Proof.
  intros E. apply upd_inv in E. destruct (lookup_update_at _ _ _ _ E) as (r & F & B).
  assert (B0 : lookup p s' = r).
  { specialize (B []). rewrite app_nil_r, lookup_opt_nil in B. exact B. }
  exists r. split; [exact F|]. split; [exact B0|].
  intros C1 C2 q. destruct (path_eqb q p) eqn:Eq.
  - apply path_eqb_eq in Eq. subst q. unfold stat. now rewrite B0.
  - destruct (is_prefix p q) eqn:Pq.
    + apply is_prefix_spec in Pq. destruct Pq as [t ->].
      assert (t <> []) by (intros ->; rewrite app_nil_r, path_eqb_refl in Eq; discriminate).
      unfold stat. specialize (B t). cbn [lookup_opt] in B. rewrite B, lookup_app.
      now rewrite !lookup_opt_childless.
    + exact (stat_update_frame _ _ _ _ E q Pq).
Qed.

Lemma childless_none : childless None. Proof. exact I. Qed.
Lemma childless_file m b : childless (Some (File m b)). Proof. exact I. Qed.
Lemma childless_link m t : childless (Some (Symlink m t)). Proof. exact I. Qed.
Lemma childless_emptydir m : childless (Some (Dir m [])). Proof. exact I. Qed.

Lemma stat_none_lookup p s : stat p s = None <-> lookup p s = None.
Proof. unfold stat. destruct (lookup p s); cbn; split; congruence. Qed.

Lemma stat_file_lookup p s m b : stat p s = Some (EFile m b) <-> lookup p s = Some (File m b).
Proof.
  unfold stat. destruct (lookup p s) as [[| |]|]; cbn; split; try congruence.
Qed.

(* create_excl: succeeds only where nothing is; afterwards an empty file is there *)
Lemma stat_create_excl p s s' : create_excl p s = Ok s' ->
  stat p s = None /\
  forall q, stat q s' = if path_eqb q p then Some (EFile meta0 []) else stat q s.
Proof.
  intros E. destruct (stat_upd_point _ _ _ _ E) as (r & F & _ & P).
  destruct (lookup p s) eqn:L; [discriminate|]. inversion F; subst r.
  split; [now apply stat_none_lookup|]. apply P; exact I.
Qed.

Lemma stat_mkdir p s s' : mkdir p s = Ok s' ->
  stat p s = None /\
  forall q, stat q s' = if path_eqb q p then Some (EDir meta0) else stat q s.
Proof.
  intros E. destruct (stat_upd_point _ _ _ _ E) as (r & F & _ & P).
  destruct (lookup p s) eqn:L; [discriminate|]. inversion F; subst r.
  split; [now apply stat_none_lookup|]. apply P; exact I.
Qed.

Lemma stat_write_file p b s s' : write_file p b s = Ok s' ->
  exists m old, stat p s = Some (EFile m old) /\
  forall q, stat q s' = if path_eqb q p then Some (EFile m b) else stat q s.
Proof.
  intros E. destruct (stat_upd_point _ _ _ _ E) as (r & F & _ & P).
  destruct (lookup p s) as [[m l|m old|m t]|] eqn:L; try discriminate. inversion F; subst r.
  exists m, old. split; [now apply stat_file_lookup|]. apply P; exact I.
Qed.

Lemma stat_unlink p s s' : unlink p s = Ok s' ->
  (exists e, stat p s = Some e /\ is_dir (Some e) = false) /\
  forall q, stat q s' = if path_eqb q p then None else stat q s.
Proof.
  intros E. destruct (stat_upd_point _ _ _ _ E) as (r & F & _ & P).
  unfold stat. destruct (lookup p s) as [[m l|m old|m t]|] eqn:L; try discriminate; inversion F; subst r.
  - split; [eexists; split; reflexivity|]. apply P; exact I.
  - split; [eexists; split; reflexivity|]. apply P; exact I.
Qed.

Lemma stat_ensure_dir p s s' : ensure_dir p s = Ok s' ->
  forall q, stat q s' = if path_eqb q p && negb (is_dir (stat p s)) then Some (EDir meta0) else stat q s.
Proof.
  unfold ensure_dir. intros E q. unfold stat at 2, lookup.
  destruct (resolve p s) as [[m l|m b|m t]|e] eqn:R; try discriminate.
  - inversion E; subst. cbn. now rewrite andb_false_r.
  - destruct e; try discriminate. destruct (stat_mkdir _ _ _ E) as [_ P]. rewrite P. cbn.
    now rewrite andb_true_r.
Qed.

(* rename of a non-directory onto nothing or onto a non-directory *)
Lemma stat_rename_leaf a b s s' : rename a b s = Ok s' -> a <> b ->
  (exists e, stat a s = Some e) ->
  is_dir (stat a s) = false ->
  forall q, stat q s' = if path_eqb q b then stat a s else if path_eqb q a then None else stat q s.
Proof.
  unfold rename. intros E Hab [e He] Hnd q.
  assert (La : lookup a s = match resolve a s with Ok x => Some x | Err _ => None end) by reflexivity.
  destruct (resolve a s) as [n|er] eqn:R; [|discriminate].
  destruct (path_eqb a b) eqn:Eab; [apply path_eqb_eq in Eab; contradiction|].
  destruct (is_prefix a b); [discriminate|]. destruct (is_prefix b a); [discriminate|].
  destruct (upd a (fun _ => Ok None) s) as [s1|er] eqn:U1; [|discriminate].
  unfold stat in Hnd, He. rewrite La in Hnd, He. cbn in Hnd, He.
  assert (Cn : childless (Some n)) by (destruct n; [discriminate|exact I|exact I]).
  destruct (stat_upd_point _ _ _ _ U1) as (r1 & F1 & _ & P1). inversion F1; subst r1.
  rewrite La in P1. specialize (P1 Cn I).
  destruct (stat_upd_point _ _ _ _ E) as (r2 & F2 & _ & P2).
  assert (Lb : childless (lookup b s1) /\ r2 = Some n).
  { destruct (lookup b s1) as [[m [|x l]|m d|m t]|]; destruct n; try discriminate; inversion F2; split; try exact I; reflexivity. }
  destruct Lb as [Cb ->]. specialize (P2 Cb Cn). rewrite P2, P1.
  replace (stat a s) with (Some (ent_of n)) by (unfold stat; now rewrite La).
  cbn [option_map]. destruct (path_eqb q b); reflexivity.
Qed.

(* success of an update at an existing path *)
Lemma upd_list_ok g nm l v r : assoc nm l = Some v -> g (Some v) = Ok r -> exists l', upd_list g nm l = Ok l'.
Proof.
  induction l as [|[k w] l IH]; cbn [assoc upd_list]; [discriminate|].
  destruct (bytes_eqb k nm).
  - intros E G. inversion E; subst. rewrite G. destruct r; eexists; reflexivity.
  - intros E G. destruct (IH E G) as [l' ->]. eexists; reflexivity.
Qed.

Lemma update_ok p f : forall n tgt r, resolve p n = Ok tgt -> f (Some tgt) = Ok r ->
  exists o', update p f (Some n) = Ok o' /\ (p <> [] -> o' <> None).
Proof.
  induction p as [|nm rest IH]; intros n tgt r R F; cbn [resolve update] in *.
  - inversion R; subst. exists r. split; [exact F|congruence].
  - destruct n as [m l| |]; try discriminate. destruct (assoc nm l) as [c|] eqn:A; [|discriminate].
    destruct (IH _ _ _ R F) as (o'' & U & _).
    destruct (upd_list_ok (update rest f) nm l c o'' A U) as [l' ->].
    eexists. split; [reflexivity|discriminate].
Qed.

Lemma upd_ok p f s tgt r : p <> [] -> resolve p s = Ok tgt -> f (Some tgt) = Ok r -> exists s', upd p f s = Ok s'.
Proof.
  intros Hp R F. destruct (update_ok p f s tgt r R F) as (o' & U & N). unfold upd. rewrite U.
  destruct o'; [eexists; reflexivity|]. exfalso. now apply N.
Qed.

(* unlinking an existing non-directory succeeds *)
Lemma unlink_ok p s : p <> [] -> (exists e, stat p s = Some e /\ is_dir (Some e) = false) -> exists s', unlink p s = Ok s'.
Proof.
  intros Hp (e & S & N). unfold stat, lookup in S. destruct (resolve p s) as [n|er] eqn:R; [|discriminate].
  destruct n as [m l|m b|m t]; cbn in S; inversion S; subst; try discriminate.
  - eapply upd_ok; eauto.
  - eapply upd_ok; eauto.
Qed.

(* crash states: the initial state, and closed under taking a longer prefix *)
Lemma crash_states_init ops s : In s (crash_states ops s).
Proof. destruct ops; left; reflexivity. Qed.

Lemma crash_states_cons o r s x :
  In x (crash_states (o :: r) s) <->
  x = s \/ In x (partial o s) \/ exists s', exec o s = Ok s' /\ In x (crash_states r s').
Proof.
  cbn [crash_states In]. rewrite in_app_iff. split.
  - intros [E|[P|C]]; [left; congruence|right; left; exact P|].
    destruct (exec o s) as [s'|e]; [right; right; exists s'; split; [reflexivity|exact C]|destruct C].
  - intros [E|[P|(s' & X & C)]]; [left; congruence|right; left; exact P|].
    right. right. rewrite X. exact C.
Qed.

Lemma in_oks {A} (l : list (res A)) x : In x (oks l) <-> In (Ok x) l.
Proof.
  induction l as [|[a|e] l IH]; cbn; [reflexivity| |].
  - rewrite IH. split; intros [E|E]; auto; left; congruence.
  - rewrite IH. split; [auto|intros [E|E]; [discriminate|exact E]].
Qed.

Lemma in_partial_write p b s x :
  In x (partial (OpWrite p b) s) <-> exists k, k < length b /\ write_prefix k p b s = Ok x.
Proof.
  cbn [partial]. rewrite in_oks, in_map_iff. split.
  - intros (k & E & I). apply in_seq in I. exists k. split; [lia|exact E].
  - intros (k & L & E). exists k. split; [exact E|apply in_seq; lia].
Qed.

(* the final state of a complete run is a crash state too *)
Lemma crash_states_final ops : forall s s', run_ops ops s = (s', None) -> In s' (crash_states ops s).
Proof.
  induction ops as [|o r IH]; intros s s' E; cbn [run_ops] in E.
  - inversion E. left; reflexivity.
  - destruct (exec o s) as [s1|e] eqn:X; [|discriminate].
    apply crash_states_cons. right. right. exists s1. split; [exact X|apply IH, E].
Qed.
