(* The chunk digest is an arbitrary function; nothing is assumed about it.
   Where a property needs "equal hash => equal bytes" the conclusion is a
   disjunction with [Collision H], and the proof constructs the colliding pair. *)
From Coq Require Import List NArith.
From DS Require Import Base.Bytes.

Definition id := N.

Section Hash.
  Variable H : bytes -> id.
  Definition Collision : Prop := exists x y : bytes, x <> y /\ H x = H y.

  Lemma hash_eq x y : H x = H y -> x = y \/ Collision.
  Proof.
    intros E. destruct (list_eq_dec N.eq_dec x y) as [->|Hne]; [now left|].
    right. exists x, y. split; assumption.
  Qed.
End Hash.
