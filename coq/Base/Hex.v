(* Go's encoding/hex over [bytes] (lists of byte codes).

   [hex]   = hex.EncodeToString : lower-case, two digits per byte.
   [unhex] = hex.DecodeString   : accepts upper and lower case; an odd length or a
             character that is not a hex digit gives [None].

   Tied to Go by the correspondence set of the C14/C15 harness (random and
   adversarial strings compared byte for byte with encoding/hex). *)
From Coq Require Import List NArith Bool Lia ZifyN ZifyBool.
From DS Require Import Base.Bytes.
Import ListNotations.
Local Open Scope N_scope.

(* hextable = "0123456789abcdef" : '0' = 48, 'a' = 97 *)
Definition hexdigit (n : N) : byte := if n <? 10 then 48 + n else 87 + n.

Fixpoint hex (l : bytes) : bytes :=
  match l with
  | [] => []
  | b :: r => hexdigit (b / 16) :: hexdigit (b mod 16) :: hex r
  end.

(* fromHexChar: '0'..'9', 'a'..'f', 'A'..'F' *)
Definition unhexdigit (c : byte) : option N :=
  if (48 <=? c) && (c <=? 57) then Some (c - 48)
  else if (97 <=? c) && (c <=? 102) then Some (c - 87)
  else if (65 <=? c) && (c <=? 70) then Some (c - 55)
  else None.

Fixpoint unhex (l : bytes) : option bytes :=
  match l with
  | [] => Some []
  | [_] => None
  | a :: b :: r =>
      match unhexdigit a, unhexdigit b, unhex r with
      | Some x, Some y, Some t => Some (16 * x + y :: t)
      | _, _, _ => None
      end
  end.

(* character classes *)
Definition is_hexchar (c : byte) : bool :=
  ((48 <=? c) && (c <=? 57)) || ((97 <=? c) && (c <=? 102)) || ((65 <=? c) && (c <=? 70)).
Definition is_lower_hexchar (c : byte) : bool :=
  ((48 <=? c) && (c <=? 57)) || ((97 <=? c) && (c <=? 102)).

(* strings.ToLower restricted to ASCII letters 'A'..'Z' *)
Definition to_lower (c : byte) : byte := if (65 <=? c) && (c <=? 90) then c + 32 else c.
Definition lower (s : bytes) : bytes := map to_lower s.

(* ---------- lemmas ---------- *)

Lemma hex_length l : length (hex l) = (2 * length l)%nat.
Proof. induction l as [|b r IH]; cbn [hex length]; [reflexivity|]. rewrite IH. lia. Qed.

Lemma hexdigit_inj a b : hexdigit a = hexdigit b -> a = b.
Proof. unfold hexdigit. destruct (a <? 10) eqn:Ea, (b <? 10) eqn:Eb; lia. Qed.

(* [hex] is injective on ALL byte lists (no well-formedness needed). *)
Lemma hex_inj a b : hex a = hex b -> a = b.
Proof.
  revert b. induction a as [|x a IH]; intros [|y b] E; cbn [hex] in E; try discriminate; [reflexivity|].
  injection E as E1 E2 E3.
  apply hexdigit_inj in E1. apply hexdigit_inj in E2.
  f_equal; [|now apply IH].
  rewrite (N.div_mod x 16), (N.div_mod y 16) by lia. now rewrite E1, E2.
Qed.

Lemma unhexdigit_hexdigit n : n < 16 -> unhexdigit (hexdigit n) = Some n.
Proof.
  intros Hn. unfold hexdigit, unhexdigit.
  destruct (n <? 10) eqn:E.
  - replace ((48 <=? 48 + n) && (48 + n <=? 57)) with true by lia. f_equal; lia.
  - replace ((48 <=? 87 + n) && (87 + n <=? 57)) with false by lia.
    replace ((97 <=? 87 + n) && (87 + n <=? 102)) with true by lia. f_equal; lia.
Qed.

Lemma unhex_hex l : wf_bytes l -> unhex (hex l) = Some l.
Proof.
  induction 1 as [|b r Hb _ IH]; [reflexivity|]. unfold wf_byte in Hb. cbn [hex unhex].
  rewrite !unhexdigit_hexdigit, IH.
  - do 2 f_equal. rewrite N.mul_comm. symmetry. rewrite N.mul_comm. apply N.div_mod. lia.
  - apply N.mod_lt; lia.
  - apply N.div_lt_upper_bound; lia.
Qed.

Lemma unhexdigit_lt c x : unhexdigit c = Some x -> x < 16.
Proof.
  unfold unhexdigit.
  destruct ((48 <=? c) && (c <=? 57)) eqn:E1; [intros [= <-]; lia|].
  destruct ((97 <=? c) && (c <=? 102)) eqn:E2; [intros [= <-]; lia|].
  destruct ((65 <=? c) && (c <=? 70)) eqn:E3; [intros [= <-]; lia|discriminate].
Qed.

Lemma unhexdigit_hexchar c x : unhexdigit c = Some x -> is_hexchar c = true.
Proof.
  unfold unhexdigit, is_hexchar.
  destruct ((48 <=? c) && (c <=? 57)); [reflexivity|].
  destruct ((97 <=? c) && (c <=? 102)); [reflexivity|].
  destruct ((65 <=? c) && (c <=? 70)); [reflexivity|discriminate].
Qed.

Lemma hexdigit_unhexdigit_lower c x : unhexdigit c = Some x -> hexdigit x = to_lower c.
Proof.
  unfold unhexdigit, hexdigit, to_lower.
  destruct ((48 <=? c) && (c <=? 57)) eqn:E1.
  { intros [= <-]. replace (c - 48 <? 10) with true by lia.
    replace ((65 <=? c) && (c <=? 90)) with false by lia. lia. }
  destruct ((97 <=? c) && (c <=? 102)) eqn:E2.
  { intros [= <-]. replace (c - 87 <? 10) with false by lia.
    replace ((65 <=? c) && (c <=? 90)) with false by lia. lia. }
  destruct ((65 <=? c) && (c <=? 70)) eqn:E3; [|discriminate].
  intros [= <-]. replace (c - 55 <? 10) with false by lia.
  replace ((65 <=? c) && (c <=? 90)) with true by lia. lia.
Qed.

(* A two-at-a-time induction principle matching the recursion of [unhex]. *)
Lemma pair_ind (P : bytes -> Prop) :
  P [] -> (forall a, P [a]) -> (forall a b r, P r -> P (a :: b :: r)) -> forall l, P l.
Proof.
  intros H0 H1 H2.
  assert (forall l, P l /\ forall a, P (a :: l)) as Hboth.
  { induction l as [|x l [IHa IHb]]; split; auto. }
  intros l. apply Hboth.
Qed.

Lemma unhex_cons2 a b r :
  unhex (a :: b :: r) =
  match unhexdigit a, unhexdigit b, unhex r with
  | Some x, Some y, Some t => Some (16 * x + y :: t)
  | _, _, _ => None
  end.
Proof. reflexivity. Qed.

Lemma Some_inj {A} (a b : A) : Some a = Some b -> a = b.
Proof. congruence. Qed.

Ltac unhex_step E a b r x y t :=
  let Ex := fresh "Ex" in let Ey := fresh "Ey" in let Et := fresh "Et" in
  rewrite unhex_cons2 in E;
  destruct (unhexdigit a) as [x|] eqn:Ex; [|discriminate];
  destruct (unhexdigit b) as [y|] eqn:Ey; [|discriminate];
  destruct (unhex r) as [t|] eqn:Et; [|discriminate].

Lemma unhex_length s l : unhex s = Some l -> length s = (2 * length l)%nat.
Proof.
  revert l. induction s as [| |a b r IH] using pair_ind; intros l E.
  - injection E as <-. reflexivity.
  - discriminate.
  - unhex_step E a b r x y t. apply Some_inj in E; subst l. cbn [length]. rewrite (IH t) by reflexivity. lia.
Qed.

Lemma unhex_wf s l : unhex s = Some l -> wf_bytes l.
Proof.
  revert l. induction s as [| |a b r IH] using pair_ind; intros l E.
  - injection E as <-. constructor.
  - discriminate.
  - unhex_step E a b r x y t. apply Some_inj in E; subst l. constructor; [|now apply IH].
    unfold wf_byte. apply unhexdigit_lt in Ex, Ey. lia.
Qed.

(* Every character of a decodable string is a hex digit: in particular no '/', '.', NUL, '%'. *)
Lemma unhex_hexchars s l : unhex s = Some l -> forallb is_hexchar s = true.
Proof.
  revert l. induction s as [| |a b r IH] using pair_ind; intros l E.
  - reflexivity.
  - discriminate.
  - unhex_step E a b r x y t. cbn [forallb].
    rewrite (unhexdigit_hexchar _ _ Ex), (unhexdigit_hexchar _ _ Ey).
    cbn [andb]. now apply (IH t).
Qed.

(* Decoding then re-encoding gives the lower-cased input: the canonical name of an id. *)
Lemma hex_unhex s l : unhex s = Some l -> hex l = lower s.
Proof.
  revert l. induction s as [| |a b r IH] using pair_ind; intros l E.
  - injection E as <-. reflexivity.
  - discriminate.
  - unhex_step E a b r x y t. apply Some_inj in E; subst l. cbn [hex lower map].
    pose proof (unhexdigit_lt _ _ Ex) as Lx. pose proof (unhexdigit_lt _ _ Ey) as Ly.
    apply hexdigit_unhexdigit_lower in Ex, Ey.
    replace ((16 * x + y) / 16) with x by (apply N.div_unique with y; lia).
    replace ((16 * x + y) mod 16) with y by (apply N.mod_unique with x; lia).
    f_equal; [assumption|]. f_equal; [assumption|]. now apply IH.
Qed.

Lemma lower_lower_hex s : forallb is_lower_hexchar s = true -> lower s = s.
Proof.
  induction s as [|c s IH]; [reflexivity|]. cbn [forallb lower map]. intros E.
  apply andb_prop in E as [E1 E2]. f_equal; [|now apply IH].
  unfold is_lower_hexchar in E1. unfold to_lower.
  replace ((65 <=? c) && (c <=? 90)) with false by lia. reflexivity.
Qed.

(* [unhex] is injective up to case. *)
Lemma unhex_inj_lower s1 s2 l : unhex s1 = Some l -> unhex s2 = Some l -> lower s1 = lower s2.
Proof. intros E1 E2. now rewrite <- (hex_unhex _ _ E1), <- (hex_unhex _ _ E2). Qed.

Lemma hexdigit_lower_hexchar n : n < 16 -> is_lower_hexchar (hexdigit n) = true.
Proof. intros Hn. unfold hexdigit, is_lower_hexchar. destruct (n <? 10) eqn:E; lia. Qed.

Lemma hex_lower_hexchars l : wf_bytes l -> forallb is_lower_hexchar (hex l) = true.
Proof.
  induction 1 as [|b r Hb _ IH]; [reflexivity|]. unfold wf_byte in Hb. cbn [hex forallb].
  rewrite !hexdigit_lower_hexchar, IH; [reflexivity| |].
  - apply N.mod_lt; lia.
  - apply N.div_lt_upper_bound; lia.
Qed.

Lemma is_lower_hexchar_hexchar c : is_lower_hexchar c = true -> is_hexchar c = true.
Proof. unfold is_lower_hexchar, is_hexchar. intros ->. reflexivity. Qed.

(* Non-vacuity / sanity *)
Example hex_example : hex [0; 171; 255] = [48; 48; 97; 98; 102; 102]. (* "00abff" *)
Proof. reflexivity. Qed.
Example unhex_example_upper : unhex [48; 48; 65; 98; 70; 102] = Some [0; 171; 255]. (* "00AbFf" *)
Proof. reflexivity. Qed.
Example unhex_example_odd : unhex [48; 48; 97] = None.
Proof. reflexivity. Qed.
Example unhex_example_bad : unhex [48; 103] = None. (* "0g" *)
Proof. reflexivity. Qed.
