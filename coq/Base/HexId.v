(* encoding/hex as used for chunk ids (types.go: ChunkID.String = hex.EncodeToString,
   ChunkIDFromString = hex.DecodeString + length test).  Ids are the 256-bit numbers of
   Base/Hash.v; their 32-byte big-endian form is what Go's [32]byte holds.

   NOTE: Base/Hex.v (same content, written in parallel) is meant to replace this file;
   until then everything the local-store models need is here. *)
From Coq Require Import List NArith Arith Bool Lia.
From DS Require Import Base.Bytes Base.Hash.
Import ListNotations.
Local Open Scope N_scope.

(* hex.EncodeToString: "0123456789abcdef"[n] *)
Definition hex_digit (n : N) : byte := if n <? 10 then 48 + n else 87 + n.

(* hex.fromHexChar: accepts 0-9, a-f, A-F *)
Definition unhex_digit (c : byte) : option N :=
  if (48 <=? c) && (c <=? 57) then Some (c - 48)
  else if (97 <=? c) && (c <=? 102) then Some (c - 87)
  else if (65 <=? c) && (c <=? 70) then Some (c - 55)
  else None.

Fixpoint hex_bytes (b : bytes) : bytes :=
  match b with
  | [] => []
  | x :: r => hex_digit (x / 16) :: hex_digit (x mod 16) :: hex_bytes r
  end.

(* hex.DecodeString: odd length or a non-hex character is an error *)
Fixpoint unhex (s : bytes) : option bytes :=
  match s with
  | [] => Some []
  | [_] => None
  | a :: b :: r =>
      match unhex_digit a, unhex_digit b, unhex r with
      | Some x, Some y, Some t => Some (x * 16 + y :: t)
      | _, _, _ => None
      end
  end.

(* big-endian fixed-width bytes of a number *)
Fixpoint be_bytes (n : nat) (x : N) : bytes :=
  match n with
  | O => []
  | S k => be_bytes k (x / 256) ++ [x mod 256]
  end.
Definition of_be (l : bytes) : N := fold_left (fun a b => a * 256 + b) l 0.

Definition id_len : nat := 32.
Definition wf_id (i : id) : Prop := i < 2 ^ 256.
Definition id_bytes (i : id) : bytes := be_bytes id_len i.
Definition id_of_bytes (b : bytes) : id := of_be b.

(* ChunkID.String *)
Definition hex_id (i : id) : bytes := hex_bytes (id_bytes i).
(* ChunkIDFromString: DecodeString, then ChunkIDFromSlice's len(b) == 32 test *)
Definition unhex_id (s : bytes) : option id :=
  match unhex s with
  | Some b => if Nat.eqb (length b) id_len then Some (id_of_bytes b) else None
  | None => None
  end.

Definition is_lower_hex (c : byte) : bool :=
  ((48 <=? c) && (c <=? 57)) || ((97 <=? c) && (c <=? 102)).

(* ---------- laws ---------- *)

Lemma N_lt_in (n : N) (k : nat) : n < N.of_nat k -> In n (map N.of_nat (seq 0 k)).
Proof.
  intros Hlt. apply in_map_iff. exists (N.to_nat n). split; [apply N2Nat.id|].
  apply in_seq. lia.
Qed.

Lemma unhex_hex_digit n : n < 16 -> unhex_digit (hex_digit n) = Some n.
Proof.
  intros Hlt.
  assert (A : forallb (fun n => match unhex_digit (hex_digit n) with Some m => N.eqb m n | None => false end)
                      (map N.of_nat (seq 0 16)) = true) by (vm_compute; reflexivity).
  rewrite forallb_forall in A. specialize (A n (N_lt_in n 16 Hlt)).
  destruct (unhex_digit (hex_digit n)); [|discriminate]. apply N.eqb_eq in A. now subst.
Qed.

Lemma hex_digit_lower n : n < 16 -> is_lower_hex (hex_digit n) = true.
Proof.
  intros Hlt.
  assert (A : forallb (fun n => is_lower_hex (hex_digit n)) (map N.of_nat (seq 0 16)) = true)
    by (vm_compute; reflexivity).
  rewrite forallb_forall in A. exact (A n (N_lt_in n 16 Hlt)).
Qed.

Lemma byte_nibbles x : x < 256 -> x / 16 < 16 /\ x mod 16 < 16 /\ x / 16 * 16 + x mod 16 = x.
Proof.
  intros Hx. split; [|split].
  - apply N.div_lt_upper_bound; lia.
  - apply N.mod_lt; lia.
  - rewrite (N.div_mod x 16) at 3 by lia. lia.
Qed.

Lemma unhex_hex_bytes b : wf_bytes b -> unhex (hex_bytes b) = Some b.
Proof.
  induction 1 as [|x r Hx Hr IH]; [reflexivity|].
  destruct (byte_nibbles x Hx) as (H1 & H2 & H3).
  cbn [hex_bytes unhex]. rewrite (unhex_hex_digit _ H1), (unhex_hex_digit _ H2), IH, H3. reflexivity.
Qed.

Lemma hex_bytes_length b : length (hex_bytes b) = (2 * length b)%nat.
Proof. induction b; cbn [hex_bytes length]; lia. Qed.

Lemma hex_bytes_lower b : wf_bytes b -> forallb is_lower_hex (hex_bytes b) = true.
Proof.
  induction 1 as [|x r Hx Hr IH]; [reflexivity|].
  destruct (byte_nibbles x Hx) as (H1 & H2 & _).
  cbn [hex_bytes forallb]. now rewrite (hex_digit_lower _ H1), (hex_digit_lower _ H2), IH.
Qed.

Lemma be_bytes_length n x : length (be_bytes n x) = n.
Proof. revert x. induction n; intros; cbn [be_bytes]; [reflexivity|]. rewrite app_length, IHn. cbn. lia. Qed.

Lemma be_bytes_wf n x : wf_bytes (be_bytes n x).
Proof.
  revert x. induction n; intros; cbn [be_bytes]; [constructor|].
  apply Forall_app. split; [apply IHn|]. constructor; [|constructor]. apply N.mod_lt. lia.
Qed.

Lemma of_be_app l b : of_be (l ++ [b]) = of_be l * 256 + b.
Proof. unfold of_be. now rewrite fold_left_app. Qed.

Lemma of_be_be n x : of_be (be_bytes n x) = x mod 256 ^ N.of_nat n.
Proof.
  revert x. induction n as [|k IH]; intros x.
  - cbn. now rewrite N.mod_1_r.
  - cbn [be_bytes]. rewrite of_be_app, IH.
    replace (N.of_nat (S k)) with (N.succ (N.of_nat k)) by lia.
    rewrite N.pow_succ_r'. rewrite N.mod_mul_r by (try apply N.pow_nonzero; lia). lia.
Qed.

Lemma id_bytes_length i : length (id_bytes i) = 32%nat.
Proof. apply be_bytes_length. Qed.

Lemma id_of_id_bytes i : wf_id i -> id_of_bytes (id_bytes i) = i.
Proof.
  intros Hi. unfold id_of_bytes, id_bytes. rewrite of_be_be. apply N.mod_small.
  unfold wf_id in Hi. replace (256 ^ N.of_nat id_len) with (2 ^ 256) by (vm_compute; reflexivity). exact Hi.
Qed.

Lemma unhex_hex_id i : wf_id i -> unhex_id (hex_id i) = Some i.
Proof.
  intros Hi. unfold unhex_id, hex_id. rewrite unhex_hex_bytes by apply be_bytes_wf.
  rewrite id_bytes_length. change (Nat.eqb 32 id_len) with true. cbv iota. now rewrite id_of_id_bytes.
Qed.

Lemma hex_id_inj i j : wf_id i -> wf_id j -> hex_id i = hex_id j -> i = j.
Proof.
  intros Hi Hj E. apply (f_equal unhex_id) in E. rewrite !unhex_hex_id in E by assumption. congruence.
Qed.

Lemma hex_id_length i : length (hex_id i) = 64%nat.
Proof. unfold hex_id. now rewrite hex_bytes_length, id_bytes_length. Qed.

Lemma hex_id_lower i : forallb is_lower_hex (hex_id i) = true.
Proof. apply hex_bytes_lower, be_bytes_wf. Qed.

Lemma list_pair_ind {A} (P : list A -> Prop) :
  P [] -> (forall a, P [a]) -> (forall a b r, P r -> P (a :: b :: r)) -> forall l, P l.
Proof.
  intros H0 H1 H2 l. enough (P l /\ forall a, P (a :: l)) by tauto.
  induction l as [|x l [IHa IHb]]; split; auto.
Qed.

(* what unhex accepts: every character is a hex digit (either case) and the length is even *)
Lemma unhex_some_chars s : forall b, unhex s = Some b ->
  Forall (fun c => unhex_digit c <> None) s /\ length s = (2 * length b)%nat.
Proof.
  induction s as [|a|a c r IH] using list_pair_ind; intros b E; cbn [unhex] in E.
  - inversion E. split; [constructor|reflexivity].
  - discriminate.
  - destruct (unhex_digit a) eqn:Ea; [|discriminate]. destruct (unhex_digit c) eqn:Ec; [|discriminate].
    destruct (unhex r) eqn:Er; [|discriminate]. inversion E; subst.
    destruct (IH _ eq_refl) as [F L]. split.
    + constructor; [congruence|]. constructor; [congruence|exact F].
    + cbn [length]. lia.
Qed.

Lemma unhex_id_some s i : unhex_id s = Some i ->
  length s = 64%nat /\ Forall (fun c => unhex_digit c <> None) s.
Proof.
  unfold unhex_id. destruct (unhex s) eqn:E; [|discriminate].
  destruct (Nat.eqb (length b) id_len) eqn:L; [|discriminate]. intros _.
  apply Nat.eqb_eq in L. destruct (unhex_some_chars _ _ E) as [F Ls]. split; [|exact F].
  rewrite Ls, L. reflexivity.
Qed.

(* what unhex_id returns is a 256-bit number *)
Lemma unhex_digit_lt c n : unhex_digit c = Some n -> n < 16.
Proof.
  unfold unhex_digit.
  destruct ((48 <=? c) && (c <=? 57)) eqn:A;
    [intros E; inversion E; apply andb_true_iff in A; rewrite !N.leb_le in A; lia|].
  destruct ((97 <=? c) && (c <=? 102)) eqn:B;
    [intros E; inversion E; apply andb_true_iff in B; rewrite !N.leb_le in B; lia|].
  destruct ((65 <=? c) && (c <=? 70)) eqn:C;
    [intros E; inversion E; apply andb_true_iff in C; rewrite !N.leb_le in C; lia|].
  discriminate.
Qed.

Lemma unhex_wf s : forall b, unhex s = Some b -> wf_bytes b.
Proof.
  induction s as [|a|a c r IH] using list_pair_ind; intros b E; cbn [unhex] in E.
  - inversion E. constructor.
  - discriminate.
  - destruct (unhex_digit a) eqn:Ea; [|discriminate]. destruct (unhex_digit c) eqn:Ec; [|discriminate].
    destruct (unhex r) eqn:Er; [|discriminate]. inversion E; subst.
    apply unhex_digit_lt in Ea. apply unhex_digit_lt in Ec.
    constructor; [unfold wf_byte; lia|now apply IH].
Qed.

Lemma of_be_lt l : wf_bytes l -> of_be l < 256 ^ N.of_nat (length l).
Proof.
  induction l as [|x l IH] using rev_ind; intros W.
  - cbn. lia.
  - apply Forall_app in W. destruct W as [Wl Wx]. inversion Wx; subst.
    rewrite of_be_app, app_length. cbn [length].
    replace (N.of_nat (length l + 1)) with (N.succ (N.of_nat (length l))) by lia.
    rewrite N.pow_succ_r'. specialize (IH Wl). unfold wf_byte in *. lia.
Qed.

Lemma unhex_id_wf s i : unhex_id s = Some i -> wf_id i.
Proof.
  unfold unhex_id. destruct (unhex s) as [b|] eqn:E; [|discriminate].
  destruct (Nat.eqb (length b) id_len) eqn:L; [|discriminate]. intros X. inversion X; subst i.
  apply Nat.eqb_eq in L. pose proof (of_be_lt b (unhex_wf _ _ E)) as B. rewrite L in B.
  unfold wf_id, id_of_bytes. replace (2 ^ 256) with (256 ^ N.of_nat id_len) by (vm_compute; reflexivity). exact B.
Qed.
