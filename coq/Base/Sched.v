(* Generic interleaving semantics: a system is a partial step function
   [step : st -> tid -> option st]; a schedule is a list of thread ids; a
   disabled step is a stutter.  Theorems proved through [inv_run] hold for every
   schedule, i.e. every interleaving of the atomic steps, and every number of
   threads the [tid] type can name. *)
From Coq Require Import List Arith Lia.
Import ListNotations.

Section Sched.
  Context {st tid : Type}.
  Variable step : st -> tid -> option st.

  Definition run1 (s : st) (t : tid) : st :=
    match step s t with Some s' => s' | None => s end.
  Definition run (sched : list tid) (s : st) : st := fold_left run1 sched s.

  Lemma run_app a b s : run (a ++ b) s = run b (run a s).
  Proof. unfold run. apply fold_left_app. Qed.

  Lemma inv_run (Inv : st -> Prop) :
    (forall s t s', Inv s -> step s t = Some s' -> Inv s') ->
    forall sched s, Inv s -> Inv (run sched s).
  Proof.
    intros Hstep sched. induction sched as [|t sched IH]; intros s Hs; [exact Hs|].
    cbn. apply IH. unfold run1. destruct (step s t) eqn:E; [eapply Hstep; eauto|exact Hs].
  Qed.

  (* Runs in which every scheduled thread is enabled. *)
  Fixpoint run_strict (sched : list tid) (s : st) : option st :=
    match sched with
    | [] => Some s
    | t :: r => match step s t with Some s' => run_strict r s' | None => None end
    end.

  Lemma run_strict_run sched s s' : run_strict sched s = Some s' -> run sched s = s'.
  Proof.
    revert s. induction sched as [|t r IH]; cbn; intros s E; [congruence|].
    unfold run1. destruct (step s t); [auto|discriminate].
  Qed.

  (* A strictly decreasing measure bounds the length of every enabled-only run:
     no fairness assumption is needed for termination. *)
  Lemma measure_bound (mu : st -> nat) :
    (forall s t s', step s t = Some s' -> mu s' < mu s) ->
    forall sched s s', run_strict sched s = Some s' -> length sched + mu s' <= mu s.
  Proof.
    intros Hdec sched. induction sched as [|t r IH]; cbn; intros s s' E.
    - inversion E; lia.
    - destruct (step s t) eqn:Es; [|discriminate].
      specialize (IH _ _ E). specialize (Hdec _ _ _ Es). lia.
  Qed.

  (* Same, restricted to states satisfying an invariant. *)
  Lemma measure_bound_inv (Inv : st -> Prop) (mu : st -> nat) :
    (forall s t s', Inv s -> step s t = Some s' -> Inv s') ->
    (forall s t s', Inv s -> step s t = Some s' -> mu s' < mu s) ->
    forall sched s s', Inv s -> run_strict sched s = Some s' -> length sched + mu s' <= mu s.
  Proof.
    intros Hinv Hdec sched. induction sched as [|t r IH]; cbn; intros s s' HI E.
    - inversion E; lia.
    - destruct (step s t) eqn:Es; [|discriminate].
      specialize (IH _ _ (Hinv _ _ _ HI Es) E). specialize (Hdec _ _ _ HI Es). lia.
  Qed.
End Sched.
