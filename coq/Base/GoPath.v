(* Go's package [path] (Clean, Join, Split, Base, Dir) and the [strings] predicates
   HasPrefix / HasSuffix / TrimPrefix / TrimSuffix over [bytes] (lists of byte codes;
   '/' = 47, '.' = 46).  Go strings are byte sequences and package path works on
   bytes, so nothing is lost.

   The executable definitions mirror $GOROOT/src/path/path.go (go1.23) statement by
   statement: [clean_loop] is the [for r < n] loop of Clean with the lazybuf replaced
   by the plain output buffer it denotes (kept REVERSED: the head is the last byte
   written, [out.w] is its length).  They are tied to Go by the correspondence set of
   the C14/C15 harness (random and adversarial strings compared byte for byte with
   path.Clean/Join/Base/Dir/Split and strings.HasSuffix/HasPrefix/TrimSuffix).

   The second half gives the component-level characterisation [clean_spec] (split on
   '/', run a stack machine over the components, render), proves
   [clean p = clean_spec p] for every p, and derives the facts other developments
   use: [base_no_slash], [clean_idempotent], [clean_of_clean_rel],
   [clean_rooted_plain], [join_rooted_plain]. *)
From Coq Require Import List NArith Arith Bool Lia ZifyN ZifyNat ZifyBool.
From DS Require Import Base.Bytes.
Import ListNotations.

Definition slash : byte := 47%N.
Definition dot : byte := 46%N.
Definition is_slash (c : byte) : bool := N.eqb c slash.
Definition is_dot (c : byte) : bool := N.eqb c dot.

(* ---------- byte-string equality and the strings predicates ---------- *)

Fixpoint beq (a b : bytes) : bool :=
  match a, b with
  | [], [] => true
  | x :: a', y :: b' => N.eqb x y && beq a' b'
  | _, _ => false
  end.

(* strings.HasPrefix: len(s) >= len(prefix) && s[:len(prefix)] == prefix *)
Definition has_prefix (s pre : bytes) : bool :=
  (length pre <=? length s) && beq (firstn (length pre) s) pre.

(* strings.HasSuffix: len(s) >= len(suffix) && s[len(s)-len(suffix):] == suffix *)
Definition has_suffix (s suf : bytes) : bool :=
  (length suf <=? length s) && beq (skipn (length s - length suf) s) suf.

(* strings.TrimPrefix / TrimSuffix *)
Definition trim_prefix (s pre : bytes) : bytes :=
  if has_prefix s pre then skipn (length pre) s else s.
Definition trim_suffix (s suf : bytes) : bytes :=
  if has_suffix s suf then firstn (length s - length suf) s else s.

(* ---------- path.Split / Base / Dir ---------- *)

(* path.Split: i := LastIndexByte(path, '/'); return path[:i+1], path[i+1:] *)
Fixpoint split_path (p : bytes) : bytes * bytes :=
  match p with
  | [] => ([], [])
  | c :: r =>
      let (d, f) := split_path r in
      if is_slash c then (c :: d, f)
      else match d with [] => ([], c :: f) | _ :: _ => (c :: d, f) end
  end.

(* for len(path) > 0 && path[len(path)-1] == '/' { path = path[0 : len(path)-1] } *)
Fixpoint strip_trailing_slashes (p : bytes) : bytes :=
  match p with
  | [] => []
  | c :: r =>
      match strip_trailing_slashes r with
      | [] => if is_slash c then [] else [c]
      | r' => c :: r'
      end
  end.

(* path.Base *)
Definition base (p : bytes) : bytes :=
  match p with
  | [] => [dot]
  | _ :: _ =>
      match snd (split_path (strip_trailing_slashes p)) with
      | [] => [slash]
      | b => b
      end
  end.

(* ---------- path.Clean ---------- *)

(* r+1 == n || path[r+1] == '/' , on the remaining input after position r *)
Definition at_end_or_slash (r : bytes) : bool :=
  match r with [] => true | c :: _ => is_slash c end.

(* the element copy loop: for ; r < n && path[r] != '/'; r++ { out.append(path[r]) }
   returns the copied element and the remaining input *)
Fixpoint span_elem (inp : bytes) : bytes * bytes :=
  match inp with
  | [] => ([], [])
  | c :: r => if is_slash c then ([], inp) else let (e, rest) := span_elem r in (c :: e, rest)
  end.

(* out.w--; for out.w > dotdot && out.index(out.w) != '/' { out.w-- }
   [last] is the byte at index out.w (the one dropped last), [out] the bytes [0, out.w) reversed *)
Fixpoint backtrack_loop (last : byte) (out : bytes) (dotdot : nat) : bytes :=
  match out with
  | [] => []
  | c :: rest =>
      if (dotdot <? length out) && negb (is_slash last) then backtrack_loop c rest dotdot else out
  end.

Definition backtrack (out : bytes) (dotdot : nat) : bytes :=
  match out with
  | [] => []
  | c :: rest => backtrack_loop c rest dotdot
  end.

(* One iteration of [for r < n] per unit of fuel; every iteration consumes at least one
   input byte, so [S (length inp)] units always suffice ([clean_loop_fuel]). *)
Fixpoint clean_loop (fuel : nat) (rooted : bool) (inp out : bytes) (dotdot : nat) : option bytes :=
  match fuel with
  | O => None
  | S fuel =>
      match inp with
      | [] => Some out
      | c :: r1 =>
          if is_slash c then
            (* empty path element *)
            clean_loop fuel rooted r1 out dotdot
          else if is_dot c && at_end_or_slash r1 then
            (* . element *)
            clean_loop fuel rooted r1 out dotdot
          else if is_dot c && match r1 with c2 :: r2 => is_dot c2 && at_end_or_slash r2 | [] => false end then
            (* .. element: remove to last / *)
            let r2 := tl r1 in
            if (dotdot <? length out) then
              clean_loop fuel rooted r2 (backtrack out dotdot) dotdot
            else if negb rooted then
              let out1 := if (0 <? length out) then slash :: out else out in
              let out2 := dot :: dot :: out1 in
              clean_loop fuel rooted r2 out2 (length out2)
            else clean_loop fuel rooted r2 out dotdot
          else
            (* real path element: add slash if needed, copy element *)
            let out1 :=
              if (rooted && negb (length out =? 1)) || (negb rooted && negb (length out =? 0))
              then slash :: out else out in
            let (e, rest) := span_elem inp in
            clean_loop fuel rooted rest (rev_append e out1) dotdot
      end
  end.

Definition clean (p : bytes) : bytes :=
  match p with
  | [] => [dot]
  | c :: r =>
      let rooted := is_slash c in
      let res := if rooted then clean_loop (S (length p)) true r [slash] 1
                 else clean_loop (S (length p)) false p [] 0 in
      match res with
      | Some [] => [dot]
      | Some out => rev_append out []   (* = rev out, linear time *)
      | None => p (* unreachable: clean_loop_fuel *)
      end
  end.

(* path.Dir *)
Definition dir (p : bytes) : bytes := clean (fst (split_path p)).

(* path.Join: the loop building buf ... *)
Fixpoint join_buf (buf : bytes) (elems : list bytes) : bytes :=
  match elems with
  | [] => buf
  | e :: r =>
      match buf, e with
      | [], [] => join_buf buf r
      | [], _ :: _ => join_buf e r
      | _ :: _, _ => join_buf (buf ++ slash :: e) r
      end
  end.

(* ... and the function: size == 0 => "", else Clean(buf) *)
Definition join (elems : list bytes) : bytes :=
  if forallb (fun e => match e with [] => true | _ => false end) elems then []
  else clean (join_buf [] elems).

(* ====================================================================== *)
(* Lemmas: strings predicates                                              *)
(* ====================================================================== *)

Lemma beq_eq a b : beq a b = true <-> a = b.
Proof.
  revert b. induction a as [|x a IH]; intros [|y b]; cbn [beq]; split; try congruence; try discriminate.
  - intros E. apply andb_prop in E as [E1 E2]. apply N.eqb_eq in E1. apply IH in E2. congruence.
  - intros [= -> ->]. rewrite N.eqb_refl. cbn. now apply IH.
Qed.

Lemma beq_refl a : beq a a = true.
Proof. now apply beq_eq. Qed.

Lemma beq_neq a b : beq a b = false <-> a <> b.
Proof.
  split.
  - intros E ->. now rewrite beq_refl in E.
  - intros N. destruct (beq a b) eqn:E; [apply beq_eq in E; contradiction|reflexivity].
Qed.

Lemma has_suffix_iff s suf : has_suffix s suf = true <-> exists pre, s = pre ++ suf.
Proof.
  unfold has_suffix. split.
  - intros E. apply andb_prop in E as [E1 E2]. apply beq_eq in E2.
    exists (firstn (length s - length suf) s). rewrite <- E2 at 2. now rewrite firstn_skipn.
  - intros [pre ->]. rewrite app_length.
    replace (length pre + length suf - length suf) with (length pre) by lia.
    rewrite skipn_app, skipn_all, Nat.sub_diag. cbn [skipn app]. rewrite beq_refl.
    apply andb_true_intro. split; [apply Nat.leb_le; lia|reflexivity].
Qed.

Lemma has_suffix_app pre suf : has_suffix (pre ++ suf) suf = true.
Proof. apply has_suffix_iff. now exists pre. Qed.

Lemma trim_suffix_app pre suf : trim_suffix (pre ++ suf) suf = pre.
Proof.
  unfold trim_suffix. rewrite has_suffix_app, app_length.
  replace (length pre + length suf - length suf) with (length pre) by lia.
  rewrite firstn_app, firstn_all, Nat.sub_diag. cbn [firstn]. apply app_nil_r.
Qed.

Lemma trim_suffix_spec s suf : has_suffix s suf = true -> s = trim_suffix s suf ++ suf.
Proof. intros E. apply has_suffix_iff in E as [pre ->]. now rewrite trim_suffix_app. Qed.

Lemma trim_suffix_nil s : trim_suffix s [] = s.
Proof. rewrite <- (app_nil_r s) at 1. apply trim_suffix_app. Qed.

Lemma trim_suffix_none s suf : has_suffix s suf = false -> trim_suffix s suf = s.
Proof. unfold trim_suffix. now intros ->. Qed.

Lemma has_prefix_iff s pre : has_prefix s pre = true <-> exists rest, s = pre ++ rest.
Proof.
  unfold has_prefix. split.
  - intros E. apply andb_prop in E as [E1 E2]. apply beq_eq in E2.
    exists (skipn (length pre) s). rewrite <- E2 at 1. now rewrite firstn_skipn.
  - intros [rest ->]. rewrite app_length, firstn_app, firstn_all, Nat.sub_diag. cbn [firstn].
    rewrite app_nil_r, beq_refl. apply andb_true_intro. split; [apply Nat.leb_le; lia|reflexivity].
Qed.

Lemma trim_prefix_app pre rest : trim_prefix (pre ++ rest) pre = rest.
Proof.
  unfold trim_prefix. replace (has_prefix (pre ++ rest) pre) with true
    by (symmetry; apply has_prefix_iff; now exists rest).
  rewrite skipn_app, skipn_all, Nat.sub_diag. reflexivity.
Qed.

(* ====================================================================== *)
(* Lemmas: Split / Base                                                    *)
(* ====================================================================== *)

Definition noslash (e : bytes) : Prop := ~ In slash e.

Lemma is_slash_true c : is_slash c = true <-> c = slash.
Proof. unfold is_slash. apply N.eqb_eq. Qed.
Lemma is_slash_false c : is_slash c = false <-> c <> slash.
Proof. unfold is_slash. apply N.eqb_neq. Qed.
Lemma is_dot_true c : is_dot c = true <-> c = dot.
Proof. unfold is_dot. apply N.eqb_eq. Qed.

Lemma noslash_cons c e : noslash (c :: e) <-> c <> slash /\ noslash e.
Proof. unfold noslash. cbn [In]. intuition congruence. Qed.

Lemma noslash_app a b : noslash (a ++ b) <-> noslash a /\ noslash b.
Proof. unfold noslash. rewrite in_app_iff. tauto. Qed.

Lemma split_path_app p : fst (split_path p) ++ snd (split_path p) = p.
Proof.
  induction p as [|c r IH]; [reflexivity|]. cbn [split_path].
  destruct (split_path r) as [d f]. cbn [fst snd] in IH.
  destruct (is_slash c); [cbn; now rewrite IH|].
  destruct d; cbn [fst snd app] in *; now rewrite IH.
Qed.

Lemma split_path_file_noslash p : noslash (snd (split_path p)).
Proof.
  induction p as [|c r IH]; [intros []|]. cbn [split_path].
  destruct (split_path r) as [d f] eqn:E. cbn [snd] in IH.
  destruct (is_slash c) eqn:Ec; [exact IH|].
  destruct d; cbn [snd]; [|exact IH].
  apply noslash_cons. split; [now apply is_slash_false|exact IH].
Qed.

(* dir part: empty or ends in '/' *)
Lemma split_path_dir p : fst (split_path p) = [] \/ exists d, fst (split_path p) = d ++ [slash].
Proof.
  induction p as [|c r IH]; [now left|]. cbn [split_path].
  destruct (split_path r) as [d f]. cbn [fst] in IH.
  destruct (is_slash c) eqn:Ec.
  - right. cbn [fst]. apply is_slash_true in Ec. subst c.
    destruct IH as [->|[d' ->]]; [now exists []|now exists (slash :: d')].
  - destruct d as [|x d]; [now left|]. right. cbn [fst].
    destruct IH as [IH|[d' IH]]; [discriminate|]. rewrite IH. now exists (c :: d').
Qed.

Lemma split_path_noslash p : noslash p -> split_path p = ([], p).
Proof.
  induction p as [|c r IH]; [reflexivity|]. intros N. apply noslash_cons in N as [N1 N2].
  cbn [split_path]. rewrite (IH N2). apply is_slash_false in N1. now rewrite N1.
Qed.

Lemma split_path_app_slash a f : noslash f -> split_path (a ++ slash :: f) = (a ++ [slash], f).
Proof.
  intros N. induction a as [|c a IH]; cbn [app split_path].
  - rewrite (split_path_noslash _ N). reflexivity.
  - rewrite IH. destruct (is_slash c); [reflexivity|]. destruct a; reflexivity.
Qed.

Lemma strip_trailing_slashes_noslash_last a c :
  c <> slash -> strip_trailing_slashes (a ++ [c]) = a ++ [c].
Proof.
  intros N. apply is_slash_false in N. induction a as [|x a IH]; cbn [app strip_trailing_slashes].
  - now rewrite N.
  - rewrite IH. destruct (a ++ [c]) eqn:E; [destruct a; discriminate|reflexivity].
Qed.

(* path.Base never returns a name containing '/', except the root itself. *)
Lemma base_no_slash p : base p = [slash] \/ noslash (base p).
Proof.
  unfold base. destruct p as [|c r].
  - right. intros [E|[]]. discriminate.
  - destruct (snd (split_path (strip_trailing_slashes (c :: r)))) eqn:E; [now left|].
    right. rewrite <- E. apply split_path_file_noslash.
Qed.

Lemma base_nonempty p : base p <> [].
Proof.
  unfold base. destruct p; [discriminate|].
  destruct (snd (split_path _)); discriminate.
Qed.

(* Base of ".../<e>" is e when e is a non-empty slash-free name. *)
Lemma base_app_slash a e : e <> [] -> noslash e -> base (a ++ slash :: e) = e.
Proof.
  intros Ne N. unfold base. destruct (a ++ slash :: e) eqn:E0; [destruct a; discriminate|]. rewrite <- E0.
  destruct (exists_last Ne) as [e' [c ->]].
  assert (c <> slash) as Nc. { intros ->. apply N. apply in_or_app. right. now left. }
  replace (a ++ slash :: e' ++ [c]) with ((a ++ slash :: e') ++ [c]) by (rewrite <- app_assoc; reflexivity).
  rewrite strip_trailing_slashes_noslash_last by exact Nc.
  rewrite <- app_assoc. cbn [app]. rewrite split_path_app_slash by exact N. cbn [snd].
  destruct (e' ++ [c]) eqn:E; [destruct e'; discriminate|reflexivity].
Qed.

(* ====================================================================== *)
(* Component-level characterisation of Clean                               *)
(* ====================================================================== *)

(* strings.Split(p, "/"): always at least one component *)
Fixpoint split47 (p : bytes) : list bytes :=
  match p with
  | [] => [[]]
  | c :: r =>
      if is_slash c then [] :: split47 r
      else match split47 r with
           | e :: es => (c :: e) :: es
           | [] => [[c]]
           end
  end.

(* strings.Join(es, "/") *)
Fixpoint join47 (es : list bytes) : bytes :=
  match es with
  | [] => []
  | e :: es' => match es' with [] => e | _ :: _ => e ++ slash :: join47 es' end
  end.

(* what follows an element in [join47 (e :: es)] *)
Definition sepj (es : list bytes) : bytes :=
  match es with [] => [] | _ :: _ => slash :: join47 es end.

Lemma join47_cons e es : join47 (e :: es) = e ++ sepj es.
Proof. destruct es; cbn [join47 sepj]; [now rewrite app_nil_r|reflexivity]. Qed.

Lemma split47_nonempty p : split47 p <> [].
Proof. destruct p as [|c r]; cbn [split47]; [discriminate|]. destruct (is_slash c); [discriminate|]. destruct (split47 r); discriminate. Qed.

Lemma join47_split47 p : join47 (split47 p) = p.
Proof.
  induction p as [|c r IH]; [reflexivity|]. cbn [split47].
  destruct (is_slash c) eqn:Ec.
  - apply is_slash_true in Ec. subst c. rewrite join47_cons. cbn [app].
    pose proof (split47_nonempty r) as Hn. destruct (split47 r) eqn:E; [contradiction|].
    cbn [sepj]. now rewrite IH.
  - pose proof (split47_nonempty r) as Hn. destruct (split47 r) as [|e es] eqn:E; [contradiction|].
    rewrite join47_cons in *. cbn [app]. now rewrite IH.
Qed.

Lemma split47_noslash p : Forall noslash (split47 p).
Proof.
  induction p as [|c r IH]; cbn [split47]; [constructor; [intros []|constructor]|].
  destruct (is_slash c) eqn:Ec; [constructor; [intros []|exact IH]|].
  destruct (split47 r) as [|e es]; [constructor; [|constructor]|].
  - apply noslash_cons. split; [now apply is_slash_false|intros []].
  - inversion IH; subst. constructor; [|assumption]. apply noslash_cons. split; [now apply is_slash_false|assumption].
Qed.

Lemma split47_noslash_id e : noslash e -> split47 e = [e].
Proof.
  induction e as [|c e IH]; [reflexivity|]. intros N. apply noslash_cons in N as [N1 N2].
  cbn [split47]. apply is_slash_false in N1. rewrite N1, (IH N2). reflexivity.
Qed.

Lemma split47_app_slash e r : noslash e -> split47 (e ++ slash :: r) = e :: split47 r.
Proof.
  induction e as [|c e IH]; intros N.
  - cbn [app split47]. reflexivity.
  - apply noslash_cons in N as [N1 N2]. cbn [app split47]. apply is_slash_false in N1.
    rewrite N1, (IH N2). reflexivity.
Qed.

Lemma split47_join47 es : es <> [] -> Forall noslash es -> split47 (join47 es) = es.
Proof.
  induction es as [|e es IH]; [congruence|]. intros _ F. inversion F as [|? ? Ne Fes]; subst.
  rewrite join47_cons. destruct es as [|e2 es].
  - cbn [sepj]. rewrite app_nil_r. now apply split47_noslash_id.
  - cbn [sepj]. rewrite split47_app_slash by exact Ne. f_equal. apply IH; [discriminate|exact Fes].
Qed.

Lemma join47_snoc es e : join47 (es ++ [e]) = match es with [] => e | _ :: _ => join47 es ++ slash :: e end.
Proof.
  induction es as [|x es IH]; [reflexivity|]. cbn [app]. rewrite !join47_cons.
  destruct es as [|y es].
  - cbn [app sepj join47]. now rewrite app_nil_r.
  - cbn [app] in *. cbn [sepj]. rewrite IH. cbn [sepj]. rewrite <- app_assoc. reflexivity.
Qed.

(* kinds of path elements, as the switch in Clean's loop distinguishes them *)
Inductive ekind := EEmpty | EDot | EDotDot | EReal.

Definition kind (c : bytes) : ekind :=
  match c with
  | [] => EEmpty
  | x :: r =>
      if is_dot x then
        match r with
        | [] => EDot
        | y :: r' => if is_dot y then match r' with [] => EDotDot | _ :: _ => EReal end else EReal
        end
      else EReal
  end.

Definition dotdot_elem : bytes := [dot; dot].

(* The component machine: number of leading ".." elements kept (only when not rooted)
   and the stack of real elements written after them (top first). *)
Definition cstate := (nat * list bytes)%type.

Definition cstep (rooted : bool) (st : cstate) (c : bytes) : cstate :=
  match kind c with
  | EEmpty | EDot => st
  | EDotDot =>
      match snd st with
      | _ :: els => (fst st, els)
      | [] => if rooted then st else (S (fst st), [])
      end
  | EReal => (fst st, c :: snd st)
  end.

Definition comps_of (st : cstate) : list bytes := repeat dotdot_elem (fst st) ++ rev (snd st).
Definition root_prefix (rooted : bool) : bytes := if rooted then [slash] else [].
Definition render (rooted : bool) (st : cstate) : bytes := root_prefix rooted ++ join47 (comps_of st).

(* "Turn empty string into ." *)
Definition finish (o : bytes) : bytes := match o with [] => [dot] | _ :: _ => o end.

Definition clean_spec (p : bytes) : bytes :=
  match p with
  | [] => [dot]
  | c :: r =>
      let rooted := is_slash c in
      finish (render rooted (fold_left (cstep rooted) (split47 (if rooted then r else p)) (0, [])))
  end.

(* a real element: what [kind] calls EReal, and slash-free *)
Definition real_elem (e : bytes) : Prop := kind e = EReal /\ noslash e.

Lemma real_elem_nonempty e : real_elem e -> e <> [].
Proof. intros [K _] ->. discriminate. Qed.

(* ---------- the buffer invariant ---------- *)

Definition st_ok (rooted : bool) (st : cstate) : Prop :=
  (rooted = true -> fst st = 0) /\ Forall (fun e => e <> [] /\ noslash e) (snd st).

Definition dd_len (rooted : bool) (st : cstate) : nat := length (render rooted (fst st, [])).

Lemma repeat_snoc {A} (x : A) n : repeat x n ++ [x] = x :: repeat x n.
Proof. induction n; cbn; [reflexivity|]. now rewrite IHn. Qed.

Lemma comps_of_push st e : comps_of (fst st, e :: snd st) = comps_of st ++ [e].
Proof. unfold comps_of. cbn [fst snd rev]. now rewrite app_assoc. Qed.

Lemma render_push rooted st e :
  render rooted (fst st, e :: snd st) =
  match comps_of st with
  | [] => root_prefix rooted ++ e
  | _ :: _ => render rooted st ++ slash :: e
  end.
Proof.
  unfold render. rewrite comps_of_push, join47_snoc.
  destruct (comps_of st); [reflexivity|]. now rewrite app_assoc.
Qed.

Lemma comps_of_nil_iff st : comps_of st = [] <-> fst st = 0 /\ snd st = [].
Proof.
  unfold comps_of. destruct st as [n els]. cbn [fst snd]. split.
  - intros E. apply app_eq_nil in E as [E1 E2]. split.
    + destruct n; [reflexivity|discriminate].
    + destruct els; [reflexivity|]. cbn in E2. apply app_eq_nil in E2 as [_ E2]. discriminate.
  - intros [-> ->]. reflexivity.
Qed.

Lemma render_length_ge rooted n els : length (render rooted (n, [])) <= length (render rooted (n, els)).
Proof.
  induction els as [|e els IH] using rev_ind.
  - lia.
  - unfold render, comps_of in *. cbn [fst snd] in *. rewrite rev_app_distr. cbn [rev app].
    (* rev (els ++ [e]) = e :: rev els : the element e is the bottom of the stack *)
    rewrite !app_length in *.
    assert (forall a b, length (join47 a) <= length (join47 (a ++ b))) as Hmono.
    { intros a b. induction a as [|x a IHa].
      - cbn. lia.
      - cbn [app]. rewrite !join47_cons, !app_length. destruct a as [|y a].
        + cbn [app sepj length]. lia.
        + cbn [app] in *. cbn [sepj length] in *. lia. }
    specialize (Hmono (repeat dotdot_elem n) (e :: rev els)). rewrite app_nil_r in *. lia.
Qed.

(* backtracking over a slash-free element *)
Lemma backtrack_loop_elem last e rest dd :
  last <> slash -> noslash e -> dd <= length rest ->
  backtrack_loop last (rev e ++ slash :: rest) dd = rest.
Proof.
  revert last. induction e as [|c e IH] using rev_ind; intros last Nl Ne Hdd.
  - cbn [rev app backtrack_loop]. apply is_slash_false in Nl. rewrite Nl.
    replace (dd <? length (slash :: rest)) with true by (symmetry; apply Nat.ltb_lt; cbn; lia).
    cbn [andb negb]. destruct rest as [|x rest]; [reflexivity|].
    cbn [backtrack_loop]. unfold is_slash at 1. rewrite N.eqb_refl. now rewrite andb_false_r.
  - apply noslash_app in Ne as [Ne Nc]. apply noslash_cons in Nc as [Nc _].
    rewrite rev_app_distr. cbn [rev app backtrack_loop].
    apply is_slash_false in Nl. rewrite Nl.
    replace (dd <? _) with true by (symmetry; apply Nat.ltb_lt; cbn [length]; rewrite app_length; cbn; lia).
    cbn [andb negb]. now apply IH.
Qed.

Lemma backtrack_loop_floor last e rest :
  last <> slash -> noslash e ->
  backtrack_loop last (rev e ++ rest) (length rest) = rest.
Proof.
  revert last. induction e as [|c e IH] using rev_ind; intros last Nl Ne.
  - cbn [rev app]. destruct rest as [|x rest]; [reflexivity|]. cbn [backtrack_loop].
    replace (length (x :: rest) <? length (x :: rest)) with false by (symmetry; apply Nat.ltb_ge; lia).
    reflexivity.
  - apply noslash_app in Ne as [Ne Nc]. apply noslash_cons in Nc as [Nc _].
    rewrite rev_app_distr. cbn [rev app backtrack_loop].
    apply is_slash_false in Nl. rewrite Nl.
    replace (length rest <? _) with true by (symmetry; apply Nat.ltb_lt; cbn [length]; rewrite app_length; lia).
    cbn [andb negb]. now apply IH.
Qed.

Lemma join47_nonempty es : es <> [] -> Forall (fun e => e <> []) es -> join47 es <> [].
Proof.
  destruct es as [|e es]; [congruence|]. intros _ F. inversion F; subst.
  rewrite join47_cons. destruct e; [congruence|discriminate].
Qed.

Lemma comps_nonempty_elems rooted st : st_ok rooted st -> Forall (fun e => e <> []) (comps_of st).
Proof.
  intros [_ F]. unfold comps_of. apply Forall_app. split.
  - apply Forall_forall. intros x Hx. apply repeat_spec in Hx. subst. discriminate.
  - apply Forall_rev. eapply Forall_impl; [|exact F]. now intros a [].
Qed.

Lemma backtrack_render rooted n e els :
  st_ok rooted (n, e :: els) ->
  backtrack (rev (render rooted (n, e :: els))) (dd_len rooted (n, e :: els)) = rev (render rooted (n, els)).
Proof.
  intros [Hr F]. cbn [fst snd] in *. inversion F as [|? ? [Ne Ns] Fels]; subst.
  change (n, e :: els) with (fst (n, els), e :: snd (n, els)) at 1. rewrite render_push.
  unfold dd_len. cbn [fst].
  destruct (exists_last Ne) as [e' [c ->]].
  apply noslash_app in Ns as [Ns' Nc]. apply noslash_cons in Nc as [Nc _].
  destruct (comps_of (n, els)) eqn:E.
  - apply comps_of_nil_iff in E as [E1 E2]. cbn [fst snd] in E1, E2. subst n els.
    rewrite rev_app_distr, rev_app_distr. cbn [rev app backtrack].
    unfold render, comps_of. cbn [fst snd repeat rev app join47]. rewrite app_nil_r.
    rewrite <- (rev_length (root_prefix rooted)). now apply backtrack_loop_floor.
  - rewrite rev_app_distr. cbn [rev]. rewrite rev_app_distr. cbn [rev app]. rewrite <- app_assoc. cbn [app backtrack].
    apply backtrack_loop_elem; [exact Nc|exact Ns'|].
    rewrite rev_length. apply render_length_ge.
Qed.

(* ---------- one iteration of the loop, by kind of the next element ---------- *)

Definition need_slash (rooted : bool) (out : bytes) : bool :=
  (rooted && negb (length out =? 1)) || (negb rooted && negb (length out =? 0)).

Lemma kind_empty c : kind c = EEmpty -> c = [].
Proof. destruct c as [|x r]; [reflexivity|]. cbn. destruct (is_dot x); [|discriminate]. destruct r as [|y r]; [discriminate|]. destruct (is_dot y); [|discriminate]. destruct r; discriminate. Qed.

Lemma kind_dot c : kind c = EDot -> c = [dot].
Proof.
  destruct c as [|x r]; [discriminate|]. cbn. destruct (is_dot x) eqn:Ex; [|discriminate].
  apply is_dot_true in Ex. subst. destruct r as [|y r]; [reflexivity|].
  destruct (is_dot y); [|discriminate]. destruct r; discriminate.
Qed.

Lemma kind_dotdot c : kind c = EDotDot -> c = [dot; dot].
Proof.
  destruct c as [|x r]; [discriminate|]. cbn. destruct (is_dot x) eqn:Ex; [|discriminate].
  apply is_dot_true in Ex. subst. destruct r as [|y r]; [discriminate|].
  destruct (is_dot y) eqn:Ey; [|discriminate]. apply is_dot_true in Ey. subst.
  destruct r; [reflexivity|discriminate].
Qed.

Lemma span_elem_app e r : noslash e -> at_end_or_slash r = true -> span_elem (e ++ r) = (e, r).
Proof.
  intros N Hr. induction e as [|c e IH]; cbn [app].
  - destruct r as [|x r]; [reflexivity|]. cbn [span_elem]. cbn in Hr. now rewrite Hr.
  - apply noslash_cons in N as [N1 N2]. cbn [span_elem]. apply is_slash_false in N1.
    rewrite N1, (IH N2). reflexivity.
Qed.

Lemma at_end_or_slash_sepj cs : at_end_or_slash (sepj cs) = true.
Proof. destruct cs; reflexivity. Qed.

Lemma is_slash_dot : is_slash dot = false.
Proof. reflexivity. Qed.

Lemma loop_step_real fuel rooted c rest out dd :
  kind c = EReal -> noslash c -> at_end_or_slash rest = true ->
  clean_loop (S fuel) rooted (c ++ rest) out dd =
  clean_loop fuel rooted rest (rev c ++ (if need_slash rooted out then slash :: out else out)) dd.
Proof.
  intros K N Hr.
  assert (span_elem (c ++ rest) = (c, rest)) as Hspan by now apply span_elem_app.
  destruct c as [|x c1]; [discriminate|]. apply noslash_cons in N as [Nx N1].
  apply is_slash_false in Nx.
  cbn [app] in *. cbn [clean_loop]. rewrite Nx.
  fold (need_slash rooted out).
  assert (forall A (a b : A) (t1 t2 : bool), t1 = false -> t2 = false ->
            (if t1 then a else if t2 then a else b) = b) as _. { intros. subst. reflexivity. }
  (* the two dot tests fail *)
  assert ((is_dot x && at_end_or_slash (c1 ++ rest)) = false) as T1.
  { destruct (is_dot x) eqn:Ex; [|reflexivity]. cbn [andb].
    destruct c1 as [|y c2].
    - cbn in K. rewrite Ex in K. discriminate.
    - apply noslash_cons in N1 as [Ny _]. apply is_slash_false in Ny. exact Ny. }
  assert ((is_dot x && match c1 ++ rest with
                       | c2 :: r2 => is_dot c2 && at_end_or_slash r2
                       | [] => false end) = false) as T2.
  { destruct (is_dot x) eqn:Ex; [|reflexivity]. cbn [andb].
    destruct c1 as [|y c2].
    - cbn in K. rewrite Ex in K. discriminate.
    - cbn [app]. destruct (is_dot y) eqn:Ey; [|reflexivity]. cbn [andb].
      destruct c2 as [|z c3].
      + cbn in K. rewrite Ex, Ey in K. discriminate.
      + apply noslash_cons in N1 as [_ N2]. apply noslash_cons in N2 as [Nz _].
        apply is_slash_false in Nz. exact Nz. }
  rewrite T1, T2. rewrite Hspan. rewrite rev_append_rev. reflexivity.
Qed.

Lemma loop_step_slash fuel rooted r out dd :
  clean_loop (S fuel) rooted (slash :: r) out dd = clean_loop fuel rooted r out dd.
Proof. reflexivity. Qed.

Lemma loop_step_dot fuel rooted rest out dd :
  at_end_or_slash rest = true ->
  clean_loop (S fuel) rooted (dot :: rest) out dd = clean_loop fuel rooted rest out dd.
Proof. intros Hr. cbn [clean_loop]. rewrite is_slash_dot. unfold is_dot at 1. rewrite N.eqb_refl, Hr. reflexivity. Qed.

Lemma loop_step_dotdot fuel rooted rest out dd :
  at_end_or_slash rest = true ->
  clean_loop (S fuel) rooted (dot :: dot :: rest) out dd =
  if (dd <? length out) then clean_loop fuel rooted rest (backtrack out dd) dd
  else if negb rooted then
    let out2 := dot :: dot :: (if (0 <? length out) then slash :: out else out) in
    clean_loop fuel rooted rest out2 (length out2)
  else clean_loop fuel rooted rest out dd.
Proof.
  intros Hr. cbn [clean_loop]. rewrite is_slash_dot.
  unfold is_dot. rewrite N.eqb_refl. cbn [andb at_end_or_slash tl].
  rewrite is_slash_dot. rewrite Hr. reflexivity.
Qed.

(* ---------- the main lemma: the byte loop computes the component machine ---------- *)

Lemma st_ok_step rooted st c : noslash c -> st_ok rooted st -> st_ok rooted (cstep rooted st c).
Proof.
  intros N [Hr F]. unfold cstep. destruct (kind c) eqn:K; try (split; assumption).
  - destruct (snd st) as [|e els] eqn:E.
    + destruct rooted; [split; [assumption|now rewrite E]|]. split; [discriminate|constructor].
    + inversion F; subst. split; assumption.
  - split; [exact Hr|]. cbn [snd]. constructor; [|exact F]. split; [|exact N]. intros ->. discriminate.
Qed.

Lemma render_nil_len rooted st :
  st_ok rooted st -> comps_of st = [] -> need_slash rooted (rev (render rooted st)) = false.
Proof.
  intros _ E. unfold render. rewrite E. cbn [join47]. rewrite app_nil_r.
  unfold need_slash. destruct rooted; reflexivity.
Qed.

Lemma render_cons_len rooted st :
  st_ok rooted st -> comps_of st <> [] -> need_slash rooted (rev (render rooted st)) = true.
Proof.
  intros Hok E. unfold need_slash. rewrite rev_length. unfold render. rewrite app_length.
  pose proof (join47_nonempty _ E (comps_nonempty_elems _ _ Hok)) as Hj.
  destruct (join47 (comps_of st)) as [|x j]; [congruence|].
  destruct rooted; cbn; reflexivity.
Qed.

Lemma clean_loop_spec rooted : forall comps st fuel,
  Forall noslash comps -> st_ok rooted st ->
  length (join47 comps) < fuel ->
  clean_loop fuel rooted (join47 comps) (rev (render rooted st)) (dd_len rooted st)
  = Some (rev (render rooted (fold_left (cstep rooted) comps st))).
Proof.
  induction comps as [|c cs IH]; intros st fuel Fc Hok Hfuel.
  { destruct fuel; [cbn in Hfuel; lia|]. reflexivity. }
  inversion Fc as [|? ? Nc Fcs]; subst.
  assert (forall st fuel, st_ok rooted st -> length (sepj cs) < fuel ->
            clean_loop fuel rooted (sepj cs) (rev (render rooted st)) (dd_len rooted st)
            = Some (rev (render rooted (fold_left (cstep rooted) cs st)))) as IH'.
  { intros st' fuel' Hok' Hf'. destruct cs as [|c2 cs2].
    - destruct fuel'; [cbn in Hf'; lia|]. reflexivity.
    - cbn [sepj] in *. destruct fuel'; [lia|]. rewrite loop_step_slash.
      apply IH; [exact Fcs|exact Hok'|cbn [length] in Hf'; lia]. }
  rewrite join47_cons in *. rewrite app_length in Hfuel. cbn [fold_left].
  pose proof (at_end_or_slash_sepj cs) as Hsep.
  pose proof (st_ok_step rooted st c Nc Hok) as Hok'.
  unfold cstep in *. destruct (kind c) eqn:K.
  - apply kind_empty in K. subst c. cbn [app]. apply IH'; [exact Hok|cbn in Hfuel; lia].
  - apply kind_dot in K. subst c. cbn [app length] in *. destruct fuel; [lia|].
    rewrite loop_step_dot by exact Hsep. apply IH'; [exact Hok|lia].
  - apply kind_dotdot in K. subst c. cbn [app length] in *. destruct fuel; [lia|].
    rewrite loop_step_dotdot by exact Hsep.
    destruct st as [n els]. cbn [fst snd] in *. destruct els as [|e els].
    + (* cannot backtrack *)
      replace (dd_len rooted (n, []) <? length (rev (render rooted (n, [])))) with false
        by (symmetry; apply Nat.ltb_ge; unfold dd_len; rewrite rev_length; cbn [fst]; lia).
      destruct rooted; cbn [negb].
      * apply (IH' (n, [])); [exact Hok|lia].
      * assert (rev (render false (S n, [])) =
                dot :: dot :: (if 0 <? length (rev (render false (n, []))) then slash :: rev (render false (n, [])) else rev (render false (n, [])))) as Eout.
        { unfold render, comps_of. cbn [fst snd rev root_prefix app]. rewrite !app_nil_r.
          replace (repeat dotdot_elem (S n)) with (repeat dotdot_elem n ++ [dotdot_elem]) by apply repeat_snoc.
          rewrite join47_snoc. destruct n as [|n].
          - reflexivity.
          - cbn [repeat]. rewrite rev_app_distr. cbn [rev app dotdot_elem].
            rewrite rev_length. rewrite join47_cons, app_length. cbn [dotdot_elem length]. reflexivity. }
        cbv zeta. rewrite <- Eout.
        replace (length (rev (render false (S n, [])))) with (dd_len false (S n, []))
          by (unfold dd_len; now rewrite rev_length).
        apply (IH' (S n, [])); [exact Hok'|lia].
    + replace (dd_len rooted (n, e :: els) <? length (rev (render rooted (n, e :: els)))) with true.
      2:{ symmetry. apply Nat.ltb_lt. unfold dd_len. rewrite rev_length. cbn [fst].
          destruct Hok as [_ F]. cbn [snd] in F. inversion F as [|? ? [Ne _] _]; subst.
          change (n, e :: els) with (fst (n, els), e :: snd (n, els)). rewrite render_push.
          destruct (comps_of (n, els)) eqn:E.
          - apply comps_of_nil_iff in E as [E1 E2]. cbn [fst snd] in E1, E2. subst.
            unfold render, comps_of. cbn [fst snd repeat rev app join47]. rewrite !app_length.
            destruct e; [congruence|]. cbn [length]. lia.
          - rewrite app_length. cbn [length]. pose proof (render_length_ge rooted n els). cbn [fst snd]. lia. }
      rewrite backtrack_render by exact Hok.
      replace (dd_len rooted (n, e :: els)) with (dd_len rooted (n, els)) by reflexivity.
      apply (IH' (n, els)); [exact Hok'|lia].
  - destruct fuel; [lia|].
    rewrite loop_step_real by assumption.
    assert (rev c ++ (if need_slash rooted (rev (render rooted st)) then slash :: rev (render rooted st) else rev (render rooted st))
            = rev (render rooted (fst st, c :: snd st))) as Eout.
    { rewrite render_push. destruct (comps_of st) eqn:E.
      - rewrite render_nil_len by assumption. unfold render. rewrite E. cbn [join47].
        rewrite app_nil_r, rev_app_distr. reflexivity.
      - rewrite render_cons_len by (try assumption; rewrite E; discriminate).
        rewrite rev_app_distr. cbn [rev]. rewrite <- app_assoc. reflexivity. }
    rewrite Eout.
    replace (dd_len rooted st) with (dd_len rooted (fst st, c :: snd st)) by reflexivity.
    assert (0 < length c) as Hc by (destruct c; [discriminate K|cbn; lia]).
    apply IH'; [exact Hok'|lia].
Qed.

(* ====================================================================== *)
(* Theorems about Clean                                                    *)
(* ====================================================================== *)

Lemma st_ok_init rooted : st_ok rooted (0, []).
Proof. split; [reflexivity|constructor]. Qed.

Lemma clean_finish out :
  match rev out with [] => [dot] | _ :: _ => rev_append (rev out) [] end = finish out.
Proof.
  rewrite rev_append_rev, app_nil_r, rev_involutive.
  destruct out as [|x out]; [reflexivity|]. cbn [rev finish].
  destruct (rev out ++ [x]) eqn:E; [destruct (rev out); discriminate|reflexivity].
Qed.

(* Clean, byte by byte as in path.go, equals the component machine -- for every input. *)
Theorem clean_eq_spec p : clean p = clean_spec p.
Proof.
  destruct p as [|c r]; [reflexivity|]. unfold clean, clean_spec.
  destruct (is_slash c) eqn:Ec.
  - pose proof (clean_loop_spec true (split47 r) (0, []) (S (length (c :: r)))
                  (split47_noslash r) (st_ok_init true)) as Hs.
    rewrite join47_split47 in Hs. change (rev (render true (0, []))) with [slash] in Hs.
    change (dd_len true (0, [])) with 1 in Hs. rewrite Hs by (cbn [length]; lia).
    apply clean_finish.
  - pose proof (clean_loop_spec false (split47 (c :: r)) (0, []) (S (length (c :: r)))
                  (split47_noslash (c :: r)) (st_ok_init false)) as Hs.
    rewrite join47_split47 in Hs. change (rev (render false (0, []))) with (@nil byte) in Hs.
    change (dd_len false (0, [])) with 0 in Hs. rewrite Hs by (cbn [length]; lia).
    apply clean_finish.
Qed.

(* the fuel handed to the loop by [clean] always suffices *)
Lemma clean_loop_fuel rooted inp :
  clean_loop (S (length inp)) rooted inp (rev (render rooted (0, []))) (dd_len rooted (0, [])) <> None.
Proof.
  pose proof (clean_loop_spec rooted (split47 inp) (0, []) (S (length inp))
                (split47_noslash inp) (st_ok_init rooted)) as Hs.
  rewrite join47_split47 in Hs. rewrite Hs by lia. discriminate.
Qed.

(* ---------- normal forms ---------- *)

Definition st_norm (rooted : bool) (st : cstate) : Prop :=
  (rooted = true -> fst st = 0) /\ Forall real_elem (snd st).

Lemma st_norm_step rooted st c : noslash c -> st_norm rooted st -> st_norm rooted (cstep rooted st c).
Proof.
  intros N [Hr F]. unfold cstep. destruct (kind c) eqn:K; try (split; assumption).
  - destruct (snd st) as [|e els] eqn:E.
    + destruct rooted; [split; [assumption|now rewrite E]|]. split; [discriminate|constructor].
    + inversion F; subst. split; assumption.
  - split; [exact Hr|]. cbn [snd]. constructor; [split; assumption|exact F].
Qed.

Lemma st_norm_fold rooted comps st :
  Forall noslash comps -> st_norm rooted st -> st_norm rooted (fold_left (cstep rooted) comps st).
Proof.
  revert st. induction comps as [|c cs IH]; intros st F Hn; [exact Hn|].
  inversion F; subst. cbn [fold_left]. apply IH; [assumption|now apply st_norm_step].
Qed.

Lemma fold_push_real rooted L n acc :
  Forall real_elem L -> fold_left (cstep rooted) L (n, acc) = (n, rev L ++ acc).
Proof.
  revert acc. induction L as [|e L IH]; intros acc F; [reflexivity|].
  inversion F as [|? ? [K _] FL]; subst. cbn [fold_left]. unfold cstep at 2. rewrite K. cbn [fst snd].
  rewrite IH by exact FL. cbn [rev]. now rewrite <- app_assoc.
Qed.

Lemma fold_dotdots n k : fold_left (cstep false) (repeat dotdot_elem n) (k, []) = (n + k, []).
Proof.
  revert k. induction n as [|n IH]; intros k; [reflexivity|]. cbn [repeat fold_left].
  unfold cstep at 2. cbn [kind dotdot_elem]. unfold is_dot. rewrite N.eqb_refl. cbn [fst snd].
  rewrite IH. f_equal. lia.
Qed.

Lemma fold_empty rooted st : fold_left (cstep rooted) [[]] st = st.
Proof. reflexivity. Qed.

Lemma real_elem_head e : real_elem e -> exists c e', e = c :: e' /\ is_slash c = false.
Proof.
  intros [K N]. destruct e as [|c e']; [discriminate|]. exists c, e'. split; [reflexivity|].
  apply noslash_cons in N as [N _]. now apply is_slash_false.
Qed.

(* The machine run on its own rendered output reproduces the state. *)
Lemma clean_spec_render rooted st :
  st_norm rooted st -> clean_spec (finish (render rooted st)) = finish (render rooted st).
Proof.
  intros [Hr F]. destruct st as [n els]. cbn [fst snd] in *.
  assert (Forall real_elem (rev els)) as Frev by now apply Forall_rev.
  assert (Forall noslash (rev els)) as Nrev by (eapply Forall_impl; [|exact Frev]; now intros a []).
  destruct rooted.
  - rewrite (Hr eq_refl). unfold render, comps_of. cbn [fst snd repeat app root_prefix finish].
    unfold clean_spec. change (is_slash slash) with true. cbv iota zeta.
    destruct (rev els) as [|e l] eqn:E.
    + reflexivity.
    + rewrite split47_join47 by (try discriminate; exact Nrev).
      rewrite fold_push_real by exact Frev. rewrite app_nil_r.
      unfold render, comps_of. cbn [fst snd repeat app root_prefix]. rewrite rev_involutive. reflexivity.
  - unfold render. cbn [root_prefix app].
    destruct (comps_of (n, els)) as [|e l] eqn:E.
    + reflexivity.
    + assert (Forall noslash (e :: l)) as Nall.
      { rewrite <- E. unfold comps_of. apply Forall_app. split; [|exact Nrev].
        apply Forall_forall. intros x Hx. apply repeat_spec in Hx. subst.
        intros [H|[H|[]]]; discriminate. }
      assert (exists c j, join47 (e :: l) = c :: j /\ is_slash c = false) as [c [j [Ej Ec]]].
      { rewrite join47_cons. unfold comps_of in E. cbn [fst snd] in E. destruct n as [|n].
        - cbn [repeat app] in E. rewrite E in Frev. inversion Frev as [|? ? Hre _]; subst.
          destruct (real_elem_head _ Hre) as [c [e' [-> Hc]]]. now exists c, (e' ++ sepj l).
        - cbn [repeat app] in E. injection E as <- _. now exists dot, (dot :: sepj l). }
      rewrite Ej. cbn [finish]. unfold clean_spec. rewrite Ec. rewrite <- Ej.
      rewrite split47_join47 by (try discriminate; exact Nall).
      rewrite <- E. unfold comps_of at 1. cbn [fst snd]. rewrite fold_left_app, fold_dotdots.
      rewrite fold_push_real by exact Frev. rewrite app_nil_r, rev_involutive, Nat.add_0_r.
      unfold render. cbn [root_prefix app]. rewrite E, Ej. reflexivity.
Qed.

(* The result of Clean is always in normal form. *)
Lemma clean_normal p : exists rooted st, st_norm rooted st /\ clean p = finish (render rooted st).
Proof.
  rewrite clean_eq_spec. destruct p as [|c r].
  - exists false, (0, []). split; [split; [discriminate|constructor]|reflexivity].
  - unfold clean_spec. set (rooted := is_slash c).
    exists rooted, (fold_left (cstep rooted) (split47 (if rooted then r else c :: r)) (0, [])).
    split; [|reflexivity]. apply st_norm_fold; [apply split47_noslash|]. split; [reflexivity|constructor].
Qed.

Theorem clean_idempotent p : clean (clean p) = clean p.
Proof.
  destruct (clean_normal p) as [rooted [st [Hn E]]]. rewrite E, clean_eq_spec.
  now apply clean_spec_render.
Qed.

(* A relative path that is already clean -- zero or more "..", then real elements, joined by
   single slashes, not empty -- is returned unchanged. *)
Theorem clean_of_clean_rel n els :
  Forall real_elem els -> (n, els) <> (0, []) ->
  clean (join47 (repeat dotdot_elem n ++ els)) = join47 (repeat dotdot_elem n ++ els).
Proof.
  intros F Hne.
  assert (st_norm false (n, rev els)) as Hn by (split; [discriminate|now apply Forall_rev]).
  pose proof (clean_spec_render false (n, rev els) Hn) as Hs.
  unfold render, comps_of in Hs. cbn [fst snd root_prefix app] in Hs. rewrite rev_involutive in Hs.
  assert (join47 (repeat dotdot_elem n ++ els) <> []) as Hj.
  { apply join47_nonempty.
    - destruct n; [|discriminate]. destruct els; [congruence|discriminate].
    - apply Forall_app. split.
      + apply Forall_forall. intros x Hx. apply repeat_spec in Hx. subst. discriminate.
      + eapply Forall_impl; [|exact F]. intros a Ha. now apply real_elem_nonempty. }
  destruct (join47 (repeat dotdot_elem n ++ els)) eqn:E; [congruence|].
  cbn [finish] in Hs. now rewrite clean_eq_spec.
Qed.

(* The same for rooted paths: "/" followed by real elements. *)
Theorem clean_of_clean_rooted els :
  Forall real_elem els -> clean (slash :: join47 els) = slash :: join47 els.
Proof.
  intros F.
  assert (st_norm true (0, rev els)) as Hn by (split; [reflexivity|now apply Forall_rev]).
  pose proof (clean_spec_render true (0, rev els) Hn) as Hs.
  unfold render, comps_of in Hs. cbn [fst snd root_prefix app repeat] in Hs. rewrite rev_involutive in Hs.
  cbn [finish] in Hs. now rewrite clean_eq_spec.
Qed.

(* "//" ++ real elements: what path.Join("/", a, b, ...) hands to Clean. *)
Theorem clean_rooted_plain els :
  Forall real_elem els -> clean (slash :: slash :: join47 els) = slash :: join47 els.
Proof.
  intros F. rewrite clean_eq_spec. unfold clean_spec. change (is_slash slash) with true. cbv iota zeta.
  cbn [split47]. change (is_slash slash) with true. cbv iota. cbn [fold_left].
  change (cstep true (0, []) []) with (0, @nil bytes).
  assert (Forall noslash els) as N by (eapply Forall_impl; [|exact F]; now intros a []).
  destruct els as [|e l].
  - reflexivity.
  - rewrite split47_join47 by (try discriminate; exact N).
    rewrite fold_push_real by exact F. rewrite app_nil_r.
    unfold render, comps_of. cbn [fst snd repeat app root_prefix]. rewrite rev_involutive.
    rewrite join47_cons. inversion F as [|? ? Hre _]; subst.
    destruct (real_elem_head _ Hre) as [c [e' [-> _]]]. reflexivity.
Qed.

Theorem join_rooted_plain a b :
  real_elem a -> real_elem b -> join [[slash]; a; b] = slash :: a ++ slash :: b.
Proof.
  intros Ha Hb. unfold join. cbn [forallb andb]. cbn [join_buf].
  destruct (real_elem_head _ Ha) as [c [a' [-> _]]].
  cbn [join_buf app].
  change (slash :: slash :: c :: a' ++ slash :: b) with (slash :: slash :: join47 [c :: a'; b]).
  rewrite clean_rooted_plain by (constructor; [assumption|constructor; [assumption|constructor]]).
  reflexivity.
Qed.

(* A real element: characterisation that is easy to establish for concrete names. *)
Lemma real_elem_intro c e :
  c <> slash -> c <> dot -> noslash e -> real_elem (c :: e).
Proof.
  intros Ns Nd N. split.
  - cbn [kind]. destruct (is_dot c) eqn:E; [apply is_dot_true in E; contradiction|reflexivity].
  - apply noslash_cons. split; assumption.
Qed.

Example clean_examples :
  map clean [[97; 47; 47; 98]; [97; 47; 46; 46; 47; 46; 46]; [47; 46; 46; 47; 97]; []; [46; 46; 47; 46; 46; 47; 97]; [47; 47]]%N
  = [[97; 47; 98]; [46; 46]; [47; 97]; [46]; [46; 46; 47; 46; 46; 47; 97]; [47]]%N.
Proof. reflexivity. Qed.
