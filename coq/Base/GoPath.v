(* Go's package [path] (Clean, Join, Split, Base, Dir) and the [strings] predicates
   HasPrefix / HasSuffix / TrimPrefix / TrimSuffix over [bytes] (lists of byte codes;
   '/' = 47, '.' = 46).  Go strings are byte sequences and package path works on
   bytes, so nothing is lost.

   The executable definitions mirror $GOROOT/src/path/path.go (go1.23) statement by
   statement: [clean_loop] is the [for r < n] loop of Clean with the lazybuf replaced
   by the plain output buffer it denotes (kept REVERSED: the head is the last byte
   written, [out.w] is its length).  They are tied to Go by the correspondence set of
   the C14/C15 harness (random and adversarial strings compared byte for byte with
   path.Clean/Join/Base/Dir/Split and strings.HasSuffix/HasPrefix/TrimSuffix).

   The second half gives the component-level characterisation [clean_spec] (split on
   '/', run a stack machine over the components, render), proves
   [clean p = clean_spec p] for every p, and derives the facts other developments
   use: [base_no_slash], [clean_idempotent], [clean_of_clean_rel],
   [clean_rooted_plain], [join_rooted_plain]. *)
From Coq Require Import List NArith Arith Bool Lia ZifyN ZifyNat ZifyBool.
From DS Require Import Base.Bytes.
Import ListNotations.

Definition slash : byte := 47%N.
Definition dot : byte := 46%N.
Definition is_slash (c : byte) : bool := N.eqb c slash.
Definition is_dot (c : byte) : bool := N.eqb c dot.

(* ---------- byte-string equality and the strings predicates ---------- *)

Fixpoint beq (a b : bytes) : bool :=
  match a, b with
  | [], [] => true
  | x :: a', y :: b' => N.eqb x y && beq a' b'
  | _, _ => false
  end.

(* strings.HasPrefix: len(s) >= len(prefix) && s[:len(prefix)] == prefix *)
Definition has_prefix (s pre : bytes) : bool :=
  (length pre <=? length s) && beq (firstn (length pre) s) pre.

(* strings.HasSuffix: len(s) >= len(suffix) && s[len(s)-len(suffix):] == suffix *)
Definition has_suffix (s suf : bytes) : bool :=
  (length suf <=? length s) && beq (skipn (length s - length suf) s) suf.

(* strings.TrimPrefix / TrimSuffix *)
Definition trim_prefix (s pre : bytes) : bytes :=
  if has_prefix s pre then skipn (length pre) s else s.
Definition trim_suffix (s suf : bytes) : bytes :=
  if has_suffix s suf then firstn (length s - length suf) s else s.

(* ---------- path.Split / Base / Dir ---------- *)

(* path.Split: i := LastIndexByte(path, '/'); return path[:i+1], path[i+1:] *)
Fixpoint split_path (p : bytes) : bytes * bytes :=
  match p with
  | [] => ([], [])
  | c :: r =>
      let (d, f) := split_path r in
      if is_slash c then (c :: d, f)
      else match d with [] => ([], c :: f) | _ :: _ => (c :: d, f) end
  end.

(* for len(path) > 0 && path[len(path)-1] == '/' { path = path[0 : len(path)-1] } *)
Fixpoint strip_trailing_slashes (p : bytes) : bytes :=
  match p with
  | [] => []
  | c :: r =>
      match strip_trailing_slashes r with
      | [] => if is_slash c then [] else [c]
      | r' => c :: r'
      end
  end.

(* path.Base *)
Definition base (p : bytes) : bytes :=
  match p with
  | [] => [dot]
  | _ :: _ =>
      match snd (split_path (strip_trailing_slashes p)) with
      | [] => [slash]
      | b => b
      end
  end.

(* ---------- path.Clean ---------- *)

(* r+1 == n || path[r+1] == '/' , on the remaining input after position r *)
Definition at_end_or_slash (r : bytes) : bool :=
  match r with [] => true | c :: _ => is_slash c end.

(* the element copy loop: for ; r < n && path[r] != '/'; r++ { out.append(path[r]) }
   returns the copied element and the remaining input *)
Fixpoint span_elem (inp : bytes) : bytes * bytes :=
  match inp with
  | [] => ([], [])
  | c :: r => if is_slash c then ([], inp) else let (e, rest) := span_elem r in (c :: e, rest)
  end.

(* out.w--; for out.w > dotdot && out.index(out.w) != '/' { out.w-- }
   [last] is the byte at index out.w (the one dropped last), [out] the bytes [0, out.w) reversed *)
Fixpoint backtrack_loop (last : byte) (out : bytes) (dotdot : nat) : bytes :=
  match out with
  | [] => []
  | c :: rest =>
      if (dotdot <? length out) && negb (is_slash last) then backtrack_loop c rest dotdot else out
  end.

Definition backtrack (out : bytes) (dotdot : nat) : bytes :=
  match out with
  | [] => []
  | c :: rest => backtrack_loop c rest dotdot
  end.

(* One iteration of [for r < n] per unit of fuel; every iteration consumes at least one
   input byte, so [S (length inp)] units always suffice ([clean_loop_fuel]). *)
Fixpoint clean_loop (fuel : nat) (rooted : bool) (inp out : bytes) (dotdot : nat) : option bytes :=
  match fuel with
  | O => None
  | S fuel =>
      match inp with
      | [] => Some out
      | c :: r1 =>
          if is_slash c then
            (* empty path element *)
            clean_loop fuel rooted r1 out dotdot
          else if is_dot c && at_end_or_slash r1 then
            (* . element *)
            clean_loop fuel rooted r1 out dotdot
          else if is_dot c && match r1 with c2 :: r2 => is_dot c2 && at_end_or_slash r2 | [] => false end then
            (* .. element: remove to last / *)
            let r2 := tl r1 in
            if (dotdot <? length out) then
              clean_loop fuel rooted r2 (backtrack out dotdot) dotdot
            else if negb rooted then
              let out1 := if (0 <? length out) then slash :: out else out in
              let out2 := dot :: dot :: out1 in
              clean_loop fuel rooted r2 out2 (length out2)
            else clean_loop fuel rooted r2 out dotdot
          else
            (* real path element: add slash if needed, copy element *)
            let out1 :=
              if (rooted && negb (length out =? 1)) || (negb rooted && negb (length out =? 0))
              then slash :: out else out in
            let (e, rest) := span_elem inp in
            clean_loop fuel rooted rest (rev e ++ out1) dotdot
      end
  end.

Definition clean (p : bytes) : bytes :=
  match p with
  | [] => [dot]
  | c :: r =>
      let rooted := is_slash c in
      let res := if rooted then clean_loop (S (length p)) true r [slash] 1
                 else clean_loop (S (length p)) false p [] 0 in
      match res with
      | Some [] => [dot]
      | Some out => rev out
      | None => p (* unreachable: clean_loop_fuel *)
      end
  end.

(* path.Dir *)
Definition dir (p : bytes) : bytes := clean (fst (split_path p)).

(* path.Join: the loop building buf ... *)
Fixpoint join_buf (buf : bytes) (elems : list bytes) : bytes :=
  match elems with
  | [] => buf
  | e :: r =>
      match buf, e with
      | [], [] => join_buf buf r
      | [], _ :: _ => join_buf e r
      | _ :: _, _ => join_buf (buf ++ slash :: e) r
      end
  end.

(* ... and the function: size == 0 => "", else Clean(buf) *)
Definition join (elems : list bytes) : bytes :=
  if forallb (fun e => match e with [] => true | _ => false end) elems then []
  else clean (join_buf [] elems).

(* ====================================================================== *)
(* Lemmas: strings predicates                                              *)
(* ====================================================================== *)

Lemma beq_eq a b : beq a b = true <-> a = b.
Proof.
  revert b. induction a as [|x a IH]; intros [|y b]; cbn [beq]; split; try congruence; try discriminate.
  - intros E. apply andb_prop in E as [E1 E2]. apply N.eqb_eq in E1. apply IH in E2. congruence.
  - intros [= -> ->]. rewrite N.eqb_refl. cbn. now apply IH.
Qed.

Lemma beq_refl a : beq a a = true.
Proof. now apply beq_eq. Qed.

Lemma beq_neq a b : beq a b = false <-> a <> b.
Proof.
  split.
  - intros E ->. now rewrite beq_refl in E.
  - intros N. destruct (beq a b) eqn:E; [apply beq_eq in E; contradiction|reflexivity].
Qed.

Lemma has_suffix_iff s suf : has_suffix s suf = true <-> exists pre, s = pre ++ suf.
Proof.
  unfold has_suffix. split.
  - intros E. apply andb_prop in E as [E1 E2]. apply beq_eq in E2.
    exists (firstn (length s - length suf) s). rewrite <- E2 at 2. now rewrite firstn_skipn.
  - intros [pre ->]. rewrite app_length.
    replace (length pre + length suf - length suf) with (length pre) by lia.
    rewrite skipn_app, skipn_all, Nat.sub_diag. cbn [skipn app]. rewrite beq_refl.
    apply andb_true_intro. split; [apply Nat.leb_le; lia|reflexivity].
Qed.

Lemma has_suffix_app pre suf : has_suffix (pre ++ suf) suf = true.
Proof. apply has_suffix_iff. now exists pre. Qed.

Lemma trim_suffix_app pre suf : trim_suffix (pre ++ suf) suf = pre.
Proof.
  unfold trim_suffix. rewrite has_suffix_app, app_length.
  replace (length pre + length suf - length suf) with (length pre) by lia.
  rewrite firstn_app, firstn_all, Nat.sub_diag. cbn [firstn]. apply app_nil_r.
Qed.

Lemma trim_suffix_spec s suf : has_suffix s suf = true -> s = trim_suffix s suf ++ suf.
Proof. intros E. apply has_suffix_iff in E as [pre ->]. now rewrite trim_suffix_app. Qed.

Lemma trim_suffix_nil s : trim_suffix s [] = s.
Proof. rewrite <- (app_nil_r s) at 1. apply trim_suffix_app. Qed.

Lemma trim_suffix_none s suf : has_suffix s suf = false -> trim_suffix s suf = s.
Proof. unfold trim_suffix. now intros ->. Qed.

Lemma has_prefix_iff s pre : has_prefix s pre = true <-> exists rest, s = pre ++ rest.
Proof.
  unfold has_prefix. split.
  - intros E. apply andb_prop in E as [E1 E2]. apply beq_eq in E2.
    exists (skipn (length pre) s). rewrite <- E2 at 1. now rewrite firstn_skipn.
  - intros [rest ->]. rewrite app_length, firstn_app, firstn_all, Nat.sub_diag. cbn [firstn].
    rewrite app_nil_r, beq_refl. apply andb_true_intro. split; [apply Nat.leb_le; lia|reflexivity].
Qed.

Lemma trim_prefix_app pre rest : trim_prefix (pre ++ rest) pre = rest.
Proof.
  unfold trim_prefix. replace (has_prefix (pre ++ rest) pre) with true
    by (symmetry; apply has_prefix_iff; now exists rest).
  rewrite skipn_app, skipn_all, Nat.sub_diag. reflexivity.
Qed.

(* ====================================================================== *)
(* Lemmas: Split / Base                                                    *)
(* ====================================================================== *)

Definition noslash (e : bytes) : Prop := ~ In slash e.

Lemma is_slash_true c : is_slash c = true <-> c = slash.
Proof. unfold is_slash. apply N.eqb_eq. Qed.
Lemma is_slash_false c : is_slash c = false <-> c <> slash.
Proof. unfold is_slash. apply N.eqb_neq. Qed.
Lemma is_dot_true c : is_dot c = true <-> c = dot.
Proof. unfold is_dot. apply N.eqb_eq. Qed.

Lemma noslash_cons c e : noslash (c :: e) <-> c <> slash /\ noslash e.
Proof. unfold noslash. cbn [In]. intuition congruence. Qed.

Lemma noslash_app a b : noslash (a ++ b) <-> noslash a /\ noslash b.
Proof. unfold noslash. rewrite in_app_iff. tauto. Qed.

Lemma split_path_app p : fst (split_path p) ++ snd (split_path p) = p.
Proof.
  induction p as [|c r IH]; [reflexivity|]. cbn [split_path].
  destruct (split_path r) as [d f]. cbn [fst snd] in IH.
  destruct (is_slash c); [cbn; now rewrite IH|].
  destruct d; cbn [fst snd app] in *; now rewrite IH.
Qed.

Lemma split_path_file_noslash p : noslash (snd (split_path p)).
Proof.
  induction p as [|c r IH]; [intros []|]. cbn [split_path].
  destruct (split_path r) as [d f] eqn:E. cbn [snd] in IH.
  destruct (is_slash c) eqn:Ec; [exact IH|].
  destruct d; cbn [snd]; [|exact IH].
  apply noslash_cons. split; [now apply is_slash_false|exact IH].
Qed.

(* dir part: empty or ends in '/' *)
Lemma split_path_dir p : fst (split_path p) = [] \/ exists d, fst (split_path p) = d ++ [slash].
Proof.
  induction p as [|c r IH]; [now left|]. cbn [split_path].
  destruct (split_path r) as [d f]. cbn [fst] in IH.
  destruct (is_slash c) eqn:Ec.
  - right. cbn [fst]. apply is_slash_true in Ec. subst c.
    destruct IH as [->|[d' ->]]; [now exists []|now exists (slash :: d')].
  - destruct d as [|x d]; [now left|]. right. cbn [fst].
    destruct IH as [IH|[d' IH]]; [discriminate|]. rewrite IH. now exists (c :: d').
Qed.

Lemma split_path_noslash p : noslash p -> split_path p = ([], p).
Proof.
  induction p as [|c r IH]; [reflexivity|]. intros N. apply noslash_cons in N as [N1 N2].
  cbn [split_path]. rewrite (IH N2). apply is_slash_false in N1. now rewrite N1.
Qed.

Lemma split_path_app_slash a f : noslash f -> split_path (a ++ slash :: f) = (a ++ [slash], f).
Proof.
  intros N. induction a as [|c a IH]; cbn [app split_path].
  - rewrite (split_path_noslash _ N). reflexivity.
  - rewrite IH. destruct (is_slash c); [reflexivity|]. destruct a; reflexivity.
Qed.

Lemma strip_trailing_slashes_noslash_last a c :
  c <> slash -> strip_trailing_slashes (a ++ [c]) = a ++ [c].
Proof.
  intros N. apply is_slash_false in N. induction a as [|x a IH]; cbn [app strip_trailing_slashes].
  - now rewrite N.
  - rewrite IH. destruct (a ++ [c]) eqn:E; [destruct a; discriminate|reflexivity].
Qed.

(* path.Base never returns a name containing '/', except the root itself. *)
Lemma base_no_slash p : base p = [slash] \/ noslash (base p).
Proof.
  unfold base. destruct p as [|c r].
  - right. intros [E|[]]. discriminate.
  - destruct (snd (split_path (strip_trailing_slashes (c :: r)))) eqn:E; [now left|].
    right. rewrite <- E. apply split_path_file_noslash.
Qed.

Lemma base_nonempty p : base p <> [].
Proof.
  unfold base. destruct p; [discriminate|].
  destruct (snd (split_path _)); discriminate.
Qed.

(* Base of ".../<e>" is e when e is a non-empty slash-free name. *)
Lemma base_app_slash a e : e <> [] -> noslash e -> base (a ++ slash :: e) = e.
Proof.
  intros Ne N. unfold base. destruct (a ++ slash :: e) eqn:E0; [destruct a; discriminate|]. rewrite <- E0.
  destruct (exists_last Ne) as [e' [c ->]].
  assert (c <> slash) as Nc. { intros ->. apply N. apply in_or_app. right. now left. }
  replace (a ++ slash :: e' ++ [c]) with ((a ++ slash :: e') ++ [c]) by (rewrite <- app_assoc; reflexivity).
  rewrite strip_trailing_slashes_noslash_last by exact Nc.
  rewrite <- app_assoc. cbn [app]. rewrite split_path_app_slash by exact N. cbn [snd].
  destruct (e' ++ [c]) eqn:E; [destruct e'; discriminate|reflexivity].
Qed.
