(* localindex.go: LocalIndexStore.StoreIndex / GetIndex as operations on the content of
   one file.  os.Create = open for writing with O_CREATE|O_TRUNC; Index.WriteTo then writes
   from offset 0.  [trunc] is whether the open truncates (it does; the variant without
   O_TRUNC is kept for the refuted example). *)
From Coq Require Import List NArith Bool.
From DS Require Import Base.Bytes Base.LE64 Model.Format Model.Index.
Import ListNotations.

(* the content of the file after opening it ([None]: it did not exist) *)
Definition open_for_write (trunc : bool) (old : option bytes) : bytes :=
  match old with
  | None => []
  | Some b => if trunc then [] else b
  end.

(* a write of [data] at offset 0 of a file holding [content] *)
Definition write_at_start (content data : bytes) : bytes := data ++ skipn (length data) content.

(* LocalIndexStore.StoreIndex: os.Create(path); idx.WriteTo(f) *)
Definition store_index_file (trunc : bool) (old : option bytes) (i : index) : bytes :=
  write_at_start (open_for_write trunc old) (encode_index i).
Definition local_store_index := store_index_file true.

(* LocalIndexStore.GetIndex: os.Open; IndexFromReader *)
Definition local_get_index (d : digest) (file : bytes) : result index := decode_index d file.
