(* A file system with metadata, for the writer side of untar (localfs.go,
   localfs_other.go).  Base/FS.v keeps [meta] opaque and does not model what the
   kernel does to the parent directory; this file adds exactly that:

     - every object carries permission bits (12), uid, gid, mtime and xattrs;
     - an mtime is either [Stamp ns] (set by utimes) or [Now] (set by the kernel at the
       time of the operation -- "the extraction time"; all such times are identified);
     - creating or removing a directory entry sets the parent directory's mtime to [Now];
       writing a file sets the file's mtime to [Now]; chown/chmod/setxattr change ctime
       only; chown clears the set-id bits of a non-directory as Linux does;
     - device nodes.

   Paths are lists of names below the extraction root ([] is the root itself, the Go
   name ".").  Intermediate symlinks are not followed (that is C18's subject).

   Second part: the LocalFS writer -- CreateDir / CreateFile / CreateSymlink /
   CreateDevice with Set*Permissions -- as compositions of these operations in the order
   of the source, and UnTar's loop over the nodes of Model/Archive.v.

   Third part: [expect], the tree this leaves behind, by recursion on the source tree. *)
From Coq Require Import List NArith Bool.
From DS Require Import Gen.Constants Base.Bytes Model.Mode Model.Archive Model.TarModel.
From DS Require Base.FS.
Import ListNotations.
Local Open Scope N_scope.

Inductive time := Stamp (ns : N) | Now.

Record fmeta := mkFMeta {
  fm_perm : N;                          (* st_mode & 07777 *)
  fm_uid : N;
  fm_gid : N;
  fm_mtime : time;
  fm_xattrs : list (bytes * bytes)      (* kept sorted by key: a finite map *)
}.

Inductive fnode :=
| FDir (m : fmeta) (ents : list (bytes * fnode))
| FFile (m : fmeta) (data : bytes)
| FLink (m : fmeta) (target : bytes)
| FDev (m : fmeta) (chr : bool) (rdev : N).

Inductive ferr := ENOENT | EEXIST | ENOTDIR | EISDIR | EINVAL | NotADirectory (* "exists and is not a directory" *).
Inductive fres (A : Type) := FOk (a : A) | FErr (e : ferr).
Arguments FOk {A} a.
Arguments FErr {A} e.

(* the credentials of the extracting process *)
Record proc := mkProc { p_uid : N; p_gid : N; p_umask : N }.

Definition fmeta_of (n : fnode) : fmeta :=
  match n with FDir m _ | FFile m _ | FLink m _ | FDev m _ _ => m end.
Definition with_meta (n : fnode) (m : fmeta) : fnode :=
  match n with
  | FDir _ e => FDir m e | FFile _ d => FFile m d | FLink _ t => FLink m t | FDev _ c r => FDev m c r
  end.
Definition is_fdir (n : fnode) : bool := match n with FDir _ _ => true | _ => false end.

Definition set_mtime (m : fmeta) (t : time) : fmeta := mkFMeta (fm_perm m) (fm_uid m) (fm_gid m) t (fm_xattrs m).
Definition set_perm (m : fmeta) (p : N) : fmeta := mkFMeta p (fm_uid m) (fm_gid m) (fm_mtime m) (fm_xattrs m).
Definition set_owner (m : fmeta) (u g : N) : fmeta := mkFMeta (fm_perm m) u g (fm_mtime m) (fm_xattrs m).
Definition set_xattrs (m : fmeta) (x : list (bytes * bytes)) : fmeta := mkFMeta (fm_perm m) (fm_uid m) (fm_gid m) (fm_mtime m) x.

(* a fresh object in the directory [parent]: mode &^ umask, owned by the process, created now.
   Linux (inode_init_owner): in a set-group-ID directory the new object gets the directory's
   group instead of the process's, and a new directory the set-group-ID bit as well -- only an
   explicit chown gives such an entry a group of its own. *)
Definition inherit_gid (pr : proc) (parent : fmeta) : N :=
  if has (fm_perm parent) S_ISGID then fm_gid parent else p_gid pr.

Definition fresh (pr : proc) (parent : fmeta) (isdir : bool) (mode : N) : fmeta :=
  let p := N.ldiff (N.land mode 4095) (p_umask pr) in
  mkFMeta (if isdir && has (fm_perm parent) S_ISGID then N.lor p S_ISGID else p)
          (p_uid pr) (inherit_gid pr parent) Now [].

(* the parent of the extraction directory: nothing is inherited from it *)
Definition meta_none : fmeta := mkFMeta 0 0 0 Now [].

(* ---------- lookup and update ---------- *)

Fixpoint assoc (nm : bytes) (l : list (bytes * fnode)) : option fnode :=
  match l with
  | [] => None
  | (k, v) :: r => if FS.bytes_eqb k nm then Some v else assoc nm r
  end.

Fixpoint lookup (p : list bytes) (n : fnode) : option fnode :=
  match p with
  | [] => Some n
  | nm :: rest =>
      match n with
      | FDir _ l => match assoc nm l with Some c => lookup rest c | None => None end
      | _ => None
      end
  end.

(* replace the binding of nm by what g makes of it; a new binding goes to the end *)
Fixpoint upd_ents (g : option fnode -> fres (option fnode)) (nm : bytes) (l : list (bytes * fnode))
  : fres (list (bytes * fnode)) :=
  match l with
  | [] => match g None with
          | FOk (Some n) => FOk [(nm, n)]
          | FOk None => FOk []
          | FErr e => FErr e
          end
  | (k, v) :: r =>
      if FS.bytes_eqb k nm then
        match g (Some v) with
        | FOk (Some n) => FOk ((k, n) :: r)
        | FOk None => FOk r
        | FErr e => FErr e
        end
      else match upd_ents g nm r with
           | FOk r' => FOk ((k, v) :: r')
           | FErr e => FErr e
           end
  end.

(* apply f to the node at p (which must exist) *)
Fixpoint at_path (p : list bytes) (f : fnode -> fres fnode) (n : fnode) : fres fnode :=
  match p with
  | [] => f n
  | nm :: rest =>
      match n with
      | FDir m l =>
          match upd_ents (fun o => match o with
                                   | Some c => match at_path rest f c with FOk c' => FOk (Some c') | FErr e => FErr e end
                                   | None => FErr ENOENT
                                   end) nm l with
          | FOk l' => FOk (FDir m l')
          | FErr e => FErr e
          end
      | _ => FErr ENOTDIR
      end
  end.

(* parent directory and last component; None for the root *)
Fixpoint split_last (p : list bytes) : option (list bytes * bytes) :=
  match p with
  | [] => None
  | x :: r => match split_last r with
              | None => Some ([], x)
              | Some (d, l) => Some (x :: d, l)
              end
  end.

(* what happens inside the parent directory when the entry nm is changed: g gets the current
   binding and returns the new one and whether the set of entries changed (then the
   directory's mtime becomes Now) *)
Definition in_dir (nm : bytes) (g : fmeta -> option fnode -> fres (option fnode * bool)) (d : fnode) : fres fnode :=
  match d with
  | FDir m l =>
      match g m (assoc nm l) with
      | FErr e => FErr e
      | FOk (o', touched) =>
          match upd_ents (fun _ => FOk o') nm l with
          | FOk l' => FOk (FDir (if touched then set_mtime m Now else m) l')
          | FErr e => FErr e
          end
      end
  | _ => FErr ENOTDIR
  end.

Definition entry_op (p : list bytes) (g : fmeta -> option fnode -> fres (option fnode * bool)) (s : fnode) : fres fnode :=
  match split_last p with
  | None => FErr EINVAL                                   (* the root has no entry *)
  | Some (parent, nm) => at_path parent (in_dir nm g) s
  end.

(* ---------- system calls ---------- *)

Definition lstat (p : list bytes) (s : fnode) : option fnode := lookup p s.

Definition mkdir (pr : proc) (p : list bytes) (mode : N) : fnode -> fres fnode :=
  entry_op p (fun pm o => match o with
                       | Some _ => FErr EEXIST
                       | None => FOk (Some (FDir (fresh pr pm true mode) []), true)
                       end).

(* os.RemoveAll: gone afterwards, no error when it was not there *)
Definition remove_all (p : list bytes) : fnode -> fres fnode :=
  entry_op p (fun pm o => match o with Some _ => FOk (None, true) | None => FOk (None, false) end).

(* syscall.Unlink *)
Definition unlink (p : list bytes) : fnode -> fres fnode :=
  entry_op p (fun pm o => match o with
                       | Some (FDir _ _) => FErr EISDIR
                       | Some _ => FOk (None, true)
                       | None => FErr ENOENT
                       end).

(* os.OpenFile(O_CREATE|O_WRONLY|O_TRUNC, mode) followed by writing data and Close *)
Definition create_write (pr : proc) (p : list bytes) (mode : N) (data : bytes) : fnode -> fres fnode :=
  entry_op p (fun pm o => match o with
                       | None => FOk (Some (FFile (fresh pr pm false mode) data), true)
                       | Some (FFile m _) => FOk (Some (FFile (set_mtime m Now) data), false)
                       | Some (FDir _ _) => FErr EISDIR
                       | Some _ => FErr EINVAL
                       end).

Definition symlink (pr : proc) (target : bytes) (p : list bytes) : fnode -> fres fnode :=
  entry_op p (fun pm o => match o with
                       | Some _ => FErr EEXIST
                       | None => FOk (Some (FLink (mkFMeta 511 (p_uid pr) (inherit_gid pr pm) Now []) target), true)
                       end).

Definition mknod (pr : proc) (p : list bytes) (mode dev : N) : fnode -> fres fnode :=
  entry_op p (fun pm o => match o with
                       | Some _ => FErr EEXIST
                       | None =>
                           let ty := N.land mode S_IFMT in
                           if (ty =? S_IFCHR) || (ty =? S_IFBLK)
                           then FOk (Some (FDev (fresh pr pm false mode) (ty =? S_IFCHR) dev), true)
                           else FErr EINVAL
                       end).

(* chown(2) / lchown(2) on the object itself.  Linux clears S_ISUID, and S_ISGID when the group
   execute bit is set, on anything that is not a directory -- for root as well. *)
Definition chown_clear (n : fnode) (perm : N) : N :=
  match n with
  | FDir _ _ => perm
  | _ => let p1 := N.ldiff perm S_ISUID in
         if has perm 8 then N.ldiff p1 S_ISGID else p1
  end.

Definition on_meta (p : list bytes) (f : fnode -> fmeta -> fmeta) : fnode -> fres fnode :=
  at_path p (fun n => FOk (with_meta n (f n (fmeta_of n)))).

Definition chown (p : list bytes) (u g : N) : fnode -> fres fnode :=
  on_meta p (fun n m => set_owner (set_perm m (chown_clear n (fm_perm m))) u g).

Definition chmod (p : list bytes) (mode : N) : fnode -> fres fnode :=
  on_meta p (fun _ m => set_perm m (chmod_bits mode)).

Definition lsetxattr (p : list bytes) (k v : bytes) : fnode -> fres fnode :=
  on_meta p (fun _ m => set_xattrs m (insert_kv (k, v) (fm_xattrs m))).

(* os.Chtimes(dst, t, t) *)
Definition utimes (p : list bytes) (ns : N) : fnode -> fres fnode :=
  on_meta p (fun _ m => set_mtime m (Stamp ns)).

(* ---------- the LocalFS writer ---------- *)

Record lopts := mkLopts { no_same_owner : bool; no_same_permissions : bool }.

Definition bindf {A B} (r : fres A) (f : A -> fres B) : fres B :=
  match r with FOk a => f a | FErr e => FErr e end.
Notation "'dof' x <- m ; f" := (bindf m (fun x => f)) (at level 200, x name, m at level 100, f at level 200).

Fixpoint set_all_xattrs (p : list bytes) (xs : list (bytes * bytes)) (s : fnode) : fres fnode :=
  match xs with
  | [] => FOk s
  | (k, v) :: r => dof s1 <- lsetxattr p k v s; set_all_xattrs p r s1
  end.

(* n.Mode is StatModeToFilemode(uint32(mode word)); the syscalls get FilemodeToStatMode(n.Mode) *)
Definition node_statmode (m : meta) : N := filemode_to_stat (stat_to_filemode (u32 (m_mode m))).

(* SetDirPermissions / SetFilePermissions, and the tail of CreateDevice:
   if !NoSameOwner { chown; xattrs }; if !NoSamePermissions { chmod } *)
Definition set_permissions (o : lopts) (p : list bytes) (m : meta) (xs : list (bytes * bytes)) (s : fnode) : fres fnode :=
  dof s1 <- (if no_same_owner o then FOk s
             else dof s' <- chown p (m_uid m) (m_gid m) s; set_all_xattrs p xs s');
  if no_same_permissions o then FOk s1 else chmod p (node_statmode m) s1.

(* if n.MTime == time.Unix(0, 0) { return nil }; return os.Chtimes(dst, n.MTime, n.MTime) *)
Definition set_times (p : list bytes) (m : meta) (s : fnode) : fres fnode :=
  if m_mtime m =? 0 then FOk s else utimes p (m_mtime m) s.

Definition create_dir (pr : proc) (o : lopts) (p : list bytes) (m : meta) (xs : list (bytes * bytes)) (s : fnode) : fres fnode :=
  dof s1 <- (match lstat p s with
             | Some n => if is_fdir n then FOk s else FErr NotADirectory
             | None => mkdir pr p 511 s
             end);
  dof s2 <- set_permissions o p m xs s1;
  set_times p m s2.

Definition create_file (pr : proc) (o : lopts) (p : list bytes) (m : meta) (xs : list (bytes * bytes)) (data : bytes) (s : fnode) : fres fnode :=
  dof s0 <- remove_all p s;
  dof s1 <- create_write pr p 438 data s0;
  dof s2 <- set_permissions o p m xs s1;
  set_times p m s2.

(* NOT the code: a variant of CreateFile that keeps a regular file which is already there and lets
   O_TRUNC empty it (RemoveAll only for other kinds of objects).  It exists to state what the
   unconditional RemoveAll is good for: see create_file_reuse_refuted. *)
Definition create_file_reuse (pr : proc) (o : lopts) (p : list bytes) (m : meta) (xs : list (bytes * bytes)) (data : bytes) (s : fnode) : fres fnode :=
  dof s0 <- (match lstat p s with
             | Some (FFile _ _) => FOk s
             | _ => remove_all p s
             end);
  dof s1 <- create_write pr p 438 data s0;
  dof s2 <- set_permissions o p m xs s1;
  set_times p m s2.

(* NOT the code: a variant of CreateFile whose SetFilePermissions skips the chown when the file is
   meant to belong to the user and group running the extraction ("it is new, so it does already").
   See create_file_lazy_chown_refuted: not so in a set-group-ID directory. *)
Definition create_file_lazy_chown (pr : proc) (p : list bytes) (m : meta) (xs : list (bytes * bytes)) (data : bytes) (s : fnode) : fres fnode :=
  dof s0 <- remove_all p s;
  dof s1 <- create_write pr p 438 data s0;
  dof s2 <- (if (m_uid m =? p_uid pr) && (m_gid m =? p_gid pr) then FOk s1 else chown p (m_uid m) (m_gid m) s1);
  dof s3 <- set_all_xattrs p xs s2;
  dof s4 <- chmod p (node_statmode m) s3;
  set_times p m s4.

(* unlink errors other than "does not exist" are returned *)
Definition unlink_if_there (p : list bytes) (s : fnode) : fres fnode :=
  match unlink p s with
  | FErr ENOENT => FOk s
  | r => r
  end.

(* SetSymlinkPermissions: lchown and xattrs only, no chmod; then the link's own times
   (utimensat with AT_SYMLINK_NOFOLLOW) unless the mtime is the epoch *)
Definition create_symlink (pr : proc) (o : lopts) (p : list bytes) (m : meta) (xs : list (bytes * bytes)) (target : bytes) (s : fnode) : fres fnode :=
  dof s0 <- unlink_if_there p s;
  dof s1 <- symlink pr target p s0;
  dof s2 <- (if no_same_owner o then FOk s1
             else dof s2 <- chown p (m_uid m) (m_gid m) s1; set_all_xattrs p xs s2);
  set_times p m s2.

(* before "fix: untar restores the modification time of symlinks": no times at all *)
Definition create_symlink_prefix (pr : proc) (o : lopts) (p : list bytes) (m : meta) (xs : list (bytes * bytes)) (target : bytes) (s : fnode) : fres fnode :=
  dof s0 <- unlink_if_there p s;
  dof s1 <- symlink pr target p s0;
  if no_same_owner o then FOk s1
  else dof s2 <- chown p (m_uid m) (m_gid m) s1; set_all_xattrs p xs s2.

Definition create_device (pr : proc) (o : lopts) (p : list bytes) (m : meta) (xs : list (bytes * bytes)) (major minor : N) (s : fnode) : fres fnode :=
  dof s0 <- unlink_if_there p s;
  dof s1 <- mknod pr p (N.lor (node_statmode m) 438) (mkdev major minor) s0;
  dof s2 <- set_permissions o p m xs s1;
  set_times p m s2.

(* one iteration of UnTar's loop *)
Definition untar_node (pr : proc) (o : lopts) (n : node) (s : fnode) : fres fnode :=
  match n with
  | NDirectory p m xs => create_dir pr o p m xs s
  | NFile p m xs _ data => create_file pr o p m xs data s
  | NSymlink p m xs target => create_symlink pr o p m xs target s
  | NDevice p m xs major minor => create_device pr o p m xs major minor s
  end.

Fixpoint untar (pr : proc) (o : lopts) (ns : list node) (s : fnode) : fres fnode :=
  match ns with
  | [] => FOk s
  | n :: r => dof s1 <- untar_node pr o n s; untar pr o r s1
  end.

(* the writer as it was before the symlink-time fix (for the refuted example only) *)
Definition untar_node_prefix (pr : proc) (o : lopts) (n : node) (s : fnode) : fres fnode :=
  match n with
  | NSymlink p m xs target => create_symlink_prefix pr o p m xs target s
  | _ => untar_node pr o n s
  end.

Fixpoint untar_prefix (pr : proc) (o : lopts) (ns : list node) (s : fnode) : fres fnode :=
  match ns with
  | [] => FOk s
  | n :: r => dof s1 <- untar_node_prefix pr o n s; untar_prefix pr o r s1
  end.

(* ---------- what this leaves behind, by recursion on the source tree ---------- *)

Definition supported_tree (t : tree) : bool := match t with TOther _ => false | _ => true end.

Definition perm_of (a : attrs) : N := N.land (t_mode a) 4095.

(* owner and xattrs as restored *)
Definition exp_owner (pr : proc) (o : lopts) (a : attrs) : N * N :=
  if no_same_owner o then (p_uid pr, p_gid pr) else (t_uid a, t_gid a).
Definition exp_xattrs (o : lopts) (a : attrs) : list (bytes * bytes) :=
  if no_same_owner o then [] else sort_xattrs (t_xattrs a).
Definition exp_perm (pr : proc) (o : lopts) (a : attrs) (create_mode : N) : N :=
  if no_same_permissions o then N.ldiff (N.land create_mode 4095) (p_umask pr) else perm_of a.
(* the time is applied last, unless it is the epoch *)
Definition exp_time (a : attrs) : time := if t_mtime a =? 0 then Now else Stamp (t_mtime a).

Fixpoint expect (pr : proc) (o : lopts) (t : tree) : option fnode :=
  match t with
  | TDir a ch =>
      let kids := flat_map (fun p => match p with (nm, c) =>
                              match expect pr o c with Some n => [(nm, n)] | None => [] end end) ch in
      let (u, g) := exp_owner pr o a in
      (* creating the first child puts the directory's mtime back to the time of extraction *)
      let t := match kids with [] => exp_time a | _ => Now end in
      Some (FDir (mkFMeta (exp_perm pr o a 511) u g t (exp_xattrs o a)) kids)
  | TFile a d =>
      let (u, g) := exp_owner pr o a in
      Some (FFile (mkFMeta (exp_perm pr o a 438) u g (exp_time a) (exp_xattrs o a)) d)
  | TLink a tg =>
      let (u, g) := exp_owner pr o a in
      (* no chmod for a symlink; its own time is set last *)
      Some (FLink (mkFMeta 511 u g (exp_time a) (exp_xattrs o a)) tg)
  | TDev a r =>
      let (u, g) := exp_owner pr o a in
      (* mknod(mode|0666) keeps the set-id bits of the source, the chown that follows clears them;
         only visible when no chmod comes afterwards *)
      let p0 := N.ldiff (N.land (N.lor (perm_of a) 438) 4095) (p_umask pr) in
      let p1 := if no_same_owner o then p0 else chown_clear (FFile (mkFMeta 0 0 0 Now []) []) p0 in
      let perm := if no_same_permissions o then p1 else perm_of a in
      Some (FDev (mkFMeta perm u g (exp_time a) (exp_xattrs o a))
                 (N.land (t_mode a) S_IFMT =? S_IFCHR) r)
  | TOther _ => None
  end.

(* a new, empty extraction directory *)
Definition empty_root (pr : proc) : fnode := FDir (fresh pr meta_none true 511) [].
