(* tarfs.go: TarReader.Next and its AddRoot option, as a transformer of the file stream.

   Go                                         here
   ----------------------------------------   -------------------------------------------
   the members of the tar stream, each        a list of events (Model/TarWalk.v): File.Path =
   turned into a File (Path: path.Clean(      path.Clean(h.Name), File.Name, the node
   h.Name), Name: info.Name(), ..)
   NewTarReader(.., {AddRoot: true}): root    stream_root: ".", mode dir|0755, ids 0, the zero
   = &File{Name: ".", Path: ".", Mode:        time.Time (tar() writes uint64(UnixNano()) of it)
   os.ModeDir | 0755}
   Next(): if fs.root != nil { hand it out,   reader_events ReaderFixed: the root first, then every
   once }; then the members until io.EOF,     member that is not itself a root ("./")
   with AddRoot skipping root members
   Tar(): the first Next() fails => error     stream_sees = None for no events at all

   ReaderReadsFirst is Next() with the two opening blocks in the other order (a member is read
   before the root is handed out and never delivered): kept to state what the order is for. *)
From Coq Require Import List NArith Bool.
From DS Require Import Base.Bytes Base.GoPath Model.Tar Model.TarWalk.
Import ListNotations.

Definition stream_root_meta : meta := mkMeta 493 0 0 11651379494838206464.   (* 0755; uint64(time.Time{}.UnixNano()) *)
Definition stream_root : event := ([dot], [dot], NDir stream_root_meta [] []).

(* ReaderFixed: the code as it is.  With AddRoot every member whose cleaned name is "." (the
   stream's own root: "./", ".", "./.") is left out, wherever it stands:
       for fs.addRoot && path.Clean(h.Name) == "." { ..; h, err = fs.r.Next() .. }
   ReaderNoSkip: before commit b406c8c (no such loop).  ReaderSkipsOne: the loop written as an `if`
   (the header read after a skipped root member is not looked at again).  ReaderReadsFirst: the
   two opening blocks of Next() in the other order, on the code before b406c8c. *)
Inductive reader_variant := ReaderFixed | ReaderNoSkip | ReaderSkipsOne | ReaderReadsFirst.

Definition is_root_member (e : event) : bool := beq (fst (fst e)) [dot].

(* the `if` variant: after a root member the next member is handed out unseen *)
Fixpoint skip_one (ms : list event) : list event :=
  match ms with
  | [] => []
  | m :: r => if is_root_member m then match r with [] => [] | m2 :: r2 => m2 :: skip_one r2 end
              else m :: skip_one r
  end.

(* what TarReader.Next delivers until io.EOF *)
Definition reader_events (v : reader_variant) (add_root : bool) (members : list event) : list event :=
  if add_root then
    match v with
    | ReaderFixed => stream_root :: filter (fun e => negb (is_root_member e)) members
    | ReaderNoSkip => stream_root :: members
    | ReaderSkipsOne => stream_root :: skip_one members
    | ReaderReadsFirst => match members with [] => [] | _ :: r => stream_root :: r end
    end
  else members.

(* the members of a stream that lists the content of a directory without the directory:
   "a", "d", "d/x", .. -- the walk below the path "." *)
Definition members_of (cs : list (bytes * node)) : list event :=
  flat_map (fun nc : bytes * node => walk PathClean (join [[dot]; fst nc]) (fst nc) (snd nc)) cs.

(* Tar() over the reader: the tree encoded and the members never looked at; None = Tar returns
   the error of the first Next() *)
Definition stream_sees (v : reader_variant) (add_root : bool) (members : list event) : option (node * list event) :=
  match reader_events v add_root members with
  | [] => None
  | evs => regroup (2 * length evs + 2) evs
  end.

(* ---------- Tar(): the check after the root entry (commit 4e00255) ----------
     if _, err := tar(ctx, enc, buf, nil); err != nil { return err }
     switch f, err := buf.Next(); err { case io.EOF: return nil; case nil: return <error naming f> ..}
   LeftoverIgnored is Tar() before that commit: `_, err := tar(..); return err`. *)
Inductive leftover_variant := LeftoverRefused | LeftoverIgnored.
Inductive tar_outcome := TarOk (t : node) | TarError.

Definition tar_outcome_of (v : leftover_variant) (r : option (node * list event)) : tar_outcome :=
  match r with
  | None => TarError
  | Some (t, []) => TarOk t
  | Some (t, _ :: _) => match v with LeftoverRefused => TarError | LeftoverIgnored => TarOk t end
  end.

(* Tar() over a TarReader *)
Definition stream_tar (lv : leftover_variant) (add_root : bool) (members : list event) : tar_outcome :=
  tar_outcome_of lv (stream_sees ReaderFixed add_root members).

(* the nodes of a tree in archive order, each without its children *)
Fixpoint heads (t : node) : list node :=
  head_of t :: match t with
               | NDir _ _ cs => flat_map (fun nc : bytes * node => heads (snd nc)) cs
               | _ => []
               end.
Definition event_heads (evs : list event) : list node := map (fun e : event => head_of (snd e)) evs.

(* ---------- a source that can fail ----------
   fs.Next() returns a file, an error other than io.EOF (LocalFS: the walk could not lstat / list an
   entry; TarReader: a damaged stream), or io.EOF -- the end of the list.  tar() returns at the
   first error (`if err != nil { if err == io.EOF { break }; return n, err }`), so does the check
   after the root entry.  FaultAsEOF is a source that turns its error into a normal end (the walk
   function storing the error and stopping the walk, the stored error then overwritten by io.EOF):
   kept to state what reporting the error is for. *)
Inductive next_result := NextOk (e : event) | NextErr.
Inductive fault_variant := FaultReported | FaultAsEOF.
Inductive rres (A : Type) := ROk (a : A) | RErr | RFuel.
Arguments ROk {A} a.
Arguments RErr {A}.
Arguments RFuel {A}.

Fixpoint regroupF (v : fault_variant) (fuel : nat) (src : list next_result) : rres (node * list next_result) :=
  match fuel with
  | O => RFuel
  | S f =>
    match src with
    | [] => RErr                                  (* Tar(): the very first Next() says io.EOF *)
    | NextErr :: _ => RErr                        (* either way there is no first file *)
    | NextOk (p, _, h) :: rest =>
        match h with
        | NDir m xs _ =>
            match groupF v f p rest [] with
            | ROk (cs, rest') => ROk (NDir m xs cs, rest')
            | RErr => RErr
            | RFuel => RFuel
            end
        | _ => ROk (h, rest)
        end
    end
  end
with groupF (v : fault_variant) (fuel : nat) (dirp : bytes) (src : list next_result) (acc : list (bytes * node))
     : rres (list (bytes * node) * list next_result) :=
  match fuel with
  | O => RFuel
  | S f =>
    match src with
    | [] => ROk (acc, [])                                                       (* io.EOF: break *)
    | NextErr :: _ => match v with FaultReported => RErr | FaultAsEOF => ROk (acc, []) end
    | NextOk (p, name, _) :: _ =>
        if beq (dir p) dirp then
          match regroupF v f src with
          | ROk (c, rest') => groupF v f dirp rest' (acc ++ [(base name, c)])
          | RErr => RErr
          | RFuel => RFuel
          end
        else ROk (acc, src)
    end
  end.

(* Tar() over such a source, with the check after the root entry *)
Definition tar_faulty (v : fault_variant) (src : list next_result) : tar_outcome :=
  match regroupF v (2 * length src + 2) src with
  | ROk (t, []) => TarOk t
  | ROk (t, NextErr :: _) => match v with FaultReported => TarError | FaultAsEOF => TarOk t end
  | ROk (_, NextOk _ :: _) => TarError
  | _ => TarError
  end.
