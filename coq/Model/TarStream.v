(* tarfs.go: TarReader.Next and its AddRoot option, as a transformer of the file stream.

   Go                                         here
   ----------------------------------------   -------------------------------------------
   the members of the tar stream, each        a list of events (Model/TarWalk.v): File.Path =
   turned into a File (Path: path.Clean(      path.Clean(h.Name), File.Name, the node
   h.Name), Name: info.Name(), ..)
   NewTarReader(.., {AddRoot: true}): root    stream_root: ".", mode dir|0755, ids 0, the zero
   = &File{Name: ".", Path: ".", Mode:        time.Time (tar() writes uint64(UnixNano()) of it)
   os.ModeDir | 0755}
   Next(): if fs.root != nil { hand it out,   reader_events ReaderFixed: the root first, then every
   once }; then the members until io.EOF,     member that is not itself a root ("./")
   with AddRoot skipping root members
   Tar(): the first Next() fails => error     stream_sees = None for no events at all

   ReaderReadsFirst is Next() with the two opening blocks in the other order (a member is read
   before the root is handed out and never delivered): kept to state what the order is for. *)
From Coq Require Import List NArith Bool.
From DS Require Import Base.Bytes Base.GoPath Model.Tar Model.TarWalk.
Import ListNotations.

Definition stream_root_meta : meta := mkMeta 493 0 0 11651379494838206464.   (* 0755; uint64(time.Time{}.UnixNano()) *)
Definition stream_root : event := ([dot], [dot], NDir stream_root_meta [] []).

(* ReaderFixed: the code as it is.  With AddRoot every member whose cleaned name is "." (the
   stream's own root: "./", ".", "./.") is left out, wherever it stands:
       for fs.addRoot && path.Clean(h.Name) == "." { ..; h, err = fs.r.Next() .. }
   ReaderNoSkip: before commit b406c8c (no such loop).  ReaderSkipsOne: the loop written as an `if`
   (the header read after a skipped root member is not looked at again).  ReaderReadsFirst: the
   two opening blocks of Next() in the other order, on the code before b406c8c. *)
Inductive reader_variant := ReaderFixed | ReaderNoSkip | ReaderSkipsOne | ReaderReadsFirst.

Definition is_root_member (e : event) : bool := beq (fst (fst e)) [dot].

(* the `if` variant: after a root member the next member is handed out unseen *)
Fixpoint skip_one (ms : list event) : list event :=
  match ms with
  | [] => []
  | m :: r => if is_root_member m then match r with [] => [] | m2 :: r2 => m2 :: skip_one r2 end
              else m :: skip_one r
  end.

(* what TarReader.Next delivers until io.EOF *)
Definition reader_events (v : reader_variant) (add_root : bool) (members : list event) : list event :=
  if add_root then
    match v with
    | ReaderFixed => stream_root :: filter (fun e => negb (is_root_member e)) members
    | ReaderNoSkip => stream_root :: members
    | ReaderSkipsOne => stream_root :: skip_one members
    | ReaderReadsFirst => match members with [] => [] | _ :: r => stream_root :: r end
    end
  else members.

(* the members of a stream that lists the content of a directory without the directory:
   "a", "d", "d/x", .. -- the walk below the path "." *)
Definition members_of (cs : list (bytes * node)) : list event :=
  flat_map (fun nc : bytes * node => walk PathClean (join [[dot]; fst nc]) (fst nc) (snd nc)) cs.

(* Tar() over the reader: the tree encoded and the members never looked at; None = Tar returns
   the error of the first Next() *)
Definition stream_sees (v : reader_variant) (add_root : bool) (members : list event) : option (node * list event) :=
  match reader_events v add_root members with
  | [] => None
  | evs => regroup (2 * length evs + 2) evs
  end.

(* ---------- Tar(): the check after the root entry (commit 4e00255) ----------
     if _, err := tar(ctx, enc, buf, nil); err != nil { return err }
     switch f, err := buf.Next(); err { case io.EOF: return nil; case nil: return <error naming f> ..}
   LeftoverIgnored is Tar() before that commit: `_, err := tar(..); return err`. *)
Inductive leftover_variant := LeftoverRefused | LeftoverIgnored.
Inductive tar_outcome := TarOk (t : node) | TarError.

Definition tar_outcome_of (v : leftover_variant) (r : option (node * list event)) : tar_outcome :=
  match r with
  | None => TarError
  | Some (t, []) => TarOk t
  | Some (t, _ :: _) => match v with LeftoverRefused => TarError | LeftoverIgnored => TarOk t end
  end.

(* Tar() over a TarReader *)
Definition stream_tar (lv : leftover_variant) (add_root : bool) (members : list event) : tar_outcome :=
  tar_outcome_of lv (stream_sees ReaderFixed add_root members).

(* the nodes of a tree in archive order, each without its children *)
Fixpoint heads (t : node) : list node :=
  head_of t :: match t with
               | NDir _ _ cs => flat_map (fun nc : bytes * node => heads (snd nc)) cs
               | _ => []
               end.
Definition event_heads (evs : list event) : list node := map (fun e : event => head_of (snd e)) evs.
