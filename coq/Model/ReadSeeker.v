(* readseeker.go: IndexPos (NewIndexReadSeeker, findOffset, loadChunk, Seek, Read),
   nullchunk.go: NewNullChunk, mount-index.go: indexFileHandle.read.

   Positions and offsets are Go int64 values and are modelled in Z (Seek takes
   negative offsets); index rows carry uint64 Start/Size (N) and are converted
   at the sites where the Go code writes int64(...).  int64 overflow is not
   modelled (blob lengths and seek offsets are far below 2^62).

   The chunk store is a fault oracle [store : nat -> id -> sres] indexed by the
   number of GetChunk calls made so far; its answer stands for GetChunk followed
   by Chunk.Data().  Data() of a chunk without data is an error in the Go code
   ("no data in chunk"), which is part of [load_chunk] here. *)
From Coq Require Import List NArith ZArith Arith Bool Lia.
From DS Require Import Base.Bytes Base.Hash.
Import ListNotations.
Local Open Scope Z_scope.

Record row := mkrow { r_id : id; r_start : N; r_size : N }.   (* IndexChunk *)
Definition index := list row.
Definition row0 : row := mkrow 0%N 0%N 0%N.

(* int64(c.Start + c.Size) *)
Definition r_end (r : row) : Z := Z.of_N (r_start r + r_size r).

(* Index.Length *)
Definition idx_length (idx : index) : Z :=
  if (length idx <? 1)%nat then 0 else r_end (nth (length idx - 1) idx row0).

Inductive err :=
| EEOF            (* io.EOF *)
| EUnexpectedEOF  (* io.ErrUnexpectedEOF *)
| EWhence         (* "invalid whence" *)
| ENegative       (* "unable to seek before start of file" *)
| EEmptyBlob      (* "seek in an empty blob" *)
| EBeforeChunk    (* "seek found chunk beginning at position ..." *)
| EPastChunk      (* "seek found chunk ending at position ..." *)
| ENoData         (* Chunk.Data(): "no data in chunk" *)
| EStore (code : N).   (* error returned by the store (code chosen by the fault oracle) *)

Inductive sres := SData (d : bytes) | SFail (code : N).
(* Error values of a failing store.  Code [code_bare_eof] is the value io.EOF itself (a remote that went away);
   every other code is some other error value -- including one whose chain merely CONTAINS io.EOF
   (errors.Wrap(io.EOF, ...), what a StoreRouter makes of a store's io.EOF): [code_wrapped_eof]; it is != io.EOF. *)
Definition code_bare_eof : N := 4%N.
Definition code_wrapped_eof : N := 5%N.
Definition store_err (c : N) : err := if N.eqb c code_bare_eof then EEOF else EStore c.
(* what Read makes of a failed load: "if err == io.EOF { err = io.ErrUnexpectedEOF }" *)
Definition read_err (e : err) : err := match e with EEOF => EUnexpectedEOF | _ => e end.
Definition store_t := nat -> id -> sres.

(* Results of operations that may panic (index out of range) or, in the model only, run out of fuel. *)
Inductive out (A : Type) := Ret (a : A) | Panic | NoFuel.
Arguments Ret {A} a. Arguments Panic {A}. Arguments NoFuel {A}.

(* sort.Search(n, f): i, j := 0, n; for i < j { h := int(uint(i+j) >> 1); if !f(h) { i = h+1 } else { j = h } }; return i *)
Fixpoint go_search_loop (fuel : nat) (f : nat -> bool) (i j : nat) : option nat :=
  match fuel with
  | O => None
  | S fuel' =>
      if (i <? j)%nat then
        let h := Nat.div2 (i + j) in
        if f h then go_search_loop fuel' f i h else go_search_loop fuel' f (S h) j
      else Some i
  end.
Definition go_search (n : nat) (f : nat -> bool) : option nat := go_search_loop (S n) f 0%nat n.

(* NullChunk: (Data, ID) *)
Definition nullchunk := (bytes * id)%type.
Definition new_null_chunk (H : bytes -> id) (size : N) : nullchunk :=
  let b := repeat 0%N (N.to_nat size) in (b, H b).

Record ipos := mkpos {
  pos : Z;               (* ip.pos *)
  cur_id : id;           (* ip.curChunkID *)
  cur_chunk : bytes;     (* ip.curChunk; nil and empty are not distinguished by the code (len == 0) *)
  cur_idx : nat;         (* ip.curChunkIdx *)
  cur_off : Z;           (* ip.curChunkOffset *)
}.

(* NewIndexReadSeeker *)
Definition new_ipos (idx : index) : ipos :=
  mkpos 0 (match idx with r :: _ => r_id r | [] => 0%N end) [] 0%nat 0.

(* findOffset: returns the new state, the returned position and the error *)
Definition find_offset (idx : index) (s : ipos) (newPos : Z) : out (ipos * Z * option err) :=
  let delta := newPos - pos s in
  if delta =? 0 then Ret (s, pos s, None) else
  if (length idx =? 0)%nat then Ret (s, pos s, Some EEmptyBlob) else
  match nth_error idx (cur_idx s) with
  | None => Panic
  | Some cur =>
    if (0 <=? delta + cur_off s) && (delta + cur_off s <? Z.of_N (r_size cur)) then
      Ret (mkpos (pos s + delta) (cur_id s) (cur_chunk s) (cur_idx s) (cur_off s + delta), pos s + delta, None)
    else
      match go_search (length idx) (fun i => newPos <? r_end (nth i idx row0)) with
      | None => NoFuel
      | Some k0 =>
        let k := if (length idx <=? k0)%nat then (length idx - 1)%nat else k0 in
        match nth_error idx k with
        | None => Panic
        | Some nc =>
          if newPos <? Z.of_N (r_start nc) then Ret (s, pos s, Some EBeforeChunk) else
          if r_end nc <? newPos then Ret (s, pos s, Some EPastChunk) else
          let keep := if N.eqb (r_id nc) (cur_id s) then cur_chunk s else [] in
          Ret (mkpos newPos (r_id nc) keep k (newPos - Z.of_N (r_start nc)), newPos, None)
        end
      end
  end.

(* loadChunk; [calls] = number of GetChunk calls made so far *)
Definition load_chunk (store : store_t) (nc : nullchunk) (calls : nat) (s : ipos) : ipos * nat * option err :=
  if N.eqb (cur_id s) (snd nc) then
    (mkpos (pos s) (cur_id s) (fst nc) (cur_idx s) (cur_off s), calls, None)
  else
    match store calls (cur_id s) with
    | SFail c => (s, S calls, Some (store_err c))
    | SData d =>
        if (length d =? 0)%nat then (s, S calls, Some ENoData)
        else (mkpos (pos s) (cur_id s) d (cur_idx s) (cur_off s), S calls, None)
    end.

(* io.SeekStart, io.SeekCurrent, io.SeekEnd *)
Definition SeekStart := 0. Definition SeekCurrent := 1. Definition SeekEnd := 2.

(* Seek *)
Definition seek (idx : index) (s : ipos) (offset whence : Z) : out (ipos * Z * option err) :=
  let L := idx_length idx in
  match (if whence =? SeekStart then Some offset
         else if whence =? SeekCurrent then Some (pos s + offset)
         else if whence =? SeekEnd then Some (L + offset) else None) with
  | None => Ret (s, pos s, Some EWhence)
  | Some newPos =>
      if newPos <? 0 then Ret (s, pos s, Some ENegative) else
      match find_offset idx s newPos with
      | Ret (s', r, e) =>
          Ret (s', r, match e with None => if L <? newPos then Some EEOF else None | Some _ => e end)
      | Panic => Panic
      | NoFuel => NoFuel
      end
  end.

(* Read: the for loop.  [remaining] = len(remainingBytes), [acc] = bytes copied into p so far.
   Result: state, call counter, the bytes p[:n], err. *)
Fixpoint read_loop (fuel : nat) (store : store_t) (nc : nullchunk) (idx : index)
         (calls : nat) (s : ipos) (remaining : nat) (acc : bytes) : out (ipos * nat * bytes * option err) :=
  match fuel with
  | O => NoFuel
  | S fuel' =>
    if (remaining =? 0)%nat then Ret (s, calls, acc, None) else
    let '(s1, calls1, lerr) :=
      if (length (cur_chunk s) =? 0)%nat then load_chunk store nc calls s else (s, calls, None) in
    match lerr with
    | Some e => Ret (s1, calls1, acc, Some (read_err e))     (* a store's io.EOF is not the end of this stream *)
    | None =>
      if Z.of_nat (length (cur_chunk s1)) <? cur_off s1 then Panic       (* slice bounds out of range *)
      else if cur_off s1 <? 0 then Panic
      else
        let rem := skipn (Z.to_nat (cur_off s1)) (cur_chunk s1) in
        if (length rem =? 0)%nat && (Z.of_nat (cur_idx s1) =? Z.of_nat (length idx) - 1) then
          Ret (s1, calls1, acc, None)
        else
          let c := Nat.min remaining (length rem) in
          match seek idx s1 (Z.of_nat c) SeekCurrent with
          | Ret (s2, _, Some e) => Ret (s2, calls1, acc ++ firstn c rem, Some e)
          | Ret (s2, _, None) => read_loop fuel' store nc idx calls1 s2 (remaining - c)%nat (acc ++ firstn c rem)
          | Panic => Panic
          | NoFuel => NoFuel
          end
    end
  end.

Definition read (fuel : nat) (store : store_t) (nc : nullchunk) (idx : index)
           (calls : nat) (s : ipos) (plen : nat) : out (ipos * nat * bytes * option err) :=
  if pos s =? idx_length idx then Ret (s, calls, [], Some EEOF)
  else read_loop fuel store nc idx calls s plen [].

(* ---- histories of Seek / Read on one reader ---- *)
Inductive op := OSeek (offset whence : Z) | ORead (plen : nat).
Inductive opres :=
| RSeek (ret : Z) (e : option err)
| RRead (data : bytes) (e : option err)
| RPanic
| RNoFuel.

(* fuel that is always enough for a Read of plen bytes on a well-formed index (see read_fuel_enough) *)
Definition read_fuel (plen : nat) : nat := S plen.

Definition apply_op (store : store_t) (nc : nullchunk) (idx : index) (st : ipos * nat) (o : op)
  : (ipos * nat) * opres :=
  let '(s, calls) := st in
  match o with
  | OSeek off wh =>
      match seek idx s off wh with
      | Ret (s', r, e) => ((s', calls), RSeek r e)
      | Panic => (st, RPanic)
      | NoFuel => (st, RNoFuel)
      end
  | ORead plen =>
      match read (read_fuel plen) store nc idx calls s plen with
      | Ret (s', calls', d, e) => ((s', calls'), RRead d e)
      | Panic => (st, RPanic)
      | NoFuel => (st, RNoFuel)
      end
  end.

Fixpoint run_ops (store : store_t) (nc : nullchunk) (idx : index) (st : ipos * nat) (ops : list op)
  : (ipos * nat) * list opres :=
  match ops with
  | [] => (st, [])
  | o :: rest =>
      let '(st', r) := apply_op store nc idx st o in
      let '(st'', rs) := run_ops store nc idx st' rest in
      (st'', r :: rs)
  end.

(* ---- mount-index.go: indexFileHandle.read under the handle's mutex ---- *)
Inductive fres := FData (d : bytes) | FEIO | FPanic | FNoFuel.

Definition fuse_read (store : store_t) (nc : nullchunk) (idx : index) (st : ipos * nat) (off : Z) (len : nat)
  : (ipos * nat) * fres :=
  let '(s, calls) := st in
  match seek idx s off SeekStart with
  | Ret (s1, _, Some _) => ((s1, calls), FEIO)
  | Ret (s1, _, None) =>
      match read (read_fuel len) store nc idx calls s1 len with
      | Ret (s2, calls2, d, None) => ((s2, calls2), FData d)
      | Ret (s2, calls2, d, Some EEOF) => ((s2, calls2), FData d)
      | Ret (s2, calls2, d, Some _) => ((s2, calls2), FEIO)
      | Panic => ((s1, calls), FPanic)
      | NoFuel => ((s1, calls), FNoFuel)
      end
  | Panic => (st, FPanic)
  | NoFuel => (st, FNoFuel)
  end.

(* Any number of open handles on one mount: every handle has its own IndexPos, the store
   (and so the call counter of the fault oracle) is shared.  A request names its handle. *)
Definition fuse_state := (list ipos * nat)%type.

Fixpoint set_nth {A} (l : list A) (i : nat) (x : A) : list A :=
  match l, i with
  | [], _ => []
  | _ :: r, O => x :: r
  | y :: r, S i => y :: set_nth r i x
  end.

Definition fuse_req (store : store_t) (nc : nullchunk) (idx : index) (fs : fuse_state)
           (rq : nat * Z * nat) : fuse_state * option fres :=
  let '(h, off, len) := rq in
  match nth_error (fst fs) h with
  | None => (fs, None)                                      (* no such handle *)
  | Some s =>
      let '((s', calls'), r) := fuse_read store nc idx (s, snd fs) off len in
      ((set_nth (fst fs) h s', calls'), Some r)
  end.

Fixpoint fuse_run (store : store_t) (nc : nullchunk) (idx : index) (fs : fuse_state)
         (rqs : list (nat * Z * nat)) : fuse_state * list (option fres) :=
  match rqs with
  | [] => (fs, [])
  | rq :: rest =>
      let '(fs', r) := fuse_req store nc idx fs rq in
      let '(fs'', rs) := fuse_run store nc idx fs' rest in
      (fs'', r :: rs)
  end.

(* Open() n times *)
Definition fuse_open (idx : index) (n : nat) : fuse_state := (repeat (new_ipos idx) n, 0%nat).

(* ---- specification vocabulary (used by the theorem statements) ---- *)

(* Rows are consecutive, start at [st], and none is empty (a chunker never emits an empty chunk). *)
Fixpoint tiles_from (st : N) (idx : index) : Prop :=
  match idx with
  | [] => True
  | r :: rest => r_start r = st /\ (0 < r_size r)%N /\ tiles_from (st + r_size r) rest
  end.
Fixpoint end_from (st : N) (idx : index) : N :=
  match idx with [] => st | r :: rest => end_from (st + r_size r) rest end.

Definition chunk_of (blob : bytes) (r : row) : bytes :=
  slice blob (N.to_nat (r_start r)) (N.to_nat (r_size r)).

(* The index describes the blob: the rows tile [0, |blob|) and every row's ID is the digest of its range. *)
Definition index_describes (H : bytes -> id) (idx : index) (blob : bytes) : Prop :=
  tiles_from 0 idx /\ end_from 0 idx = N.of_nat (length blob) /\
  Forall (fun r => H (chunk_of blob r) = r_id r) idx.

(* Whatever the store returns for an ID hashes to that ID (stores verify; C03). It may fail at any call. *)
Definition store_sound (H : bytes -> id) (store : store_t) : Prop :=
  forall k i d, store k i = SData d -> H d = i.

(* The consistency invariant of an IndexPos over index [idx]. *)
Definition ipos_ok (H : bytes -> id) (idx : index) (s : ipos) : Prop :=
  (cur_chunk s = [] \/ H (cur_chunk s) = cur_id s) /\
  match idx with
  | [] => s = new_ipos []
  | _ => exists r, nth_error idx (cur_idx s) = Some r /\ cur_id s = r_id r /\
                   pos s = Z.of_N (r_start r) + cur_off s /\
                   0 <= cur_off s <= Z.of_N (r_size r) /\
                   (cur_off s < Z.of_N (r_size r) \/ pos s = idx_length idx)
  end.

(* The absolute position a Seek(offset, whence) asks for (None: invalid whence). *)
Definition seek_target (idx : index) (s : ipos) (offset whence : Z) : option Z :=
  if whence =? SeekStart then Some offset
  else if whence =? SeekCurrent then Some (pos s + offset)
  else if whence =? SeekEnd then Some (idx_length idx + offset) else None.

(* sort.Search's contract: the predicate is monotone on [0,n). *)
Definition mono_upto (n : nat) (f : nat -> bool) : Prop :=
  forall a b, (a <= b)%nat -> (b < n)%nat -> f a = true -> f b = true.

(* What a Read of [plen] bytes issued at position [p] (with [calls] store calls made before it) must return. *)
Definition read_post (H : bytes -> id) (blob : bytes) (store : store_t) (calls : nat) (p : Z) (plen : nat)
           (r : out (ipos * nat * bytes * option err)) : Prop :=
  let L := Z.of_nat (length blob) in
  match r with
  | Ret (s', calls', d, e) =>
      d = slice blob (Z.to_nat p) (length d) /\ pos s' = p + Z.of_nat (length d) /\ (calls <= calls')%nat /\
      match e with
      | None => p < L /\ Z.of_nat (length d) = Z.min (Z.of_nat plen) (L - p)
      | Some EEOF => p = L /\ d = []
      | Some x => p < L /\ exists c k i, x = read_err (store_err c) /\ (calls <= k < calls')%nat /\ store k i = SFail c
      end
  | _ => False
  end.

(* What a Seek must return: the target position when it lies in [0, L], otherwise an error (never io.EOF) and an unchanged position. *)
Definition seek_post (idx : index) (L : Z) (s : ipos) (off wh : Z) (r : out (ipos * Z * option err)) : Prop :=
  match r with
  | Ret (s', ret, e) =>
      match seek_target idx s off wh with
      | None => pos s' = pos s /\ ret = pos s /\ e = Some EWhence
      | Some t => (0 <= t <= L /\ e = None /\ ret = t /\ pos s' = t) \/
                  ((t < 0 \/ L < t) /\ pos s' = pos s /\ ret = pos s /\ exists x, e = Some x /\ x <> EEOF)
      end
  | _ => False
  end.

(* Results on the empty index: every Read is (0, EOF); Seek succeeds exactly for target 0. *)
Definition empty_res_ok (o : op) (r : opres) : Prop :=
  match o, r with
  | ORead _, RRead d e => d = [] /\ e = Some EEOF
  | OSeek off wh, RSeek ret e =>
      ret = 0 /\ (e = None <-> seek_target [] (new_ipos []) off wh = Some 0)
  | _, _ => False
  end.

(* What a FUSE read (off, len) must answer: the blob's bytes, or EIO only for an offset outside the blob or a store failure
   during this request. *)
Definition fuse_post (blob : bytes) (store : store_t) (calls calls' : nat) (off : Z) (len : nat) (r : fres) : Prop :=
  let L := Z.of_nat (length blob) in
  (calls <= calls')%nat /\
  match r with
  | FData d => 0 <= off <= L /\ d = slice blob (Z.to_nat off) (length d) /\
               Z.of_nat (length d) = Z.min (Z.of_nat len) (L - off)
  | FEIO => off < 0 \/ L < off \/ exists c k i, (calls <= k < calls')%nat /\ store k i = SFail c
  | FPanic | FNoFuel => False
  end.

(* ---- overlapping requests on different handles ----
   One handle as seen from that handle: its own requests run one after the other (the handle's mutex), and the
   handle shares nothing with the other handles but the store.  Requests of other handles that overlap in time
   therefore change only WHICH store answers (which global call numbers) this handle's GetChunk calls receive.
   A request is given here together with the store answers it sees: [(store view, first call number, off, len)];
   the views of different requests are unrelated, which covers every interleaving with any number of other handles. *)
Fixpoint handle_run (nc : nullchunk) (idx : index) (s : ipos) (rqs : list (store_t * nat * Z * nat))
  : ipos * list fres :=
  match rqs with
  | [] => (s, [])
  | (st, calls, off, len) :: rest =>
      let '((s', _), r) := fuse_read st nc idx (s, calls) off len in
      let '(s'', rs) := handle_run nc idx s' rest in
      (s'', r :: rs)
  end.

(* ---- concurrent requests on ONE handle ----
   indexFileHandle.read holds the handle's mutex from before the Seek until after the Read: requests that arrive on a
   handle while another one is under way (kernel read-ahead) wait, and are served one at a time in whatever order the
   mutex lets them in -- some permutation of the arrival order.  [fuse_run] takes the requests in the order in which they
   are served; [fuse_answer_ok] is what each answer must be whatever that order is. *)
Definition fuse_answer_ok (blob : bytes) (store : store_t) (n : nat) (rq : nat * Z * nat) (r : option fres) : Prop :=
  let '(h, off, len) := rq in
  let L := Z.of_nat (length blob) in
  match r with
  | None => (n <= h)%nat
  | Some (FData d) => 0 <= off <= L /\ d = slice blob (Z.to_nat off) (length d) /\
                      Z.of_nat (length d) = Z.min (Z.of_nat len) (L - off)
  | Some FEIO => off < 0 \/ L < off \/ exists c k i, store k i = SFail c
  | Some _ => False
  end.
