(* assemble.go: AssembleFile's worker pool at the level the safety argument needs.

   The index is a list of (id, size) rows; row i owns the byte range
   [start i, start i + size i) of the target file.  The plan partitions the rows
   into jobs (consecutive segments); a job is executed by one worker.  What the
   Go code does to the file is abstracted into EVENTS, each with the guard the
   code establishes before performing it:

   EWrite j off data   job j's source.WriteInto (seed copy, clone, null section):
                       ARBITRARY bytes (stale/corrupted/changing/self-aliasing seed:
                       whatever was read) written INSIDE job j's own range
                       (confinement: Model/Clone.v for the clone arithmetic; io.CopyN
                       of exactly `length` bytes for plain copies);
   EValidate j i       the post-write re-hash of chunk i of job j succeeded
                       (f.ReadAt + Digest.Sum == c.ID in the worker loop);
   EInPlace j i        writeChunk: existing data of chunk i hashes to its id;
   EStore j i b        writeChunk: chunk from the store (the caller guarantees
                       H b = id i via C03 and the size check) written at its place;
   ESelfCopy j i src   writeChunk: selfSeed.getChunk gave position src with the same
                       id, src belongs to a FINISHED job; its bytes are copied;
   EFinish j           all chunks of job j validated: ss.add(segment).

   A schedule is any list of events; disabled events are stutters.  Interleaving of
   N workers, the number of workers, the plan, seed contents and timing are all
   inside "any list of events". *)
From Coq Require Import List NArith Arith Bool Lia.
From DS Require Import Base.Bytes Base.Hash.
Import ListNotations.

Definition index := list (id * nat).      (* (id, size); starts are cumulative *)

Fixpoint start_of (idx : index) (i : nat) : nat :=
  match i, idx with
  | 0, _ => 0
  | S i', r :: rest => snd r + start_of rest i'
  | S _, [] => 0
  end.
Definition size_of (idx : index) (i : nat) : nat := snd (nth i idx (0%N, 0)).
Definition id_of (idx : index) (i : nat) : id := fst (nth i idx (0%N, 0)).

(* overwrite [data] at [off]; the file has a fixed length (it was truncated to the index length) *)
Definition write_at (file : bytes) (off : nat) (data : bytes) : bytes :=
  firstn off file ++ firstn (length file - off) data ++ skipn (off + length data) file.

Inductive jstate := JIdle | JRunning (validated : list nat) | JFinished.

Record astate := {
  a_file : bytes;
  a_jobs : list jstate;          (* one per job of the plan *)
}.

Inductive event :=
| EStart (j : nat)
| EWrite (j : nat) (off : nat) (data : bytes)
| EValidate (j i : nat)
| EInPlace (j i : nat)
| EStore (j i : nat) (b : bytes)
| ESelfCopy (j i src : nat)
| EFinish (j : nat).

Section Assemble.
  Variable H : bytes -> id.
  Variable idx : index.
  (* the plan: job j covers rows [jfirst j, jlast j] *)
  Variable plan : list (nat * nat).

  Definition jfirst (j : nat) : nat := fst (nth j plan (0, 0)).
  Definition jlast (j : nat) : nat := snd (nth j plan (0, 0)).
  Definition in_job (j i : nat) : bool := (jfirst j <=? i) && (i <=? jlast j).
  Definition job_lo (j : nat) : nat := start_of idx (jfirst j).
  Definition job_hi (j : nat) : nat := start_of idx (jlast j) + size_of idx (jlast j).

  (* which job owns row i *)
  Fixpoint owner_from (j : nat) (pl : list (nat * nat)) (i : nat) : option nat :=
    match pl with
    | [] => None
    | (f, l) :: rest => if (f <=? i) && (i <=? l) then Some j else owner_from (S j) rest i
    end.
  Definition owner (i : nat) : option nat := owner_from 0 plan i.

  Fixpoint set_nth {A} (l : list A) (i : nat) (x : A) : list A :=
    match l, i with
    | [], _ => []
    | _ :: r, 0 => x :: r
    | y :: r, S i => y :: set_nth r i x
    end.

  Definition chunk_ok (file : bytes) (i : nat) : bool :=
    N.eqb (H (slice file (start_of idx i) (size_of idx i))) (id_of idx i).

  Definition job_state (s : astate) (j : nat) : jstate := nth j (a_jobs s) JIdle.
  Definition set_job (s : astate) (j : nat) (st : jstate) (file : bytes) : astate :=
    {| a_file := file; a_jobs := set_nth (a_jobs s) j st |}.

  Definition finished (s : astate) (i : nat) : bool :=
    match owner i with
    | Some j => match job_state s j with JFinished => true | _ => false end
    | None => false
    end.

  Definition rows_of_job (j : nat) : list nat := seq (jfirst j) (S (jlast j) - jfirst j).

  Definition step (s : astate) (e : event) : option astate :=
    match e with
    | EStart j =>
        match job_state s j with
        | JIdle => if j <? length plan then Some (set_job s j (JRunning []) (a_file s)) else None
        | _ => None
        end
    | EWrite j off data =>
        match job_state s j with
        | JRunning _ =>
            (* confinement: the written bytes lie inside job j's range *)
            if (job_lo j <=? off) && (off + length data <=? job_hi j) && (job_hi j <=? length (a_file s))
            then Some (set_job s j (JRunning []) (write_at (a_file s) off data))
            else None
        | _ => None
        end
    | EValidate j i =>
        match job_state s j with
        | JRunning v => if in_job j i && chunk_ok (a_file s) i
                        then Some (set_job s j (JRunning (i :: v)) (a_file s)) else None
        | _ => None
        end
    | EInPlace j i =>
        match job_state s j with
        | JRunning v => if in_job j i && chunk_ok (a_file s) i
                        then Some (set_job s j (JRunning (i :: v)) (a_file s)) else None
        | _ => None
        end
    | EStore j i b =>
        match job_state s j with
        | JRunning v =>
            if in_job j i && N.eqb (H b) (id_of idx i) && (length b =? size_of idx i)
               && (start_of idx i + size_of idx i <=? length (a_file s))
            then Some (set_job s j (JRunning (i :: v)) (write_at (a_file s) (start_of idx i) b))
            else None
        | _ => None
        end
    | ESelfCopy j i src =>
        match job_state s j with
        | JRunning v =>
            if in_job j i && finished s src && N.eqb (id_of idx src) (id_of idx i)
               && (size_of idx src =? size_of idx i)
               && (start_of idx i + size_of idx i <=? length (a_file s))
               && (start_of idx src + size_of idx src <=? length (a_file s))
            then Some (set_job s j (JRunning (i :: v))
                         (write_at (a_file s) (start_of idx i)
                            (slice (a_file s) (start_of idx src) (size_of idx src))))
            else None
        | _ => None
        end
    | EFinish j =>
        match job_state s j with
        | JRunning v => if forallb (fun i => existsb (Nat.eqb i) v) (rows_of_job j)
                        then Some (set_job s j JFinished (a_file s)) else None
        | _ => None
        end
    end.

  Definition init (file : bytes) : astate :=
    {| a_file := file; a_jobs := repeat JIdle (length plan) |}.

  Definition all_finished (s : astate) : bool :=
    forallb (fun st => match st with JFinished => true | _ => false end) (a_jobs s).

  (* the plan tiles the rows: consecutive, non-empty segments covering 0..n-1 *)
  Fixpoint plan_tiles_from (k : nat) (pl : list (nat * nat)) : Prop :=
    match pl with
    | [] => k = length idx
    | (f, l) :: rest => f = k /\ f <= l /\ plan_tiles_from (S l) rest
    end.
  Definition plan_ok : Prop := plan_tiles_from 0 plan.
End Assemble.
