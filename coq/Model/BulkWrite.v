(* C06 (and the cancellation half of C07 for the same functions): the bulk
   writers ChopFile (chop.go), Copy (copy.go) and ChunkStream (index.go) with
   their EFFECTS on the target store and on ChunkStorage.processed
   (chunkstorage.go), as one interleaving system.

   Skeleton (identical in the three functions, same as Model/Pool.v):

     in := make(chan job); g, ctx := errgroup.WithContext(ctx)
     n x g.Go(for j := range in { if err := body(j) { return err } }; return nil)
     for each job { select { <-ctx.Done(): interrupted = true; break; in <- job } }
     close(in); if err := g.Wait(); err != nil { return err }
     if interrupted { return Interrupted{} }; return nil

   Bodies (one atomic step per line where another goroutine can interleave):

     chop:    chunk, err := readChunkFromFile(f, c)      -- local; NewChunkWithID checks H(bytes) = c.ID
              s.StoreChunk(chunk)                          -- ChunkStorage, below
     stream:  chunk := NewChunk(c.b); recordResult(num, IndexChunk{.., ID: chunk.ID()})
              s.StoreChunk(chunk)
     copy:    dst.HasChunk(id)  -> err | present: next job | absent:
              src.GetChunk(id)  -> err |
              dst.StoreChunk(chunk)

     ChunkStorage.StoreChunk:
              if s.markProcessed(id) { return nil }        -- atomic under the mutex
              has, err := s.ws.HasChunk(id); if err != nil || has { return err }   -- id stays marked on error
              err = s.ws.StoreChunk(chunk)
              if err != nil { s.unmarkProcessed(id) }      -- deferred
              return err

   A worker whose body returned an error returns it to the errgroup in a
   separate step (first error recorded, context cancelled).
   Store faults come from an oracle [fault kind n]: does the n-th call (0-based,
   counted per kind over the whole run) of HasChunk / StoreChunk / GetChunk fail. *)
From Coq Require Import List NArith Arith Bool Lia.
From DS Require Import Base.Bytes Base.Hash Base.Sched Model.Pool.
Import ListNotations.

Inductive bmode := MChop | MCopy | MStream.
Inductive op_kind := OpHas | OpStore | OpGet.

Inductive bpc :=
| BIdle                 (* at `range in` *)
| BExited               (* goroutine returned *)
| BGot (k : nat)        (* received job k, body not started *)
| BMark (k : nat)       (* entered ChunkStorage.StoreChunk: before markProcessed *)
| BHas (k : nat)        (* marked the id (owner): before ws.HasChunk *)
| BStore (k : nat)      (* before ws.StoreChunk *)
| BUnmark (k : nat)     (* ws.StoreChunk failed: deferred unmarkProcessed pending *)
| BGet (k : nat)        (* copy: before src.GetChunk *)
| BErr (k : nat).       (* body returned an error; about to return it to the errgroup *)

Inductive btid := BFeeder | BWorker (i : nat) | BCancel.

Definition store := list (id * bytes).

Record bstate := mkB {
  b_fed : nat;                (* jobs handed out so far *)
  b_feeder : fstate;
  b_cancelled : bool;         (* ctx.Done() is closed *)
  b_ext : bool;               (* the parent context was cancelled *)
  b_failed : bool;            (* errgroup recorded a first error *)
  b_workers : list bpc;
  b_done : list nat;          (* jobs whose body returned nil *)
  b_proc : list id;           (* ChunkStorage.processed *)
  b_store : store;            (* the target store *)
  b_rows : list (nat * id);   (* ChunkStream: results[num] *)
  b_nhas : nat; b_nstore : nat; b_nget : nat;   (* calls made so far, per kind *)
  b_hits : nat;               (* ghost: injected faults delivered to a worker *)
}.

Definition lookup (st : store) (i : id) : option bytes :=
  match find (fun p => N.eqb (fst p) i) st with Some p => Some (snd p) | None => None end.
Definition has (st : store) (i : id) : bool :=
  match lookup st i with Some _ => true | None => false end.
Definition memN (i : id) (l : list id) : bool := existsb (N.eqb i) l.
Definition delN (i : id) (l : list id) : list id := filter (fun x => negb (N.eqb x i)) l.

Section BulkWrite.
  Variable H : bytes -> id.
  Variable mode : bmode.
  Variable jobs : list (id * bytes).
  Variable src : id -> option bytes.
  Variable fault : op_kind -> nat -> bool.
  Variable can_cancel : bool.
  Variable store0 : store.

  (* chop:   jobs = the index rows: (row id, bytes of the file at the row's range)
     stream: jobs = the chunks cut by the chunker: (ignored, chunk bytes)
     copy:   jobs = the ids: (id, ignored); the bytes come from [src] *)
  Definition njobs : nat := length jobs.
  Definition jdata (k : nat) : bytes := snd (nth k jobs (0%N, [])).
  Definition jid (k : nat) : id :=
    match mode with
    | MStream => H (jdata k)
    | _ => fst (nth k jobs (0%N, []))
    end.
  (* the chunk object handed to ws.StoreChunk *)
  Definition jbytes (k : nat) : option bytes :=
    match mode with
    | MCopy => src (jid k)
    | _ => Some (jdata k)
    end.

  Definition binit (nw : nat) : bstate :=
    mkB 0 Feeding false false false (repeat BIdle nw) [] [] store0 [] 0 0 0 0.

  (* --- field updates --- *)
  Definition set_w (s : bstate) (i : nat) (w : bpc) : bstate :=
    mkB (b_fed s) (b_feeder s) (b_cancelled s) (b_ext s) (b_failed s) (set_nth (b_workers s) i w)
        (b_done s) (b_proc s) (b_store s) (b_rows s) (b_nhas s) (b_nstore s) (b_nget s) (b_hits s).
  Definition add_done (s : bstate) (k : nat) : bstate :=
    mkB (b_fed s) (b_feeder s) (b_cancelled s) (b_ext s) (b_failed s) (b_workers s)
        (k :: b_done s) (b_proc s) (b_store s) (b_rows s) (b_nhas s) (b_nstore s) (b_nget s) (b_hits s).
  Definition set_proc (s : bstate) (p : list id) : bstate :=
    mkB (b_fed s) (b_feeder s) (b_cancelled s) (b_ext s) (b_failed s) (b_workers s)
        (b_done s) p (b_store s) (b_rows s) (b_nhas s) (b_nstore s) (b_nget s) (b_hits s).
  Definition add_store (s : bstate) (i : id) (b : bytes) : bstate :=
    mkB (b_fed s) (b_feeder s) (b_cancelled s) (b_ext s) (b_failed s) (b_workers s)
        (b_done s) (b_proc s) ((i, b) :: b_store s) (b_rows s) (b_nhas s) (b_nstore s) (b_nget s) (b_hits s).
  Definition add_row (s : bstate) (k : nat) (i : id) : bstate :=
    mkB (b_fed s) (b_feeder s) (b_cancelled s) (b_ext s) (b_failed s) (b_workers s)
        (b_done s) (b_proc s) (b_store s) ((k, i) :: b_rows s) (b_nhas s) (b_nstore s) (b_nget s) (b_hits s).
  (* one more call of a kind; [hit]: the oracle made it fail *)
  Definition count (s : bstate) (o : op_kind) (hit : bool) : bstate :=
    mkB (b_fed s) (b_feeder s) (b_cancelled s) (b_ext s) (b_failed s) (b_workers s)
        (b_done s) (b_proc s) (b_store s) (b_rows s)
        (match o with OpHas => S (b_nhas s) | _ => b_nhas s end)
        (match o with OpStore => S (b_nstore s) | _ => b_nstore s end)
        (match o with OpGet => S (b_nget s) | _ => b_nget s end)
        (if hit then S (b_hits s) else b_hits s).
  Definition ncalls (s : bstate) (o : op_kind) : nat :=
    match o with OpHas => b_nhas s | OpStore => b_nstore s | OpGet => b_nget s end.
  Definition set_pool (s : bstate) (fed : nat) (f : fstate) (c e fl : bool) : bstate :=
    mkB fed f c e fl (b_workers s)
        (b_done s) (b_proc s) (b_store s) (b_rows s) (b_nhas s) (b_nstore s) (b_nget s) (b_hits s).

  (* --- one step of worker i standing at program point w --- *)
  Definition worker_step (s : bstate) (i : nat) (w : bpc) : option bstate :=
    match w with
    | BIdle =>
        match b_feeder s with
        | Feeding =>
            if b_fed s <? njobs then             (* rendezvous: in <- job / range in *)
              Some (set_w (set_pool s (S (b_fed s)) Feeding (b_cancelled s) (b_ext s) (b_failed s)) i (BGot (b_fed s)))
            else None
        | Stopped _ => Some (set_w s i BExited)   (* channel closed: return nil *)
        end
    | BExited => None
    | BGot k =>
        match mode with
        | MChop =>                                (* readChunkFromFile: NewChunkWithID(c.ID, b, false) *)
            if N.eqb (H (jdata k)) (jid k) then Some (set_w s i (BMark k)) else Some (set_w s i (BErr k))
        | MStream =>                              (* NewChunk; recordResult(num, row) *)
            Some (set_w (add_row s k (jid k)) i (BMark k))
        | MCopy =>                                (* dst.HasChunk(id) *)
            if fault OpHas (b_nhas s) then Some (set_w (count s OpHas true) i (BErr k))
            else if has (b_store s) (jid k) then Some (set_w (add_done (count s OpHas false) k) i BIdle)
            else Some (set_w (count s OpHas false) i (BGet k))
        end
    | BMark k =>                                  (* markProcessed *)
        if memN (jid k) (b_proc s) then Some (set_w (add_done s k) i BIdle)
        else Some (set_w (set_proc s (jid k :: b_proc s)) i (BHas k))
    | BHas k =>                                   (* s.ws.HasChunk *)
        if fault OpHas (b_nhas s) then Some (set_w (count s OpHas true) i (BErr k))
        else if has (b_store s) (jid k) then Some (set_w (add_done (count s OpHas false) k) i BIdle)
        else Some (set_w (count s OpHas false) i (BStore k))
    | BStore k =>                                 (* ws.StoreChunk *)
        if fault OpStore (b_nstore s) then
          Some (set_w (count s OpStore true) i (match mode with MCopy => BErr k | _ => BUnmark k end))
        else match jbytes k with
             | Some b => Some (set_w (add_done (add_store (count s OpStore false) (jid k) b) k) i BIdle)
             | None => Some (set_w (count s OpStore false) i (BErr k))     (* unreachable: BStore is entered with a chunk *)
             end
    | BUnmark k =>                                (* deferred unmarkProcessed *)
        Some (set_w (set_proc s (delN (jid k) (b_proc s))) i (BErr k))
    | BGet k =>                                   (* src.GetChunk *)
        if fault OpGet (b_nget s) then Some (set_w (count s OpGet true) i (BErr k))
        else match src (jid k) with
             | Some _ => Some (set_w (count s OpGet false) i (BStore k))
             | None => Some (set_w (count s OpGet false) i (BErr k))        (* ChunkMissing *)
             end
    | BErr k =>                                   (* return err: errgroup records it, cancels ctx *)
        Some (set_w (set_pool s (b_fed s) (b_feeder s) true (b_ext s) true) i BExited)
    end.

  Definition bstep (s : bstate) (t : btid) : option bstate :=
    match t with
    | BFeeder =>
        match b_feeder s with
        | Feeding =>
            if b_fed s =? njobs then Some (set_pool s (b_fed s) (Stopped false) (b_cancelled s) (b_ext s) (b_failed s))
            else if b_cancelled s then Some (set_pool s (b_fed s) (Stopped true) (b_cancelled s) (b_ext s) (b_failed s))
            else None
        | Stopped _ => None
        end
    | BWorker i =>
        match nth_error (b_workers s) i with
        | Some w => worker_step s i w
        | None => None
        end
    | BCancel =>
        if can_cancel && negb (b_ext s) then Some (set_pool s (b_fed s) (b_feeder s) true true (b_failed s))
        else None
    end.

  Definition ball_exited (s : bstate) : bool :=
    forallb (fun w => match w with BExited => true | _ => false end) (b_workers s).
  Definition bfinal (s : bstate) : bool :=
    match b_feeder s with Stopped _ => ball_exited s | Feeding => false end.

  (* what ChopFile / Copy / ChunkStream return once g.Wait() has returned *)
  Definition bulk_result (s : bstate) : result :=
    if b_failed s then RErr
    else match b_feeder s with Stopped true => RInterrupted | _ => RNil end.
  (* ... and what they returned before the fix (no interrupted flag) *)
  Definition bulk_result_prefix (s : bstate) : result :=
    if b_failed s then RErr else RNil.

  (* ChunkStream: the index rows assembled from results[0..len) after a nil result *)
  Definition row_of (s : bstate) (k : nat) : option id :=
    match find (fun p => fst p =? k) (b_rows s) with Some p => Some (snd p) | None => None end.
  Definition stream_index (s : bstate) : list (option id) := map (row_of s) (seq 0 njobs).

  (* --- a deterministic scheduler (round robin, first enabled thread) for the oracle:
         with one worker the result does not depend on the schedule --- *)
  Fixpoint first_enabled (s : bstate) (ts : list btid) : option bstate :=
    match ts with
    | [] => None
    | t :: r => match bstep s t with Some s' => Some s' | None => first_enabled s r end
    end.
  Fixpoint run_rr (fuel : nat) (nw : nat) (s : bstate) : bstate :=
    match fuel with
    | O => s
    | S f => match first_enabled s (map BWorker (seq 0 nw) ++ [BFeeder]) with
             | Some s' => run_rr f nw s'
             | None => s
             end
    end.
End BulkWrite.

(* ChunkStorage.StoreChunk run to completion with no other call in flight (the steps
   BMark / BHas / BStore / BUnmark of one worker composed): result (true = nil), new
   processed set, new store.  [fail_has] / [fail_store]: the ws call fails. *)
Definition cs_store_seq (proc : list id) (st : store) (i : id) (b : bytes) (fail_has fail_store : bool)
  : bool * list id * store :=
  if memN i proc then (true, proc, st)
  else
    let proc' := i :: proc in
    if fail_has then (false, proc', st)                       (* the id stays marked *)
    else if has st i then (true, proc', st)
    else if fail_store then (false, delN i proc', st)         (* deferred unmarkProcessed *)
    else (true, proc', (i, b) :: st).
