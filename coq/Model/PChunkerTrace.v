(* Trace validation for make.go: every execution of the instrumented Go code (build tag verif)
   records the linearized sequence of its channel operations; [replay] maps that sequence onto
   steps of Model/PChunker.v and fails if the model cannot do what the code did.

   Go events (recorded under one global lock around each non-blocking channel operation, so the
   recorded order is the order in which they took effect; worker = index of the pChunker whose
   offset is span*i):
     GSend i c      worker i:  c.results <- chunk            (also each synthetic null chunk)
     GRecv i j v    worker i inside worker j's syncWith:  c.sync, ok = <-c.results  with ok
     GEmpty i j     the same receive finding the bucket empty or closed
     GSkip i yes    worker i's neighbour-skip test and its outcome
     GExit i        worker i: close(c.done)  (deferred stop(); later calls of stop are not events)
     GTake k v      collector: a chunk received from worker k's bucket and appended
     GMove k        collector: bucket k drained and closed, not covered yet: next worker
     GStop k        collector: bucket k drained and closed, index covers the file: break

   Model steps without a Go event ("local": the in-sync test when it does not end the worker,
   After with nothing left to emit) are taken silently before the next event of that worker. *)
From Coq Require Import List NArith Arith Bool Lia.
From DS Require Import Base.Bytes Base.Hash Base.Sched Model.Chunker Model.PChunker.
Import ListNotations.

Inductive gev :=
| GSend (i : nat) (c : chunk)
| GRecv (i j : nat) (v : chunk)
| GEmpty (i j : nat)
| GSkip (i : nat) (yes : bool)
| GExit (i : nat)
| GTake (k : nat) (v : chunk)
| GMove (k : nat)
| GStop (k : nat).

Inductive lab := LLocal | LSend (c : chunk) | LRecv (j : nat) (v : chunk) | LEmpty (j : nat)
               | LSkip (yes : bool) | LExit | LNone.

Definition chunk_eqb (a b : chunk) : bool := (fst a =? fst b) && (snd a =? snd b).

Definition lab_eqb (a b : lab) : bool :=
  match a, b with
  | LLocal, LLocal | LExit, LExit | LNone, LNone => true
  | LSend c, LSend c' => chunk_eqb c c'
  | LRecv j v, LRecv j' v' => (j =? j') && chunk_eqb v v'
  | LEmpty j, LEmpty j' => j =? j'
  | LSkip y, LSkip y' => Bool.eqb y y'
  | _, _ => false
  end.

Section Trace.
  Variable H : bytes -> id.
  Variables (min max : nat) (d : N).
  Variable data : bytes.

  Notation step_worker := (step_worker H min max d data).
  Notation step_collector := (step_collector data false).
  Notation pstep := (pstep H min max d data false).

  (* what the step worker i is about to take does, as seen from outside *)
  Definition label_worker (s : pstate) (i : nat) : lab :=
    let w := getw s i in
    if negb (i <? nworkers s) then LNone else
    match w_pc w with
    | Exited => LNone
    | Top => match next_chunk min max d data (w_pos w) with None => LExit | Some c => LSend c end
    | SyncLoop c prev =>
        let j := w_next w in
        let b := getw s j in
        if sync_start (w_sync b) <? c_start c then
          match bucket_head b with Some v => LRecv j v | None => LEmpty j end
        else
          match w_sync b with
          | Some m => if (c_start c =? c_start m) && (c_size c =? c_size m) then LExit else LLocal
          | None => if (c_start c =? 0) && (c_size c =? 0) then LExit else LLocal
          end
    | NullLoop c n =>
        let j := w_next w in
        match bucket_head (getw s j) with Some v => LRecv j v | None => LEmpty j end
    | After c n => if n <? max then LLocal else LSend (c_end c, max)
    | Skip =>
        let j := w_next w in
        let b := getw s j in
        LSkip ((j <? nworkers s) && negb (w_active b) && (length (w_emit b) <=? w_cons b))
    end.

  (* take worker i's local steps; its first non-local step must be the one the code reported *)
  Fixpoint catchup (fuel : nat) (s : pstate) (i : nat) (want : lab) : option pstate :=
    match fuel with
    | 0 => None
    | S f =>
        let l := label_worker s i in
        match step_worker s i with
        | None => None
        | Some s' =>
            match l with
            | LLocal => catchup f s' i want
            | _ => if lab_eqb l want then Some s' else None
            end
        end
    end.

  Definition lab_of (e : gev) : option (nat * lab) :=
    match e with
    | GSend i c => Some (i, LSend c)
    | GRecv i j v => Some (i, LRecv j v)
    | GEmpty i j => Some (i, LEmpty j)
    | GSkip i y => Some (i, LSkip y)
    | GExit i => Some (i, LExit)
    | _ => None
    end.

  Definition apply_ev (s : pstate) (e : gev) : option pstate :=
    match lab_of e with
    | Some (i, l) => catchup 4 s i l
    | None =>
        let c := p_c s in
        match e with
        | GTake k v =>
            if (k_cur c =? k) && (match bucket_head (getw s k) with Some v' => chunk_eqb v v' | None => false end)
            then step_collector s else None
        | GMove k =>
            match step_collector s with
            | Some s' => if (k_cur c =? k) && (k_cur (p_c s') =? S k) && negb (k_done (p_c s'))
                            && (length (k_out (p_c s')) =? length (k_out c)) then Some s' else None
            | None => None
            end
        | GStop k =>
            match step_collector s with
            | Some s' => if (k_cur c =? k) && k_done (p_c s') && (k_cur c <? nworkers s) then Some s' else None
            | None => None
            end
        | _ => None
        end
    end.

  (* replay a whole trace; on failure report the position of the event the model could not follow *)
  Fixpoint replay (pos : nat) (evs : list gev) (s : pstate) : pstate + nat :=
    match evs with
    | [] => inl s
    | e :: r => match apply_ev s e with Some s' => replay (S pos) r s' | None => inr pos end
    end.

  (* after the last event: moving past the last worker makes the collector stop *)
  Definition finish (s : pstate) : pstate :=
    if k_done (p_c s) then s else
    if negb (k_cur (p_c s) <? nworkers s) then match step_collector s with Some s' => s' | None => s end else s.
End Trace.
