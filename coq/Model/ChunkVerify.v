(* C03 -- what BYTES can come out of a store stack.

   Executable model of chunk.go, coverter.go, the GetChunk glue of every
   backend (local.go, remotehttp.go, s3.go, sftp.go, gcs.go, protocol.go /
   remotessh.go + protocolserver.go, httphandler.go), the wrappers (cache.go,
   storerouter.go, failover.go, dedupqueue.go, writededupqueue.go, swapstore.go)
   and the four consumers (assemble.go writeChunk, readseeker.go loadChunk,
   untar.go UnTarIndex worker, sparse-file.go loadChunk).

   Definitions only; proofs are in Proofs/ChunkVerifyProofs.v.
   The digest H, the compressor and the decompressor are Section variables
   without any law: soundness must not depend on zstd being correct. *)
From Coq Require Import List NArith Bool Arith.
From DS Require Import Base.Bytes Base.Hash Gen.Constants.
Import ListNotations.

(* ---------- coverter.go ---------- *)

(* The only converter that exists is Compressor. *)
Inductive layer := Zstd.
Definition convs := list layer.

(* Compressor.equal: a type assertion *)
Definition layer_equal (a b : layer) : bool := match a, b with Zstd, Zstd => true end.

(* Converters.equal *)
Fixpoint convs_equal (a b : convs) : bool :=
  match a, b with
  | [], [] => true
  | x :: a', y :: b' => layer_equal x y && convs_equal a' b'
  | _, _ => false
  end.

(* Converters.hasCompression *)
Definition has_compression (c : convs) : bool :=
  existsb (fun l => match l with Zstd => true end) c.

(* ---------- errors.go: the classes the wrappers and the readers distinguish ---------- *)
Inductive err :=
| EMissing   (* ChunkMissing *)
| EInvalid   (* ChunkInvalid *)
| EOther
| EEof.      (* an error value that IS io.EOF: what Protocol.ReadMessage returns once the
                peer has closed the stream; readers treat it as a clean end of stream *)

(* errors.Wrap: the class survives (errors.As), the identity with io.EOF does not *)
Definition wrap_err (e : err) : err := match e with EEof => EOther | _ => e end.
Inductive res (A : Type) := Ok (a : A) | Err (e : err).
Arguments Ok {A} a.
Arguments Err {A} e.

(* ChunkID{} -- 32 zero bytes, as a 256-bit number *)
Definition zero_id : id := 0%N.

(* len(b) > 0 ; a nil slice and an empty slice are the same thing here *)
Definition nonempty (b : bytes) : bool := match b with [] => false | _ :: _ => true end.

(* chunk.go: type Chunk.  A model chunk is a VALUE: its byte strings are not shared with
   anything a store mutates later.  The code has to provide that (a backend must hand
   NewChunkFromStorage a slice nobody writes to afterwards; with an empty converter list
   Converters.fromStorage returns its input, so the chunk's data IS that slice); the harness
   checks it by holding every returned chunk while the store is used further. *)
Record chunk := mkChunk {
  c_data : bytes;      (* plain data if available (nil = []) *)
  c_storage : bytes;   (* storage format *)
  c_conv : convs;
  c_id : id;
  c_idcalc : bool
}.

Definition set_data (c : chunk) (d : bytes) : chunk :=
  mkChunk d (c_storage c) (c_conv c) (c_id c) (c_idcalc c).
Definition set_id (c : chunk) (i : id) : chunk :=
  mkChunk (c_data c) (c_storage c) (c_conv c) i true.

(* ---------- the world: what the backends hold, and what goes wrong ---------- *)

(* One raw operation against a backend slot or over a network hop. *)
Inductive op :=
| OpGet (k : nat) (i : id)              (* read object of chunk i from backend k *)
| OpPut (k : nat) (i : id) (b : bytes)  (* write object b for chunk i to backend k *)
| OpNet (h : nat) (i : id).             (* one response travelling over hop h *)

Inductive fault :=
| NoFault
| FIO                  (* the operation fails outright *)
| FRead (n : nat)      (* a read fails after n bytes *)
| FReplace (b : bytes) (* the bytes read / written / in flight are replaced by b *)
| FRespond (flags : N) (j : id) (b : bytes)
    (* the peer answers with a casync CHUNK message: flags | chunk id j | data b (the message
       carries flags -- "compressed" is bit 0 -- and a chunk id next to the data); where an
       answer has neither this is FReplace b *).

(* [w_obj k i] is the object stored for chunk i in backend k: ARBITRARY bytes
   (flipped, truncated, empty, another chunk's object, valid zstd of other
   data, raw data in a compressed slot ...).  [w_fault] is an adaptive
   adversary: it sees the whole history of raw operations so far.  [w_act f]
   is the active index of failover group f. *)
Record world := mkWorld {
  w_obj : nat -> id -> option bytes;
  w_act : nat -> nat;
  w_hist : list op;
  w_fault : list op -> op -> fault
}.

Definition w_log (o : op) (w : world) : world :=
  mkWorld (w_obj w) (w_act w) (w_hist w ++ [o]) (w_fault w).

Definition w_store (k : nat) (i : id) (b : bytes) (w : world) : world :=
  mkWorld (fun k' i' => if (Nat.eqb k k' && N.eqb i i')%bool then Some b else w_obj w k' i')
          (w_act w) (w_hist w) (w_fault w).

Definition w_set_act (f a : nat) (w : world) : world :=
  mkWorld (w_obj w) (fun f' => if Nat.eqb f f' then a else w_act w f') (w_hist w) (w_fault w).

Inductive fetch := Found (b : bytes) | NotFound | IOErr | ReadErr (partial : bytes).

Definition raw_fetch (k : nat) (i : id) (w : world) : fetch * world :=
  let o := OpGet k i in
  let w' := w_log o w in
  match w_fault w (w_hist w) o with
  | FIO => (IOErr, w')
  | FReplace b | FRespond _ _ b => (Found b, w')
  | FRead n => match w_obj w k i with
               | Some b => (ReadErr (firstn n b), w')
               | None => (NotFound, w')
               end
  | NoFault => match w_obj w k i with
               | Some b => (Found b, w')
               | None => (NotFound, w')
               end
  end.

Definition raw_put (k : nat) (i : id) (b : bytes) (w : world) : res unit * world :=
  let o := OpPut k i b in
  let w' := w_log o w in
  match w_fault w (w_hist w) o with
  | NoFault => (Ok tt, w_store k i b w')
  | FReplace b' | FRespond _ _ b' => (Ok tt, w_store k i b' w')
  | _ => (Err EOther, w')
  end.

(* ---------- store options (store.go) ---------- *)
Inductive bkind := BLocal | BHTTP | BS3 | BSFTP | BGCS.

Record lopts := mkLopts {
  lo_kind : bkind;
  lo_skip : bool;          (* StoreOptions.SkipVerify *)
  lo_uncompressed : bool;  (* StoreOptions.Uncompressed *)
  lo_retry : nat           (* StoreOptions.ErrorRetry *)
}.

(* StoreOptions.converters *)
Definition converters (uncompressed : bool) : convs := if uncompressed then [] else [Zstd].

(* Writable stores (WriteStore): what a Cache can use as its local side. *)
Inductive wstack :=
| WLeaf (k : nat) (o : lopts)   (* LocalStore / RemoteHTTP / S3Store / SFTPStore / GCStore on backend k *)
| WRepair (l : wstack)          (* RepairableCache *)
| WDedup (l : wstack)           (* WriteDedupQueue *)
| WSwap (l : wstack).           (* SwapWriteStore *)

(* Stores (Store). *)
Inductive stack :=
| W (l : wstack)
| Cache (s : stack) (l : wstack)                 (* cache.go *)
| Router (ss : list stack)                       (* storerouter.go *)
| Failover (f : nat) (s0 : stack) (ss : list stack)
    (* failover.go, group number f with members s0 :: ss.  NewFailoverGroup()
       with no member returns (nil, nil) from GetChunk; the CLI cannot build
       that (storeGroup splits on "|"), the model excludes it by construction. *)
| Dedup (s : stack)                              (* dedupqueue.go *)
| Swap (s : stack)                               (* swapstore.go *)
| Http (h : nat) (sconv : convs) (skip uncompressed : bool) (retry : nat) (s : stack)
    (* RemoteHTTP client (skip, uncompressed, retry) talking over hop h to
       desync's HTTPHandler with converters sconv in front of store s *)
| Proto (h : nat) (s : stack)
    (* RemoteSSH / Protocol.RequestChunk talking over hop h to a
       ProtocolServer in front of store s *)
| Foreign (k : nat).
    (* a Store implementation outside desync's own that trusts its content: it returns
       NewChunk(<what backend k holds>), a chunk whose ID() is derived from the data and not
       from the request (desync's TestStore does that; so does any foreign casync server) *)

Section ChunkVerify.
  Variable H : bytes -> id.
  Variable zcomp : bytes -> bytes.            (* compress.go Compress: never fails *)
  Variable zdecomp : bytes -> option bytes.   (* compress.go Decompress *)

  Definition layer_to (l : layer) (b : bytes) : bytes := match l with Zstd => zcomp b end.
  Definition layer_from (l : layer) (b : bytes) : option bytes := match l with Zstd => zdecomp b end.

  (* Converters.toStorage: layers in order *)
  Fixpoint to_storage (cs : convs) (b : bytes) : bytes :=
    match cs with
    | [] => b
    | l :: r => to_storage r (layer_to l b)
    end.

  (* Converters.fromStorage: layers backwards *)
  Fixpoint from_storage (cs : convs) (b : bytes) : option bytes :=
    match cs with
    | [] => Some b
    | l :: r => match from_storage r b with
                | Some b' => layer_from l b'
                | None => None
                end
    end.

  (* ---------- chunk.go ---------- *)

  (* Chunk.Data: result and the receiver afterwards (c.data is memoised) *)
  Definition chunk_data (c : chunk) : option bytes * chunk :=
    if nonempty (c_data c) then (Some (c_data c), c)
    else if nonempty (c_storage c) then
      match from_storage (c_conv c) (c_storage c) with
      | Some d => (Some d, set_data c d)
      | None => (None, c)     (* c.data = nil, as before *)
      end
    else (None, c).           (* "no data in chunk" *)

  (* Chunk.ID *)
  Definition chunk_id (c : chunk) : id * chunk :=
    if c_idcalc c then (c_id c, c)
    else match chunk_data c with
         | (None, c') => (zero_id, c')     (* return ChunkID{} : idCalculated stays false *)
         | (Some b, c') => (H b, set_id c' (H b))
         end.

  Definition data_of (c : chunk) : option bytes := fst (chunk_data c).

  (* NewChunk *)
  Definition new_chunk (b : bytes) : chunk := mkChunk b [] [] zero_id false.

  (* NewChunkWithID *)
  Definition new_chunk_with_id (i : id) (b : bytes) (skip_verify : bool) : res chunk :=
    let c := mkChunk b [] [] i false in
    if skip_verify then Ok (mkChunk b [] [] i true)
    else match chunk_data c with
         | (None, _) => Err EInvalid          (* ChunkInvalid{ID: id, Sum: ChunkID{}} *)
         | (Some _, c1) =>
             let (sum, c') := chunk_id c1 in
             if N.eqb sum i then Ok c' else Err EInvalid
         end.

  (* NewChunkFromStorage *)
  Definition new_chunk_from_storage (i : id) (b : bytes) (cv : convs) (skip_verify : bool) : res chunk :=
    let c := mkChunk [] b cv i false in
    if skip_verify then Ok (mkChunk [] b cv i true)
    else match chunk_data c with
         | (None, _) => Err EInvalid          (* no plain data can be produced *)
         | (Some _, c1) =>
             let (sum, c') := chunk_id c1 in
             if N.eqb sum i then Ok c' else Err EInvalid
         end.

  (* NewChunkFromStorage as it was before commit 27b0229 (no Data() test in front of the
     comparison).  Not used by the model of the current code; kept for the refutation theorem
     that documents the defect the commit repaired. *)
  Definition new_chunk_from_storage_pre27b0229 (i : id) (b : bytes) (cv : convs) (skip_verify : bool) : res chunk :=
    let c := mkChunk [] b cv i false in
    if skip_verify then Ok (mkChunk [] b cv i true)
    else let (sum, c') := chunk_id c in
         if N.eqb sum i then Ok c' else Err EInvalid.

  (* ---------- backends ---------- *)

  (* RemoteHTTPBase.IssueRetryableHttpRequest / the retry label in S3Store.GetChunk:
     n further attempts after a failure; S3 also retries a NoSuchKey answer. *)
  Fixpoint fetch_retry (retry_missing : bool) (n : nat) (k : nat) (i : id) (w : world) : fetch * world :=
    let (f, w1) := raw_fetch k i w in
    match n with
    | O => (f, w1)
    | S m => match f with
             | Found _ => (f, w1)
             | NotFound => if retry_missing then fetch_retry retry_missing m k i w1 else (f, w1)
             | _ => fetch_retry retry_missing m k i w1
             end
    end.

  Definition leaf_fetch (k : nat) (o : lopts) (i : id) (w : world) : fetch * world :=
    match lo_kind o with
    | BHTTP => fetch_retry false (pred (lo_retry o)) k i w   (* gives up when attempt >= ErrorRetry *)
    | BS3 => fetch_retry true (lo_retry o) k i w             (* retries while attempt <= ErrorRetry *)
    | _ => raw_fetch k i w
    end.

  (* LocalStore.GetChunk / RemoteHTTP.GetChunk / S3Store.GetChunk / SFTPStore.GetChunk / GCStore.GetChunk *)
  Definition leaf_get (k : nat) (o : lopts) (i : id) (w : world) : res chunk * world :=
    let (f, w1) := leaf_fetch k o i w in
    let cv := converters (lo_uncompressed o) in
    match f with
    | NotFound => (Err EMissing, w1)
    | Found b => (new_chunk_from_storage i b cv (lo_skip o), w1)
    | IOErr =>
        match lo_kind o with
        | BLocal => (new_chunk_from_storage i [] cv (lo_skip o), w1)
            (* local.go: an ioutil.ReadFile error other than not-exist is ignored *)
        | _ => (Err EOther, w1)
        end
    | ReadErr p =>
        match lo_kind o with
        | BLocal => (new_chunk_from_storage i p cv (lo_skip o), w1)   (* whatever was read *)
        | _ => (Err EOther, w1)
        end
    end.

  (* NOT the code.  The leaves above consult exactly one name per chunk: the one of the format
     the store is configured for (slot (k, i) of the world); an object of the OTHER format under
     the same id -- another slot (k', i) -- is never looked at.  This is the variant that, when
     its own object is missing, falls back to that other name.  [checked] says whether what it
     finds goes through the verifying constructor (with the other format's converters) or
     through NewChunk, the constructor for trusted data.  For the theorems that show which of
     the two a store may do. *)
  Definition leaf_get_fallback (checked : bool) (k k' : nat) (o : lopts) (i : id) (w : world)
    : res chunk * world :=
    match leaf_get k o i w with
    | (Err EMissing, w1) =>
        match raw_fetch k' i w1 with
        | (Found b, w2) =>
            if checked
            then (new_chunk_from_storage i b (converters (negb (lo_uncompressed o))) (lo_skip o), w2)
            else (Ok (new_chunk b), w2)
        | (_, w2) => (Err EMissing, w2)
        end
    | r => r
    end.

  (* LocalStore.StoreChunk / RemoteHTTP.StoreChunk / S3Store.StoreChunk / ...:
     name from chunk.ID(), body = converters.toStorage(chunk.Data()) *)
  Definition leaf_put (k : nat) (o : lopts) (c : chunk) (w : world) : res unit * world :=
    let (i, c1) := chunk_id c in
    match chunk_data c1 with
    | (None, _) => (Err EOther, w)
    | (Some b, _) => raw_put k i (to_storage (converters (lo_uncompressed o)) b) w
    end.

  (* GetChunk of the writable stores *)
  Fixpoint wget (l : wstack) (i : id) (w : world) : res chunk * world :=
    match l with
    | WLeaf k o => leaf_get k o i w
    | WRepair l' =>                       (* RepairableCache.GetChunk *)
        match wget l' i w with
        | (Err EInvalid, w1) => (Err EMissing, w1)
        | r => r
        end
    | WDedup l' => wget l' i w            (* WriteDedupQueue.GetChunk, no request in flight *)
    | WSwap l' => wget l' i w
    end.

  (* StoreChunk of the writable stores *)
  Fixpoint wput (l : wstack) (c : chunk) (w : world) : res unit * world :=
    match l with
    | WLeaf k o => leaf_put k o c w
    | WRepair l' => wput l' c w
    | WDedup l' => wput l' c w
    | WSwap l' => wput l' c w
    end.

  Definition getter := world -> res chunk * world.

  (* Cache.GetChunk *)
  Definition cache_get (up : getter) (l : wstack) (i : id) (w : world) : res chunk * world :=
    match wget l i w with
    | (Ok c, w1) => (Ok c, w1)
    | (Err EMissing, w1) =>
        match up w1 with
        | (Err e, w2) => (Err e, w2)
        | (Ok c, w2) =>
            match wput l c w2 with
            | (Ok _, w3) => (Ok c, w3)
            | (Err _, w3) => (Err EOther, w3)   (* "failed to store in local cache" *)
            end
        end
    | (Err e, w1) => (Err e, w1)
    end.

  (* StoreRouter.GetChunk *)
  Fixpoint router_get (gs : list getter) (w : world) : res chunk * world :=
    match gs with
    | [] => (Err EMissing, w)
    | g :: r => match g w with
                | (Ok c, w1) => (Ok c, w1)
                | (Err EMissing, w1) => router_get r w1
                | (Err e, w1) => (Err (wrap_err e), w1)        (* errors.Wrap(err, s.String()) *)
                end
    end.

  (* FailoverGroup.GetChunk: [n] iterations left, [gerr] the last error *)
  Fixpoint failover_loop (n : nat) (f : nat) (g0 : getter) (gs : list getter) (gerr : err) (w : world)
    : res chunk * world :=
    match n with
    | O => (Err gerr, w)
    | S m =>
        let len := S (length gs) in
        let a := w_act w f mod len in          (* g.current() *)
        match nth a (g0 :: gs) g0 w with
        | (Ok c, w1) => (Ok c, w1)
        | (Err EMissing, w1) => (Err EMissing, w1)
        | (Err e, w1) => failover_loop m f g0 gs e (w_set_act f ((a + 1) mod len) w1)   (* g.errorFrom(active) *)
        end
    end.

  Definition failover_get (f : nat) (g0 : getter) (gs : list getter) (w : world) :=
    failover_loop (S (length gs)) f g0 gs EOther w.

  (* One response on hop h: the transport may fail or replace the body. *)
  Definition net (h : nat) (i : id) (w : world) : fault * world :=
    let o := OpNet h i in (w_fault w (w_hist w) o, w_log o w).

  (* HTTPHandler.get + HTTPHandlerBase.get: status and body *)
  Inductive http_resp := R200 (body : bytes) | R404 | R4xx | R5xx.

  Definition http_serve (sconv : convs) (client_uncompressed : bool) (inner : getter) (w : world)
    : http_resp * world :=
    (* HTTPHandler.idFromPath: the extension asked for must be the server's *)
    if negb (Bool.eqb (has_compression sconv) (negb client_uncompressed)) then (R4xx, w)
    else match inner w with
         | (Err EMissing, w1) => (R404, w1)
         | (Err _, w1) => (R5xx, w1)
         | (Ok c, w1) =>
             if (nonempty (c_storage c) && convs_equal sconv (c_conv c))%bool
             then (R200 (c_storage c), w1)
             else match data_of c with
                  | Some b => (R200 (to_storage sconv b), w1)
                  | None => (R5xx, w1)
                  end
         end.

  (* RemoteHTTP.GetChunk against desync's own handler; [n] further attempts *)
  Fixpoint http_loop (n : nat) (h : nat) (sconv : convs) (skip unc : bool) (inner : getter) (i : id) (w : world)
    : res chunk * world :=
    let (r, w1) := http_serve sconv unc inner w in
    let (fl, w2) := net h i w1 in
    let retry := match n with
                 | O => fun _ => (Err EOther, w2)
                 | S m => http_loop m h sconv skip unc inner i
                 end in
    match fl with
    | FIO | FRead _ => retry w2                       (* client.Do / ReadAll error *)
    | _ =>
        let r' := match fl, r with FReplace b, R200 _ | FRespond _ _ b, R200 _ => R200 b | _, _ => r end in
        match r' with
        | R200 b => (new_chunk_from_storage i b (converters unc) skip, w2)
        | R404 => (Err EMissing, w2)
        | R4xx => (Err EOther, w2)
        | R5xx => retry w2
        end
    end.

  (* Protocol.RequestChunk, case CaProtocolChunk: the message body is flags | chunk id | data.
     Neither the flags nor the id in the message are used: the data is taken as a zstd frame and
     the chunk is built for, and checked against, the id that was REQUESTED. *)
  Definition proto_answer (requested label : id) (flags : N) (body : bytes) : res chunk :=
    new_chunk_from_storage requested body [Zstd] false.

  (* NOT the code: the client that believes the label ("use what the server says it sends").
     Kept for the refutation theorem that shows why the requested id must be used. *)
  Definition proto_answer_respid (requested label : id) (flags : N) (body : bytes) : res chunk :=
    new_chunk_from_storage label body [Zstd] false.

  (* NOT the code: the client that believes the flags -- an answer whose "compressed" flag is
     unset and whose data does not start with the zstd frame magic is taken as plain data through
     NewChunk, the constructor for trusted data.  For the refutation theorem. *)
  Definition zstd_magic : bytes := [40; 181; 47; 253]%N.
  Fixpoint has_prefix (p b : bytes) : bool :=
    match p, b with
    | [], _ => true
    | x :: p', y :: b' => N.eqb x y && has_prefix p' b'
    | _ :: _, [] => false
    end.
  Definition proto_answer_trust_flags (requested label : id) (flags : N) (body : bytes) : res chunk :=
    if (N.eqb (N.land flags CaProtocolChunkCompressed) 0 && negb (has_prefix zstd_magic body))%bool
    then Ok (new_chunk body)
    else new_chunk_from_storage requested body [Zstd] false.

  (* Protocol.RequestChunk against ProtocolServer.Serve (one request on a fresh session).
     The server labels its answer with chunk.ID() of what its store returned. *)
  Definition proto_get_with (answer : id -> id -> N -> bytes -> res chunk)
             (h : nat) (inner : getter) (i : id) (w : world) : res chunk * world :=
    match inner w with
    | (Err EMissing, w1) =>
        let (fl, w2) := net h i w1 in
        match fl with
        | NoFault => (Err EMissing, w2)           (* CaProtocolMissing *)
        | FReplace b => (answer i i CaProtocolChunkCompressed b, w2)
        | FRespond fg j b => (answer i j fg b, w2)
        | FIO => (Err EEof, w2)                   (* stream closed before the answer *)
        | FRead _ => (Err EOther, w2)             (* stream closed inside the answer *)
        end
    | (Err _, w1) => (Err EEof, w1)               (* the server gives up; the client reads EOF *)
    | (Ok c, w1) =>
        match chunk_data c with
        | (None, _) => (Err EEof, w1)             (* chunk.Data() fails on the server: it gives up *)
        | (Some b, c1) =>
            let label := fst (chunk_id c1) in     (* SendProtocolChunk(chunk.ID(), ...) *)
            let (fl, w2) := net h i w1 in
            match fl with
            | NoFault => (answer i label CaProtocolChunkCompressed (zcomp b), w2)
            | FReplace b' => (answer i label CaProtocolChunkCompressed b', w2)
            | FRespond fg j b' => (answer i j fg b', w2)
            | FIO => (Err EEof, w2)
            | FRead _ => (Err EOther, w2)
            end
        end
    end.

  Definition proto_get := proto_get_with proto_answer.

  (* GetChunk of a store that derives the chunk from its content alone *)
  Definition foreign_get (k : nat) (i : id) (w : world) : res chunk * world :=
    match raw_fetch k i w with
    | (Found b, w1) => (Ok (new_chunk b), w1)
    | (NotFound, w1) => (Err EMissing, w1)
    | (_, w1) => (Err EOther, w1)
    end.

  (* GetChunk of every store stack *)
  Fixpoint get (s : stack) (i : id) (w : world) {struct s} : res chunk * world :=
    match s with
    | W l => wget l i w
    | Cache up l => cache_get (get up i) l i w
    | Router ss => router_get (map (fun x => get x i) ss) w
    | Failover f s0 ss => failover_get f (get s0 i) (map (fun x => get x i) ss) w
    | Dedup s' => get s' i w          (* DedupQueue.GetChunk, no request in flight *)
    | Swap s' => get s' i w
    | Http h sconv skip unc retry s' => http_loop (pred retry) h sconv skip unc (get s' i) i w
    | Proto h s' => proto_get h (get s' i) i w
    | Foreign k => foreign_get k i w
    end.

  (* A sequence of requests against the same stack; the world is threaded through. *)
  Fixpoint get_many (s : stack) (ids : list id) (w : world) : list (res chunk) * world :=
    match ids with
    | [] => ([], w)
    | i :: r => let (x, w1) := get s i w in
                let (xs, w2) := get_many s r w1 in (x :: xs, w2)
    end.

  (* Requests interleaved with arbitrary changes of the world made by somebody else (an object
     is damaged after it was read successfully, restored, replaced ...).  The stores of the
     model keep nothing between calls except what is in the world: every call verifies what it
     reads NOW. *)
  Fixpoint get_history (s : stack) (steps : list ((world -> world) * id)) (w : world)
    : list (res chunk) * world :=
    match steps with
    | [] => ([], w)
    | (change, i) :: r =>
        let (x, w1) := get s i (change w) in
        let (xs, w2) := get_history s r w1 in (x :: xs, w2)
    end.

  (* ---------- which stacks verify ---------- *)

  Fixpoint wverifying (l : wstack) : bool :=
    match l with
    | WLeaf _ o => negb (lo_skip o)
    | WRepair l' | WDedup l' | WSwap l' => wverifying l'
    end.

  (* No store on the way to the caller has verification disabled.  A network
     client that verifies makes whatever is behind it irrelevant. *)
  Fixpoint verifying (s : stack) : bool :=
    match s with
    | W l => wverifying l
    | Cache up l => verifying up && wverifying l
    | Router ss => forallb verifying ss
    | Failover _ s0 ss => verifying s0 && forallb verifying ss
    | Dedup s' | Swap s' => verifying s'
    | Http _ _ skip _ _ _ => negb skip
    | Proto _ _ => true
    | Foreign _ => false
    end.

  (* Verification is enabled at every leaf and at every network client, also behind
     verifying clients: then the caches inside the stack are fed verified chunks only. *)
  Fixpoint all_verifying (s : stack) : bool :=
    match s with
    | W l => wverifying l
    | Cache up l => all_verifying up && wverifying l
    | Router ss => forallb all_verifying ss
    | Failover _ s0 ss => all_verifying s0 && forallb all_verifying ss
    | Dedup s' | Swap s' => all_verifying s'
    | Http _ _ skip _ _ s' => negb skip && all_verifying s'
    | Proto _ s' => all_verifying s'
    | Foreign _ => false
    end.

  (* ---------- consumers ---------- *)

  (* assemble.go writeChunk, the store path: the bytes written at c.Start *)
  Definition write_chunk (s : stack) (row : id * nat) (w : world) : option bytes * world :=
    match get s (fst row) w with
    | (Err _, w1) => (None, w1)
    | (Ok c, w1) => match data_of c with
                    | None => (None, w1)
                    | Some b => if Nat.eqb (snd row) (length b) then (Some b, w1) else (None, w1)
                    end
    end.

  (* untar.go UnTarIndex worker: the bytes sent on r.data *)
  Definition untar_worker (s : stack) (row : id * nat) (w : world) : option bytes * world :=
    match get s (fst row) w with
    | (Err _, w1) => (None, w1)
    | (Ok c, w1) => match data_of c with
                    | None => (None, w1)
                    | Some b => if Nat.eqb (snd row) (length b) then (Some b, w1) else (None, w1)
                    end
    end.

  (* readseeker.go IndexPos.loadChunk: ip.curChunk; the null chunk is served from memory *)
  Definition readseeker_load (s : stack) (null_id : id) (null_data : bytes) (row : id * nat) (w : world)
    : option bytes * world :=
    if N.eqb (fst row) null_id then (Some null_data, w)
    else match get s (fst row) w with
         | (Err _, w1) => (None, w1)
         | (Ok c, w1) => (data_of c, w1)
         end.

  (* sparse-file.go sparseFileLoader.loadChunk: the bytes written at Start *)
  Definition sparse_load (s : stack) (row : id * nat) (w : world) : option bytes * world :=
    match get s (fst row) w with
    | (Err _, w1) => (None, w1)
    | (Ok c, w1) => (data_of c, w1)
    end.

  (* io.Copy(dst, NewIndexReadSeeker(idx, s)) as `desync cat` does it: the bytes copied and
     whether Copy returns nil.  IndexPos.Read turns an io.EOF coming out of loadChunk into
     io.ErrUnexpectedEOF (commit 898d634), every other error is handed on; io.Copy takes a
     bare io.EOF for the end of the stream.  (Chunks are taken whole: verified chunks have
     the indexed length.) *)
  Definition readseeker_load_err (s : stack) (null_id : id) (null_data : bytes) (row : id * nat) (w : world)
    : res bytes * world :=
    if N.eqb (fst row) null_id then (Ok null_data, w)
    else match get s (fst row) w with
         | (Err e, w1) => (Err e, w1)
         | (Ok c, w1) => match data_of c with Some b => (Ok b, w1) | None => (Err EOther, w1) end
         end.

  Fixpoint copy_index (s : stack) (null_id : id) (null_data : bytes) (rows : list (id * nat)) (w : world)
    : bytes * bool * world :=
    match rows with
    | [] => ([], true, w)
    | r :: rest =>
        match readseeker_load_err s null_id null_data r w with
        | (Ok b, w1) => let '(bs, ok, w2) := copy_index s null_id null_data rest w1 in (b ++ bs, ok, w2)
        | (Err _, w1) => ([], false, w1)       (* io.EOF from the store became io.ErrUnexpectedEOF *)
        end
    end.

  (* The same before commit 898d634: Read handed the store's io.EOF on unchanged, so Copy
     stopped there and reported success.  Kept for the refutation theorem only. *)
  Fixpoint copy_index_pre898d634 (s : stack) (null_id : id) (null_data : bytes) (rows : list (id * nat)) (w : world)
    : bytes * bool * world :=
    match rows with
    | [] => ([], true, w)
    | r :: rest =>
        match readseeker_load_err s null_id null_data r w with
        | (Ok b, w1) => let '(bs, ok, w2) := copy_index_pre898d634 s null_id null_data rest w1 in (b ++ bs, ok, w2)
        | (Err EEof, w1) => ([], true, w1)     (* Read returns (n, io.EOF): Copy stops, error nil *)
        | (Err _, w1) => ([], false, w1)
        end
    end.

  (* Stacks whose GetChunk never returns a bare io.EOF: the casync protocol client is not on
     top (StoreRouter wraps every error it passes on; an HTTP client wraps transport errors). *)
  Fixpoint never_eof (s : stack) : bool :=
    match s with
    | W _ => true
    | Cache up _ => never_eof up
    | Router _ => true
    | Failover _ s0 ss => never_eof s0 && forallb never_eof ss
    | Dedup s' | Swap s' => never_eof s'
    | Http _ _ _ _ _ _ => true
    | Proto _ _ => false
    | Foreign _ => true
    end.

  (* A consumer run over the rows of an index, one after the other. *)
  Fixpoint consume_all (one : (id * nat) -> world -> option bytes * world) (rows : list (id * nat)) (w : world)
    : option (list bytes) * world :=
    match rows with
    | [] => (Some [], w)
    | r :: rest =>
        match one r w with
        | (None, w1) => (None, w1)
        | (Some b, w1) => match consume_all one rest w1 with
                          | (Some bs, w2) => (Some (b :: bs), w2)
                          | (None, w2) => (None, w2)
                          end
        end
    end.
End ChunkVerify.
