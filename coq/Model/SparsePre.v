(* The loader as it was BEFORE the commits
     2f69527 "fix: sparse file loader handles an empty index and a zero-length read at the end"
     0331e86 "fix: sparse file start-up replaces a saved state it did not use"
     61c4b65 "fix: sparse file reader reports a store's io.EOF as an unexpected EOF"
     and the start-up reordering ("fix: sparse file start-up replaces the saved state before it resizes the cache file").
   Only the differences to Model/Sparse.v are written here, as wrappers around [step]:
     * indexRange tested `length < 1` BEFORE `firstChunk >= len(chunks)` and loadRange had no early return for an
       empty chunk list ([index_range_pre], the scan step of [step_pre]);
     * NewSparseFile left the saved state on disk when it did not use it ([restart_pre]);
     * ReadAt handed a store error that IS io.EOF to its caller unchanged: (0, io.EOF), the observation "end of file"
       ([fix_eof] = false in [step_pre]);
     * NewSparseFile resized the cache file first and replaced the state last: a start-up that returned an error in
       between (init file missing or of the wrong length) left the old state next to a blank full-size cache file
       ([LFailedStart] with [fix_state] = false: the effect of [restart_pre] without pre-load). *)
From Coq Require Import List NArith ZArith Arith Bool.
From DS Require Import Base.Bytes Base.Hash Model.ReadSeeker Model.Sparse.
Import ListNotations.
Local Open Scope Z_scope.

Definition index_range_pre (idx : index) (start length : Z) : option (Z * Z) :=
  let n := List.length idx in
  let end_u := (start + length - 1) mod two64 in
  match go_search n (fun i => start <? r_end (nth i idx row0)) with
  | None => None
  | Some f =>
      let first := Z.of_nat f in
      if length <? 1 then Some (first, first)
      else if (n <=? f)%nat then Some (Z.of_nat n - 1, Z.of_nat n - 1)
      else Some (first, scan_last (skipn (S f) idx) end_u first)
  end.

Section Pre.
  Variable idx : index.
  Variable nullid : id.
  Variable store : store_t.
  Let n := List.length idx.
  Let L := Z.to_nat (idx_length idx).

  (* NewSparseFile before 0331e86: the path that does not load the state returns without touching the state file *)
  Definition restart_pre (s : sstate) (m : rmode) : sstate :=
    let s' := restart idx s m in
    let cache := if s_nofile s then [] else match m_cache m with CKeep => s_file s | CAbsent => [] | CResize k => resize (s_file s) k end in
    let usable := match s_saved s with Some b => m_state m && (List.length b =? n)%nat | None => false end in
    if (List.length cache =? L)%nat && usable then s'
    else mkstate (s_done s') (s_file s') (s_calls s') (s_mutex s') (s_saved s) (s_threads s') (s_log s')
                 (s_crashed s') (s_nofile s') (s_fetched s').

  (* before 61c4b65: when the fetch of a reader fails with io.EOF itself, the caller observes (0, io.EOF) *)
  Definition eof_through (s : sstate) (k : nat) : option sstate :=
    match nth_error (s_threads s) k with
    | Some (mkthread (RqRead off len :: q) (Some (PFetch i todo))) =>
        match store (s_calls s) (r_id (nth i idx row0)) with
        | SFail c =>
            if N.eqb c code_bare_eof && negb (s_crashed s) then
              match step idx nullid store s (LThread k) with
              | Some s' => Some (mkstate (s_done s') (s_file s') (s_calls s') (s_mutex s') (s_saved s') (s_threads s')
                                         ((RqRead off len, ROk [] true) :: s_log s) (s_crashed s') (s_nofile s') (s_fetched s'))
              | None => None
              end
            else None
        | _ => None
        end
    | _ => None
    end.

  (* fix_range / fix_state / fix_eof select which of the fixes are in place, so that each refutation isolates one defect *)
  Definition step_pre (fix_range fix_state fix_eof : bool) (s : sstate) (l : label) : option sstate :=
    match l with
    | LRestart m => if fix_state then step idx nullid store s l else Some (restart_pre s m)
    | LFailedStart m =>
        if fix_state then step idx nullid store s l
        else Some (restart_pre s (mkmode (m_state m) (m_cache m) false))
    | LThread k =>
        match (if fix_eof then None else eof_through s k) with
        | Some s' => Some s'
        | None =>
        if fix_range then step idx nullid store s l
        else if s_crashed s then None
        else
          match nth_error (s_threads s) k with
          | Some (mkthread (RqRead off len :: q) None) =>       (* loadRange before 2f69527 *)
              let th := mkthread (RqRead off len :: q) None in
              match index_range_pre idx off (Z.of_nat len) with
              | None => None
              | Some (first, last) =>
                  match needed idx nullid (s_done s) first last with
                  | None => Some (mkstate (s_done s) (s_file s) (s_calls s) (s_mutex s) (s_saved s) (s_threads s)
                                          (s_log s) true (s_nofile s) (s_fetched s))      (* index out of range: panic *)
                  | Some todo => Some (set_pc s k th (PNeed todo))
                  end
              end
          | _ => step idx nullid store s l
          end
        end
    | _ => step idx nullid store s l
    end.
End Pre.
