(* untar.go: UnTar, and the LocalFS writer of localfs.go / localfs_other.go as the sequence
   of path-based system calls it issues (Model/FSLinks.v), each with the follow / no-follow
   behaviour of the call the Go code uses:

     CreateDir      os.Lstat(dst) [no-follow]; not a directory => error; error => os.Mkdir(dst)
                    SetDirPermissions: os.Chown [FOLLOWS], xattr.LSet [no-follow], syscall.Chmod [FOLLOWS]
                    os.Chtimes [FOLLOWS] unless MTime == Unix(0,0)
     CreateFile     os.RemoveAll(dst); os.OpenFile(dst, O_CREATE|O_WRONLY|O_TRUNC) [FOLLOWS, no O_EXCL];
                    io.Copy; SetFilePermissions (as above); os.Chtimes
     CreateSymlink  syscall.Unlink(dst) (ENOENT ignored); os.Symlink(target, dst); os.Lchown, xattr.LSet;
                    utimensat(AT_SYMLINK_NOFOLLOW) unless MTime == Unix(0,0)
     CreateDevice   syscall.Unlink(dst) (ENOENT ignored); syscall.Mknod; os.Chown, xattr.LSet,
                    syscall.Chmod, os.Chtimes [all but LSet FOLLOW]

   dst = filepath.Join(fs.Root, n.Name) every time.  A failing call ends the run with an
   error; what was done before stays done.  [w_touched] collects the canonical place of
   every successful mutation, in order. *)
From Coq Require Import List NArith Arith Bool.
From DS Require Import Base.Bytes Base.FS Base.GoPath Model.FSLinks Model.ArchiveNames.
Import ListNotations.

(* LocalFSOptions *)
Record opts := mkOpts { no_same_owner : bool; no_same_perms : bool }.

Record wstate := mkW { w_fs : node; w_touched : list path }.
Definition step := wstate -> wstate * option errno.    (* None: the call sequence succeeded *)

Definition lift (sc : node -> sysres) : step := fun st =>
  match sc (w_fs st) with
  | Ok (fs', t) => (mkW fs' (w_touched st ++ t), None)
  | Err e => (st, Some e)
  end.
Definition ok_step : step := fun st => (st, None).
Definition fail_step (e : errno) : step := fun st => (st, Some e).
Definition andthen (a b : step) : step := fun st =>
  match a st with
  | (st', None) => b st'
  | (st', Some e) => (st', Some e)
  end.
(* err != nil && !os.IsNotExist(err) => return err *)
Definition ignore_enoent (a : step) : step := fun st =>
  match a st with
  | (st', Some ENOENT) => (st', None)
  | r => r
  end.
Fixpoint steps (l : list step) : step :=
  match l with [] => ok_step | a :: r => andthen a (steps r) end.

(* mode bits: S_IFMT, S_IFDIR, S_IFLNK, and what chmod(2) keeps *)
Definition s_ifmt : N := 61440.
Definition s_ifdir : N := 16384.
Definition s_iflnk : N := 40960.
Definition perm_bits : N := 4095.

(* chown(2): on anything but a directory the kernel also drops S_ISUID, and S_ISGID if the
   group-execute bit is set (chown_common: ATTR_KILL_SUID | setattr_should_drop_sgid) *)
Definition s_isuid : N := 2048.
Definition s_isgid : N := 1024.
Definition s_ixgrp : N := 8.
Definition kill_suid_sgid (mode : N) : N :=
  let m1 := N.ldiff mode s_isuid in
  if N.eqb (N.land mode s_ixgrp) 0 then m1 else N.ldiff m1 s_isgid.
Definition set_owner (uid gid : N) (n : node) (m : meta) : meta :=
  mkMeta (match n with Dir _ _ => m_mode m | _ => kill_suid_sgid (m_mode m) end) uid gid (m_mtime m) (m_xattrs m).
Definition set_mode (mode : N) (_ : node) (m : meta) : meta :=
  mkMeta (N.lor (N.land (m_mode m) s_ifmt) (N.land mode perm_bits)) (m_uid m) (m_gid m) (m_mtime m) (m_xattrs m).
Definition set_mtime (t : N) (_ : node) (m : meta) : meta := mkMeta (m_mode m) (m_uid m) (m_gid m) t (m_xattrs m).
Definition set_xattr (k v : bytes) (_ : node) (m : meta) : meta :=
  mkMeta (m_mode m) (m_uid m) (m_gid m) (m_mtime m)
         ((k, v) :: filter (fun kv => negb (bytes_eqb (fst kv) k)) (m_xattrs m)).

(* the part shared by SetDirPermissions, SetFilePermissions, SetSymlinkPermissions and the
   body of CreateDevice: chown (follow_owner: os.Chown follows, os.Lchown does not), LSet of
   every xattr, and chmod where the Go code has one *)
Definition set_perms (o : opts) (dst : bytes) (m : nmeta) (follow_owner with_chmod : bool) : step :=
  andthen
    (if no_same_owner o then ok_step
     else andthen (lift (k_setmeta follow_owner (set_owner (n_uid m) (n_gid m)) dst))
                  (steps (map (fun kv => lift (k_setmeta false (set_xattr (fst kv) (snd kv)) dst)) (n_xattrs m))))
    (if with_chmod && negb (no_same_perms o) then lift (k_setmeta true (set_mode (n_mode m)) dst) else ok_step).

(* if n.MTime == time.Unix(0, 0) { return nil }; return os.Chtimes(dst, n.MTime, n.MTime) *)
Definition chtimes (dst : bytes) (m : nmeta) : step :=
  if N.eqb (n_mtime m) 0 then ok_step else lift (k_setmeta true (set_mtime (n_mtime m)) dst).

(* setSymlinkTimes: utimensat(AT_FDCWD, dst, .., AT_SYMLINK_NOFOLLOW), same skip for the epoch *)
Definition lchtimes (dst : bytes) (m : nmeta) : step :=
  if N.eqb (n_mtime m) 0 then ok_step else lift (k_setmeta false (set_mtime (n_mtime m)) dst).

Definition meta_dir : meta := mkMeta 511 0 0 0 [].     (* mkdir(dst, 0777) *)
Definition meta_file : meta := mkMeta 438 0 0 0 [].    (* open(.., 0666) *)
Definition meta_link : meta := mkMeta 511 0 0 0 [].

(* filepath.Join(fs.Root, n.Name) *)
Definition dst_of (root name : bytes) : bytes := GoPath.join [root; name].

(* LocalFS.CreateDir *)
Definition create_dir (o : opts) (root name : bytes) (m : nmeta) : step := fun st =>
  let dst := dst_of root name in
  let rest := andthen (set_perms o dst m true true) (chtimes dst m) in
  match k_lstat (w_fs st) dst with
  | Ok (Dir _ _) => rest st
  | Ok _ => (st, Some EEXIST)                           (* "exists and is not a directory" *)
  | Err _ => andthen (lift (k_mkdir dst meta_dir)) rest st
  end.

(* LocalFS.CreateFile *)
Definition create_file (o : opts) (root name : bytes) (m : nmeta) (data : bytes) : step :=
  let dst := dst_of root name in
  steps [ lift (k_remove_all dst);
          lift (k_create_trunc dst meta_file data);
          set_perms o dst m true true;
          chtimes dst m ].

(* LocalFS.CreateSymlink *)
Definition create_symlink (o : opts) (root name : bytes) (m : nmeta) (target : bytes) : step :=
  let dst := dst_of root name in
  steps [ ignore_enoent (lift (k_unlink dst));
          lift (k_symlink target dst meta_link);
          set_perms o dst m false false;
          lchtimes dst m ].

(* mknod(dst, FilemodeToStatMode(n.Mode)|0666, dev): the file type FilemodeToStatMode can
   produce is one of REG DIR LNK BLK CHR FIFO SOCK; the kernel refuses DIR (EPERM) and LNK (EINVAL) *)
Definition mknod_refused (mode : N) : bool :=
  let t := N.land mode s_ifmt in N.eqb t s_ifdir || N.eqb t s_iflnk.
Definition meta_dev (mode : N) : meta :=
  mkMeta (N.lor (N.land mode s_ifmt) (N.lor (N.land mode perm_bits) 438)) 0 0 0 [].

(* LocalFS.CreateDevice *)
Definition create_device (o : opts) (root name : bytes) (m : nmeta) : step :=
  let dst := dst_of root name in
  steps [ ignore_enoent (lift (k_unlink dst));
          (if mknod_refused (n_mode m) then fail_step EINVAL else lift (k_mknod dst (meta_dev (n_mode m))));
          set_perms o dst m true true;
          chtimes dst m ].

(* the switch in UnTar *)
Definition write_node (o : opts) (root : bytes) (n : anode) : step :=
  match n with
  | NDir name m => create_dir o root name m
  | NFile name m data => create_file o root name m data
  | NSymlink name m target => create_symlink o root name m target
  | NDevice name m _ _ => create_device o root name m
  end.

Inductive outcome := Done | DecodeError | WriteError (e : errno) | OutOfFuel.

(* UnTar: for { c, err := dec.Next(); ...; err = fs.CreateX(n); if err != nil { return err } } *)
Fixpoint untar_loop (fuel : nat) (pol : policy) (o : opts) (root : bytes) (started : dstate) (dir : bytes)
  (inp : list elem) (st : wstate)
  : wstate * outcome :=
  match fuel with
  | O => (st, OutOfFuel)
  | S f =>
      match archive_next pol started dir inp with
      | NEnd => (st, Done)
      | NErr => (st, DecodeError)
      | NNode n base dir' rest =>
          match write_node o root n st with
          | (st', None) => untar_loop f pol o root (dstate_after pol started n base) dir' rest st'
          | (st', Some e) => (st', WriteError e)
          end
      end
  end.

(* every call of Next consumes at least one element, so this fuel is never used up
   (Proofs/UntarProofs.v, untar_fuel) *)
Definition untar (pol : policy) (o : opts) (root : bytes) (inp : list elem) (fs : node) : wstate * outcome :=
  untar_loop (S (length inp)) pol o root Fresh dir0 inp (mkW fs []).
