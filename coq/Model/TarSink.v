(* Writing an archive onto a target that runs full: the error path of FormatEncoder.Encode
   (format.go), writer.WriteUint64 (writer.go) and tar()'s "if err != nil { return n, err }"
   after every Encode (tar.go).

   Go                                         here
   ----------------------------------------   -------------------------------------------
   io.Writer that accepts k more bytes,       sink (s_cap, s_data); sink_write: a write that
   then short write + ENOSPC                  does not fit is accepted up to the capacity and
                                              fails, later writes fail at once
   w.WriteUint64(a, b, ..)                    ONE Write of the 8*len bytes (io.Copy from a
                                              bytes.Reader uses WriteTo)
   io.Copy(e.w, strings.NewReader(s+"\x00"))  one Write
   io.Copy(e.w, t.Data) (payload)             one Write here (Go: 32k pieces; with a sink that
                                              takes what fits the pieces make no difference)
   Encode(v) (n, err)                         encode_into EncFixed e s = (s', ok)
   tar(): Encode element after element,       write_elems / tar_into: the elements tar() writes
   return at the first error                  (tar_model t) one by one, stop at the first error

   EncSwallow is format.go with the goodbye item loop written as
       n1, err := e.w.WriteUint64(..); n += n1; if err != nil { break } ... return n, err
   where the returned err is the outer one (nil): kept only to state what the error check is for. *)
From Coq Require Import List NArith Bool.
From DS Require Import Gen.Constants Base.Bytes Base.LE64 Model.Format Model.Tar.
Import ListNotations.
Local Open Scope N_scope.

Record sink := mkSink { s_cap : N; s_data : bytes }.

(* Write(p): (sink afterwards, err == nil) *)
Definition sink_write (s : sink) (p : bytes) : sink * bool :=
  if lenN p <=? s_cap s then (mkSink (s_cap s - lenN p) (s_data s ++ p), true)
  else (mkSink 0 (s_data s ++ firstn (N.to_nat (s_cap s)) p), false).

(* several writes in sequence, returning at the first error *)
Fixpoint write_all (ps : list bytes) (s : sink) : sink * bool :=
  match ps with
  | [] => (s, true)
  | p :: r => match sink_write s p with
              | (s1, true) => write_all r s1
              | (s1, false) => (s1, false)
              end
  end.

Inductive enc_variant := EncFixed | EncSwallow.

(* the item loop of case FormatGoodbye *)
Fixpoint goodbye_items_into (v : enc_variant) (items : list gitem) (s : sink) : sink * bool :=
  match items with
  | [] => (s, true)
  | i :: r => match sink_write s (enc_gitem i) with
              | (s1, true) => goodbye_items_into v r s1
              | (s1, false) => match v with
                               | EncFixed => (s1, false)      (* return n + n1, err *)
                               | EncSwallow => (s1, true)     (* break; return n, <outer err = nil> *)
                               end
              end
  end.

(* the Write calls Encode makes for an element, for the elements without a loop *)
Definition elem_writes (e : elem) : list bytes :=
  match e with
  | Entry h ff mode fl uid gid mtime => [le64s [h_size h; h_type h; ff; mode; fl; uid; gid; mtime]]
  | User h s | Group h s | XAttr h s | SELinux h s | Filename h s | Symlink h s =>
      [le64s [h_size h; h_type h]; s ++ [0]]
  | Device h major minor => [le64s [h_size h; h_type h; major; minor]]
  | Payload h data => [le64s [h_size h; h_type h]; data]
  | FCaps h data => [le64s [h_size h; h_type h]; data]
  | ACLUser h id perm name | ACLGroup h id perm name => [le64s [h_size h; h_type h; id; perm]; name ++ [0]]
  | ACLGroupObj h perm => [le64s [h_size h; h_type h; perm]]
  | ACLDefault h u g o m => [le64s [h_size h; h_type h; u; g; o; m]]
  | Index h ff mn av mx => [le64s [h_size h; h_type h; ff; mn; av; mx]]
  | Goodbye h items => le64s [h_size h; h_type h] :: map enc_gitem items
  | Table _ _ => [encode_elem e]     (* not written by tar(); its loop is not modelled here *)
  end.

(* FormatEncoder.Encode into the sink *)
Definition encode_into (v : enc_variant) (e : elem) (s : sink) : sink * bool :=
  match e with
  | Goodbye h items =>
      match sink_write s (le64s [h_size h; h_type h]) with
      | (s1, true) => goodbye_items_into v items s1
      | (s1, false) => (s1, false)
      end
  | _ => write_all (elem_writes e) s
  end.

Fixpoint write_elems (v : enc_variant) (es : list elem) (s : sink) : sink * bool :=
  match es with
  | [] => (s, true)
  | e :: r => match encode_into v e s with
              | (s1, true) => write_elems v r s1
              | (s1, false) => (s1, false)
              end
  end.

(* Tar(ctx, w, fs) onto a target that accepts k bytes: (what the target holds, err == nil) *)
Definition tar_into (v : enc_variant) (t : node) (k : N) : bytes * bool :=
  match write_elems v (tar_model t) (mkSink k []) with
  | (s, ok) => (s_data s, ok)
  end.
