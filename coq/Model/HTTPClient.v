(* Client side of the HTTP transports (C14): remotehttp.go (RemoteHTTPBase.IssueRetryableHttpRequest,
   GetObject, StoreObject; RemoteHTTP.GetChunk/HasChunk/StoreChunk/nameFromID) and
   remotehttpindex.go (GetIndex/StoreIndex).

   The server's behaviour over the attempts of one operation is a script
   [rs : nat -> resp_ev] (attempt number, from 0, to what the client observes):
   a status line with a complete body, a transport error (client.Do fails: connection
   refused/reset, timeout), or a body that breaks off (ioutil.ReadAll fails). *)
From Coq Require Import List NArith Arith Bool.
From DS Require Import Gen.Constants Base.Bytes Base.Hash Base.Hex Base.GoPath Model.HTTPServer.
Import ListNotations.

Inductive resp_ev := Status (n : N) (b : bytes) | TransportErr | ShortBody.

(* what IssueHttpRequest / IssueRetryableHttpRequest return: (statusCode, body, err) *)
Inductive hres := HErr | HStatus (n : N) (b : bytes).

(* IssueHttpRequest *)
Definition issue_once (r : resp_ev) : hres :=
  match r with Status n b => HStatus n b | TransportErr => HErr | ShortBody => HErr end.

(* (err != nil) || (statusCode >= 500 && statusCode < 600) *)
Definition retryable (h : hres) : bool :=
  match h with HErr => true | HStatus n _ => (500 <=? n)%N && (n <? 600)%N end.

(* "return 0, nil, err" on giving up: the error if there was one, else status 0 without error *)
Definition give_up (h : hres) : hres :=
  match h with HErr => HErr | HStatus _ _ => HStatus 0 [] end.

(* IssueRetryableHttpRequest: one pass through the retry label per unit of fuel.
   [attempt] is the counter before "attempt++"; returns the result and the number of
   requests sent.  None = out of fuel (never with fuel >= max 1 budget: [retry_fuel]). *)
Fixpoint retry_loop (fuel : nat) (budget attempt : N) (rs : nat -> resp_ev) : option (hres * N) :=
  match fuel with
  | O => None
  | S fuel' =>
      let attempt := (attempt + 1)%N in
      let h := issue_once (rs (N.to_nat (attempt - 1))) in
      if retryable h then
        if (budget <=? attempt)%N then Some (give_up h, attempt)   (* attempt >= r.opt.ErrorRetry *)
        else retry_loop fuel' budget attempt rs                    (* sleep attempt*interval; goto retry *)
      else Some (h, attempt)
  end.

Definition retry_fuel (budget : N) : nat := S (N.to_nat budget).

Definition issue_retryable (budget : N) (rs : nat -> resp_ev) : hres * N :=
  match retry_loop (retry_fuel budget) budget 0 rs with
  | Some r => r
  | None => (HErr, 0%N) (* unreachable: retry_loop_fuel *)
  end.

(* ---------- status mapping ---------- *)

Inductive obj_result := ObjData (b : bytes) | ObjMissing | ObjErr.

(* RemoteHTTPBase.GetObject *)
Definition get_object (budget : N) (rs : nat -> resp_ev) : obj_result * N :=
  let (h, n) := issue_retryable budget rs in
  (match h with
   | HErr => ObjErr
   | HStatus st b => if (st =? 200)%N then ObjData b else if (st =? 404)%N then ObjMissing else ObjErr
   end, n).

(* RemoteHTTPBase.StoreObject: true = nil *)
Definition store_object (budget : N) (rs : nat -> resp_ev) : bool * N :=
  let (h, n) := issue_retryable budget rs in
  (match h with
   | HErr => false
   | HStatus st _ => (st =? 200)%N || (st =? 201)%N
   end, n).

Inductive has_res := HasTrue | HasFalse | HasErr.

(* RemoteHTTP.HasChunk *)
Definition has_chunk (budget : N) (rs : nat -> resp_ev) : has_res * N :=
  let (h, n) := issue_retryable budget rs in
  (match h with
   | HErr => HasErr
   | HStatus st _ => if (st =? 200)%N then HasTrue else if (st =? 404)%N then HasFalse else HasErr
   end, n).

(* RemoteHTTP.nameFromID, as the path the server sees below the store location "/" *)
Definition name_from_id (uncompressed : bool) (ib : bytes) : bytes :=
  let sID := hex ib in
  [slash] ++ join [firstn 4 sID; sID] ++ (if uncompressed then UncompressedChunkExt_bytes else CompressedChunkExt_bytes).

Section Client.
  Variable H : bytes -> id.
  Variable zcomp : bytes -> bytes.
  Variable zdecomp : bytes -> option bytes.

  Inductive chunk_result := CData (c : chunk) | CMissing | CErr.

  (* RemoteHTTP.GetChunk *)
  Definition get_chunk (budget : N) (uncompressed skip_verify : bool) (i : id) (rs : nat -> resp_ev) : chunk_result * N :=
    let (o, n) := get_object budget rs in
    (match o with
     | ObjErr => CErr
     | ObjMissing => CMissing            (* NoSuchObject => ChunkMissing *)
     | ObjData b =>
         match new_chunk_from_storage H zdecomp i b (opt_converters uncompressed) skip_verify with
         | Some c => CData c
         | None => CErr                   (* ChunkInvalid *)
         end
     end, n).

  (* RemoteHTTP.StoreChunk: the body sent (None = chunk.Data() failed, no request is made) *)
  Definition store_chunk_body (uncompressed : bool) (c : chunk) : option bytes :=
    match chunk_data zdecomp c with
    | Some d => Some (to_storage zcomp (opt_converters uncompressed) d)
    | None => None
    end.

  Definition store_chunk (budget : N) (uncompressed : bool) (c : chunk) (rs : nat -> resp_ev) : bool * N :=
    match store_chunk_body uncompressed c with
    | Some _ => store_object budget rs
    | None => (false, 0%N)
    end.

  (* remotehttpindex.go *)
  Variable index_t : Type.
  Variable idx_decode : bytes -> option index_t.
  Variable idx_encode : index_t -> bytes.

  Inductive index_result := IData (ix : index_t) | IMissing | IErr.

  (* RemoteHTTPIndex.GetIndex *)
  Definition get_index (budget : N) (rs : nat -> resp_ev) : index_result * N :=
    let (o, n) := get_object budget rs in
    (match o with
     | ObjErr => IErr
     | ObjMissing => IMissing
     | ObjData b => match idx_decode b with Some ix => IData ix | None => IErr end
     end, n).

  (* RemoteHTTPIndex.StoreIndex *)
  Definition store_index (budget : N) (ix : index_t) (rs : nat -> resp_ev) : bytes * (bool * N) :=
    (idx_encode ix, store_object budget rs).

  (* ---------- client and server composed over a faithful connection ---------- *)

  (* the server answers every attempt the same way *)
  Definition const_script (r : response) : nat -> resp_ev := fun _ => Status (status r) (body r).

  Definition mk_req (m : method) (p auth b : bytes) : request :=
    {| r_method := m; r_path := p; r_auth := auth; r_body := b |}.

  (* GetChunk of id [ib] from a chunk server with configuration [c] over the local store [s] *)
  Definition remote_get_chunk (budget : N) (cli_uncompressed cli_skip : bool) (auth : bytes)
             (c : cfg) (s : lstore) (ib : bytes) : chunk_result * N :=
    let r := fst (chunk_handle H zcomp zdecomp c s (mk_req GET (name_from_id cli_uncompressed ib) auth [])) in
    get_chunk budget cli_uncompressed cli_skip (id_of_bytes ib) (const_script r).

  Definition remote_has_chunk (budget : N) (cli_uncompressed : bool) (auth : bytes)
             (c : cfg) (s : lstore) (ib : bytes) : has_res * N :=
    let r := fst (chunk_handle H zcomp zdecomp c s (mk_req HEAD (name_from_id cli_uncompressed ib) auth [])) in
    has_chunk budget (const_script r).

  (* StoreChunk: result seen by the client and the server's store afterwards *)
  Definition remote_store_chunk (budget : N) (cli_uncompressed : bool) (auth : bytes)
             (c : cfg) (s : lstore) (ib : bytes) (ch : chunk) : (bool * N) * lstore :=
    match store_chunk_body cli_uncompressed ch with
    | None => ((false, 0%N), s)
    | Some b =>
        let (r, s') := chunk_handle H zcomp zdecomp c s (mk_req PUT (name_from_id cli_uncompressed ib) auth b) in
        (store_object budget (const_script r), s')
    end.

  Definition remote_get_index (budget : N) (auth : bytes) (c : cfg) (d : idir) (name : bytes) : index_result * N :=
    let r := fst (index_handle index_t idx_decode idx_encode c d (mk_req GET ([slash] ++ name) auth [])) in
    get_index budget (const_script r).

  Definition remote_has_index (budget : N) (auth : bytes) (c : cfg) (d : idir) (name : bytes) : has_res * N :=
    let r := fst (index_handle index_t idx_decode idx_encode c d (mk_req HEAD ([slash] ++ name) auth [])) in
    has_chunk budget (const_script r).

  Definition remote_store_index (budget : N) (auth : bytes) (c : cfg) (d : idir) (name : bytes) (ix : index_t) : (bool * N) * idir :=
    let (r, d') := index_handle index_t idx_decode idx_encode c d (mk_req PUT ([slash] ++ name) auth (idx_encode ix)) in
    (store_object budget (const_script r), d').

  (* an index server in front of a REMOTE index store (index-server -s http://...): the handler's
     h.s.GetIndex is RemoteHTTPIndex.GetIndex.  Its NoSuchObject counts as "does not exist"
     (indexNotFound) and is answered 404; any other failure 400.  [prefix = true] is the handler
     before "fix: index server answers 404 when the index is missing in a remote upstream
     store", which only recognised os not-exist errors and answered 400 for NoSuchObject. *)
  Definition index_get_proxied_gen (prefix : bool) (r : index_result) : response :=
    match r with
    | IData ix => resp 200 (idx_encode ix)
    | IMissing => if prefix then resp 400 [] else resp 404 []
    | IErr => resp 400 []
    end.
  Definition index_get_proxied := index_get_proxied_gen false.

  (* client -> index server -> remote index store answering according to [rs_up] *)
  Definition proxied_get_index_gen (prefix : bool) (budget budget_up : N) (rs_up : nat -> resp_ev) : index_result * N :=
    get_index budget (const_script (index_get_proxied_gen prefix (fst (get_index budget_up rs_up)))).
  Definition proxied_get_index := proxied_get_index_gen false.
  Definition proxied_get_index_prefix := proxied_get_index_gen true.
End Client.

(* ---------- request bodies across retries ----------
   IssueHttpRequest calls getReader() once per attempt (http.NewRequest(method, url, getReader())),
   so attempt k carries whatever the k-th call of the callback produces.  [body_of k] is that
   byte string; the log is the list of bodies of the requests actually sent, in order. *)
Fixpoint retry_loop_log (fuel : nat) (budget attempt : N) (body_of : nat -> bytes) (rs : nat -> resp_ev)
  : option (hres * N * list bytes) :=
  match fuel with
  | O => None
  | S fuel' =>
      let attempt := (attempt + 1)%N in
      let sent := body_of (N.to_nat (attempt - 1)) in                 (* getReader() *)
      let h := issue_once (rs (N.to_nat (attempt - 1))) in
      if retryable h then
        if (budget <=? attempt)%N then Some (give_up h, attempt, [sent])
        else match retry_loop_log fuel' budget attempt body_of rs with
             | Some (r, n, l) => Some (r, n, sent :: l)
             | None => None
             end
      else Some (h, attempt, [sent])
  end.

Definition issue_retryable_log (budget : N) (body_of : nat -> bytes) (rs : nat -> resp_ev) : hres * N * list bytes :=
  match retry_loop_log (retry_fuel budget) budget 0 body_of rs with
  | Some r => r
  | None => (HErr, 0%N, [])
  end.

(* RemoteHTTPBase.StoreObject with the bodies it sent *)
Definition store_object_log (budget : N) (body_of : nat -> bytes) (rs : nat -> resp_ev) : bool * N * list bytes :=
  match issue_retryable_log budget body_of rs with
  | (h, n, l) => (match h with HErr => false | HStatus st _ => (st =? 200)%N || (st =? 201)%N end, n, l)
  end.

(* RemoteHTTPIndex.StoreIndex: the callback starts a fresh pipe fed by idx.WriteTo on every call,
   so every attempt carries the whole serialised index.
   RemoteHTTP.StoreChunk: the callback wraps the same byte slice in a new bytes.Reader every call. *)
Definition store_payload_log (budget : N) (payload : bytes) (rs : nat -> resp_ev) : bool * N * list bytes :=
  store_object_log budget (fun _ => payload) rs.

(* A server that keeps the body of a PUT it answers 2xx (and nothing otherwise): the object it
   holds after the client's attempts, given which attempts it answered how. *)
Fixpoint stored_after (rs : nat -> resp_ev) (k : nat) (bodies : list bytes) (obj : option bytes) : option bytes :=
  match bodies with
  | [] => obj
  | b :: r =>
      let obj' := match rs k with
                  | Status st _ => if ((st =? 200) || (st =? 201))%N then Some b else obj
                  | _ => obj
                  end in
      stored_after rs (S k) r obj'
  end.
