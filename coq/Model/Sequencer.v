(* sequencer.go / fileseed.go / nullseed.go: how AssembleFile's plan is made.

   SeedSequencer.Plan walks the target index from row 0; at each position every seed is asked
   for its LongestMatchWith(remaining rows); the seed whose match is largest IN BYTES (strictly
   larger than the best so far, first seed wins ties) provides the segment, the position advances
   by the number of matched rows, or by one row with no source when no seed matches.

     FileSeed.LongestMatchWith     [fs_longest]: positions of rows[0].ID in the seed index, in
                                   ascending order; maxMatchFrom each; keep the strictly longest;
                                   stop early when the limit (100 rows without reflinks) is hit;
                                   nothing if the seed is marked invalid or either list is empty
     nullChunkSeed.LongestMatchWith [ns_longest]: leading rows whose ID is the null chunk's, up to
                                   the same limit
     Plan / Next                   [plan_from], the loop "for { Next; append; if done break }"
     AssembleFile's re-plan loop   [replan]: Validate fails => at least one of the file seeds used
                                   by the plan is marked invalid (which ones depends on worker
                                   timing: the oracle [bad] chooses), Rewind, Plan again
                                   (InvalidSeedActionSkip).

   Sizes and starts are uint64 in Go; Size() of a segment is computed with Go's wrap-around. *)
From Coq Require Import List NArith Arith Bool Lia.
From DS Require Import Gen.Constants Base.Bytes Base.Hash.
Import ListNotations.

Record ichunk := { c_id : id; c_start : N; c_size : N }.

Definition w64 (x : N) : N := (x mod 2 ^ 64)%N.

Inductive seedm :=
| SFile (canReflink invalid : bool) (sidx : list ichunk)
| SNull (canReflink : bool) (nid : id).

(* what a plan entry copies from *)
Inductive source :=
| FromFile (k : nat) (m : list ichunk)        (* seed number k (position in the seed list), its rows *)
| FromNull (k : nat) (from to : N).

Record cand := { cd_first : nat; cd_last : nat; cd_src : option source }.

(* the limits are regenerated from fileseed.go / nullseed.go on every run (Gen/Constants.v) *)
Definition limit_of (canReflink : bool) : nat := if canReflink then 0 else fileseed_limit.
Definition nlimit_of (canReflink : bool) : nat := if canReflink then 0 else nullseed_limit.

(* FileSeed.maxMatchFrom: number of rows matched, rows = target rows from sp on, sd = seed rows from dp on *)
Fixpoint match_len (limit sp : nat) (rows sd : list ichunk) : nat :=
  match rows, sd with
  | c :: cr, s :: sr =>
      if negb (limit =? 0) && (sp =? limit) then 0
      else if N.eqb (c_id c) (c_id s) then S (match_len limit (S sp) cr sr) else 0
  | _, _ => 0
  end.

Definition max_match_from (rows sidx : list ichunk) (p limit : nat) : list ichunk :=
  firstn (match_len limit 0 rows (skipn p sidx)) (skipn p sidx).

(* s.pos[id]: ascending positions of id in the seed index *)
Fixpoint positions_from (i : nat) (x : id) (sd : list ichunk) : list nat :=
  match sd with
  | [] => []
  | s :: r => if N.eqb (c_id s) x then i :: positions_from (S i) x r else positions_from (S i) x r
  end.

Fixpoint fs_best (limit : nat) (rows sidx : list ichunk) (ps : list nat) (best : list ichunk) : list ichunk :=
  match ps with
  | [] => best
  | p :: r =>
      let m := max_match_from rows sidx p limit in
      let best' := if length best <? length m then m else best in
      if negb (limit =? 0) && (limit =? length best') then best' else fs_best limit rows sidx r best'
  end.

Definition fs_longest (canReflink invalid : bool) (sidx rows : list ichunk) : nat * option (list ichunk) :=
  match rows, sidx with
  | [], _ | _, [] => (0, None)
  | c :: _, _ :: _ =>
      if invalid then (0, None)
      else match positions_from 0 (c_id c) sidx with
           | [] => (0, None)
           | ps => let m := fs_best (limit_of canReflink) rows sidx ps [] in (length m, Some m)
           end
  end.

Fixpoint ns_count (limit n : nat) (nid : id) (rows : list ichunk) : nat :=
  match rows with
  | [] => n
  | c :: r => if negb (limit =? 0) && (limit =? n) then n
              else if N.eqb (c_id c) nid then ns_count limit (S n) nid r else n
  end.

Definition file_seg_size (m : list ichunk) : N :=
  match m with
  | [] => 0
  | f :: _ => let l := last m f in w64 (w64 (c_start l + c_size l) + 2 ^ 64 - c_start f)
  end%N.

(* one seed's answer: number of rows, source, Size() *)
Definition longest (k : nat) (s : seedm) (rows : list ichunk) : nat * option source * N :=
  match s with
  | SFile cr inv sidx =>
      match fs_longest cr inv sidx rows with
      | (n, Some m) => (n, Some (FromFile k m), file_seg_size m)
      | (n, None) => (n, None, 0%N)
      end
  | SNull cr nid =>
      match rows with
      | [] => (0, None, 0%N)
      | f :: _ =>
          let n := ns_count (nlimit_of cr) 0 nid rows in
          if n =? 0 then (0, None, 0%N)
          else let l := nth (n - 1) rows f in
               (n, Some (FromNull k (c_start f) (w64 (c_start l + c_size l))),
                w64 (w64 (c_start l + c_size l) + 2 ^ 64 - c_start f))
      end
  end.

(* SeedSequencer.Next: fold over the seeds *)
Fixpoint next_fold (k : nat) (seeds : list seedm) (rows : list ichunk)
         (best : option source) (advance : nat) (mx : N) : option source * nat :=
  match seeds with
  | [] => (best, advance)
  | s :: r =>
      match longest k s rows with
      | (n, src, sz) =>
          if (0 <? n) && (mx <? sz)%N then next_fold (S k) r rows src n sz
          else next_fold (S k) r rows best advance mx
      end
  end.

Definition next (seeds : list seedm) (rows : list ichunk) : option source * nat :=
  next_fold 0 seeds rows None 1 0%N.

(* Plan: rows = idx from position cur on.  Fuel = number of rows left (every step advances >= 1). *)
Fixpoint plan_from (fuel : nat) (seeds : list seedm) (rows : list ichunk) (cur : nat) : list cand :=
  match fuel with
  | 0 => []
  | S f =>
      let '(src, adv) := next seeds rows in
      let c := {| cd_first := cur; cd_last := cur + adv - 1; cd_src := src |} in
      let rest := skipn adv rows in
      (* done := r.current >= len(index.Chunks) *)
      match rest with
      | [] => [c]
      | _ => c :: plan_from f seeds rest (cur + adv)
      end
  end.

Definition plan (seeds : list seedm) (idx : list ichunk) : list cand :=
  match idx with
  | [] => []
  | _ => plan_from (length idx) seeds idx 0
  end.

Definition segs (p : list cand) : list (nat * nat) := map (fun c => (cd_first c, cd_last c)) p.

(* ---------- AssembleFile's loop: plan, validate, mark invalid, plan again (skip action) ---------- *)

Definition set_invalid (s : seedm) : seedm :=
  match s with SFile cr _ sidx => SFile cr true sidx | SNull cr nid => SNull cr nid end.

Definition is_usable_file (s : seedm) : bool :=
  match s with SFile _ inv _ => negb inv | SNull _ _ => false end.

Definition file_seeds_used (p : list cand) : list nat :=
  flat_map (fun c => match cd_src c with Some (FromFile k _) => [k] | _ => [] end) p.

(* SetInvalid(true) on every seed object named in [bad] *)
Fixpoint mark_from (i : nat) (bad : list nat) (seeds : list seedm) : list seedm :=
  match seeds with
  | [] => []
  | s :: r => (if existsb (Nat.eqb i) bad then set_invalid s else s) :: mark_from (S i) bad r
  end.
Definition mark_all (bad : list nat) (seeds : list seedm) : list seedm := mark_from 0 bad seeds.

(* One validation outcome: [] = the plan validated; otherwise the seeds the workers marked invalid.
   Plan.Validate only ever marks seeds that occur in the plan (job.candidate.seed). *)
Definition verdict := list nat.

Fixpoint replan (fuel : nat) (seeds : list seedm) (idx : list ichunk) (verdicts : list verdict)
  : option (list cand * nat) :=            (* the validated plan and the number of attempts *)
  match fuel with
  | 0 => None
  | S f =>
      let p := plan seeds idx in
      match verdicts with
      | [] => Some (p, 1)
      | v :: vs =>
          let bad := filter (fun k => existsb (Nat.eqb k) (file_seeds_used p)) v in
          match bad with
          | [] => Some (p, 1)                          (* nothing of this plan failed: it is valid *)
          | _ => match replan f (mark_all bad seeds) idx vs with
                 | Some (p', n) => Some (p', S n)
                 | None => None
                 end
          end
      end
  end.

Definition usable_files (seeds : list seedm) : nat := length (filter is_usable_file seeds).

(* SeedSegment.Size() of a plan entry's source *)
Definition src_size (s : source) : N :=
  match s with
  | FromFile _ m => file_seg_size m
  | FromNull _ f t => w64 (t + 2 ^ 64 - f)
  end%N.
