(* make.go: IndexFromFile -- n chunk workers (pChunker.start / syncWith) and the collector.

   Every worker runs a chunker from its own offset; Base facts about a chunker come from
   Model/Chunker.v: from position p the next chunk is [cut_spec] of the remaining data.
   A chunk is (start, size); its ID is H of its bytes; "is the null chunk" is ID equality
   with the ID of max zero bytes, exactly as in the Go code.

   Atomic steps (one per scheduled thread id):
     worker, pc Top       : chunker.Next; empty => eof, exit; else push to own bucket
     worker, pc SyncLoop  : one iteration of syncWith's first loop (a non-blocking receive from
                            the next worker's bucket), the in-sync test, entry to the null loop
     worker, pc NullLoop  : one iteration of the null-chunk look-ahead loop
     worker, pc After     : Advance + ONE synthetic null chunk per step (one channel send each)
     worker, pc Skip      : the neighbour-skip test
     collector            : one receive from the current worker's bucket / move on / stop
   A bucket is a queue: [w_emit] is everything ever pushed, [w_cons] how many were received. *)
From Coq Require Import List NArith Arith Bool Lia.
From DS Require Import Base.Bytes Base.Hash Model.Chunker.
Import ListNotations.

Definition chunk := (nat * nat)%type.          (* start, size *)
Definition c_start (c : chunk) : nat := fst c.
Definition c_size (c : chunk) : nat := snd c.
Definition c_end (c : chunk) : nat := fst c + snd c.

Inductive pc :=
| Top
| SyncLoop (c : chunk) (prev : option chunk)
| NullLoop (c : chunk) (n : nat)
| After (c : chunk) (n : nat)
| Skip
| Exited.

Record wstate := {
  w_pos : nat;               (* position of this worker's chunker *)
  w_emit : list chunk;       (* every chunk pushed into the bucket so far *)
  w_cons : nat;              (* number of them already received by a consumer *)
  w_sync : option chunk;     (* c.sync: last chunk received from this bucket by syncWith; None = zero value *)
  w_next : nat;              (* index of c.next; >= number of workers means nil *)
  w_active : bool;
  w_eof : bool;
  w_pc : pc;
}.

Record cstate := {
  k_cur : nat;               (* worker the collector is reading from *)
  k_out : list chunk;        (* index.Chunks *)
  k_done : bool;
}.

Record pstate := { p_w : list wstate; p_c : cstate }.

Inductive ptid := PWorker (i : nat) | PCollector.

Section PChunker.
  Variable H : bytes -> id.
  Variables (min max : nat) (d : N).
  Variable data : bytes.
  (* the collector's stop test: false = the current code (stop when the index covers the file);
     true = the code before the "fix:" commit (stop at the first worker that hit EOF) *)
  Variable stop_on_eof : bool.

  Definition nullid : id := H (repeat 0%N max).
  Definition is_null (c : chunk) : bool := N.eqb (H (slice data (c_start c) (c_size c))) nullid.
  Definition is_null_opt (c : option chunk) : bool := match c with Some c => is_null c | None => false end.
  Definition sync_start (c : option chunk) : nat := match c with Some c => c_start c | None => 0 end.

  (* the chunker of a worker at position p *)
  Definition next_chunk (p : nat) : option chunk :=
    match skipn p data with
    | [] => None
    | rest => Some (p, cut_spec min max d rest)
    end.

  Fixpoint set_nth {A} (l : list A) (i : nat) (x : A) : list A :=
    match l, i with
    | [], _ => []
    | _ :: r, 0 => x :: r
    | y :: r, S i => y :: set_nth r i x
    end.

  Definition dummy : wstate :=
    {| w_pos := 0; w_emit := []; w_cons := 0; w_sync := None; w_next := 0; w_active := false; w_eof := false; w_pc := Exited |}.
  Definition getw (s : pstate) (i : nat) : wstate := nth i (p_w s) dummy.
  Definition setw (s : pstate) (i : nat) (w : wstate) : pstate := {| p_w := set_nth (p_w s) i w; p_c := p_c s |}.

  Definition nworkers (s : pstate) : nat := length (p_w s).

  (* non-blocking receive from worker j's bucket *)
  Definition bucket_head (w : wstate) : option chunk := nth_error (w_emit w) (w_cons w).

  Definition with_pc (w : wstate) (p : pc) : wstate :=
    {| w_pos := w_pos w; w_emit := w_emit w; w_cons := w_cons w; w_sync := w_sync w; w_next := w_next w;
       w_active := w_active w; w_eof := w_eof w; w_pc := p |}.
  Definition exit_w (w : wstate) (eof : bool) : wstate :=
    {| w_pos := w_pos w; w_emit := w_emit w; w_cons := w_cons w; w_sync := w_sync w; w_next := w_next w;
       w_active := false; w_eof := eof; w_pc := Exited |}.
  Definition recv_w (w : wstate) (v : chunk) : wstate :=     (* the bucket's owner record after a syncWith receive *)
    {| w_pos := w_pos w; w_emit := w_emit w; w_cons := S (w_cons w); w_sync := Some v; w_next := w_next w;
       w_active := w_active w; w_eof := w_eof w; w_pc := w_pc w |}.
  Definition take_w (w : wstate) : wstate :=                  (* after a collector receive *)
    {| w_pos := w_pos w; w_emit := w_emit w; w_cons := S (w_cons w); w_sync := w_sync w; w_next := w_next w;
       w_active := w_active w; w_eof := w_eof w; w_pc := w_pc w |}.

  (* nc = IndexChunk{Start: nc.Start+nc.Size, Size: max} repeated k times after chunk c *)
  Fixpoint null_chunks (k : nat) (from : nat) : list chunk :=
    match k with
    | O => []
    | S k' => (from, max) :: null_chunks k' (from + max)
    end.

  Definition step_worker (s : pstate) (i : nat) : option pstate :=
    let w := getw s i in
    if negb (i <? nworkers s) then None else
    match w_pc w with
    | Exited => None
    | Top =>
        match next_chunk (w_pos w) with
        | None => Some (setw s i (exit_w w true))
        | Some c =>
            let w' := {| w_pos := c_end c; w_emit := w_emit w ++ [c]; w_cons := w_cons w; w_sync := w_sync w;
                         w_next := w_next w; w_active := true; w_eof := false;
                         w_pc := if w_next w <? nworkers s then SyncLoop c None else Skip |} in
            Some (setw s i w')
        end
    | SyncLoop c prev =>
        let j := w_next w in
        let b := getw s j in
        if sync_start (w_sync b) <? c_start c then
          (* for chunk.Start > c.sync.Start { prev = c.sync; select { case c.sync, ok = <-c.results ... default: return false, 0 } } *)
          match bucket_head b with
          | Some v => Some (setw (setw s j (recv_w b v)) i (with_pc w (SyncLoop c (w_sync b))))
          | None => Some (setw s i (with_pc w (After c 0)))
          end
        else
          match w_sync b with
          | Some m =>
              if (c_start c =? c_start m) && (c_size c =? c_size m) then Some (setw s i (exit_w w false))
              else if is_null m && is_null_opt prev then
                     Some (setw s i (with_pc w (NullLoop c (match prev with Some p => c_end p - c_start c | None => 0 end))))
                   else Some (setw s i (with_pc w (After c 0)))
          | None =>
              (* zero-value sync: Start 0, Size 0, zero ID *)
              if (c_start c =? 0) && (c_size c =? 0) then Some (setw s i (exit_w w false))
              else Some (setw s i (with_pc w (After c 0)))
          end
    | NullLoop c n =>
        let j := w_next w in
        let b := getw s j in
        match bucket_head b with
        | Some v =>
            let s' := setw s j (recv_w b v) in
            if is_null v then Some (setw s' i (with_pc w (NullLoop c (n + max))))
            else Some (setw s' i (with_pc w (After c n)))
        | None => Some (setw s i (with_pc w (After c n)))
        end
    | After c n =>
        (* numNullChunks = zeroes / max; Advance; then one "c.results <- nc" per step:
           nc = IndexChunk{Start: nc.Start + nc.Size, Size: max} (the chunker position is private
           to the worker, so advancing it chunk by chunk is the same as advancing it at once) *)
        if n <? max then Some (setw s i (with_pc w Skip))
        else
          let nc := (c_end c, max) in
          let w' := {| w_pos := w_pos w + max; w_emit := w_emit w ++ [nc];
                       w_cons := w_cons w; w_sync := w_sync w; w_next := w_next w; w_active := true;
                       w_eof := false; w_pc := After nc (n - max) |} in
          Some (setw s i w')
    | Skip =>
        let j := w_next w in
        let b := getw s j in
        if (j <? nworkers s) && negb (w_active b) && (length (w_emit b) <=? w_cons b) then
          Some (setw s i {| w_pos := w_pos w; w_emit := w_emit w; w_cons := w_cons w; w_sync := w_sync w;
                            w_next := w_next b; w_active := true; w_eof := false; w_pc := Top |})
        else Some (setw s i (with_pc w Top))
    end.

  Definition covered (out : list chunk) : nat := fold_right (fun c a => c_size c + a) 0 out.
  (* Index.Length(): start+size of the last chunk *)
  Definition out_length (out : list chunk) : nat := match rev out with [] => 0 | c :: _ => c_end c end.

  Definition step_collector (s : pstate) : option pstate :=
    let c := p_c s in
    if k_done c then None else
    if negb (k_cur c <? nworkers s) then Some {| p_w := p_w s; p_c := {| k_cur := k_cur c; k_out := k_out c; k_done := true |} |}
    else
      let w := getw s (k_cur c) in
      match bucket_head w with
      | Some v => Some {| p_w := set_nth (p_w s) (k_cur c) (take_w w);
                          p_c := {| k_cur := k_cur c; k_out := k_out c ++ [v]; k_done := false |} |}
      | None =>
          if w_active w then None                         (* blocked: bucket empty and not closed *)
          else match w_pc w with
               | Exited =>
                   if (if stop_on_eof then w_eof w else length data <=? out_length (k_out c))
                   then Some {| p_w := p_w s; p_c := {| k_cur := k_cur c; k_out := k_out c; k_done := true |} |}
                   else Some {| p_w := p_w s; p_c := {| k_cur := S (k_cur c); k_out := k_out c; k_done := false |} |}
               | _ => None                                 (* not started yet: bucket open *)
               end
      end.

  Definition pstep (s : pstate) (t : ptid) : option pstate :=
    match t with
    | PWorker i => step_worker s i
    | PCollector => step_collector s
    end.

  (* IndexFromFile: nn := size/max + 1; if nn < n { n = nn }; span := size/n; worker i starts at span*i *)
  Definition eff_n (n : nat) : nat := Nat.min n (length data / max + 1).
  Definition init_w (n span i : nat) : wstate :=
    {| w_pos := span * i; w_emit := []; w_cons := 0; w_sync := None; w_next := S i;
       w_active := true; w_eof := false; w_pc := Top |}.
  Definition pinit (n : nat) : pstate :=
    let n' := eff_n n in
    let span := length data / n' in
    {| p_w := map (init_w n' span) (seq 0 n'); p_c := {| k_cur := 0; k_out := []; k_done := false |} |}.

  (* the single-stream result with absolute starts *)
  Fixpoint with_offsets (from : nat) (cs : list bytes) : list chunk :=
    match cs with
    | [] => []
    | c :: r => (from, length c) :: with_offsets (from + length c) r
    end.
  Definition seq_index : list chunk := with_offsets 0 (chunk_all min max d data).
End PChunker.
