(* local.go: LocalStore (nameFromID, GetChunk, HasChunk, RemoveChunk, StoreChunk) and the
   extension filter + id parse used by Verify and Prune; chunk.go: NewChunkFromStorage, Chunk.Data,
   Chunk.ID; coverter.go / store.go: the converter stack of a store (compression or nothing).
   Executable definitions only.  The zstd codec is a pair of section variables. *)
From Coq Require Import List NArith Arith Bool.
From DS Require Import Gen.Constants Base.Bytes Base.Hash Base.HexId Base.FS.
Import ListNotations.

(* ---------- strings.HasPrefix / HasSuffix / TrimSuffix ---------- *)
Definition has_prefix (s pre : bytes) : bool := bytes_eqb (firstn (length pre) s) pre.
Definition has_suffix (s suf : bytes) : bool :=
  (length suf <=? length s) && bytes_eqb (skipn (length s - length suf) s) suf.
Definition trim_suffix (s suf : bytes) : bytes :=
  if has_suffix s suf then firstn (length s - length suf) s else s.

Definition slash : byte := 47%N.
(* filepath.Join(dir, name) as filepath.Walk builds the paths it hands to the callback *)
Definition join_str (dir : bytes) (nm : name) : bytes := dir ++ slash :: nm.

(* strings.Split(s, "/") *)
Fixpoint split_slash_aux (cur : bytes) (s : bytes) : list bytes :=
  match s with
  | [] => [rev cur]
  | c :: r => if N.eqb c slash then rev cur :: split_slash_aux [] r else split_slash_aux (c :: cur) r
  end.
Definition split_slash (s : bytes) : list bytes := split_slash_aux [] s.

(* ---------- symbolic links: the LAST component of a path is followed by Stat / Open, as os.Stat and
   ioutil.ReadFile do (a chunk's canonical file may be a link to the object kept elsewhere).  Intermediate
   components are not (Base/FS.resolve); a target is resolved from the link's directory, absolute targets
   from the model's root; at most 8 hops (ELOOP beyond). ---------- *)
Definition dot : bytes := [46%N].
Definition dotdot : bytes := [46%N; 46%N].
Fixpoint apply_components (cur : path) (cs : list bytes) : option path :=
  match cs with
  | [] => Some cur
  | c :: r =>
      if bytes_eqb c [] || bytes_eqb c dot then apply_components cur r
      else if bytes_eqb c dotdot then
        match cur with [] => None | _ => apply_components (removelast cur) r end
      else apply_components (cur ++ [c]) r
  end.
Definition link_target (p : path) (t : bytes) : option path :=
  apply_components (match t with c :: _ => if N.eqb c slash then [] else removelast p | [] => removelast p end)
                   (split_slash t).

(* ---------- store configuration: LocalStore{Base, Opt.Uncompressed, Opt.SkipVerify} ---------- *)
Record store := mkStore { st_base : path; st_unc : bool; st_skip : bool }.

(* the chunk file extension of the configured format *)
Definition ext_of (unc : bool) : bytes :=
  if unc then UncompressedChunkExt_bytes else CompressedChunkExt_bytes.

(* LocalStore.nameFromID: (dir, name) *)
Definition name_from_id (st : store) (i : id) : path * path :=
  let sid := hex_id i in
  let dir := st_base st ++ [firstn 4 sid] in
  (dir, dir ++ [sid ++ ext_of (st_unc st)]).

(* tempfile.NewMode(d, tmpChunkPrefix, ..): the file name is tmpChunkPrefix ++ r, r = "." ++ decimal *)
Definition tmp_name (r : bytes) : name := tmpChunkPrefix_bytes ++ r.

(* The file filter of Verify and Prune: the suffix test is on the whole PATH string, the id is
   parsed from the BASE NAME with the suffix trimmed.  None = "not a chunk of this format". *)
Definition chunk_file_id (unc : bool) (pstr : bytes) (nm : name) : option id :=
  if has_suffix pstr (ext_of unc) then unhex_id (trim_suffix nm (ext_of unc)) else None.

(* httphandler.go: HTTPHandler.idFromPath, as the rule it implements (path.Base / path.Join are the
   identity on the shapes that pass): the request path must be "/" ++ first four characters of the name ++
   "/" ++ name ++ the extension of the SERVER's format, the name being 64 hex digits.  compressed = the
   handler's converters contain compression. *)
Definition http_id_from_path (compressed : bool) (p : bytes) : option id :=
  let ext := ext_of (negb compressed) in
  match p with
  | s :: rest =>
      if N.eqb s slash && (4 <=? length rest) then
        match skipn 4 rest with
        | s2 :: nm =>
            if N.eqb s2 slash && has_suffix nm ext
               && negb (negb compressed && has_suffix p CompressedChunkExt_bytes) then
              let sid := trim_suffix nm ext in
              if bytes_eqb (firstn 4 sid) (firstn 4 rest) then unhex_id sid else None
            else None
        | [] => None
        end
      else None
  | [] => None
  end.

(* lstat/open outcome at a path: the entry, or the errno of the walk down *)
Definition probe (p : path) (s : node) : res ent :=
  match resolve p s with Ok n => Ok (ent_of n) | Err e => Err e end.

(* os.Stat / open: like [probe], the final link followed *)
Fixpoint probe_follow (fuel : nat) (p : path) (s : node) : res ent :=
  match probe p s with
  | Ok (ELink _ t) =>
      match fuel with
      | O => Err EINVAL
      | S f => match link_target p t with Some q => probe_follow f q s | None => Err ENOENT end
      end
  | r => r
  end.
Definition probe_f : path -> node -> res ent := probe_follow 8.

(* symlink(2) *)
Definition mk_symlink (p : path) (target : bytes) : node -> res node :=
  upd p (fun o => match o with None => Ok (Some (Symlink meta0 target)) | Some _ => Err EEXIST end).

(* ioutil.ReadFile as GetChunk uses it: None = os.IsNotExist(err); any other error is IGNORED by
   GetChunk and leaves b empty (a directory, or a non-directory on the way). *)
Definition read_file (p : path) (s : node) : option bytes :=
  match probe_f p s with
  | Ok (EFile _ b) => Some b
  | Err ENOENT => None
  | _ => Some []
  end.

Inductive has_res := HasYes | HasNo | HasErr.
Inductive get_res := GetOk (storage : bytes) | GetMissing | GetInvalid (sum : id).
Inductive rm_res := RmOk (s : node) | RmMissing | RmErr (e : errno).

Section Store.
  Variable H : bytes -> id.
  Variable zcomp : bytes -> option bytes.     (* Compress *)
  Variable zdecomp : bytes -> option bytes.   (* Decompress; None = error *)

  (* Converters.toStorage / fromStorage for the stack StoreOptions.converters() builds *)
  Definition to_storage (unc : bool) (b : bytes) : option bytes := if unc then Some b else zcomp b.
  Definition from_storage (unc : bool) (b : bytes) : option bytes := if unc then Some b else zdecomp b.

  (* Chunk.Data() of a chunk created from storage bytes: "no data in chunk" when they are empty *)
  Definition storage_data (unc : bool) (st : bytes) : option bytes :=
    match st with [] => None | _ => from_storage unc st end.

  (* Chunk.ID(): the zero ChunkID when Data() fails *)
  Definition zero_id : id := 0%N.
  Definition storage_sum (unc : bool) (st : bytes) : id :=
    match storage_data unc st with Some d => H d | None => zero_id end.

  (* NewChunkFromStorage (after 27b0229): Data() is produced first; when that fails the object is
     invalid for EVERY id, reported with the zero sum *)
  Definition new_chunk_from_storage (i : id) (b : bytes) (unc skip : bool) : get_res :=
    if skip then GetOk b
    else match storage_data unc b with
         | None => GetInvalid zero_id
         | Some d => if N.eqb (H d) i then GetOk b else GetInvalid (H d)
         end.

  (* NewChunkFromStorage as it was before 27b0229: the sum of an object without data is the zero id,
     which then passes for the all-zero id *)
  Definition new_chunk_from_storage_prefix (i : id) (b : bytes) (unc skip : bool) : get_res :=
    if skip then GetOk b
    else if N.eqb (storage_sum unc b) i then GetOk b else GetInvalid (storage_sum unc b).

  (* LocalStore.GetChunk *)
  Definition get_chunk (st : store) (i : id) (s : node) : get_res :=
    match read_file (snd (name_from_id st i)) s with
    | None => GetMissing
    | Some b => new_chunk_from_storage i b (st_unc st) (st_skip st)
    end.

  (* the plain data a successful GetChunk hands out (Chunk.Data) *)
  Definition get_data (st : store) (i : id) (s : node) : option bytes :=
    match get_chunk st i s with GetOk b => storage_data (st_unc st) b | _ => None end.

  (* LocalStore.HasChunk: os.Stat *)
  Definition has_chunk (st : store) (i : id) (s : node) : has_res :=
    match probe_f (snd (name_from_id st i)) s with
    | Ok _ => HasYes
    | Err ENOENT => HasNo
    | Err _ => HasErr
    end.

  (* LocalStore.RemoveChunk: ChunkMissing when Stat fails for whatever reason, else os.Remove *)
  Definition remove_chunk (st : store) (i : id) (s : node) : rm_res :=
    let p := snd (name_from_id st i) in
    match probe_f p s with
    | Err _ => RmMissing
    | Ok _ => match remove p s with Ok s' => RmOk s' | Err e => RmErr e end
    end.

  (* LocalStore.StoreChunk as an operation list, for temp suffix r and storage bytes b *)
  Definition store_ops_pre (d : path) : list op := map OpEnsureDir (prefixes d).
  Definition store_ops_post (tmp p : path) (b : bytes) : list op :=
    [OpWrite tmp b; OpClose tmp; OpRename tmp p].
  Definition store_ops (st : store) (i : id) (r : bytes) (b : bytes) : list op :=
    let (d, p) := name_from_id st i in
    store_ops_pre d ++ OpCreateExcl (d ++ [tmp_name r]) :: store_ops_post (d ++ [tmp_name r]) p b.

  (* tempfile.NewSuffixAndMode: try candidate names until one does not exist (EEXIST => next) *)
  Fixpoint create_tmp (d : path) (rs : list bytes) (s : node) : option bytes * res node :=
    match rs with
    | [] => (None, Err EEXIST)
    | r :: rs' =>
        match create_excl (d ++ [tmp_name r]) s with
        | Err EEXIST => create_tmp d rs' s
        | x => (Some r, x)
        end
    end.
  Definition max_attempts : nat := 1000.

  (* StoreChunk of a chunk with ID() = i holding plain data (i = H plain unless the chunk was built
     with a trusted id), no I/O fault.  rs = the stream of random temp suffixes.  Returns the final
     state and the error, if any. *)
  Definition store_chunk (st : store) (rs : list bytes) (i : id) (plain : bytes) (s : node) : node * option errno :=
    match plain with
    | [] => (s, Some EINVAL)                       (* chunk.Data(): "no data in chunk" *)
    | _ =>
      match to_storage (st_unc st) plain with
      | None => (s, Some EIO)
      | Some b =>
          let (d, p) := name_from_id st i in
          match run_ops (store_ops_pre d) s with
          | (s1, Some e) => (s1, Some e)
          | (s1, None) =>
              match create_tmp d (firstn max_attempts rs) s1 with
              | (Some r, Ok s2) => run_ops (store_ops_post (d ++ [tmp_name r]) p b) s2
              | (_, Err e) => (s1, Some e)
              | (None, Ok _) => (s1, Some EIO)
              end
          end
      end
    end.
End Store.
