(* Context-bound stores: a HasChunk / StoreChunk / GetChunk request that is in flight when the context is
   cancelled -- and every later one -- fails (net/http with the request's context, S3/GCS clients).
   In Model/BulkWrite.v a call fails when the fault oracle says so; here the oracle handed to each step
   additionally says "fail" whenever ctx.Done() is closed in the state the step starts from.  Everything
   else (feeder, workers, ChunkStorage, errgroup, the cancelling environment) is BulkWrite's. *)
From Coq Require Import List NArith Arith Bool.
From DS Require Import Base.Bytes Base.Hash Base.Sched Model.Pool Model.BulkWrite.
Import ListNotations.

Section CtxBound.
  Variable H : bytes -> id.
  Variable mode : bmode.
  Variable jobs : list (id * bytes).
  Variable src : id -> option bytes.
  Variable fault : op_kind -> nat -> bool.
  Variable can_cancel : bool.

  Definition cb_fault (s : bstate) (o : op_kind) (n : nat) : bool := fault o n || b_cancelled s.

  Definition cb_step (s : bstate) (t : btid) : option bstate :=
    bstep H mode jobs src (cb_fault s) can_cancel s t.
End CtxBound.
