(* assemble.go / sequencer.go / fileseed.go: AssembleFile's plan-validate loop with the seeds' DATA.

   Model/Sequencer.v's [replan] takes the validation verdicts from an oracle.  Here the verdict is
   computed: every file seed carries the bytes of its file (static during the run), and

     fileSeedSegment.Validate   [seg_valid]   reads every chunk of the segment at the start/size the
                                              SEED INDEX gives and compares its digest with the id
                                              (a read that ends beyond the file fails; a zero-length
                                              read never fails)
     Plan.Validate              [truly_bad]   the seeds of the plan with a failing segment; which of
                                              them the racing workers mark before the error stops
                                              the others is the scheduler's choice [choices]; at
                                              least one is marked (with one worker: the first)
     InvalidSeedActionSkip      [act = Skip]  marked seeds stay invalid, Rewind, Plan again
     InvalidSeedActionRegenerate [act = Regen] RegenerateInvalidSeeds: every invalid seed's index is
                                              replaced by IndexFromFile of its data [chunkf] and the
                                              mark is cleared, Rewind, Plan again
     InvalidSeedActionBailOut   [act = Bail]  the first failed validation ends the call

   [chunkf] is the chunker applied to the seed's data with the seed index' own parameters; the
   proofs need of it only that the index it returns describes the data ([describes]), which
   Proofs/RegenerateProofs.v proves of Model/Chunker.v's [chunk_all]. *)
From Coq Require Import List NArith Arith Bool Lia.
From DS Require Import Gen.Constants Base.Bytes Base.Hash Model.Sequencer.
Import ListNotations.

Inductive action := Bail | Skip | Regen.

Notation dseed := (seedm * bytes)%type.

Section Regenerate.
  Variable H : bytes -> id.
  Variable chunkf : bytes -> list ichunk.

  Definition chunk_valid (data : bytes) (c : ichunk) : bool :=
    ((c_size c =? 0)%N || (c_start c + c_size c <=? N.of_nat (length data))%N)
    && N.eqb (H (slice data (N.to_nat (c_start c)) (N.to_nat (c_size c)))) (c_id c).

  Definition seg_valid (data : bytes) (m : list ichunk) : bool := forallb (chunk_valid data) m.

  Definition data_of (ds : list dseed) (k : nat) : bytes :=
    match nth_error ds k with Some (_, d) => d | None => [] end.

  (* the seeds of the plan that have a segment which does not validate, in plan order *)
  Definition truly_bad (ds : list dseed) (p : list cand) : list nat :=
    flat_map (fun c => match cd_src c with
                       | Some (FromFile k m) => if seg_valid (data_of ds k) m then [] else [k]
                       | _ => []
                       end) p.

  (* RegenerateIndex of one seed object *)
  Definition regen_seed (s : seedm) (d : bytes) : seedm :=
    match s with
    | SFile cr true _ => SFile cr false (chunkf d)
    | _ => s
    end.

  (* SetInvalid(true) on the seeds in [bad], then what the action does with the invalid seeds *)
  Fixpoint settle_from (act : action) (i : nat) (bad : list nat) (ds : list dseed) : list dseed :=
    match ds with
    | [] => []
    | (s, d) :: r =>
        let s1 := if existsb (Nat.eqb i) bad then set_invalid s else s in
        ((match act with Regen => regen_seed s1 d | _ => s1 end), d) :: settle_from act (S i) bad r
    end.
  Definition settle (act : action) (bad : list nat) (ds : list dseed) : list dseed := settle_from act 0 bad ds.

  (* the seeds marked in one failed validation: the scheduler's choice among the truly bad ones,
     never empty *)
  Definition marked (tb : list nat) (choice : list nat) : list nat :=
    match filter (fun k => existsb (Nat.eqb k) tb) choice with
    | [] => match tb with t :: _ => [t] | [] => [] end
    | b => b
    end.

  Record outcome := { o_plan : list cand; o_attempts : nat; o_seeds : list dseed; o_ok : bool }.

  Fixpoint vloop (act : action) (fuel : nat) (ds : list dseed) (idx : list ichunk) (choices : list (list nat))
    : option outcome :=
    match fuel with
    | 0 => None
    | S f =>
        let p := plan (map fst ds) idx in
        match truly_bad ds p with
        | [] => Some {| o_plan := p; o_attempts := 1; o_seeds := ds; o_ok := true |}
        | tb =>
            let bad := marked tb (hd [] choices) in
            match act with
            | Bail => Some {| o_plan := p; o_attempts := 1; o_seeds := settle Bail bad ds; o_ok := false |}
            | _ => match vloop act f (settle act bad ds) idx (tl choices) with
                   | Some o => Some {| o_plan := o_plan o; o_attempts := S (o_attempts o);
                                        o_seeds := o_seeds o; o_ok := o_ok o |}
                   | None => None
                   end
            end
        end
    end.

  (* a seed whose index does not describe its data, or which is marked invalid *)
  Definition nondescr (sd : dseed) : bool :=
    match fst sd with
    | SFile _ inv sidx => inv || negb (seg_valid (snd sd) sidx)
    | SNull _ _ => false
    end.
  Definition stale (ds : list dseed) : nat := length (filter nondescr ds).

  Definition dusable (ds : list dseed) : nat := usable_files (map fst ds).
End Regenerate.

(* IndexFromFile's result as seed rows: ids are digests, starts cumulative *)
Fixpoint rows_of_chunks (H : bytes -> id) (off : N) (cs : list bytes) : list ichunk :=
  match cs with
  | [] => []
  | c :: r => {| c_id := H c; c_start := off; c_size := N.of_nat (length c) |}
              :: rows_of_chunks H (off + N.of_nat (length c))%N r
  end.
