(* protocol.go: Protocol.ReadMessage / WriteMessage (the casync wire protocol
   framing: length, type, body) over the reader model of Model/Format.v. *)
From Coq Require Import List NArith Bool.
From DS Require Import Gen.Constants Base.Bytes Base.LE64 Model.Format.
Import ListNotations.
Local Open Scope N_scope.

Definition message := (N * bytes)%type.     (* Message{Type, Body} *)

(* len := ReadUint64(); if len < 16 {error}; b := ReadN(len-8); typ := b[0:8]; b = b[8:] *)
Definition read_message (v : version) : M message :=
  do len <- read_u64;
  if len <? 16 then fail TooShort
  else
    do b <- read_n v (sub64 len 8);
    match take_exact 8 b with
    | Some (t, body) => ret (un_le64 t, body)
    | None => throw SliceBounds
    end.

(* WriteMessage: 16+len(body), type, body *)
Definition write_message (m : message) : bytes :=
  le64 (16 + lenN (snd m)) ++ le64 (fst m) ++ snd m.

(* a peer reading messages until the stream ends or an error occurs *)
Fixpoint messages_loop (v : version) (fuel : nat) (acc : list message) : M (list message) :=
  match fuel with
  | O => fail OutOfFuel
  | S fuel' => fun s =>
      match s with
      | [] => (Ok (rev acc), [], 0)
      | _ => (do m <- read_message v; messages_loop v fuel' (m :: acc)) s
      end
  end.

Definition read_messages (v : version) : M (list message) :=
  with_input_fuel (fun fuel => messages_loop v fuel []).

Definition decode_message (b : bytes) : result (message * bytes) := run_result (read_message Fixed) b.
Definition decode_message_alloc (b : bytes) : N := run_alloc (read_message Fixed) b.
Definition decode_messages (b : bytes) : result (list message * bytes) := run_result (read_messages Fixed) b.
Definition decode_messages_alloc (b : bytes) : N := run_alloc (read_messages Fixed) b.
