(* local.go: LocalStore.StoreChunk as a small-step program, one system call per step, for any number of
   concurrent writers on one store directory; cmd/desync/extract.go: writeWithTmpFile likewise.
   "The process dies at some instant" = the run stops after some prefix of a schedule, so the crash
   states are exactly the states [run step sched init] for all schedules (Base/Sched.v).
   A write() may transfer any number of bytes per call (Go's os.File.Write loops) and may fail at any
   point (ENOSPC, EFBIG, ...): both are choices of the schedule.  Executable definitions only. *)
From Coq Require Import List NArith Arith Bool.
From DS Require Import Gen.Constants Base.Bytes Base.Hash Base.HexId Base.FS Model.LocalStore.
Import ListNotations.

(* what one StoreChunk call is given: the store's format, chunk.ID(), the storage bytes
   (converters.toStorage(chunk.Data())) and the stream of random temp suffixes tempfile will try *)
Record wdata := mkW { wd_unc : bool; wd_id : id; wd_obj : bytes; wd_cands : list bytes }.

Inductive action :=
| ANext (k : nat)     (* the system call goes through; a write() transfers k+1 more bytes (or what is left) *)
| AFail.              (* a write() returns an error instead *)

Inductive wpc :=
| PcEnsure (todo : list path)      (* os.MkdirAll(d): levels still to check/create *)
| PcCreate (cands : list bytes)    (* tempfile.NewMode: O_CREAT|O_EXCL, next candidate on EEXIST *)
| PcWrite (r : bytes) (w : nat)    (* tmp.Write(b): w bytes are in the file *)
| PcClose (r : bytes)              (* tmp.Close() *)
| PcRename (r : bytes)             (* os.Rename(tmp, p) *)
| PcFailClose (r : bytes)          (* write failed: tmp.Close() *)
| PcFailRemove (r : bytes)         (* ... os.Remove(tmp.Name()) *)
| PcDone (err : option errno).     (* StoreChunk returned *)

Section Crash.
  Variable base : path.
  Variable wd : nat -> wdata.

  Definition w_store (i : nat) : store := mkStore base (wd_unc (wd i)) false.
  Definition w_dir (i : nat) : path := fst (name_from_id (w_store i) (wd_id (wd i))).
  Definition w_final (i : nat) : path := snd (name_from_id (w_store i) (wd_id (wd i))).
  Definition w_tmp (i : nat) (r : bytes) : path := w_dir i ++ [tmp_name r].

  Definition cstate : Type := node * (nat -> wpc).
  Definition set_pc (pcs : nat -> wpc) (i : nat) (pc : wpc) : nat -> wpc :=
    fun j => if Nat.eqb j i then pc else pcs j.

  Definition init (s0 : node) : cstate := (s0, fun i => PcEnsure (prefixes (w_dir i))).

  Definition step (s : cstate) (t : nat * action) : option cstate :=
    let (fs, pcs) := s in
    let (i, a) := t in
    let b := wd_obj (wd i) in
    let go fs' pc := Some (fs', set_pc pcs i pc) in
    match pcs i with
    | PcEnsure [] => go fs (PcCreate (firstn max_attempts (wd_cands (wd i))))
    | PcEnsure (q :: todo) =>
        match ensure_dir q fs with
        | Ok fs' => go fs' (PcEnsure todo)
        | Err e => go fs (PcDone (Some e))
        end
    | PcCreate [] => go fs (PcDone (Some EEXIST))
    | PcCreate (r :: rs) =>
        match create_excl (w_tmp i r) fs with
        | Ok fs' => go fs' (PcWrite r 0)
        | Err EEXIST => go fs (PcCreate rs)
        | Err e => go fs (PcDone (Some e))
        end
    | PcWrite r w =>
        match a with
        | AFail => go fs (PcFailClose r)
        | ANext k =>
            if length b <=? w then go fs (PcClose r)
            else
              let w' := Nat.min (w + S k) (length b) in
              match write_file (w_tmp i r) (firstn w' b) fs with
              | Ok fs' => go fs' (PcWrite r w')
              | Err e => go fs (PcDone (Some e))
              end
        end
    | PcClose r => go fs (PcRename r)
    | PcRename r =>
        match rename (w_tmp i r) (w_final i) fs with
        | Ok fs' => go fs' (PcDone None)
        | Err e => go fs (PcDone (Some e))
        end
    | PcFailClose r => go fs (PcFailRemove r)
    | PcFailRemove r =>
        match remove (w_tmp i r) fs with
        | Ok fs' => go fs' (PcDone (Some EIO))
        | Err _ => go fs (PcDone (Some EIO))
        end
    | PcDone _ => None
    end.

  (* ---------- a deliberately broken variant, kept to show what the unique O_EXCL temp name is for ----------
     StoreChunk with ONE temp name per chunk id, opened with O_CREAT|O_TRUNC (".tmp-cacnk." ++ hex id), and a
     rename that fails with ENOENT taken for success.  Same program counters; the candidate list is unused. *)
  Definition create_trunc (p : path) : node -> res node :=
    upd p (fun o => match o with
                    | None => Ok (Some (File meta0 []))
                    | Some (File m _) => Ok (Some (File m []))
                    | Some (Dir _ _) => Err EISDIR
                    | Some (Symlink _ _) => Err EINVAL
                    end).
  Definition shared_suffix (i : nat) : bytes := 46%N :: hex_id (wd_id (wd i)).

  Definition step_shared (s : cstate) (t : nat * action) : option cstate :=
    let (fs, pcs) := s in
    let (i, a) := t in
    let b := wd_obj (wd i) in
    let r := shared_suffix i in
    let go fs' pc := Some (fs', set_pc pcs i pc) in
    match pcs i with
    | PcEnsure [] => go fs (PcCreate [])
    | PcEnsure (q :: todo) =>
        match ensure_dir q fs with
        | Ok fs' => go fs' (PcEnsure todo)
        | Err e => go fs (PcDone (Some e))
        end
    | PcCreate _ =>
        match create_trunc (w_tmp i r) fs with
        | Ok fs' => go fs' (PcWrite r 0)
        | Err e => go fs (PcDone (Some e))
        end
    | PcWrite _ w =>
        match a with
        | AFail => go fs (PcFailClose r)
        | ANext k =>
            if length b <=? w then go fs (PcClose r)
            else
              let w' := Nat.min (w + S k) (length b) in
              (* the file offset is w: the bytes land at w.. whatever the file holds by now *)
              match lookup (w_tmp i r) fs with
              | Some (File m cur) =>
                  match write_file (w_tmp i r) (firstn w cur ++ repeat 0%N (w - length cur) ++ firstn (w' - w) (skipn w b)
                                                ++ skipn w' cur) fs with
                  | Ok fs' => go fs' (PcWrite r w')
                  | Err e => go fs (PcDone (Some e))
                  end
              | _ => go fs (PcWrite r w')       (* unlinked/renamed away: the write goes to the old inode *)
              end
        end
    | PcClose _ => go fs (PcRename r)
    | PcRename _ =>
        match rename (w_tmp i r) (w_final i) fs with
        | Ok fs' => go fs' (PcDone None)
        | Err ENOENT => go fs (PcDone (match lookup (w_final i) fs with Some _ => None | None => Some ENOENT end))
        | Err e => go fs (PcDone (Some e))
        end
    | PcFailClose _ => go fs (PcFailRemove r)
    | PcFailRemove _ =>
        match remove (w_tmp i r) fs with
        | Ok fs' => go fs' (PcDone (Some EIO))
        | Err _ => go fs (PcDone (Some EIO))
        end
    | PcDone _ => None
    end.
End Crash.

(* The schedule of one writer that runs alone without faults, n steps, every write() transferring
   k+1 bytes. *)
Definition solo_sched (n k : nat) : list (nat * action) := repeat (0, ANext k) n.

(* ---------- cmd/desync/extract.go: writeWithTmpFile ---------- *)
(* tmp := tempfile(dir(name), "." ++ base(name)); assemble into tmp (arbitrary sequence of writes, each
   leaving some content); rename tmp name; on error: remove tmp.  The destination [dst] is touched by
   the final rename only.  contents = the successive contents of the temp file while AssembleFile runs
   (the model does not look inside AssembleFile here: any contents will do). *)
Inductive xpc :=
| XCreate (cands : list bytes)
| XAssemble (r : bytes) (todo : list bytes)     (* contents still to come *)
| XRename (r : bytes)
| XRemove (r : bytes) (ok : bool)               (* deferred os.Remove(tmp.Name()); ok = the rename succeeded *)
| XDone (ok : bool).

Section Extract.
  Variable dir : path.           (* filepath.Dir(name) *)
  Variable dst : name.           (* filepath.Base(name) *)
  Variable cands : list bytes.   (* random suffixes *)
  Variable contents : list bytes.

  Definition x_tmp (r : bytes) : path := dir ++ [(46%N :: dst) ++ r].   (* "." ++ base ++ r *)
  Definition x_dst : path := dir ++ [dst].

  Inductive xaction := XNext | XFail.    (* XFail: AssembleFile returns an error (store failure, cancel, ...) *)

  Definition xstep (s : node * xpc) (a : xaction) : option (node * xpc) :=
    let (fs, pc) := s in
    match pc with
    | XCreate [] => Some (fs, XDone false)
    | XCreate (r :: rs) =>
        match create_excl (x_tmp r) fs with
        | Ok fs' => Some (fs', XAssemble r contents)
        | Err EEXIST => Some (fs, XCreate rs)
        | Err _ => Some (fs, XDone false)
        end
    | XAssemble r todo =>
        match a with
        | XFail => Some (fs, XRemove r false)
        | XNext =>
            match todo with
            | [] => Some (fs, XRename r)
            | c :: rest =>
                match write_file (x_tmp r) c fs with
                | Ok fs' => Some (fs', XAssemble r rest)
                | Err _ => Some (fs, XRemove r false)
                end
            end
        end
    | XRename r =>
        match rename (x_tmp r) x_dst fs with
        | Ok fs' => Some (fs', XRemove r true)   (* the deferred Remove runs after the rename too (and fails) *)
        | Err _ => Some (fs, XRemove r false)
        end
    | XRemove r ok =>
        match remove (x_tmp r) fs with
        | Ok fs' => Some (fs', XDone ok)
        | Err _ => Some (fs, XDone ok)
        end
    | XDone _ => None
    end.
End Extract.
