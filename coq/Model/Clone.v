(* fileseed.go fileSeedSegment.clone / nullseed.go nullChunkSection.clone: which byte ranges are
   written when a seed segment is reflinked into the target.  The alignment arithmetic is
   generated from the Go source (Gen/Constants.v: fsclone_*, nsclone_*, wsub = uint64 wrap);
   the control flow (the "no whole aligned block => plain copy" guard, the order of the three
   operations) is written here.  An op moves [len] bytes from source offset [src] to
   destination offset [dst]; Clone is the FICLONERANGE call. *)
From Coq Require Import List NArith Bool Lia.
From DS Require Import Gen.Constants.
Import ListNotations.
Local Open Scope N_scope.

Inductive cop := Copy (dst src len : N) | Clone (dst src len : N).

Definition fs_clone_ops (srcOffset srcLength dstOffset bs : N) : list cop :=
  let sas := fsclone_srcAlignStart srcOffset srcLength dstOffset bs 0 0 0 0 in
  let sae := fsclone_srcAlignEnd srcOffset srcLength dstOffset bs sas 0 0 0 in
  if sae <=? sas then [Copy dstOffset srcOffset srcLength]
  else
    let das := fsclone_dstAlignStart srcOffset srcLength dstOffset bs sas sae 0 0 in
    let al := fsclone_alignLength srcOffset srcLength dstOffset bs sas sae das 0 in
    let dae := fsclone_dstAlignEnd srcOffset srcLength dstOffset bs sas sae das al in
    [ Copy dstOffset srcOffset (wsub sas srcOffset);
      Copy dae sae (wsub (srcOffset + srcLength) sae);
      Clone das sas al ].

(* the same without the guard: the code before the fix *)
Definition fs_clone_ops_unguarded (srcOffset srcLength dstOffset bs : N) : list cop :=
  let sas := fsclone_srcAlignStart srcOffset srcLength dstOffset bs 0 0 0 0 in
  let sae := fsclone_srcAlignEnd srcOffset srcLength dstOffset bs sas 0 0 0 in
  let das := fsclone_dstAlignStart srcOffset srcLength dstOffset bs sas sae 0 0 in
  let al := fsclone_alignLength srcOffset srcLength dstOffset bs sas sae das 0 in
  let dae := fsclone_dstAlignEnd srcOffset srcLength dstOffset bs sas sae das al in
  [ Copy dstOffset srcOffset (wsub sas srcOffset);
    Copy dae sae (wsub (srcOffset + srcLength) sae);
    Clone das sas al ].

(* null section: zero bytes (source offset irrelevant: 0) and one-block clones from the block file *)
Fixpoint ns_blocks (fuel : nat) (blk dae bs : N) : list cop :=
  match fuel with
  | O => []
  | S f => if blk <? dae then Clone blk 0 bs :: ns_blocks f (blk + bs) dae bs else []
  end.

Definition ns_clone_ops (offset length bs : N) : list cop :=
  let das := nsclone_dstAlignStart offset length bs in
  let dae := nsclone_dstAlignEnd offset length bs in
  if dae <=? das then [Copy offset 0 length]
  else
    [ Copy offset 0 (wsub das offset); Copy dae 0 (wsub (offset + length) dae) ]
    ++ ns_blocks (N.to_nat ((dae - das) / bs) + 1) das dae bs.

Definition op_dst (o : cop) : N := match o with Copy d _ _ | Clone d _ _ => d end.
Definition op_src (o : cop) : N := match o with Copy _ s _ | Clone _ s _ => s end.
Definition op_len (o : cop) : N := match o with Copy _ _ l | Clone _ _ l => l end.
