(* chunker.go: the content-defined chunker.
   Part 1: the rule (specification) -- window hash, cut position, chunk sequence.
   Part 2: the implementation model -- Chunker.Next with its 10*max buffer, short
           reads, the incremental (rolling) hash with the hWindow/hIdx ring, split.
   The buzhash table and the window size come from Gen/Constants.v. *)
From Coq Require Import List NArith Arith Bool Lia.
From DS Require Import Gen.Constants Base.Bytes Base.Word32.
Import ListNotations.

Definition W : nat := N.to_nat ChunkerWindowSize.
Definition T (b : N) : N := nth (N.to_nat b) hashTable 0%N.

(* ---------- the rule ---------- *)

Definition hstep (h b : N) : N := xor (rotl h 1) (T b).
(* hash of a full window, Horner form: xor_i rotl(T[w_i], |w|-1-i) *)
Definition win_hash (w : bytes) : N := fold_left hstep w 0%N.

(* Go: c.hValue % c.hDiscriminator == c.hDiscriminator-1 (uint32) *)
Definition is_boundary (d h : N) : bool := N.eqb (h mod d)%N (d - 1)%N.

(* least q in [p, m) such that the W bytes before q hash to a boundary, else m.
   [rest] is the cursor data[p-W:]; positions are N (binary) so the extracted code is linear. *)
Fixpoint find_cut (rest : bytes) (p m : N) (d : N) : N :=
  match rest with
  | [] => m
  | _ :: rest' =>
      if (m <=? p)%N then m
      else if is_boundary d (win_hash (firstn W rest)) then p
      else find_cut rest' (p + 1)%N m d
  end.

(* size of the first chunk of [data] *)
Definition cut_spec (min max : nat) (d : N) (data : bytes) : nat :=
  let n := length data in
  if n <=? min then n
  else let m := Nat.min max n in
       if m <=? min then m
       else N.to_nat (find_cut (skipn (S min - W) data) (N.of_nat (S min)) (N.of_nat m) d).

Fixpoint chunks_spec (fuel : nat) (min max : nat) (d : N) (data : bytes) : list bytes :=
  match fuel with
  | O => []
  | S f => match data with
           | [] => []
           | _ => let c := cut_spec min max d data in
                  firstn c data :: chunks_spec f min max d (skipn c data)
           end
  end.

Definition chunk_all (min max : nat) (d : N) (data : bytes) : list bytes :=
  chunks_spec (S (length data)) min max d data.

(* ---------- the implementation ---------- *)

(* An io.Reader over a byte string: [frags] are the sizes the successive Read
   calls return at most (when exhausted a Read fills the whole request);
   [eager_eof]: the Read that returns the last bytes also returns io.EOF
   (iotest.DataErrReader) instead of a separate (0, EOF). *)
Record reader := { r_data : bytes; r_frags : list nat; r_eager : bool }.

(* one Read(p) with len(p) = room: returns (bytes, eof?, reader') *)
Definition read1 (r : reader) (room : nat) : bytes * bool * reader :=
  let want := match r_frags r with [] => room | f :: _ => Nat.min (Nat.max 1 f) room end in
  let k := Nat.min want (length (r_data r)) in
  let rest := skipn k (r_data r) in
  let eof := match r_data r with
             | [] => true
             | _ => r_eager r && (length rest =? 0)
             end in
  (firstn k (r_data r), eof, {| r_data := rest; r_frags := tl (r_frags r); r_eager := r_eager r |}).

Record chunker := {
  c_rd : reader;
  c_min : nat; c_max : nat; c_d : N;
  c_start : nat;
  c_buf : bytes;
  c_eof : bool;
  c_hval : N;
  c_hwin : list N;     (* ring of W bytes *)
  c_hidx : nat;
}.

Definition new_chunker (r : reader) (min max : nat) (d : N) : chunker :=
  {| c_rd := r; c_min := min; c_max := max; c_d := d; c_start := 0; c_buf := []; c_eof := false;
     c_hval := 0%N; c_hwin := repeat 0%N W; c_hidx := 0 |}.

(* for uint64(n) < size && err == nil { nn, err = r.Read(buf[n:]); n += nn } *)
Fixpoint fill_loop (fuel : nat) (r : reader) (acc : bytes) (size : nat) : bytes * bool * reader :=
  match fuel with
  | O => (acc, false, r)
  | S f => if size <=? length acc then (acc, false, r)
           else let '(b, eof, r') := read1 r (size - length acc) in
                if eof then (acc ++ b, true, r')
                else fill_loop f r' (acc ++ b) size
  end.

Definition fill_buffer (c : chunker) : chunker :=
  if c_eof c then c
  else let size := 10 * c_max c in
       let '(buf, eof, r') := fill_loop (S size) (c_rd c) (c_buf c) size in
       {| c_rd := r'; c_min := c_min c; c_max := c_max c; c_d := c_d c; c_start := c_start c;
          c_buf := buf; c_eof := eof; c_hval := c_hval c; c_hwin := c_hwin c; c_hidx := c_hidx c |}.

Fixpoint set_nth {A} (l : list A) (i : nat) (x : A) : list A :=
  match l, i with
  | [], _ => []
  | _ :: r, 0 => x :: r
  | y :: r, S i => y :: set_nth r i x
  end.

(* c.hValue ^= bits.RotateLeft32(hashTable[b], W-i-1) for i, b := range window *)
Fixpoint init_hash (w : bytes) (n : nat) (h : N) : N :=
  match w with
  | [] => h
  | b :: w' => init_hash w' (n - 1) (xor h (rotl (T b) (N.of_nat (n - 1))))
  end.

(* the for-loop of Next; [rest] is buf[pos:] (the cursor), positions are N so that the
   extracted code compares in O(log); returns the split position and the hash state.
   An exhausted cursor corresponds to an index-out-of-range panic in Go; it cannot
   happen because pos < m <= len(buf) (see roll_loop_in_range). *)
Fixpoint roll_loop (rest : bytes) (pos m : N) (d : N) (hval : N) (hwin : list N) (hidx : nat)
  : N * N * list N * nat :=
  match rest with
  | [] => (pos, hval, hwin, hidx)
  | inb :: rest' =>
      let out := nth hidx hwin 0%N in
      let hwin' := set_nth hwin hidx inb in
      let hidx' := (hidx + 1) mod W in
      let hval' := xor (xor (rotl hval 1) (rotl (T out) (N.of_nat W))) (T inb) in
      let pos' := (pos + 1)%N in
      if (m <=? pos')%N then (pos', hval', hwin', hidx')
      else if is_boundary d hval' then (pos', hval', hwin', hidx')
      else roll_loop rest' pos' m d hval' hwin' hidx'
  end.

(* split(i): returns (start, chunk) and resets the hash *)
Definition split (c : chunker) (i : nat) (hwin : list N) : nat * bytes * chunker :=
  (c_start c, firstn i (c_buf c),
   {| c_rd := c_rd c; c_min := c_min c; c_max := c_max c; c_d := c_d c; c_start := c_start c + i;
      c_buf := skipn i (c_buf c); c_eof := c_eof c; c_hval := 0%N; c_hwin := hwin; c_hidx := 0 |}).

(* Chunker.Next after the optional refill *)
Definition next_core (c : chunker) : nat * bytes * chunker :=
  let n := length (c_buf c) in
  if n <=? c_min c then split c n (c_hwin c)
  else
    let m := if n <? c_max c then n else c_max c in
    if m <=? c_min c then split c m (c_hwin c)
    else
      let window := slice (c_buf c) (c_min c - W) W in
      let h0 := init_hash window W (c_hval c) in
      let '(pos, _, hwin, _) := roll_loop (skipn (c_min c) (c_buf c)) (N.of_nat (c_min c)) (N.of_nat m)
                                          (c_d c) h0 window (c_hidx c) in
      (* copy(c.hWindow[:], window) fills the ring from slot 0; the loop starts at c.hIdx (reset by split) *)
      split c (N.to_nat pos) hwin.

(* Chunker.Next *)
Definition next (c0 : chunker) : nat * bytes * chunker :=
  next_core (if length (c_buf c0) <? c_max c0 then fill_buffer c0 else c0).

(* all chunks until the empty one *)
Fixpoint next_all (fuel : nat) (c : chunker) : list (nat * bytes) :=
  match fuel with
  | O => []
  | S f => let '(s, b, c') := next c in
           match b with
           | [] => []
           | _ => (s, b) :: next_all f c'
           end
  end.

Definition chunk_impl (r : reader) (min max : nat) (d : N) : list (nat * bytes) :=
  next_all (S (length (r_data r))) (new_chunker r min max d).
