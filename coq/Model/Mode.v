(* filesystem.go: StatModeToFilemode / FilemodeToStatMode, and the device
   number arithmetic of localfs_other.go (mkdev, and the major/minor split in
   LocalFS.Next).

   Go                                   here
   ---------------------------------    ---------------------------------
   os.FileMode (uint32)                 N, bits GoMode* of Gen/Constants.v
   st_mode (uint32)                     N, bits S_* of Gen/Constants.v
   StatModeToFilemode(mode uint32)      stat_to_filemode
   FilemodeToStatMode(mode FileMode)    filemode_to_stat
   uint32(mode) of a 64-bit entry word  u32
   mkdev(major, minor)                  mkdev      (= generated c05_mkdev)
   (sys.Rdev >> 8) & 0xfff              rdev_major (= generated c05_rdev_major)
   (Rdev % 256) | (Rdev & 0xfff00000)>>12   rdev_minor

   The bit constants and the three device expressions are regenerated from the
   sources on every build; the switch statements are transcribed by hand. *)
From Coq Require Import List NArith Bool.
From DS Require Import Gen.Constants.
Import ListNotations.
Local Open Scope N_scope.

Definition u32 (x : N) : N := x mod 4294967296.

Definition has (m bit : N) : bool := negb (N.land m bit =? 0).

(* func StatModeToFilemode(mode uint32) os.FileMode *)
Definition stat_to_filemode (mode : N) : N :=
  let fm := N.land mode 511 (* 0777 *) in
  let ty := N.land mode S_IFMT in
  let fm :=
    if ty =? S_IFBLK then N.lor fm GoModeDevice
    else if ty =? S_IFCHR then N.lor fm (N.lor GoModeDevice GoModeCharDevice)
    else if ty =? S_IFDIR then N.lor fm GoModeDir
    else if ty =? S_IFIFO then N.lor fm GoModeNamedPipe
    else if ty =? S_IFLNK then N.lor fm GoModeSymlink
    else if ty =? S_IFSOCK then N.lor fm GoModeSocket
    else fm in
  let fm := if has mode S_ISGID then N.lor fm GoModeSetgid else fm in
  let fm := if has mode S_ISUID then N.lor fm GoModeSetuid else fm in
  let fm := if has mode S_ISVTX then N.lor fm GoModeSticky else fm in
  fm.

(* func FilemodeToStatMode(mode os.FileMode) uint32 *)
Definition filemode_to_stat (mode : N) : N :=
  let o := N.land mode GoModePerm in               (* uint32(mode.Perm()) *)
  let m := N.land mode GoModeType in
  let o :=
    if m =? GoModeDevice then N.lor o S_IFBLK
    else if m =? N.lor GoModeDevice GoModeCharDevice then N.lor o S_IFCHR
    else if m =? GoModeDir then N.lor o S_IFDIR
    else if m =? GoModeNamedPipe then N.lor o S_IFIFO
    else if m =? GoModeSymlink then N.lor o S_IFLNK
    else if m =? GoModeSocket then N.lor o S_IFSOCK
    else N.lor o S_IFREG in
  let o := if has mode GoModeSetuid then N.lor o S_ISUID else o in
  let o := if has mode GoModeSetgid then N.lor o S_ISGID else o in
  let o := if has mode GoModeSticky then N.lor o S_ISVTX else o in
  o.

(* File.IsDir / IsRegular / IsSymlink / IsDevice on an os.FileMode *)
Definition fm_is_dir (fm : N) : bool := has fm GoModeDir.
Definition fm_is_regular (fm : N) : bool := N.land fm GoModeType =? 0.
Definition fm_is_symlink (fm : N) : bool := has fm GoModeSymlink.
Definition fm_is_device (fm : N) : bool := has fm GoModeDevice.

(* the type nibbles a file system hands out *)
Definition valid_type (ty : N) : bool :=
  (ty =? S_IFBLK) || (ty =? S_IFCHR) || (ty =? S_IFDIR) || (ty =? S_IFIFO) ||
  (ty =? S_IFLNK) || (ty =? S_IFSOCK) || (ty =? S_IFREG).

(* what chmod(2) keeps of its argument: S_IALLUGO *)
Definition chmod_bits (mode : N) : N := N.land mode 4095 (* 07777 *).

(* ---------- device numbers ---------- *)

Definition mkdev (major minor : N) : N := c05_mkdev major minor.
Definition rdev_major (rdev : N) : N := c05_rdev_major rdev.
Definition rdev_minor (rdev : N) : N := c05_rdev_minor rdev.

(* ---------- enumeration used by the finite sweeps ---------- *)

(* all numbers below 2^bits, in increasing order *)
Fixpoint all_below (bits : nat) : list N :=
  match bits with
  | O => [0]
  | S k => let l := all_below k in l ++ map (fun x => x + 2 ^ N.of_nat k) l
  end.

Definition mode_roundtrip_check (m : N) : bool :=
  negb (valid_type (N.land m S_IFMT)) || (filemode_to_stat (stat_to_filemode m) =? m).

(* tarfs.go TarWriter: Mode: int64(n.Mode) puts the os.FileMode word into the tar
   header; archive/tar's headerFileInfo.Mode() reads it back as
     Perm() of the word, plus setuid/setgid/sticky from the 04000/02000/01000 bits,
   the file type coming from the type flag.  [tar_mode_back] is what
   --input-format tar sees of the permission bits after --output-format gnu-tar. *)
Definition tar_header_mode (st_mode : N) : N := stat_to_filemode st_mode.
Definition tar_mode_back (hdr_mode : N) : N :=
  let p := N.land hdr_mode 511 in
  let p := if has hdr_mode 2048 then N.lor p S_ISUID else p in
  let p := if has hdr_mode 1024 then N.lor p S_ISGID else p in
  let p := if has hdr_mode 512 then N.lor p S_ISVTX else p in
  p.

(* ---------- the gnu-tar and mtree writers (tarfs.go, mtreefs.go) ---------- *)

(* CreateDevice: n.Mode&os.ModeCharDevice != 0 selects TypeChar / "type=char" ... *)
Definition writer_is_char (fm : N) : bool := has fm GoModeCharDevice.
(* ... before "fix: gnu-tar and mtree output report character devices as such": n.Mode&0x4000 *)
Definition writer_is_char_prefix (fm : N) : bool := has fm 16384.

(* mtreefs.go: mode=%04o of FilemodeToStatMode(n.Mode)&07777 ... *)
Definition mtree_mode (fm : N) : N := chmod_bits (filemode_to_stat fm).
(* ... before "fix: mtree output pads nanoseconds with zeros and shows set-id/sticky bits": n.Mode.Perm() *)
Definition mtree_mode_prefix (fm : N) : N := N.land fm GoModePerm.

(* time=%d.%09d: the nanoseconds as exactly nine decimal digits, most significant first *)
Fixpoint dec_digits (k : nat) (n : N) : list N :=
  match k with
  | O => []
  | S k' => dec_digits k' (n / 10) ++ [n mod 10]
  end.
Definition fmt_nsec (ns : N) : list N := dec_digits 9 ns.
(* how a reader takes the fraction: the digits as a number over 10^(number of digits) *)
Definition read_digits (ds : list N) : N := fold_left (fun acc d => 10 * acc + d) ds 0.
