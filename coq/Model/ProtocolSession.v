(* The casync protocol over a byte stream (C14): protocol.go (WriteMessage, ReadMessage,
   SendProtocolRequest/Chunk/Missing/Goodbye, RequestChunk), reader.go (ReadUint64, ReadN)
   and protocolserver.go (ProtocolServer.Serve's request loop, after the HELLO exchange).

   A stream is the list of bytes still to be read; a read that needs more bytes than are
   left fails (io.ErrUnexpectedEOF / io.EOF), exactly as io.ReadFull on a closed pipe. *)
From Coq Require Import List NArith Arith Bool.
From DS Require Import Gen.Constants Base.Bytes Base.Hash Base.LE64 Model.HTTPServer.
Import ListNotations.
Local Open Scope N_scope.

Record message := { m_type : N; m_body : bytes }.

(* Protocol.WriteMessage: len := 16 + len(m.Body); PutUint64(len); PutUint64(type); body *)
Definition write_message (m : message) : bytes :=
  le64 (16 + N.of_nat (length (m_body m))) ++ le64 (m_type m) ++ m_body m.

Inductive read_result := RMsg (m : message) (rest : bytes) | RErr.

(* reader.ReadN: n > MaxInt64 => InvalidFormat; otherwise exactly n bytes or an error *)
Definition read_n (n : N) (s : bytes) : option (bytes * bytes) :=
  if MaxInt64 <? n then None
  else if N.of_nat (length s) <? n then None
  else Some (firstn (N.to_nat n) s, skipn (N.to_nat n) s).

(* Protocol.ReadMessage *)
Definition read_message (s : bytes) : read_result :=
  match read_n 8 s with
  | None => RErr
  | Some (lb, s1) =>
      let len := un_le64 lb in
      if len <? 16 then RErr                       (* "message length too short" *)
      else match read_n (len - 8) s1 with
           | None => RErr
           | Some (b, s2) => RMsg {| m_type := un_le64 (firstn 8 b); m_body := skipn 8 b |} s2
           end
  end.

(* the 32 bytes of an id, most significant first (ChunkID is the digest's byte array) *)
Fixpoint be_bytes (n : nat) (x : N) : bytes :=
  match n with
  | O => []
  | S n' => be_bytes n' (x / 256) ++ [x mod 256]
  end.
Definition id_bytes (i : id) : bytes := be_bytes 32 i.

(* SendProtocolRequest: flags (8) ++ id (32) *)
Definition request_msg (i : id) : message :=
  {| m_type := CaProtocolRequest; m_body := le64 CaProtocolRequestHighPriority ++ id_bytes i |}.
(* SendProtocolChunk: flags (8) ++ id (32) ++ chunk *)
Definition chunk_msg (i : id) (flags : N) (b : bytes) : message :=
  {| m_type := CaProtocolChunk; m_body := le64 flags ++ id_bytes i ++ b |}.
(* SendMissing *)
Definition missing_msg (i : id) : message := {| m_type := CaProtocolMissing; m_body := id_bytes i |}.
Definition goodbye_msg : message := {| m_type := CaProtocolGoodbye; m_body := [] |}.

Section Protocol.
  Variable H : bytes -> id.
  Variable zcomp : bytes -> bytes.
  Variable zdecomp : bytes -> option bytes.

  Inductive chunk_res := PData (c : chunk) | PMissing | PErr.

  (* Protocol.RequestChunk, the part after the request has been written: read one message *)
  Definition request_chunk_reply (i : id) (from_server : bytes) : chunk_res * bytes :=
    match read_message from_server with
    | RErr => (PErr, from_server)
    | RMsg m rest =>
        if m_type m =? CaProtocolMissing then (PMissing, rest)
        else if m_type m =? CaProtocolChunk then
          if N.of_nat (length (m_body m)) <? 40 then (PErr, rest)
          else match new_chunk_from_storage H zdecomp i (skipn 40 (m_body m)) [Compressor] false with
               | Some c => (PData c, rest)
               | None => (PErr, rest)
               end
        else (PErr, rest)
    end.

  (* ProtocolServer.Serve's loop.  [store] answers GetChunk.  The result is everything the
     server writes before Serve returns; the server stops reading at the first of: read
     error, GOODBYE, ABORT, unknown message, a failing store.  After answering MISSING it
     carries on with the next request ("continue", fix 9771602); [stop_after_missing = true]
     is the code before that fix, where "return errors.Wrap(err, ...)" with err == nil
     returned nil and ended the session. *)
  Fixpoint serve_loop_gen (stop_after_missing : bool) (fuel : nat) (store : id -> get_result)
           (from_client : bytes) : bytes :=
    match fuel with
    | O => []
    | S fuel' =>
        match read_message from_client with
        | RErr => []
        | RMsg m rest =>
            if m_type m =? CaProtocolRequest then
              if N.of_nat (length (m_body m)) <? 40 then []
              else
                let i := id_of_bytes (firstn 32 (skipn 8 (m_body m))) in
                match store i with
                | GMissing =>
                    write_message (missing_msg i)
                      ++ (if stop_after_missing then [] else serve_loop_gen stop_after_missing fuel' store rest)
                | GFail => []
                | GChunk c =>
                    match chunk_data zdecomp c with
                    | None => []
                    | Some d =>
                        write_message (chunk_msg (chunk_id H zdecomp c) CaProtocolChunkCompressed (zcomp d))
                          ++ serve_loop_gen stop_after_missing fuel' store rest
                    end
                end
            else []
        end
    end.

  Definition serve_loop := serve_loop_gen false.

  (* one session: the client asks for the ids one after the other (RemoteSSH.GetChunk on
     one pooled session); the server's output is consumed reply by reply *)
  Fixpoint client_requests (ids : list id) : bytes :=
    match ids with [] => [] | i :: r => write_message (request_msg i) ++ client_requests r end.

  Fixpoint client_replies (ids : list id) (from_server : bytes) : list chunk_res :=
    match ids with
    | [] => []
    | i :: r => let (res, rest) := request_chunk_reply i from_server in res :: client_replies r rest
    end.

  Definition session_gen (stop_after_missing : bool) (store : id -> get_result) (ids : list id) : list chunk_res :=
    client_replies ids (serve_loop_gen stop_after_missing (S (length ids)) store (client_requests ids)).

  (* the code as it is *)
  Definition session := session_gen false.
  (* the code before fix 9771602 *)
  Definition session_prefix := session_gen true.
End Protocol.
