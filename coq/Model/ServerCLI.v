(* cmd/desync: how the command line and the environment become the parameters of the HTTP
   handlers (options.go addServerOptions, chunkserver.go runChunkServer, indexserver.go
   runIndexServer, options.go cmdStoreOptions.MergedWith for --skip-verify-read). *)
From Coq Require Import List NArith Bool.
From DS Require Import Base.Bytes Base.Hash Model.HTTPServer.
Import ListNotations.

Record cli_opts := {
  o_auth_flag : bytes;          (* --authorization, "" when not given *)
  o_auth_env : bytes;           (* DESYNC_HTTP_AUTH, "" when not set *)
  o_writable : bool;            (* -w *)
  o_skip_verify_write : bool;   (* --skip-verify-write (default true), chunk-server only *)
  o_skip_verify_read : bool;    (* --skip-verify-read (default true), chunk-server only *)
  o_uncompressed : bool }.      (* -u, chunk-server only *)

(* if opt.auth == "" { opt.auth = os.Getenv("DESYNC_HTTP_AUTH") } *)
Definition cli_auth (o : cli_opts) : bytes :=
  if nonempty (o_auth_flag o) then o_auth_flag o else o_auth_env o.

(* desync.NewHTTPHandler(s, opt.writable, opt.skipVerifyWrite, converters, opt.auth);
   converters = [Compressor] unless -u; a local store given with -s and -w is a WriteStore *)
Definition cli_chunk_cfg (o : cli_opts) : cfg :=
  {| c_auth := cli_auth o; c_writable := o_writable o; c_skip_verify_write := o_skip_verify_write o;
     c_compressed := negb (o_uncompressed o); c_store_writable := true |}.

(* the upstream local store: compressed on disk, SkipVerify = --skip-verify-read *)
Definition cli_store (o : cli_opts) (files : list (id * bytes)) : lstore :=
  {| ls_files := files; ls_uncompressed := false; ls_skip_verify := o_skip_verify_read o |}.

(* desync.NewHTTPIndexHandler(s, opt.writable, opt.auth) *)
Definition cli_index_cfg (o : cli_opts) : cfg :=
  {| c_auth := cli_auth o; c_writable := o_writable o; c_skip_verify_write := false;
     c_compressed := false; c_store_writable := true |}.

Section CLI.
  Variable H : bytes -> id.
  Variable zcomp : bytes -> bytes.
  Variable zdecomp : bytes -> option bytes.

  (* `desync chunk-server -s <dir>` answering one request *)
  Definition cli_chunk_handle (o : cli_opts) (files : list (id * bytes)) (r : request) : response * lstore :=
    chunk_handle H zcomp zdecomp (cli_chunk_cfg o) (cli_store o files) r.

  Variable index_t : Type.
  Variable idx_decode : bytes -> option index_t.
  Variable idx_encode : index_t -> bytes.

  (* `desync index-server -s <dir>` answering one request *)
  Definition cli_index_handle (o : cli_opts) (d : idir) (r : request) : response * idir :=
    index_handle index_t idx_decode idx_encode (cli_index_cfg o) d r.
End CLI.
