(* untar.go UnTarIndex: four kinds of goroutines in one errgroup --

     workers    for r := range req { chunk, err := s.GetChunk(r.chunk.ID) ... size check ...
                                     on error: close(r.data); return err
                                     r.data <- b; close(r.data) }
     feeder     for _, c := range index.Chunks {
                  data := make(chan []byte, 1)
                  select { <-ctx.Done(): interrupted = true; break loop
                           req <- requestJob{c, data}:
                             select { <-ctx.Done(): interrupted = true; break loop
                                      assemble <- data } } }
                close(req); close(assemble)
                if interrupted { return Interrupted{} }          -- added by the fix
                return nil
     assembler  defer w.Close()
                for { select { data := <-assemble: if data == nil { break loop }
                                 b := <-data; io.Copy(w, bytes.NewReader(b)) (error: return err)
                               <-ctx.Done(): return Interrupted{} } }   -- before the fix: break loop
                return nil
     decoder    err := UnTar(ctx, r, fs); if err != nil { r.CloseWithError(err) }; return err
                UnTar: for { select { <-ctx.Done(): return Interrupted{}; default: }
                             c, err := dec.Next() ... c == nil (EOF at an element boundary): break } ; return nil

   assemble is buffered (capacity n = number of workers), req is unbuffered (rendezvous with an idle
   worker), each data channel has capacity 1.  The pipe is synchronous: a Write completes when the
   reader has consumed every byte (one byte per decoder step here, the finest interleaving), or fails
   once the reader was closed with an error.  The queue of data channels is represented by counters
   (handed, taken): it holds the chunks [taken, handed).

   [fixed = false] is the code before the commit "fix: cancelled bulk operations return Interrupted". *)
From Coq Require Import List Arith Bool Lia.
From DS Require Import Base.Sched Model.Pool.
Import ListNotations.

Inductive ekind := EInt | EOther.
Inductive ufeed := UFSel | UFHand | UFDone (interrupted : bool).
Inductive uwork := UWIdle | UWBusy (k : nat) | UWErr | UWExited.
Inductive uasm := UASel | UAWait | UAWrite (r : nat) | UADone (clean : bool).
Inductive udec := UDCheck | UDRead | UDDone (clean : bool).
Inductive utid := UTFeed | UTFeedCancel | UTWorker (i : nat) | UTAsm | UTAsmCancel | UTDec | UTDecNode | UTCancel.

Record ustate := mkU {
  u_feed : ufeed;
  u_req : nat;             (* chunks requested from the workers so far *)
  u_handed : nat;          (* data channels pushed into `assemble` so far *)
  u_taken : nat;           (* data channels popped by the assembler so far *)
  u_workers : list uwork;
  u_fetched : list nat;    (* requests a worker has answered (data sent, or channel closed on error) *)
  u_asm : uasm;            (* the assembler works on chunk taken-1 *)
  u_wdone : nat;           (* chunks whose bytes went completely through the pipe *)
  u_dec : udec;
  u_pos : nat;             (* bytes consumed by the decoder *)
  u_wclosed : bool;        (* pipe writer closed (assembler returned) *)
  u_rclosed : bool;        (* pipe reader closed with an error (decoder failed) *)
  u_cancelled : bool;      (* ctx.Done() of the group *)
  u_ext : bool;            (* the parent context was cancelled *)
  u_err : option ekind;    (* first error recorded by the errgroup *)
}.

Section UnTarIndex.
  Variable n : nat.                 (* number of chunks of the index *)
  Variable csize : nat -> nat.      (* bytes of chunk k *)
  Variable fetch_ok : nat -> bool.  (* GetChunk + Data + size check succeed for chunk k *)
  Variable boundary : nat -> bool.  (* EOF at stream offset p is the end of a format element ("clean end") *)
  Variable dec_ok : nat -> bool.    (* the decoder / filesystem writer does not fail at offset p *)
  Variable cap : nat.               (* capacity of `assemble` (= number of workers) *)
  Variable fixed : bool.
  Variable can_cancel : bool.

  Definition uinit (nw : nat) : ustate :=
    mkU UFSel 0 0 0 (repeat UWIdle nw) [] UASel 0 UDCheck 0 false false false false None.

  Definition set_feed (s : ustate) (f : ufeed) (req handed : nat) : ustate :=
    mkU f req handed (u_taken s) (u_workers s) (u_fetched s) (u_asm s) (u_wdone s) (u_dec s) (u_pos s)
        (u_wclosed s) (u_rclosed s) (u_cancelled s) (u_ext s) (u_err s).
  Definition set_wk (s : ustate) (i : nat) (w : uwork) : ustate :=
    mkU (u_feed s) (u_req s) (u_handed s) (u_taken s) (set_nth (u_workers s) i w) (u_fetched s) (u_asm s)
        (u_wdone s) (u_dec s) (u_pos s) (u_wclosed s) (u_rclosed s) (u_cancelled s) (u_ext s) (u_err s).
  Definition add_fetched (s : ustate) (k : nat) : ustate :=
    mkU (u_feed s) (u_req s) (u_handed s) (u_taken s) (u_workers s) (k :: u_fetched s) (u_asm s)
        (u_wdone s) (u_dec s) (u_pos s) (u_wclosed s) (u_rclosed s) (u_cancelled s) (u_ext s) (u_err s).
  Definition set_asm (s : ustate) (a : uasm) (taken wdone : nat) : ustate :=
    mkU (u_feed s) (u_req s) (u_handed s) taken (u_workers s) (u_fetched s) a wdone (u_dec s) (u_pos s)
        (u_wclosed s) (u_rclosed s) (u_cancelled s) (u_ext s) (u_err s).
  Definition set_dec (s : ustate) (d : udec) (pos : nat) : ustate :=
    mkU (u_feed s) (u_req s) (u_handed s) (u_taken s) (u_workers s) (u_fetched s) (u_asm s) (u_wdone s) d pos
        (u_wclosed s) (u_rclosed s) (u_cancelled s) (u_ext s) (u_err s).
  Definition set_pipe (s : ustate) (wc rc : bool) : ustate :=
    mkU (u_feed s) (u_req s) (u_handed s) (u_taken s) (u_workers s) (u_fetched s) (u_asm s) (u_wdone s)
        (u_dec s) (u_pos s) wc rc (u_cancelled s) (u_ext s) (u_err s).
  Definition set_ctx (s : ustate) (c e : bool) : ustate :=
    mkU (u_feed s) (u_req s) (u_handed s) (u_taken s) (u_workers s) (u_fetched s) (u_asm s) (u_wdone s)
        (u_dec s) (u_pos s) (u_wclosed s) (u_rclosed s) c e (u_err s).
  (* a goroutine returns a non-nil error: the errgroup keeps the first one and cancels the context *)
  Definition record (s : ustate) (e : ekind) : ustate :=
    mkU (u_feed s) (u_req s) (u_handed s) (u_taken s) (u_workers s) (u_fetched s) (u_asm s) (u_wdone s)
        (u_dec s) (u_pos s) (u_wclosed s) (u_rclosed s) true (u_ext s)
        (match u_err s with None => Some e | x => x end).

  Definition is_done (f : ufeed) : bool := match f with UFDone _ => true | _ => false end.

  Definition ustep (s : ustate) (t : utid) : option ustate :=
    match t with
    | UTFeed =>
        match u_feed s with
        | UFSel => if u_req s =? n then Some (set_feed s (UFDone false) (u_req s) (u_handed s))   (* loop over: close, return nil *)
                   else None                                  (* blocked in select until a worker receives *)
        | UFHand => if u_handed s - u_taken s <? cap          (* assemble <- data *)
                    then Some (set_feed s UFSel (u_req s) (S (u_handed s)))
                    else None
        | UFDone _ => None
        end
    | UTFeedCancel =>                                         (* <-ctx.Done() in either select *)
        match u_feed s with
        | UFDone _ => None
        | f =>
            if u_cancelled s && (match f with UFSel => u_req s <? n | _ => true end) then
              let s' := set_feed s (UFDone true) (u_req s) (u_handed s) in
              Some (if fixed then record s' EInt else s')
            else None
        end
    | UTWorker i =>
        match nth_error (u_workers s) i with
        | Some UWIdle =>
            match u_feed s with
            | UFSel => if u_req s <? n                         (* rendezvous on req *)
                       then Some (set_wk (set_feed s UFHand (S (u_req s)) (u_handed s)) i (UWBusy (u_req s)))
                       else None
            | UFHand => None
            | UFDone _ => Some (set_wk s i UWExited)           (* req closed: return nil *)
            end
        | Some (UWBusy k) =>
            if fetch_ok k then Some (set_wk (add_fetched s k) i UWIdle)     (* r.data <- b; close(r.data) *)
            else Some (set_wk (add_fetched s k) i UWErr)                    (* close(r.data); return err *)
        | Some UWErr => Some (set_wk (record s EOther) i UWExited)
        | Some UWExited => None
        | None => None
        end
    | UTAsm =>
        match u_asm s with
        | UASel =>
            if u_taken s <? u_handed s then Some (set_asm s UAWait (S (u_taken s)) (u_wdone s))
            else if is_done (u_feed s)                         (* closed and drained: data == nil, break; w.Close() *)
                 then Some (set_pipe (set_asm s (UADone true) (u_taken s) (u_wdone s)) true (u_rclosed s))
                 else None
        | UAWait =>                                            (* b := <-data *)
            let k := u_taken s - 1 in
            if existsb (Nat.eqb k) (u_fetched s) then
              if fetch_ok k && (0 <? csize k) then Some (set_asm s (UAWrite (csize k)) (u_taken s) (u_wdone s))
              else Some (set_asm s UASel (u_taken s) (S (u_wdone s)))      (* nothing to write *)
            else None
        | UAWrite _ =>                                         (* blocked in w.Write; fails once the reader is closed *)
            if u_rclosed s
            then Some (set_pipe (record (set_asm s (UADone false) (u_taken s) (u_wdone s)) EOther) true (u_rclosed s))
            else None
        | UADone _ => None
        end
    | UTAsmCancel =>
        match u_asm s with
        | UASel =>
            if u_cancelled s then
              if fixed then Some (set_pipe (record (set_asm s (UADone false) (u_taken s) (u_wdone s)) EInt) true (u_rclosed s))
              else Some (set_pipe (set_asm s (UADone true) (u_taken s) (u_wdone s)) true (u_rclosed s))
            else None
        | _ => None
        end
    | UTDec =>
        match u_dec s with
        | UDCheck =>                                           (* UnTar: select { <-ctx.Done(): return Interrupted{}; default } *)
            if u_cancelled s then Some (set_pipe (record (set_dec s (UDDone false) (u_pos s)) EInt) (u_wclosed s) true)
            else Some (set_dec s UDRead (u_pos s))
        | UDRead =>
            if negb (dec_ok (u_pos s)) then                    (* invalid format / filesystem error *)
              Some (set_pipe (record (set_dec s (UDDone false) (u_pos s)) EOther) (u_wclosed s) true)
            else
              match u_asm s with
              | UAWrite (S r) =>                               (* one byte through the pipe *)
                  let s1 := set_dec s UDRead (S (u_pos s)) in
                  Some (match r with
                        | O => set_asm s1 UASel (u_taken s) (S (u_wdone s))
                        | _ => set_asm s1 (UAWrite r) (u_taken s) (u_wdone s)
                        end)
              | _ =>
                  if u_wclosed s then                          (* EOF *)
                    if boundary (u_pos s) then Some (set_dec s (UDDone true) (u_pos s))      (* clean end: return nil *)
                    else Some (set_pipe (record (set_dec s (UDDone false) (u_pos s)) EOther) (u_wclosed s) true)
                  else None
              end
        | UDDone _ => None
        end
    | UTDecNode =>                                             (* a node was decoded and created: back to the loop top *)
        match u_dec s with
        | UDRead => Some (set_dec s UDCheck (u_pos s))
        | _ => None
        end
    | UTCancel =>
        if can_cancel && negb (u_ext s) then Some (set_ctx s true true) else None
    end.

  Definition ufinal (s : ustate) : bool :=
    is_done (u_feed s)
    && forallb (fun w => match w with UWExited => true | _ => false end) (u_workers s)
    && (match u_asm s with UADone _ => true | _ => false end)
    && (match u_dec s with UDDone _ => true | _ => false end).

  (* what g.Wait() returns *)
  Definition untar_result (s : ustate) : result :=
    match u_err s with None => RNil | Some EInt => RInterrupted | Some EOther => RErr end.

  Fixpoint total_to (k : nat) : nat := match k with O => 0 | S j => total_to j + csize j end.
End UnTarIndex.
