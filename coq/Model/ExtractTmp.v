(* cmd/desync/extract.go writeWithTmpFile:

     tmp, err := tempfile.NewMode(filepath.Dir(name), "."+filepath.Base(name), 0644)   -- O_EXCL: a fresh name
     if err != nil { return stats, err }
     tmp.Close()
     defer os.Remove(tmp.Name())
     if stats, err = writeInplace(ctx, tmp.Name(), ...); err != nil { return stats, err }   -- AssembleFile on the temp file
     return stats, os.Rename(tmp.Name(), name)

   The file system is a map from paths to files (inode number, content).  AssembleFile is an oracle
   giving the content it leaves in the file it was asked to write and its result; it writes to that
   path only.  rename(2) is atomic. *)
From Coq Require Import List NArith Arith Bool.
From DS Require Import Base.Bytes Model.Pool.
Import ListNotations.

Definition path := nat.
Record file := { f_ino : nat; f_data : bytes }.
Definition fsys := path -> option file.

Definition fs_set (fs : fsys) (p : path) (f : option file) : fsys :=
  fun q => if q =? p then f else fs q.

Section ExtractTmp.
  Variable name tmp : path.          (* destination and the temp name chosen by tempfile *)
  Variable create_ok : bool.         (* tempfile.NewMode succeeds *)
  Variable new_ino : nat.            (* inode of the new temp file *)
  Variable asm_data : bytes.         (* what AssembleFile leaves in the temp file *)
  Variable asm_res : result.         (* ... and what it returns *)
  Variable rename_ok : bool.

  Definition write_with_tmp (fs : fsys) : fsys * result :=
    if negb create_ok then (fs, RErr)
    else
      let fs1 := fs_set fs tmp (Some {| f_ino := new_ino; f_data := [] |}) in            (* NewMode; Close *)
      let fs2 := fs_set fs1 tmp (Some {| f_ino := new_ino; f_data := asm_data |}) in     (* AssembleFile(tmp) *)
      match asm_res with
      | RNil =>
          if rename_ok then
            let fs3 := fs_set (fs_set fs2 name (fs2 tmp)) tmp None in                     (* os.Rename(tmp, name) *)
            (fs_set fs3 tmp None, RNil)                                                   (* deferred Remove: no such file *)
          else (fs_set fs2 tmp None, RErr)                                                (* deferred Remove *)
      | r => (fs_set fs2 tmp None, r)                                                     (* deferred Remove *)
      end.

  (* the variant that renames before looking at the error (a seeded mutation) *)
  Definition write_with_tmp_rename_first (fs : fsys) : fsys * result :=
    if negb create_ok then (fs, RErr)
    else
      let fs2 := fs_set fs tmp (Some {| f_ino := new_ino; f_data := asm_data |}) in
      let fs3 := fs_set (fs_set fs2 name (fs2 tmp)) tmp None in
      (fs3, asm_res).
End ExtractTmp.

(* The seeded variant that extracts "in place" when the destination is not a regular file: for a destination
   that is a symlink AssembleFile opens the path, i.e. writes the file the link points to ([target]), and
   there is no temp file and no rename. *)
Definition write_through_link (target : path) (new_ino : nat) (asm_data : bytes) (asm_res : result)
                              (fs : fsys) : fsys * result :=
  let old := fs target in
  let ino := match old with Some f => f_ino f | None => new_ino end in
  (fs_set fs target (Some {| f_ino := ino; f_data := asm_data |}), asm_res).
