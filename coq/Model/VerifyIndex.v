(* verifyindex.go: VerifyIndex.  The three arithmetic expressions of the feeder
   loop ([vi_batch], [vi_last], [vi_next]) are generated from the Go source
   (Gen/Constants.v); the loop structure around them is written here. *)
From Coq Require Import List NArith Arith Bool Lia.
From DS Require Import Gen.Constants Base.Bytes Base.Hash Model.Pool.
Import ListNotations.

(* for i := 0; i < chunksNum; i = vi_next i batch {
     last := vi_last i batch; if last >= chunksNum { last = chunksNum-1 }
     in <- chunks[i : last+1] }
   Returns None when the fuel runs out (the loop does not advance). *)
Fixpoint batches_loop {A} (fuel : nat) (chunks : list A) (i batch : N) : option (list (list A)) :=
  match fuel with
  | O => None
  | S fuel' =>
      let chunksNum := N.of_nat (length chunks) in
      if (i <? chunksNum)%N then
        let last0 := vi_last i batch in
        let last := if (chunksNum <=? last0)%N then (chunksNum - 1)%N else last0 in
        match batches_loop fuel' chunks (vi_next i batch) batch with
        | Some r => Some (slice chunks (N.to_nat i) (N.to_nat (last + 1 - i)) :: r)
        | None => None
        end
      else Some []
  end.

Definition batches {A} (n : N) (chunks : list A) : option (list (list A)) :=
  batches_loop (S (length chunks)) chunks 0%N (vi_batch (N.of_nat (length chunks)) n).

Section Verify.
  Variable H : bytes -> id.

  (* An index as the verifier sees it: (id, size) rows, starts are cumulative. *)
  Definition index := list (id * nat).
  Definition sizes (idx : index) : list nat := map snd idx.
  Definition ids (idx : index) : list id := map fst idx.
  Definition idx_length (idx : index) : nat := total (sizes idx).

  (* fileSeedSegment.Validate on one row: read [size] bytes at [start], hash. *)
  Definition row_ok (file : bytes) (start : nat) (r : id * nat) : bool :=
    N.eqb (H (slice file start (snd r))) (fst r).

  Fixpoint rows_ok (file : bytes) (start : nat) (rows : index) : bool :=
    match rows with
    | [] => true
    | r :: rest => row_ok file start r && rows_ok file (start + snd r) rest
    end.

  (* rows paired with their start offsets *)
  Fixpoint with_starts (start : nat) (rows : index) : list (nat * (id * nat)) :=
    match rows with
    | [] => []
    | r :: rest => (start, r) :: with_starts (start + snd r) rest
    end.

  Definition batch_ok (file : bytes) (b : list (nat * (id * nat))) : bool :=
    forallb (fun sr => row_ok file (fst sr) (snd sr)) b.

  (* Sequential reference result of VerifyIndex (no cancellation): the stat
     length test, then every batch validated. *)
  Definition verify_index (n : N) (file : bytes) (idx : index) : option bool :=
    if negb (length file =? idx_length idx) then Some false
    else match batches n (with_starts 0 idx) with
         | Some bs => Some (forallb (batch_ok file) bs)
         | None => None
         end.

  (* The index describes the blob. *)
  Definition index_describes (idx : index) (blob : bytes) : Prop :=
    idx_length idx = length blob /\ map H (split_by (sizes idx) blob) = ids idx.
End Verify.
