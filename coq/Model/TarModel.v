(* tar.go: Tar / tar() -- a directory tree becomes a stream of casync elements.

   Go                                         here
   ---------------------------------------    -----------------------------------
   a directory tree on disk (lstat view)      tree, attrs (st_mode, uid, gid, mtime
                                              in ns as uint64, xattrs, st_rdev)
   *File returned by FilesystemReader.Next    file_event
   LocalFS.Next over filepath.Walk            walk (children in the order of the
                                              listing: sorted by name)
   fsBufReader (Next / Buffer)                the list of events still to come; Buffer(f)
                                              puts f back in front
   tar(ctx, enc, fs, f)                       tar_ev (one node), dir_loop (the for loop
                                              of the directory case)
   sort.Strings(keys) over the Xattrs map     sort_xattrs
   the same, by recursion on the tree         tar_tree (shown equal to tar_ev on a walk)
   Tar(ctx, w, fs)                            tar_events / tar_bytes

   Paths: File.Path is a cleaned slash-separated string; here it is the list of its
   components below the root of the walk ("." <-> []), path.Dir <-> removelast
   (Base/GoPath.v relates the two views).  n, the running byte count returned by
   enc.Encode, is the length of the encoding of the elements written so far. *)
From Coq Require Import List NArith Bool.
From DS Require Import Gen.Constants Base.Bytes Base.LE64 Model.Format Model.Goodbye Model.Mode.
From DS Require Base.FS Base.GoPath Model.Sip.
Import ListNotations.
Local Open Scope N_scope.

(* ---------- the source tree ---------- *)

Record attrs := mkAttrs {
  t_mode : N;                        (* st_mode, type bits included *)
  t_uid : N;
  t_gid : N;
  t_mtime : N;                       (* nanoseconds since the epoch as a uint64 (two's complement before 1970) *)
  t_xattrs : list (bytes * bytes)    (* as listed by llistxattr: one entry per key *)
}.

Inductive tree :=
| TDir (a : attrs) (children : list (bytes * tree))
| TFile (a : attrs) (data : bytes)
| TLink (a : attrs) (target : bytes)
| TDev (a : attrs) (rdev : N)
| TOther (a : attrs).                (* fifo, socket: tar() skips them with a warning *)

(* what tar() writes something for *)
Definition archived (t : tree) : bool := match t with TOther _ => false | _ => true end.

Definition tree_attrs (t : tree) : attrs :=
  match t with TDir a _ | TFile a _ | TLink a _ | TDev a _ | TOther a => a end.

(* ---------- what the filesystem reader hands to tar() ---------- *)

Record file_event := mkEvent {
  fe_name : bytes;                   (* File.Name *)
  fe_path : list bytes;              (* File.Path *)
  fe_mode : N;                       (* File.Mode, an os.FileMode *)
  fe_size : N;                       (* File.Size *)
  fe_target : bytes;                 (* File.LinkTarget *)
  fe_mtime : N;                      (* uint64(File.ModTime.UnixNano()) *)
  fe_uid : N;
  fe_gid : N;
  fe_major : N;
  fe_minor : N;
  fe_xattrs : list (bytes * bytes);  (* File.Xattrs, a map: in the order the keys were inserted *)
  fe_data : bytes                    (* what File.Data yields until EOF *)
}.

(* LocalFS.Next for one directory entry *)
Definition event_of (path : list bytes) (name : bytes) (t : tree) : file_event :=
  let a := tree_attrs t in
  let rdev := match t with TDev _ r => r | _ => 0 end in
  mkEvent name path (stat_to_filemode (t_mode a))
          (match t with TFile _ d => lenN d | _ => 0 end)
          (match t with TLink _ tg => tg | _ => [] end)
          (t_mtime a) (t_uid a) (t_gid a)
          (rdev_major rdev) (rdev_minor rdev)
          (t_xattrs a)
          (match t with TFile _ d => d | _ => [] end).

(* filepath.Walk: the node, then its children in listing order, depth first *)
Fixpoint walk (path : list bytes) (name : bytes) (t : tree) : list file_event :=
  event_of path name t ::
  match t with
  | TDir _ ch =>
      flat_map (fun p => match p with (nm, c) => walk (path ++ [nm]) nm c end) ch
  | _ => []
  end.

(* ---------- elements ---------- *)

Definition entry_elem (mode uid gid mtime : N) : elem :=
  Entry (mkHeader 64 CaFormatEntry) TarFeatureFlags mode 0 uid gid mtime.

(* Size: uint64(len(key)) + 1 + uint64(len(value)) + 1 + 16; NameAndValue: key + "\000" + value *)
Definition xattr_elem (kv : bytes * bytes) : elem :=
  XAttr (mkHeader (lenN (fst kv) + 1 + lenN (snd kv) + 1 + 16) CaFormatXAttr) (fst kv ++ 0 :: snd kv).

Definition filename_elem (name : bytes) : elem :=
  Filename (mkHeader (16 + lenN name + 1) CaFormatFilename) name.

Definition payload_elem (size : N) (data : bytes) : elem :=
  Payload (mkHeader (16 + size) CaFormatPayload) data.

Definition symlink_elem (target : bytes) : elem :=
  Symlink (mkHeader (16 + lenN target + 1) CaFormatSymlink) target.

Definition device_elem (major minor : N) : elem :=
  Device (mkHeader 32 CaFormatDevice) major minor.

Definition goodbye_elem (items : list gitem) : elem :=
  Goodbye (mkHeader (16 + N.of_nat (length items) * 24) CaFormatGoodbye) items.

(* bytes written for a list of elements: the sum of what enc.Encode returned *)
Definition esize (es : list elem) : N := lenN (encode_elems es).

(* keys := the keys of the map; sort.Strings(keys).  A later insertion of a key that is
   already there replaces its value. *)
Fixpoint insert_kv (kv : bytes * bytes) (l : list (bytes * bytes)) : list (bytes * bytes) :=
  match l with
  | [] => [kv]
  | y :: r => match FS.bytes_cmp (fst kv) (fst y) with
              | Lt => kv :: l
              | Eq => kv :: r
              | Gt => y :: insert_kv kv r
              end
  end.
Definition sort_xattrs (l : list (bytes * bytes)) : list (bytes * bytes) :=
  fold_left (fun acc kv => insert_kv kv acc) l [].

(* the entry and xattr elements every supported node starts with *)
Definition head_elems (f : file_event) : list elem :=
  entry_elem (filemode_to_stat (fe_mode f)) (u64 (fe_uid f)) (u64 (fe_gid f)) (fe_mtime f)
  :: map xattr_elem (sort_xattrs (fe_xattrs f)).

(* f.IsDir() || f.IsRegular() || f.IsSymlink() || f.IsDevice() *)
Definition supported (fm : N) : bool :=
  fm_is_dir fm || fm_is_regular fm || fm_is_symlink fm || fm_is_device fm.

(* the directory case after its loop.  Everything here is uint64 arithmetic in Go:
     items[i].Offset = uint64(n) - items[i].Offset
     makeGoodbyeBST(items)
     tail: Offset: uint64(n), Size: uint64(16 + len(items)*24 + 24), Hash: tail marker *)
Definition goodbye_of (n : N) (items : list item) : option elem :=
  let items1 := map (fun it => (sub64 (u64 n) (it_offset it), it_size it, it_hash it)) items in
  match make_goodbye_bst items1 with
  | None => None
  | Some t =>
      Some (goodbye_elem (t ++ [(u64 n, u64 (16 + N.of_nat (length t) * 24 + 24), CaFormatGoodbyeTailMarker)]))
  end.

(* the goodbye item of one child: Offset: uint64(start), Size: uint64(n - start),
   Hash: SipHash(name) (a uint64) *)
Definition child_item (start n' : N) (name : bytes) : item :=
  (u64 start, u64 (n' - start), u64 (Sip.sip_hash name)).

(* ---------- tar() on the event stream ---------- *)

(* None: out of fuel, or a place where the Go code would panic (makeGoodbyeBST) or
   return "unable to determine node type".  The result is the elements written by this
   call and the events left in the reader. *)
Fixpoint tar_ev (fuel : nat) (f : file_event) (evs : list file_event)
  : option (list elem * list file_event) :=
  match fuel with
  | O => None
  | S fuel' =>
      if negb (supported (fe_mode f)) then Some ([], evs)          (* skipping ... unsupported node type *)
      else
        let hd := head_elems f in
        if fm_is_dir (fe_mode f) then
          match dir_loop fuel' (fe_path f) evs (esize hd) [] [] with
          | None => None
          | Some (body, n, items, evs') =>
              match goodbye_of n items with
              | None => None
              | Some g => Some (hd ++ body ++ [g], evs')
              end
          end
        else if fm_is_regular (fe_mode f) then Some (hd ++ [payload_elem (fe_size f) (fe_data f)], evs)
        else if fm_is_symlink (fe_mode f) then Some (hd ++ [symlink_elem (fe_target f)], evs)
        else if fm_is_device (fe_mode f) then Some (hd ++ [device_elem (fe_major f) (fe_minor f)], evs)
        else None
  end

(* for { f, err := fs.Next(); EOF -> break; path.Dir(f.Path) != dir -> fs.Buffer(f), break;
         unsupported node type -> warn, continue (nothing is written for it);
         filename element; tar(f); items = append(items, ...) } *)
with dir_loop (fuel : nat) (dir : list bytes) (evs : list file_event) (n : N)
              (items : list item) (acc : list elem)
  : option (list elem * N * list item * list file_event) :=
  match fuel with
  | O => None
  | S fuel' =>
      match evs with
      | [] => Some (acc, n, items, [])
      | g :: rest =>
          if negb (FS.path_eqb (removelast (fe_path g)) dir) then Some (acc, n, items, evs)
          else if negb (supported (fe_mode g)) then dir_loop fuel' dir rest n items acc   (* skipping ...; continue *)
          else
            let name := GoPath.base (fe_name g) in
            let fn := filename_elem name in
            match tar_ev fuel' g rest with
            | None => None
            | Some (els, rest') =>
                let n' := n + esize (fn :: els) in
                dir_loop fuel' dir rest' n' (items ++ [child_item n n' name]) (acc ++ fn :: els)
            end
      end
  end.

(* Tar(): the first event is the root.  What the source still holds once the root has been
   encoded -- an event that was put back because it is not in the directory being walked, and
   everything after it -- is ignored and the archive is complete ([check] = false: the code
   before "fix: tar fails when the source holds entries that did not make it into the
   archive"), or makes Tar fail ([check] = true: buf.Next() after tar() must give io.EOF). *)
Definition tar_events_with (check : bool) (evs : list file_event) : option (list elem) :=
  match evs with
  | [] => None                                                   (* io.EOF from the first Next *)
  | f :: rest =>
      match tar_ev (2 * length evs + 2) f rest with
      | Some (els, remaining) =>
          if check && negb (match remaining with [] => true | _ => false end) then None else Some els
      | None => None
      end
  end.

(* the code as it is: the constant is generated from tar.go on every build *)
Definition tar_events (evs : list file_event) : option (list elem) :=
  tar_events_with c05_tar_rejects_leftover evs.

Definition tar_bytes (evs : list file_event) : option bytes :=
  match tar_events evs with Some els => Some (encode_elems els) | None => None end.

(* ---------- the same by recursion on the tree ---------- *)

(* the loop of the directory case over the already encoded children *)
Fixpoint dir_body (ch : list (bytes * list elem)) (n : N) (items : list item) (acc : list elem)
  : list elem * N * list item :=
  match ch with
  | [] => (acc, n, items)
  | (nm, els) :: r =>
      let name := GoPath.base nm in
      let fn := filename_elem name in
      let n' := n + esize (fn :: els) in
      dir_body r n' (items ++ [child_item n n' name]) (acc ++ fn :: els)
  end.

Fixpoint tar_tree (path : list bytes) (name : bytes) (t : tree) : option (list elem) :=
  let f := event_of path name t in
  let hd := head_elems f in
  match t with
  | TDir _ ch =>
      let fix kids (ch : list (bytes * tree)) : option (list (bytes * list elem)) :=
        match ch with
        | [] => Some []
        | (nm, c) :: r =>
            if archived c then
              match tar_tree (path ++ [nm]) nm c, kids r with
              | Some els, Some rs => Some ((nm, els) :: rs)
              | _, _ => None
              end
            else kids r                      (* fifo, socket: the loop continues *)
        end in
      match kids ch with
      | None => None
      | Some enc =>
          match dir_body enc (esize hd) [] [] with
          | (body, n, items) =>
              match goodbye_of n items with
              | None => None
              | Some g => Some (hd ++ body ++ [g])
              end
          end
      end
  | TFile _ d => Some (hd ++ [payload_elem (lenN d) d])
  | TLink _ tg => Some (hd ++ [symlink_elem tg])
  | TDev _ r => Some (hd ++ [device_elem (rdev_major r) (rdev_minor r)])
  | TOther _ => Some []
  end.

(* desync tar <out> <dir> on the tree t *)
Definition tar_of_tree (t : tree) : option bytes :=
  match tar_tree [] [] t with Some els => Some (encode_elems els) | None => None end.
