(* chunker.go discriminatorFromAvg -- casync's rule for turning the average chunk size into the
   discriminator the rolling hash is tested against:

       uint32( float64(avg) / (-1.42888852e-7*float64(avg) + 1.33237515) )

   Model: the same quotient in exact rational arithmetic, truncated:
       avg / (1.33237515 - 1.42888852e-7 * avg) = avg * 10^15 / (133237515 * 10^7 - 142888852 * avg).
   The two constants are casync's and are written here by hand on purpose (they are the
   reference, not a copy of what the code says today).  For every avg in 1 .. 9,000,000 the float64
   evaluation and the exact quotient agree (exhaustive comparison, run outside Coq; the
   denominator reaches 0 near avg = 9,324,561, beyond which the Go expression is meaningless);
   on every run the harness compares the implementation with this function. *)
From Coq Require Import NArith Lia.
Local Open Scope N_scope.

Definition disc_den (avg : N) : N := 133237515 * 10 ^ 7 - 142888852 * avg.
Definition disc_of_avg (avg : N) : N := (avg * 10 ^ 15) / disc_den avg.
Definition disc_avg_limit : N := 9000000.
