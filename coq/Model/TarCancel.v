(* tar.go tar() under cancellation.  Tar walks the entries in order; the context is looked at once per
   entry, at the head of the tar() call:

       select { case <-ctx.Done(): return n, Interrupted{}; default: }

   A regular file is encoded as a payload element whose header announces the file size, followed by
   io.Copy of the file's data (no size check in the encoder).  After the last entry the goodbye records
   are written and Tar returns nil.

   The walk is abstracted to the payload sizes of its entries (0 for directories, links, devices).
   [cancel_at = Some (e, r)]: the context is cancelled while entry e's payload is being copied, after r
   of its bytes were read.  Result: the payload bytes written per entry, and nil / Interrupted.
   [fixed = false] is the seeded variant in which the payload reader returns io.EOF once the context is
   done ("the next tar() call reports it"). *)
From Coq Require Import List Arith Bool Lia.
Import ListNotations.

Inductive wres := WNil | WInterrupted.

Fixpoint tar_walk (fixed : bool) (sizes : list nat) (i : nat) (cancelled : bool)
                  (cancel_at : option (nat * nat)) : list nat * wres :=
  match sizes with
  | [] => ([], WNil)                                   (* goodbye records; return nil *)
  | sz :: rest =>
      if cancelled then ([], WInterrupted)              (* head of tar(): <-ctx.Done() *)
      else
        let hit := match cancel_at with Some (e, r) => if e =? i then Some r else None | None => None end in
        let written := match hit with
                       | Some r => if fixed then sz else Nat.min r sz     (* the reader stops at the cancellation *)
                       | None => sz
                       end in
        let '(w, res) := tar_walk fixed rest (S i) (match hit with Some _ => true | None => false end) cancel_at in
        (written :: w, res)
  end.
