(* make.go under cancellation: the loop top of pChunker.start and the collector of IndexFromFile.

     worker i:   for { select { case <-ctx.Done(): c.err = Interrupted{}; return      -- close(c.results) deferred
                               case <-c.done: return
                               default: }
                       ... c.results <- chunk ...; if in sync with the next worker { return } }
     collector:  for _, w := range worker {
                   for chunk := range w.results { index.Chunks = append(index.Chunks, chunk) }   -- until closed
                   if w.err != nil { return index, stats, w.err }
                   if uint64(index.Length()) >= size { break } }
                 return index, stats, nil

   What a worker emits when it is not interrupted (where it syncs with its neighbour or hits the end of
   the file) is C02's subject; here it is abstracted to [stop_at i], the number of chunks worker i puts
   into its bucket before it stops by itself.  [need] is the number of chunks after which the collected
   index covers the file.  [records_err = false] is the seeded mutant in which the interrupted case
   no longer sets c.err. *)
From Coq Require Import List Arith Bool Lia.
From DS Require Import Base.Sched Model.Pool.
Import ListNotations.

Inductive mwst := MRun | MStopped (err : bool).
Inductive mtid := MWorker (i : nat) | MCollect | MCancel.

Record mstate := mkM {
  m_cancelled : bool;
  m_workers : list (mwst * nat);    (* state, chunks in the bucket *)
  m_next : nat;                     (* next worker the collector drains *)
  m_got : list nat;                 (* bucket sizes drained so far, in order *)
  m_res : option result;            (* what IndexFromFile returned *)
}.

Section MakeCancel.
  Variable stop_at : nat -> nat.
  Variable need : nat.
  Variable records_err : bool.
  Variable can_cancel : bool.

  Definition minit (nw : nat) : mstate := mkM false (repeat (MRun, 0) nw) 0 [] None.

  Definition mstep (s : mstate) (t : mtid) : option mstate :=
    match t with
    | MWorker i =>
        match nth_error (m_workers s) i with
        | Some (MRun, e) =>
            if m_cancelled s then                                       (* <-ctx.Done() *)
              Some (mkM (m_cancelled s) (set_nth (m_workers s) i (MStopped records_err, e)) (m_next s) (m_got s) (m_res s))
            else if e =? stop_at i then                                 (* in sync / end of file: return *)
              Some (mkM (m_cancelled s) (set_nth (m_workers s) i (MStopped false, e)) (m_next s) (m_got s) (m_res s))
            else                                                        (* c.results <- chunk *)
              Some (mkM (m_cancelled s) (set_nth (m_workers s) i (MRun, S e)) (m_next s) (m_got s) (m_res s))
        | _ => None
        end
    | MCollect =>
        match m_res s with
        | Some _ => None
        | None =>
            match nth_error (m_workers s) (m_next s) with
            | Some (MStopped err, e) =>                                 (* bucket closed: drained *)
                let got := m_got s ++ [e] in
                if err then Some (mkM (m_cancelled s) (m_workers s) (m_next s) got (Some RInterrupted))
                else if need <=? fold_right plus 0 got
                     then Some (mkM (m_cancelled s) (m_workers s) (m_next s) got (Some RNil))   (* covers the file: break *)
                     else Some (mkM (m_cancelled s) (m_workers s) (S (m_next s)) got None)
            | Some (MRun, _) => None                                    (* blocked in range w.results *)
            | None => Some (mkM (m_cancelled s) (m_workers s) (m_next s) (m_got s) (Some RNil))  (* all workers drained *)
            end
        end
    | MCancel =>
        if can_cancel && negb (m_cancelled s)
        then Some (mkM true (m_workers s) (m_next s) (m_got s) (m_res s)) else None
    end.
End MakeCancel.
