(* Faults outside the chunk store, for the stream-based writers (ChunkStream, tar -i, make):

   1. the SOURCE: index.go ChunkStream's feeder loop

        for { start, b, err := c.Next()
              if err != nil { return Index{}, err }      -- first
              if len(b) == 0 { break }                   -- then
              ... in <- chunkJob{num, start, b} ... }

      Chunker.Next returns the bytes it still has together with a read error of the source; when the
      read buffer has just been consumed exactly (offset 0, or k*10*max with chunks that end on the
      buffer boundary) that is an EMPTY chunk together with the error.

   2. the SINK: index.go Index.WriteTo encodes through a bufio.Writer (4096 bytes) and then
      `if err := bw.Flush(); err != nil { return n, err }`.  A bufio.Writer keeps the first error of its
      underlying writer: every later Write and the Flush return it.

   3. cmd/desync/tar.go runTar: the Tar goroutine writes into a pipe read by the chunker;
        index, err := ChunkStream(...); if err != nil { return err }
        if tarErr != nil { return tarErr }
        return storeCaibxFile(index, ...)

   [fixed = false] are the seeded mutants (end-of-stream test before the error test; Flush in a defer
   with its result dropped; tarErr consulted only in ChunkStream's error branch). *)
From Coq Require Import List Arith Bool Lia.
Import ListNotations.

(* ---- 1. source ---- *)
Record next_res := { nr_len : nat; nr_err : bool }.   (* len(b), err != nil *)
Inductive feed_out := FNil (jobs : list nat) | FErr.

Fixpoint cs_feed (fixed : bool) (rs : list next_res) (acc : list nat) : feed_out :=
  match rs with
  | [] => FNil (rev acc)                       (* the script of Next results is exhausted: end *)
  | r :: rest =>
      if fixed then
        if nr_err r then FErr
        else if nr_len r =? 0 then FNil (rev acc)
        else cs_feed fixed rest (nr_len r :: acc)
      else
        if nr_len r =? 0 then FNil (rev acc)
        else if nr_err r then FErr
        else cs_feed fixed rest (nr_len r :: acc)
  end.

(* ---- 2. sink ---- *)
(* [n_mid] sink writes happen while encoding (the buffer filled up), one more in the final Flush;
   [ok k]: does the k-th write to the sink succeed.  Result: does WriteTo return an error. *)
Definition write_to (fixed : bool) (n_mid : nat) (ok : nat -> bool) : bool :=
  existsb (fun k => negb (ok k)) (seq 0 n_mid) || (fixed && negb (ok n_mid)).

(* bytes of an encoded index with n chunks: FormatIndex 48 + table header 16 + 40 per item + tail 40 *)
Definition index_bytes (n : nat) : nat := 48 + 16 + 40 * n + 40.

(* ---- 3. runTar ---- *)
(* arguments: did ChunkStream / Tar / storeCaibxFile return an error; result: does the command fail *)
Definition run_tar (fixed : bool) (cs_err tar_err sink_err : bool) : bool :=
  if cs_err then true
  else if fixed then (if tar_err then true else sink_err)
  else sink_err.
