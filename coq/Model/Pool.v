(* The feeder/worker skeleton shared by VerifyIndex, ChopFile, Copy,
   ChunkStream, Plan.Validate and AssembleFile's main loop:

     in := make(chan job); g, ctx := errgroup.WithContext(ctx)
     n x  g.Go(for j := range in { if err := body(j) { return err } }; return nil)
     for each job { select { <-ctx.Done(): interrupted = true; break ; in <- job } }
     close(in); err := g.Wait(); if err != nil return err
     if interrupted return Interrupted{}; return nil

   Threads: the feeder, workers 0..nw-1 and an environment thread that may
   cancel the parent context at any moment.  The unbuffered channel hand-over is
   a joint step (worker takes job [fed]).  [job_ok k] is whether the body
   succeeds on job k (bodies with effects are modelled by the users of this
   skeleton; here the body is pure). *)
From Coq Require Import List Arith Bool Lia.
Import ListNotations.

Inductive wstate := Idle | Busy (k : nat) | Exited.
Inductive fstate := Feeding | Stopped (interrupted : bool).
Inductive tid := Feeder | Worker (i : nat) | CancelEnv.

Record pstate := {
  fed : nat;                 (* jobs handed out so far *)
  feeder : fstate;
  cancelled : bool;          (* ctx.Done() is closed *)
  ext_cancel : bool;         (* the parent context was cancelled *)
  workers : list wstate;     (* one per worker goroutine *)
  failed : bool;             (* errgroup recorded a first error *)
  processed : list nat;      (* jobs whose body returned nil *)
}.

Inductive result := RNil | RErr | RInterrupted.

Section Pool.
  Variable njobs : nat.
  Variable job_ok : nat -> bool.
  Variable can_cancel : bool.   (* may the environment cancel? *)

  Definition init (nw : nat) : pstate :=
    {| fed := 0; feeder := Feeding; cancelled := false; ext_cancel := false;
       workers := repeat Idle nw; failed := false; processed := [] |}.

  Fixpoint set_nth {A} (l : list A) (i : nat) (x : A) : list A :=
    match l, i with
    | [], _ => []
    | _ :: r, 0 => x :: r
    | y :: r, S i => y :: set_nth r i x
    end.

  Definition step (s : pstate) (t : tid) : option pstate :=
    match t with
    | Feeder =>
        match feeder s with
        | Feeding =>
            if fed s =? njobs then
              Some {| fed := fed s; feeder := Stopped false; cancelled := cancelled s; ext_cancel := ext_cancel s;
                      workers := workers s; failed := failed s; processed := processed s |}
            else if cancelled s then          (* select took <-ctx.Done() *)
              Some {| fed := fed s; feeder := Stopped true; cancelled := cancelled s; ext_cancel := ext_cancel s;
                      workers := workers s; failed := failed s; processed := processed s |}
            else None                          (* blocked in select until a worker receives *)
        | Stopped _ => None
        end
    | Worker i =>
        match nth_error (workers s) i with
        | Some Idle =>
            match feeder s with
            | Feeding =>
                if fed s <? njobs then           (* rendezvous: in <- job / range in *)
                  Some {| fed := S (fed s); feeder := Feeding; cancelled := cancelled s; ext_cancel := ext_cancel s;
                          workers := set_nth (workers s) i (Busy (fed s)); failed := failed s;
                          processed := processed s |}
                else None
            | Stopped _ =>                       (* channel closed: goroutine returns nil *)
                Some {| fed := fed s; feeder := feeder s; cancelled := cancelled s; ext_cancel := ext_cancel s;
                        workers := set_nth (workers s) i Exited; failed := failed s; processed := processed s |}
            end
        | Some (Busy k) =>
            if job_ok k then
              Some {| fed := fed s; feeder := feeder s; cancelled := cancelled s; ext_cancel := ext_cancel s;
                      workers := set_nth (workers s) i Idle; failed := failed s;
                      processed := k :: processed s |}
            else                                  (* return err: errgroup records it and cancels ctx *)
              Some {| fed := fed s; feeder := feeder s; cancelled := true; ext_cancel := ext_cancel s;
                      workers := set_nth (workers s) i Exited; failed := true; processed := processed s |}
        | Some Exited => None
        | None => None
        end
    | CancelEnv =>
        if can_cancel && negb (ext_cancel s) then
          Some {| fed := fed s; feeder := feeder s; cancelled := true; ext_cancel := true;
                  workers := workers s; failed := failed s; processed := processed s |}
        else None
    end.

  Definition all_exited (s : pstate) : bool :=
    forallb (fun w => match w with Exited => true | _ => false end) (workers s).

  Definition final (s : pstate) : bool :=
    match feeder s with Stopped _ => all_exited s | Feeding => false end.

  (* What the entry point returns once g.Wait() has returned. *)
  Definition pool_result (s : pstate) : result :=
    if failed s then RErr
    else match feeder s with
         | Stopped true => RInterrupted
         | _ => RNil
         end.
End Pool.
