(* archive.go: ArchiveDecoder.Next over the element decoder of Model/Format.v.

   Names: Go keeps the current directory as a cleaned slash-separated string
   (a.dir, initially ".") and builds names with path.Join / filepath.Dir.
   Entry names are checked to be single path components (not "", ".", "..",
   no '/'), so the string is determined by the list of components:
     "."                  <-> []
     path.Join(dir, n)    <-> dir ++ [n]   (dir itself when n is empty)
     filepath.Dir(dir)    <-> removelast dir
   [a_dir] is that list.  xattrs are kept in insertion order (Go: a map, a
   later key overrides an earlier one). *)
From Coq Require Import List NArith Bool.
From DS Require Import Gen.Constants Base.Bytes Base.LE64 Model.Format.
Import ListNotations.
Local Open Scope N_scope.

Record meta := mkMeta { m_uid : N; m_gid : N; m_mode : N; m_mtime : N }.

Inductive node :=
| NDirectory (name : list bytes) (m : meta) (xattrs : list (bytes * bytes))
| NFile (name : list bytes) (m : meta) (xattrs : list (bytes * bytes)) (size : N) (data : bytes)
| NSymlink (name : list bytes) (m : meta) (xattrs : list (bytes * bytes)) (target : bytes)
| NDevice (name : list bytes) (m : meta) (xattrs : list (bytes * bytes)) (major minor : N).

(* a_started: a.started, set once the first (nameless, root) entry has been returned;
   every later entry needs a name *)
Record astate := mkAState { a_dir : list bytes; a_last : option elem; a_started : bool }.
Definition astate0 : astate := mkAState [] None false.

(* a.last only ever holds a Filename or a Goodbye element; what matters is that it
   is never an Entry *)
Definition wf_astate (st : astate) : Prop :=
  match a_last st with Some (Entry _ _ _ _ _ _ _) => False | _ => True end.

(* the local variables of one call of Next *)
Record locals := mkLocals {
  l_entry : option meta;
  l_payload : option (N * bytes);    (* header size, data *)
  l_symlink : option bytes;
  l_device : option (N * N);
  l_xattrs : list (bytes * bytes);
  l_name : bytes
}.
Definition locals0 : locals := mkLocals None None None None [] [].

Definition byte_eqb (a b : byte) : bool := a =? b.
Fixpoint bytes_eqb (a b : bytes) : bool :=
  match a, b with
  | [], [] => true
  | x :: a', y :: b' => byte_eqb x y && bytes_eqb a' b'
  | _, _ => false
  end.

(* strings.IndexRune(s, 0): the part before and after the first NUL *)
Fixpoint split_nul (s : bytes) : option (bytes * bytes) :=
  match s with
  | [] => None
  | x :: t => if x =? 0 then Some ([], t)
              else match split_nul t with
                   | Some (k, v) => Some (x :: k, v)
                   | None => None
                   end
  end.

(* d.Name == "" || d.Name == "." || d.Name == ".." || strings.ContainsRune(d.Name, '/') *)
Definition bad_name (n : bytes) : bool :=
  match n with
  | [] => true
  | _ => bytes_eqb n [46] || bytes_eqb n [46; 46] || existsb (fun x => x =? 47) n
  end.

Definition join (dir : list bytes) (name : bytes) : list bytes :=
  match name with [] => dir | _ => dir ++ [name] end.

(* the node Next returns once the loop is left with an entry *)
Definition finish_node (st : astate) (l : locals) (e : meta) : option node * astate :=
  match l_payload l, l_device l, l_symlink l with
  | None, None, None =>
      let d := join (a_dir st) (l_name l) in
      (Some (NDirectory d e (l_xattrs l)), mkAState d (a_last st) (a_started st))
  | Some (size, data), _, _ =>
      (Some (NFile (join (a_dir st) (l_name l)) e (l_xattrs l) (sub64 size 16) data), st)
  | None, Some (major, minor), _ =>
      (Some (NDevice (join (a_dir st) (l_name l)) e (l_xattrs l) major minor), st)
  | None, None, Some target =>
      (Some (NSymlink (join (a_dir st) (l_name l)) e (l_xattrs l) target), st)
  end.

(* after the loop: if name == "" && a.started { return InvalidFormat }; a.started = true; build the node *)
Definition finish (st : astate) (l : locals) (e : meta) : M (option node * astate) :=
  match l_name l, a_started st with
  | [], true => fail InvalidFormat
  | _, _ => ret (finish_node (mkAState (a_dir st) (a_last st) true) l e)
  end.

(* the loop of ArchiveDecoder.Next.  Each iteration takes a.last (at most once
   per call) or one element from the decoder, so the input length bounds it. *)
Fixpoint archive_loop (fuel : nat) (st : astate) (l : locals) : M (option node * astate) :=
  match fuel with
  | O => fail OutOfFuel
  | S fuel' =>
      do c_st <- match a_last st with
                 | Some c => ret (Some c, mkAState (a_dir st) None (a_started st))
                 | None => do c <- next Fixed; ret (c, st)
                 end;
      let c := fst c_st in
      let st := snd c_st in
      match c with
      | None => ret (None, st)
      | Some (Entry _ _ mode _ uid gid mtime) =>
          match l_entry l with
          | Some _ => fail InvalidFormat
          | None => archive_loop fuel' st (mkLocals (Some (mkMeta uid gid mode mtime)) (l_payload l) (l_symlink l)
                                                     (l_device l) (l_xattrs l) (l_name l))
          end
      | Some (User _ _) | Some (Group _ _) | Some (SELinux _ _) | Some (ACLUser _ _ _ _)
      | Some (ACLGroup _ _ _ _) | Some (ACLGroupObj _ _) | Some (ACLDefault _ _ _ _ _) | Some (FCaps _ _) =>
          archive_loop fuel' st l
      | Some (Payload h data) =>
          match l_entry l with
          | None => fail InvalidFormat
          | Some e => finish st (mkLocals (l_entry l) (Some (h_size h, data)) (l_symlink l) (l_device l)
                                          (l_xattrs l) (l_name l)) e
          end
      | Some (XAttr _ nv) =>
          match l_entry l, split_nul nv with
          | Some _, Some (k, v) =>
              archive_loop fuel' st (mkLocals (l_entry l) (l_payload l) (l_symlink l) (l_device l)
                                              (l_xattrs l ++ [(k, v)]) (l_name l))
          | _, _ => fail InvalidFormat
          end
      | Some (Symlink _ target) =>
          match l_entry l with
          | None => fail InvalidFormat
          | Some _ => archive_loop fuel' st (mkLocals (l_entry l) (l_payload l) (Some target) (l_device l)
                                                      (l_xattrs l) (l_name l))
          end
      | Some (Device _ major minor) =>
          match l_entry l with
          | None => fail InvalidFormat
          | Some _ => archive_loop fuel' st (mkLocals (l_entry l) (l_payload l) (l_symlink l) (Some (major, minor))
                                                      (l_xattrs l) (l_name l))
          end
      | Some (Filename h name) =>
          match l_entry l with
          | Some e => finish (mkAState (a_dir st) (Some (Filename h name)) (a_started st)) l e
          | None =>
              if bad_name name then fail InvalidFormat
              else archive_loop fuel' st (mkLocals (l_entry l) (l_payload l) (l_symlink l) (l_device l)
                                                   (l_xattrs l) name)
          end
      | Some (Goodbye h items) =>
          match l_entry l with
          | Some e => finish (mkAState (a_dir st) (Some (Goodbye h items)) (a_started st)) l e
          | None => archive_loop fuel' (mkAState (removelast (a_dir st)) (a_last st) (a_started st)) l
          end
      | Some (Index _ _ _ _ _) | Some (Table _ _) => fail Unsupported
      end
  end.

(* ArchiveDecoder.Next *)
Definition archive_next (st : astate) : M (option node * astate) :=
  with_input_fuel (fun fuel => archive_loop (S fuel) st locals0).

(* for { n, err := a.Next(); if err != nil {return err}; if n == nil {break}; append } *)
Fixpoint archive_all_loop (fuel : nat) (st : astate) (acc : list node) : M (list node) :=
  match fuel with
  | O => fail OutOfFuel
  | S fuel' =>
      do r <- archive_next st;
      match fst r with
      | None => ret (rev acc)
      | Some n => archive_all_loop fuel' (snd r) (n :: acc)
      end
  end.

Definition archive_all : M (list node) :=
  with_input_fuel (fun fuel => archive_all_loop (S fuel) astate0 []).

Definition decode_archive_next (st : astate) (b : bytes) : result ((option node * astate) * bytes) :=
  run_result (archive_next st) b.
Definition decode_archive_next_alloc (st : astate) (b : bytes) : N := run_alloc (archive_next st) b.
Definition decode_archive (b : bytes) : result (list node * bytes) := run_result archive_all b.
Definition decode_archive_alloc (b : bytes) : N := run_alloc archive_all b.
