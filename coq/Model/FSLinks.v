(* Path resolution WITH symbolic links over the tree of Base/FS.v, and the path-based
   system calls the untar writer (localfs.go / localfs_other.go) uses.

   Base/FS.v addresses nodes by a list of names and never follows a link.  Here a path is
   the byte string the program hands to the kernel; it is split on '/', and walked
   component by component from the global root (absolute) or from the directory holding
   the link being expanded (relative link target):
     ""  and "."   stay,
     ".."          goes to the parent of the CURRENT REAL directory (the root's parent is
                   the root),
     a symbolic link met at an intermediate position is expanded; at the last position it
                   is expanded iff [follow_last] (stat/chown/chmod/utimes/open follow,
                   lstat/mkdir/unlink/symlink/mknod/lchown/lsetxattr/rmdir do not),
     at most [max_links] = 40 expansions (Linux MAXSYMLINKS), then ELOOP.
   [cur] is always the canonical path (a chain of real directories from the global root)
   of the directory reached so far, so the result [loc] of a walk is canonical too: it is
   the place in the tree where the object is or would be created.  An operation "touches"
   exactly its [loc].

   Not modelled: permission checks (the harness runs as root), parent mtime updates,
   hard links, mount points, NAME_MAX inside link targets (only the path argument of a
   system call is checked), relative path arguments (there is no cwd: the writer is always
   given an absolute destination). errno values that FS.errno lacks are mapped:
   ELOOP -> EIO, ENAMETOOLONG -> EINVAL, EPERM -> EINVAL. *)
From Coq Require Import List NArith Arith Bool.
From DS Require Import Base.Bytes Base.FS Base.GoPath.
Import ListNotations.

Definition max_links : nat := 40.
Definition name_max : nat := 255.
Definition path_max : nat := 4096.

Inductive wres :=
| WDone (loc : path) (o : option node)                  (* resolved: canonical place, what is there *)
| WLink (d : path) (target : bytes) (rest : list name)  (* a link in directory d has to be expanded *)
| WErr (e : errno).

Definition is_dotlike (c : name) : bool := match c with [] => true | _ => bytes_eqb c [dot] end.
Definition is_dotdot (c : name) : bool := bytes_eqb c [dot; dot].

(* walk along real directories until the components are used up or a link must be expanded *)
Fixpoint walk1 (fs : node) (cur : path) (comps : list name) (follow_last : bool) : wres :=
  match comps with
  | [] => WDone cur (lookup cur fs)
  | c :: rest =>
      if is_dotlike c then walk1 fs cur rest follow_last
      else if is_dotdot c then walk1 fs (removelast cur) rest follow_last
      else
        match lookup (cur ++ [c]) fs with
        | None => match rest with [] => WDone (cur ++ [c]) None | _ :: _ => WErr ENOENT end
        | Some (Dir _ _) => walk1 fs (cur ++ [c]) rest follow_last
        | Some (Symlink m t) =>
            match rest with
            | [] => if follow_last then WLink cur t [] else WDone (cur ++ [c]) (Some (Symlink m t))
            | _ :: _ => WLink cur t rest
            end
        | Some (File m b) => match rest with [] => WDone (cur ++ [c]) (Some (File m b)) | _ :: _ => WErr ENOTDIR end
        end
  end.

Definition is_abs (t : bytes) : bool := match t with c :: _ => is_slash c | [] => false end.

Fixpoint walk (links : nat) (fs : node) (cur : path) (comps : list name) (follow_last : bool)
  : res (path * option node) :=
  match walk1 fs cur comps follow_last with
  | WDone loc o => Ok (loc, o)
  | WErr e => Err e
  | WLink d t rest =>
      match links with
      | O => Err EIO                                    (* ELOOP *)
      | S l =>
          match t with
          | [] => Err ENOENT
          | _ :: _ => walk l fs (if is_abs t then [] else d) (split47 t ++ rest) follow_last
          end
      end
  end.

Definition has_nul (s : bytes) : bool := existsb (N.eqb 0) s.
Definition too_long (c : name) : bool := name_max <? length c.

(* what the kernel does with the path argument of a system call *)
Definition resolve_str (fs : node) (s : bytes) (follow_last : bool) : res (path * option node) :=
  if has_nul s then Err EINVAL                           (* Go: syscall.BytePtrFromString *)
  else if path_max <=? length s then Err EINVAL          (* ENAMETOOLONG *)
  else if existsb too_long (split47 s) then Err EINVAL   (* ENAMETOOLONG *)
  else if is_abs s then walk max_links fs [] (split47 s) follow_last
  else Err EINVAL.                                       (* relative or empty: not modelled *)

(* ---------- system calls: new state and the canonical places written ---------- *)

Definition sysres := res (node * list path).

Definition at_loc (loc : path) (f : option node -> res (option node)) (fs : node) : sysres :=
  match upd loc f fs with Ok fs' => Ok (fs', [loc]) | Err e => Err e end.

(* lstat(2) *)
Definition k_lstat (fs : node) (s : bytes) : res node :=
  match resolve_str fs s false with
  | Ok (_, Some n) => Ok n
  | Ok (_, None) => Err ENOENT
  | Err e => Err e
  end.

(* mkdir(2) *)
Definition k_mkdir (s : bytes) (m : meta) (fs : node) : sysres :=
  match resolve_str fs s false with
  | Ok (loc, None) => at_loc loc (fun _ => Ok (Some (Dir m []))) fs
  | Ok (_, Some _) => Err EEXIST
  | Err e => Err e
  end.

(* unlink(2) *)
Definition k_unlink (s : bytes) (fs : node) : sysres :=
  match resolve_str fs s false with
  | Ok (_, Some (Dir _ _)) => Err EISDIR
  | Ok (loc, Some _) => at_loc loc (fun _ => Ok None) fs
  | Ok (_, None) => Err ENOENT
  | Err e => Err e
  end.

(* symlink(2) *)
Definition k_symlink (target s : bytes) (m : meta) (fs : node) : sysres :=
  match target with
  | [] => Err ENOENT
  | _ :: _ =>
      match resolve_str fs s false with
      | Ok (loc, None) => at_loc loc (fun _ => Ok (Some (Symlink m target))) fs
      | Ok (_, Some _) => Err EEXIST
      | Err e => Err e
      end
  end.

(* mknod(2); a device, fifo or socket is a childless node without content *)
Definition k_mknod (s : bytes) (m : meta) (fs : node) : sysres :=
  match resolve_str fs s false with
  | Ok (loc, None) => at_loc loc (fun _ => Ok (Some (File m []))) fs
  | Ok (_, Some _) => Err EEXIST
  | Err e => Err e
  end.

(* open(O_CREAT|O_WRONLY|O_TRUNC, 0666) (no O_NOFOLLOW, no O_EXCL), write everything, close *)
Definition k_create_trunc (s : bytes) (m : meta) (data : bytes) (fs : node) : sysres :=
  match resolve_str fs s true with
  | Ok (loc, None) => at_loc loc (fun _ => Ok (Some (File m data))) fs
  | Ok (loc, Some (File m0 _)) => at_loc loc (fun _ => Ok (Some (File m0 data))) fs
  | Ok (_, Some (Dir _ _)) => Err EISDIR
  | Ok (_, Some (Symlink _ _)) => Err EIO                (* cannot happen: the last link is followed *)
  | Err e => Err e
  end.

Definition node_meta (n : node) : meta := match n with Dir m _ => m | File m _ => m | Symlink m _ => m end.
Definition with_meta (g : meta -> meta) (n : node) : node :=
  match n with Dir m l => Dir (g m) l | File m b => File (g m) b | Symlink m t => Symlink (g m) t end.

(* chown/chmod/utimes (follow = true), lchown/lsetxattr (follow = false); the new
   attributes may depend on what kind of object is there (chown) *)
Definition k_setmeta (follow : bool) (g : node -> meta -> meta) (s : bytes) (fs : node) : sysres :=
  match resolve_str fs s follow with
  | Ok (loc, Some n) => at_loc loc (fun _ => Ok (Some (with_meta (g n) n))) fs
  | Ok (_, None) => Err ENOENT
  | Err e => Err e
  end.

(* os.RemoveAll: nil if the path does not exist, otherwise the whole subtree goes; the
   last component is not followed and links inside the subtree are not followed *)
Definition k_remove_all (s : bytes) (fs : node) : sysres :=
  match resolve_str fs s false with
  | Ok (loc, Some _) => at_loc loc (fun _ => Ok None) fs
  | Ok (_, None) => Ok (fs, [])
  | Err ENOENT => Ok (fs, [])
  | Err e => Err e
  end.

(* ---------- confinement vocabulary ---------- *)

(* loc is the directory root itself or lies below it *)
Definition beneath (root loc : path) : bool := is_prefix root loc.

Definition is_dir_at (p : path) (fs : node) : Prop := exists m l, lookup p fs = Some (Dir m l).
Definition not_link_at (p : path) (fs : node) : Prop := forall m t, lookup p fs <> Some (Symlink m t).

(* an absolute clean path string from its components *)
Definition rootstr (p : path) : bytes := slash :: join47 p.
