(* C11 -- store chains: StoreRouter, Cache, RepairableCache, FailoverGroup,
   SwapStore/SwapWriteStore, (Write)DedupQueue seen sequentially, composed as a
   [stack] tree over instrumented member stores.

   Sequential layer: one request at a time.  Every layer is a state-passing
   function over the [world] (member stores with their contents, per-call fault
   schedules and call counters; the [active] index of every failover group; the
   global log of calls that reached a member).  The layer combinators
   ([router_get], [cache_get], ...) take the semantics of their children as
   arbitrary state-passing functions, so the theorems about one layer hold for
   any children and any member behaviour.

   Errors are projected to the classes the code itself distinguishes:
     nil | ChunkMissing | ChunkInvalid | other
   plus one bit saying whether the typed error is hidden behind errors.Wrap
   (a Go type switch [err.(type)] only sees an unwrapped ChunkMissing, while
   errors.As in RepairableCache sees through the wrapping). *)
From Coq Require Import List Arith Bool.
Import ListNotations.

Definition id := nat.
Definition tag := nat.          (* which copy of the chunk's data an object holds *)

Inductive err := ENil | EMissing (wrapped : bool) | EInvalid (wrapped : bool) | EOther.

(* errors.Wrap(err, msg): nil stays nil *)
Definition wrap (e : err) : err :=
  match e with
  | ENil => ENil
  | EMissing _ => EMissing true
  | EInvalid _ => EInvalid true
  | EOther => EOther
  end.

Definition is_nil (e : err) : bool := match e with ENil => true | _ => false end.
(* err.(type) == ChunkMissing / _, ok := err.(ChunkMissing) *)
Definition is_plain_missing (e : err) : bool := match e with EMissing false => true | _ => false end.
(* errors.As(err, &ChunkInvalid{}) *)
Definition as_invalid (e : err) : bool := match e with EInvalid _ => true | _ => false end.

Definition gres := (option tag * err)%type.    (* GetChunk: chunk pointer (nil = None) and error *)
Definition hres := (bool * err)%type.          (* HasChunk: (bool, error) *)

(* ---------- member stores (the leaves): oracles with per-call fault schedules ---------- *)

Inductive fault := FNone | FErr | FMissing | FInvalid.
Inductive opk := KGet | KHas | KStore (t : tag) | KClose.
Record ev := { ev_member : nat; ev_op : opk; ev_id : id; ev_closed : bool }.

Record member := {
  m_content : list (id * (tag * bool));   (* id -> (data copy, valid?) ; first match wins *)
  m_faults : list fault;                  (* fault of call number 0, 1, 2, ... *)
  m_default : fault;                      (* fault of every later call *)
  m_calls : nat;                          (* Get/Has/Store calls so far *)
  m_closed : bool;
}.

Record world := {
  members : list member;
  actives : list nat;      (* FailoverGroup.active, one per group *)
  log : list ev;           (* calls that reached a member, newest first *)
}.

Definition M (A : Type) := world -> A * world.

Fixpoint upd_nth {A} (l : list A) (i : nat) (x : A) : list A :=
  match l, i with
  | [], _ => []
  | _ :: r, 0 => x :: r
  | y :: r, S i => y :: upd_nth r i x
  end.

Fixpoint lookup (c : list (id * (tag * bool))) (i : id) : option (tag * bool) :=
  match c with
  | [] => None
  | (j, v) :: r => if Nat.eqb j i then Some v else lookup r i
  end.

Definition fault_at (m : member) : fault := nth (m_calls m) (m_faults m) (m_default m).

Definition tick (m : member) : member :=
  {| m_content := m_content m; m_faults := m_faults m; m_default := m_default m;
     m_calls := S (m_calls m); m_closed := m_closed m |}.

Definition put (m : member) (i : id) (v : tag * bool) : member :=
  {| m_content := (i, v) :: m_content m; m_faults := m_faults m; m_default := m_default m;
     m_calls := m_calls m; m_closed := m_closed m |}.

Definition set_closed (m : member) : member :=
  {| m_content := m_content m; m_faults := m_faults m; m_default := m_default m;
     m_calls := m_calls m; m_closed := true |}.

Definition on_member {A} (k : nat) (o : opk) (i : id) (dflt : A) (f : member -> A * member) : M A :=
  fun w =>
    match nth_error (members w) k with
    | None => (dflt, w)
    | Some m =>
        let '(a, m') := f m in
        (a, {| members := upd_nth (members w) k m'; actives := actives w;
               log := {| ev_member := k; ev_op := o; ev_id := i; ev_closed := m_closed m |} :: log w |})
    end.

Definition member_get (i : id) (m : member) : gres * member :=
  (match fault_at m with
   | FErr => (None, EOther)
   | FMissing => (None, EMissing false)
   | FInvalid => (None, EInvalid false)
   | FNone => match lookup (m_content m) i with
              | None => (None, EMissing false)
              | Some (t, true) => (Some t, ENil)
              | Some (t, false) => (None, EInvalid false)
              end
   end, tick m).

Definition member_has (i : id) (m : member) : hres * member :=
  (match fault_at m with
   | FErr => (false, EOther)
   | FMissing => (false, ENil)
   | _ => (match lookup (m_content m) i with Some _ => true | None => false end, ENil)
   end, tick m).

Definition member_store (i : id) (t : tag) (m : member) : err * member :=
  match fault_at m with
  | FErr => (EOther, tick m)
  | FMissing => (ENil, tick m)                    (* acknowledged but dropped *)
  | FInvalid => (ENil, tick (put m i (t, false))) (* acknowledged but stored corrupted *)
  | FNone => (ENil, tick (put m i (t, true)))
  end.

(* ---------- semantics of a store: what the Store/WriteStore interface offers ---------- *)

Record ssem := {
  sget : id -> M gres;
  shas : id -> M hres;
  sstore : id -> tag -> M err;
  sclose : M unit;
}.

Definition leaf_sem (k : nat) : ssem := {|
  sget := fun i => on_member k KGet i (None, EOther) (member_get i);
  shas := fun i => on_member k KHas i (false, EOther) (member_has i);
  sstore := fun i t => on_member k (KStore t) i EOther (member_store i t);
  sclose := on_member k KClose 0 tt (fun m => (tt, set_closed m));
|}.

Definition no_store : id -> tag -> M err := fun _ _ w => (EOther, w).

(* storerouter.go StoreRouter.GetChunk *)
Fixpoint router_get (ms : list ssem) (i : id) : M gres :=
  fun w =>
    match ms with
    | [] => ((None, EMissing false), w)
    | s :: r =>
        let '((c, e), w1) := sget s i w in
        match e with
        | ENil => ((c, ENil), w1)
        | EMissing false => router_get r i w1
        | _ => ((None, wrap e), w1)
        end
    end.

(* storerouter.go StoreRouter.HasChunk *)
Fixpoint router_has (ms : list ssem) (i : id) : M hres :=
  fun w =>
    match ms with
    | [] => ((false, ENil), w)
    | s :: r =>
        let '((b, e), w1) := shas s i w in
        if negb (is_nil e) then ((false, e), w1)
        else if b then ((true, ENil), w1)
        else router_has r i w1
    end.

(* StoreRouter.Close: every store, in order *)
Fixpoint close_all (ms : list ssem) : M unit :=
  fun w =>
    match ms with
    | [] => (tt, w)
    | s :: r => let '(_, w1) := sclose s w in close_all r w1
    end.

Definition router_sem (ms : list ssem) : ssem := {|
  sget := router_get ms; shas := router_has ms; sstore := no_store; sclose := close_all ms |}.

(* cache.go Cache.GetChunk *)
Definition cache_get (s l : ssem) (i : id) : M gres :=
  fun w =>
    let '((c, e), w1) := sget l i w in
    match e with
    | ENil => ((c, ENil), w1)
    | EMissing false =>
        let '((c2, e2), w2) := sget s i w1 in
        if negb (is_nil e2) then ((c2, e2), w2)
        else match c2 with
             | None => ((None, EOther), w2)   (* nil chunk with nil error: StoreChunk(nil) panics; excluded by wf_stack *)
             | Some t =>
                 let '(e3, w3) := sstore l i t w2 in
                 if is_nil e3 then ((c2, ENil), w3) else ((c2, wrap e3), w3)
             end
    | _ => ((c, e), w1)
    end.

(* cache.go Cache.HasChunk *)
Definition cache_has (s l : ssem) (i : id) : M hres :=
  fun w =>
    let '((b, e), w1) := shas l i w in
    if negb (is_nil e) || b then ((b, e), w1) else shas s i w1.

(* Cache.Close: the cache first, then the store *)
Definition cache_close (s l : ssem) : M unit :=
  fun w => let '(_, w1) := sclose l w in sclose s w1.

Definition cache_sem (s l : ssem) : ssem := {|
  sget := cache_get s l; shas := cache_has s l; sstore := no_store; sclose := cache_close s l |}.

(* cache.go RepairableCache.GetChunk: ChunkInvalid (seen through wrapping) becomes ChunkMissing *)
Definition repair_get (l : ssem) (i : id) : M gres :=
  fun w =>
    let '((c, e), w1) := sget l i w in
    if as_invalid e then ((c, EMissing false), w1) else ((c, e), w1).

Definition repair_sem (l : ssem) : ssem := {|
  sget := repair_get l; shas := shas l; sstore := sstore l; sclose := sclose l |}.

(* failover.go *)
Definition get_active (g : nat) : M nat := fun w => (nth g (actives w) 0, w).

(* FailoverGroup.errorFrom(i) for a group of n stores *)
Definition error_from (g n a : nat) : M unit :=
  fun w =>
    let cur := nth g (actives w) 0 in
    if Nat.eqb a cur
    then (tt, {| members := members w; actives := upd_nth (actives w) g ((cur + 1) mod n); log := log w |})
    else (tt, w).

Definition dead_sem : ssem := {|
  sget := fun _ w => ((None, EOther), w); shas := fun _ w => ((false, EOther), w);
  sstore := no_store; sclose := fun w => (tt, w) |}.

(* FailoverGroup.GetChunk: [k] iterations left, [gerr] the last recorded error *)
Fixpoint failover_get_loop (g : nat) (ms : list ssem) (i : id) (k : nat) (gerr : err) : M gres :=
  fun w =>
    match k with
    | 0 => ((None, gerr), w)
    | S k' =>
        let '(a, w0) := get_active g w in
        let '((c, e), w1) := sget (nth a ms dead_sem) i w0 in
        if is_nil e then ((c, e), w1)
        else if is_plain_missing e then ((c, e), w1)
        else let '(_, w2) := error_from g (length ms) a w1 in
             failover_get_loop g ms i k' e w2
    end.

Definition failover_get (g : nat) (ms : list ssem) (i : id) : M gres :=
  failover_get_loop g ms i (length ms) ENil.

(* FailoverGroup.HasChunk: fails over on ANY error *)
Fixpoint failover_has_loop (g : nat) (ms : list ssem) (i : id) (k : nat) (gerr : err) : M hres :=
  fun w =>
    match k with
    | 0 => ((false, gerr), w)
    | S k' =>
        let '(a, w0) := get_active g w in
        let '((b, e), w1) := shas (nth a ms dead_sem) i w0 in
        if is_nil e then ((b, e), w1)
        else let '(_, w2) := error_from g (length ms) a w1 in
             failover_has_loop g ms i k' e w2
    end.

Definition failover_has (g : nat) (ms : list ssem) (i : id) : M hres :=
  failover_has_loop g ms i (length ms) ENil.

Definition failover_sem (g : nat) (ms : list ssem) : ssem := {|
  sget := failover_get g ms; shas := failover_has g ms; sstore := no_store; sclose := close_all ms |}.

(* ---------- stacks ---------- *)

Inductive stack :=
| Leaf (k : nat)                       (* writable member store *)
| LeafRO (k : nat)                     (* member store offered through the read-only Store interface *)
| Router (l : list stack)              (* StoreRouter: OWNS its member list -- see the note below *)
| Cache (s : stack) (l : stack)        (* Cache{s, l} *)
| Repairable (l : stack)               (* RepairableCache *)
| Failover (g : nat) (l : list stack)  (* FailoverGroup; [g] names its [active] cell *)
| Dedup (s : stack)                    (* DedupQueue: transparent for one request at a time *)
| WDedup (s : stack).                  (* WriteDedupQueue: idem *)

(* Ownership.  A stack is a value: [Router l] / [Failover g l] denote the chain whose members are, for ever, the
   list [l] given at construction; nothing in Gallina can alias and later overwrite [l].  This is therefore a
   CONTRACT the Go constructors have to provide -- NewStoreRouter(list...) receives the caller's backing array
   (variadic call) and must copy it (it does); "the chain behaves as the member list it was constructed with,
   whatever the caller does to its slice afterwards, also for a request in flight" is checked on the
   implementation by the construction-history cases of the harness (cmd/vh/c11hist.go, classes
   router|failover/members-changed-after-construction).  NewFailoverGroup kept the caller's slice until fix 6e48d68. *)

(* does the Go value implement WriteStore? *)
Definition writable (s : stack) : bool :=
  match s with Leaf _ | Repairable _ | WDedup _ => true | _ => false end.

Definition ro (s : ssem) : ssem := {| sget := sget s; shas := shas s; sstore := no_store; sclose := sclose s |}.

Fixpoint sem (s : stack) : ssem :=
  match s with
  | Leaf k => leaf_sem k
  | LeafRO k => ro (leaf_sem k)
  | Router l => router_sem (map sem l)
  | Cache s l => cache_sem (sem s) (sem l)
  | Repairable l => repair_sem (sem l)
  | Failover g l => failover_sem g (map sem l)
  | Dedup s => ro (sem s)
  | WDedup s => sem s
  end.

(* the constructors type-check in Go (Cache.l, RepairableCache.l, WriteDedupQueue.S are WriteStores)
   and no failover group is empty *)
Fixpoint wf_stack (s : stack) : bool :=
  match s with
  | Leaf _ | LeafRO _ => true
  | Router l => forallb wf_stack l
  | Cache s l => wf_stack s && wf_stack l && writable l
  | Repairable l => wf_stack l && writable l
  | Failover _ l => negb (match l with [] => true | _ => false end) && forallb wf_stack l
  | Dedup s => wf_stack s
  | WDedup s => wf_stack s && writable s
  end.

(* ---------- the top of the chain: optionally a SwapStore / SwapWriteStore ---------- *)

Inductive mode := MPlain | MSwapRO | MSwapRW.
Record top := { t_mode : mode; t_cur : stack }.

Inductive opn := OGet (i : id) | OHas (i : id) | OStore (i : id) (t : tag) | OSwap (new : stack) | OClose.
Inductive ores := RGet (r : gres) | RHas (r : hres) | RStore (e : err) | RNotWritable | RSwap (ok : bool) | RClose.

Definition top_writable (t : top) : bool :=
  match t_mode t with MPlain => writable (t_cur t) | MSwapRO => false | MSwapRW => true end.

(* swapstore.go; one request at a time, so the lock is invisible here (see Model/ChainsConc.v) *)
Definition exec (t : top) (o : opn) : M (ores * top) :=
  fun w =>
    match o with
    | OGet i => let '(r, w1) := sget (sem (t_cur t)) i w in ((RGet r, t), w1)
    | OHas i => let '(r, w1) := shas (sem (t_cur t)) i w in ((RHas r, t), w1)
    | OStore i tg =>
        if top_writable t && writable (t_cur t)
        then let '(e, w1) := sstore (sem (t_cur t)) i tg w in ((RStore e, t), w1)
        else ((RNotWritable, t), w)
    | OSwap new =>
        match t_mode t with
        | MPlain => ((RSwap false, t), w)
        | _ =>
            if writable (t_cur t) && negb (writable new) then ((RSwap false, t), w)
            else let '(_, w1) := sclose (sem (t_cur t)) w in
                 ((RSwap true, {| t_mode := t_mode t; t_cur := new |}), w1)
        end
    | OClose => let '(_, w1) := sclose (sem (t_cur t)) w in ((RClose, t), w1)
    end.

Fixpoint exec_all (t : top) (ops : list opn) : M (list ores * top) :=
  fun w =>
    match ops with
    | [] => (([], t), w)
    | o :: r =>
        let '((x, t1), w1) := exec t o w in
        let '((xs, t2), w2) := exec_all t1 r w1 in
        ((x :: xs, t2), w2)
    end.

Definition init_world (ms : list member) (ngroups : nat) : world :=
  {| members := ms; actives := repeat 0 ngroups; log := [] |}.

Definition init_member (c : list (id * (tag * bool))) (fs : list fault) (d : fault) : member :=
  {| m_content := c; m_faults := fs; m_default := d; m_calls := 0; m_closed := false |}.

(* the oracle entry point: results of every operation and the calls that reached the members, oldest first *)
Definition run_chain (ms : list member) (ngroups : nat) (t : top) (ops : list opn) : list ores * list ev * world :=
  let '((rs, _), w) := exec_all t ops (init_world ms ngroups) in (rs, rev (log w), w).
