(* protocolserver.go: ProtocolServer.Serve, and the client-side handlers of protocol.go
   (RecvHello, RequestChunk's reply handling), over the reader model of Model/Format.v and
   Protocol.ReadMessage of Model/Protocol.v.

   The input is the byte stream coming from the peer.  What this side writes (its HELLO, CHUNK /
   MISSING replies, REQUESTs) is recorded as a list of replies; the writer is taken to accept
   everything.  The chunk store is a function of the requested id.  Slicing m.Body is explicit:
   [subslice b lo hi] is b[lo:hi] and panics when hi > len(b), so that the size guards in front
   of the slicings are what the totality theorem is about.  [guard] is the constant of the guard
   `len(m.Body) < 40` in Serve (40 in the code). *)
From Coq Require Import List NArith Arith Bool.
From DS Require Import Gen.Constants Base.Bytes Base.LE64 Model.Format Model.Protocol.
Import ListNotations.
Local Open Scope N_scope.

(* b[lo:hi] *)
Definition subslice (b : bytes) (lo hi : nat) : M bytes :=
  if (length b <? hi)%nat then throw SliceBounds else ret (firstn (hi - lo) (skipn lo b)).

(* Protocol.RecvHello *)
Definition recv_hello : M N :=
  do m <- read_message Fixed;
  if negb (fst m =? CaProtocolHello) then fail BadHello
  else if negb (lenN (snd m) =? 8) then fail BadHello
  else ret (u64 (un_le64 (snd m))).

Inductive store_res := SFound | SMissing | SFail.
Inductive reply := RChunk (id : bytes) | RMissing (id : bytes).
Inductive sstep := SReply (r : reply) | SDone.

Section Server.
  Variable guard : N.
  Variable store : bytes -> store_res.

  (* Serve: Initialize (our HELLO goes out, the client's comes in), the wanted-service check *)
  Definition serve_handshake : M unit :=
    do flags <- recv_hello;
    if N.land flags CaProtocolPullChunks =? 0 then fail BadHello else ret tt.

  (* one iteration of Serve's loop *)
  Definition serve_one : M sstep :=
    do m <- read_message Fixed;
    let t := fst m in
    let body := snd m in
    if t =? CaProtocolRequest then
      if lenN body <? guard then fail TooShort
      else
        do id <- subslice body 8 40;          (* ChunkIDFromSlice(m.Body[8:40]) *)
        match store id with
        | SFound => ret (SReply (RChunk id))      (* SendProtocolChunk *)
        | SMissing => ret (SReply (RMissing id))  (* SendMissing; continue *)
        | SFail => fail StoreFailed
        end
    else if t =? CaProtocolAbort then fail Aborted
    else if t =? CaProtocolGoodbye then ret SDone
    else fail Unsupported.

  (* every message has at least 16 bytes: the input length bounds the loop *)
  Fixpoint serve_loop (fuel : nat) (acc : list reply) : M (list reply) :=
    match fuel with
    | O => fail OutOfFuel
    | S fuel' =>
        do st <- serve_one;
        match st with
        | SDone => ret (rev acc)
        | SReply r => serve_loop fuel' (r :: acc)
        end
    end.

  (* ProtocolServer.Serve *)
  Definition serve : M (list reply) :=
    do _ <- serve_handshake;
    with_input_fuel (fun fuel => serve_loop fuel []).
End Server.

(* ---------- client side ---------- *)

Inductive creply := CMissing | CChunk (storage : bytes).

(* RequestChunk after the request went out: one message from the server *)
Definition request_reply : M creply :=
  do m <- read_message Fixed;
  let t := fst m in
  let body := snd m in
  if t =? CaProtocolMissing then ret CMissing          (* ChunkMissing{id}: the body is not looked at *)
  else if t =? CaProtocolChunk then
    if lenN body <? 40 then fail TooShort
    else do d <- subslice body 40 (length body); ret (CChunk d)     (* m.Body[40:] *)
  else fail Unsupported.                                 (* incl. ABORT *)

(* a client: Initialize, then RequestChunk while the server keeps sending *)
Fixpoint client_loop (fuel : nat) (acc : list creply) : M (list creply) :=
  match fuel with
  | O => fail OutOfFuel
  | S fuel' => fun s =>
      match s with
      | [] => (Ok (rev acc), [], 0)
      | _ => (do r <- request_reply; client_loop fuel' (r :: acc)) s
      end
  end.

Definition client_session : M (list creply) :=
  do _ <- recv_hello;
  with_input_fuel (fun fuel => client_loop fuel []).

Definition decode_serve (store : bytes -> store_res) (b : bytes) : result (list reply * bytes) :=
  run_result (serve 40 store) b.
Definition decode_serve_alloc (store : bytes -> store_res) (b : bytes) : N := run_alloc (serve 40 store) b.
Definition decode_client (b : bytes) : result (list creply * bytes) := run_result client_session b.
Definition decode_client_alloc (b : bytes) : N := run_alloc client_session b.
