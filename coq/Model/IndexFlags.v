(* make.go IndexFromFile / index.go IndexFromReader: the feature flags of an index.

   IndexFromFile records CaFormatExcludeNoDump, the digest flag (set iff the library hashes chunks
   with SHA512/256) and, when the input file starts with a catar ENTRY element, that element's
   feature flags.  Both expressions are regenerated from make.go on every run
   (Gen/Constants.v: make_flags_init, make_flags_catar).  IndexFromReader refuses an index whose
   digest flag contradicts the digest the library is configured for. *)
From Coq Require Import NArith Bool.
From DS Require Import Gen.Constants.

Definition digest_flag (d512 : bool) : N := if d512 then CaFormatSHA512256 else 0%N.

Definition index_flags (d512 : bool) (catar : option N) : N :=
  let f := make_flags_init (digest_flag d512) in
  match catar with
  | Some t => N.lor f (make_flags_catar t)
  | None => f
  end.

Definition has_digest_bit (flags : N) : bool := negb (N.land flags CaFormatSHA512256 =? 0)%N.

(* IndexFromReader's digest check *)
Definition reader_accepts (d512 : bool) (flags : N) : bool :=
  if d512 then has_digest_bit flags else negb (has_digest_bit flags).
