(* Server side of the HTTP transports (C14, C15): coverter.go (Converters), chunk.go
   (Chunk, NewChunkFromStorage), local.go (LocalStore Get/Has/StoreChunk), localindex.go,
   httphandlerbase.go, httphandler.go (HTTPHandler), httpindexhandler.go (HTTPIndexHandler).

   External components are Section variables: the digest [H] (no law), zstd
   [zcomp]/[zdecomp], the index codec [idx_decode]/[idx_encode].  Chunk IDs are the
   32-byte arrays read as big-endian numbers ([id_of_bytes]); the all-zero ChunkID{} is 0. *)
From Coq Require Import List NArith Arith Bool.
From DS Require Import Gen.Constants Base.Bytes Base.Hash Base.Hex Base.GoPath.
Import ListNotations.

(* ---------- ids ---------- *)

Definition id_of_bytes (b : bytes) : id := fold_left (fun acc x => (acc * 256 + x)%N) b 0%N.
Definition zero_id : id := 0%N.

(* types.go ChunkIDFromString: hex.DecodeString then ChunkIDFromSlice (length must be 32) *)
Definition chunk_id_from_string (s : bytes) : option bytes :=
  match unhex s with
  | Some b => if length b =? 32 then Some b else None
  | None => None
  end.

Definition nonempty {A} (l : list A) : bool := match l with [] => false | _ :: _ => true end.

(* httphandler.go HTTPHandler.idFromPath *)
Definition id_from_path (compressed : bool) (p : bytes) : option bytes :=
  if negb compressed && has_suffix p CompressedChunkExt_bytes then None
  else
    let ext := if compressed then CompressedChunkExt_bytes else UncompressedChunkExt_bytes in
    let sID := trim_suffix (base p) ext in
    if length sID <? 4 then None
    else if negb (beq p (join [[slash]; firstn 4 sID; sID ++ ext])) then None
    else chunk_id_from_string sID.

(* ---------- requests, configuration, dispatch (C15) ---------- *)

Inductive method := GET | HEAD | PUT | OTHER.

Record request := {
  r_method : method;
  r_path : bytes;        (* r.URL.Path *)
  r_auth : bytes;        (* r.Header.Get("Authorization") *)
  r_body : bytes }.

Record cfg := {
  c_auth : bytes;               (* HTTPHandlerBase.authorization *)
  c_writable : bool;            (* HTTPHandlerBase.writable *)
  c_skip_verify_write : bool;   (* HTTPHandler.SkipVerifyWrite *)
  c_compressed : bool;          (* HTTPHandler.compressed = converters.hasCompression() *)
  c_store_writable : bool }.    (* the upstream store implements WriteStore / IndexWriteStore *)

(* if h.authorization != "" && r.Header.Get("Authorization") != h.authorization *)
Definition auth_denied (c : cfg) (r : request) : bool :=
  nonempty (c_auth c) && negb (beq (r_auth r) (c_auth c)).

Section Server.
  Variable H : bytes -> id.
  Variable zcomp : bytes -> bytes.
  Variable zdecomp : bytes -> option bytes.

  (* ---------- coverter.go ---------- *)
  Inductive layer := Compressor.
  Definition converters := list layer.

  Definition layer_to (l : layer) (b : bytes) : bytes := match l with Compressor => zcomp b end.
  Definition layer_from (l : layer) (b : bytes) : option bytes := match l with Compressor => zdecomp b end.
  Definition layer_equal (a b : layer) : bool := match a, b with Compressor, Compressor => true end.

  (* Converters.toStorage: every layer in order *)
  Fixpoint to_storage (cs : converters) (b : bytes) : bytes :=
    match cs with [] => b | l :: r => to_storage r (layer_to l b) end.

  (* Converters.fromStorage: the layers backwards *)
  Fixpoint from_storage (cs : converters) (b : bytes) : option bytes :=
    match cs with
    | [] => Some b
    | l :: r => match from_storage r b with Some x => layer_from l x | None => None end
    end.

  Definition has_compression (cs : converters) : bool :=
    existsb (fun l => match l with Compressor => true end) cs.

  Fixpoint conv_equal (a b : converters) : bool :=
    match a, b with
    | [], [] => true
    | x :: a', y :: b' => layer_equal x y && conv_equal a' b'
    | _, _ => false
    end.

  (* StoreOptions.converters *)
  Definition opt_converters (uncompressed : bool) : converters :=
    if uncompressed then [] else [Compressor].

  (* ---------- chunk.go ---------- *)
  Record chunk := {
    ch_data : bytes; ch_storage : bytes; ch_conv : converters; ch_id : id; ch_idcalc : bool }.

  (* Chunk.Data *)
  Definition chunk_data (c : chunk) : option bytes :=
    if nonempty (ch_data c) then Some (ch_data c)
    else if nonempty (ch_storage c) then from_storage (ch_conv c) (ch_storage c)
    else None.

  (* Chunk.ID *)
  Definition chunk_id (c : chunk) : id :=
    if ch_idcalc c then ch_id c
    else match chunk_data c with Some b => H b | None => zero_id end.

  (* NewChunkFromStorage; None = ChunkInvalid.  With verification on, an object whose plain
     data cannot be produced is refused for every id, the all-zero one included
     ("fix: chunk constructors reject objects whose data can't be produced"); otherwise the
     digest of the data (cached in the chunk by Data()) must equal the id. *)
  Definition new_chunk_from_storage (i : id) (b : bytes) (cs : converters) (skip_verify : bool) : option chunk :=
    let c := {| ch_data := []; ch_storage := b; ch_conv := cs; ch_id := i; ch_idcalc := false |} in
    if skip_verify then
      Some {| ch_data := []; ch_storage := b; ch_conv := cs; ch_id := i; ch_idcalc := true |}
    else
      match chunk_data c with
      | None => None
      | Some d =>
          if N.eqb (H d) i then
            Some {| ch_data := d; ch_storage := b; ch_conv := cs; ch_id := i; ch_idcalc := true |}
          else None
      end.

  (* ---------- the upstream store as the handler sees it ---------- *)
  Inductive get_result := GChunk (c : chunk) | GMissing | GFail.
  Inductive has_result := HasYes | HasNo | HasFail.

  (* local.go LocalStore: chunk files by id, in the store's storage format *)
  Record lstore := {
    ls_files : list (id * bytes);
    ls_uncompressed : bool;      (* Opt.Uncompressed *)
    ls_skip_verify : bool }.     (* Opt.SkipVerify *)

  Fixpoint lookup {B} (i : id) (m : list (id * B)) : option B :=
    match m with
    | [] => None
    | (j, v) :: r => if N.eqb i j then Some v else lookup i r
    end.
  Definition update {B} (i : id) (v : B) (m : list (id * B)) : list (id * B) :=
    (i, v) :: filter (fun e => negb (N.eqb i (fst e))) m.

  (* LocalStore.GetChunk *)
  Definition local_get (s : lstore) (i : id) : get_result :=
    match lookup i (ls_files s) with
    | None => GMissing
    | Some b =>
        match new_chunk_from_storage i b (opt_converters (ls_uncompressed s)) (ls_skip_verify s) with
        | Some c => GChunk c
        | None => GFail
        end
    end.

  (* LocalStore.HasChunk *)
  Definition local_has (s : lstore) (i : id) : has_result :=
    match lookup i (ls_files s) with Some _ => HasYes | None => HasNo end.

  (* LocalStore.StoreChunk; None = error (nothing written) *)
  Definition local_store (s : lstore) (c : chunk) : option lstore :=
    match chunk_data c with
    | None => None
    | Some d =>
        Some {| ls_files := update (chunk_id c) (to_storage (opt_converters (ls_uncompressed s)) d) (ls_files s);
                ls_uncompressed := ls_uncompressed s; ls_skip_verify := ls_skip_verify s |}
    end.

  (* ---------- responses ---------- *)
  Record response := { status : N; body : bytes }.
  Definition resp (st : N) (b : bytes) : response := {| status := st; body := b |}.

  (* httphandlerbase.go get: nil => 200+b; ChunkMissing/NoSuchObject => 404; other => 500.
     Bodies of error answers are messages and are not modelled. *)
  Inductive errkind := ENone | EMissing | EOther.
  Definition base_get (b : bytes) (e : errkind) : response :=
    match e with ENone => resp 200 b | EMissing => resp 404 [] | EOther => resp 500 [] end.

  (* ---------- httphandler.go ---------- *)

  (* HTTPHandler.get, given what s.GetChunk returned *)
  Definition handler_get (hconv : converters) (r : get_result) : response :=
    match r with
    | GChunk c =>
        if nonempty (ch_storage c) && conv_equal hconv (ch_conv c) then base_get (ch_storage c) ENone
        else match chunk_data c with
             | Some d => base_get (to_storage hconv d) ENone
             | None => base_get [] EOther
             end
    | GMissing => base_get [] EMissing
    | GFail => base_get [] EOther
    end.

  (* HTTPHandler.head *)
  Definition handler_head (r : has_result) : response :=
    match r with HasYes => resp 200 [] | HasNo => resp 404 [] | HasFail => resp 500 [] end.

  (* HTTPHandler.put up to the call of s.StoreChunk: inl = answered without storing,
     inr = the chunk handed to StoreChunk *)
  Definition handler_put_pre (c : cfg) (hconv : converters) (i : id) (b : bytes) : response + chunk :=
    if negb (c_writable c) then inl (resp 400 [])
    else if negb (c_store_writable c) then inl (resp 400 [])
    else match new_chunk_from_storage i b hconv (c_skip_verify_write c) with
         | None => inl (resp 400 [])
         | Some ch => inr ch
         end.

  (* the action the chunk handler decides on: HTTPHandler.ServeHTTP *)
  Inductive action :=
  | Deny401 | Bad400 | NotAllowed405 | Unsupported415
  | DoGet (i : id) | DoHead (i : id) | DoPut (i : id) (body : bytes)
  | IdxGet (name : bytes) | IdxHead (name : bytes) | IdxPut (name : bytes) (body : bytes).

  Definition handler_conv (c : cfg) : converters := opt_converters (negb (c_compressed c)).

  Definition chunk_serve (c : cfg) (r : request) : action :=
    if auth_denied c r then Deny401
    else match id_from_path (c_compressed c) (r_path r) with
         | None => Bad400
         | Some ib =>
             let i := id_of_bytes ib in
             match r_method r with
             | GET => DoGet i
             | HEAD => DoHead i
             | PUT =>
                 match handler_put_pre c (handler_conv c) i (r_body r) with
                 | inl _ => Bad400
                 | inr _ => DoPut i (r_body r)
                 end
             | OTHER => NotAllowed405
             end
         end.

  (* executing an action against a LocalStore upstream: response and the store afterwards *)
  Definition chunk_exec (c : cfg) (s : lstore) (a : action) : response * lstore :=
    match a with
    | Deny401 => (resp 401 [], s)
    | Bad400 => (resp 400 [], s)
    | NotAllowed405 => (resp 405 [], s)
    | Unsupported415 => (resp 415 [], s)
    | DoGet i => (handler_get (handler_conv c) (local_get s i), s)
    | DoHead i => (handler_head (local_has s i), s)
    | DoPut i b =>
        match new_chunk_from_storage i b (handler_conv c) (c_skip_verify_write c) with
        | None => (resp 400 [], s)
        | Some ch => match local_store s ch with
                     | Some s' => (resp 200 [], s')
                     | None => (resp 500 [], s)
                     end
        end
    | IdxGet _ | IdxHead _ | IdxPut _ _ => (resp 500 [], s)
    end.

  Definition chunk_handle (c : cfg) (s : lstore) (r : request) : response * lstore :=
    chunk_exec c s (chunk_serve c r).

  (* ---------- localindex.go + httpindexhandler.go ---------- *)
  Variable index_t : Type.
  Variable idx_decode : bytes -> option index_t.   (* IndexFromReader *)
  Variable idx_encode : index_t -> bytes.          (* Index.WriteTo *)

  (* The served directory as os.Open/os.Create(s.Path + name) sees it for a name that is
     a path.Base result: regular files, sub-directories, and the names that resolve to
     directories or are refused by the kernel. *)
  (* DErr: an entry that cannot be opened for a reason other than "does not exist"
     (symbolic link loop, permission, I/O error) *)
  Inductive dirent := DFile (content : bytes) | DDir | DErr.
  Definition idir := list (bytes * dirent).
  Inductive open_result := ONotExist | OIsDir | OErr | OFile (content : bytes).

  Fixpoint dlookup (n : bytes) (d : idir) : option dirent :=
    match d with
    | [] => None
    | (m, e) :: r => if beq n m then Some e else dlookup n r
    end.
  Definition dupdate (n : bytes) (e : dirent) (d : idir) : idir :=
    (n, e) :: filter (fun x => negb (beq n (fst x))) d.

  Definition name_max : nat := 255.
  Definition special_name (n : bytes) : bool :=
    beq n [dot] || beq n [dot; dot] || beq n [slash].
  Definition bad_name (n : bytes) : bool :=
    existsb (fun c => N.eqb c 0) n || (name_max <? length n).

  Definition fs_open (d : idir) (n : bytes) : open_result :=
    if special_name n then OIsDir
    else if bad_name n then OErr
    else match dlookup n d with
         | None => ONotExist
         | Some DDir => OIsDir
         | Some DErr => OErr
         | Some (DFile b) => OFile b
         end.

  (* os.Create: None = error *)
  Definition fs_create (d : idir) (n : bytes) (content : bytes) : option idir :=
    if special_name n then None
    else if bad_name n then None
    else match dlookup n d with
         | Some DDir | Some DErr => None
         | _ => Some (dupdate n (DFile content) d)
         end.

  (* HTTPIndexHandler.ServeHTTP *)
  Definition index_serve (c : cfg) (r : request) : action :=
    if auth_denied c r then Deny401
    else
      let name := base (r_path r) in
      match r_method r with
      | GET => IdxGet name
      | HEAD => IdxHead name
      | PUT =>
          if negb (c_writable c) then Bad400
          else if negb (c_store_writable c) then Bad400
          else match idx_decode (r_body r) with
               | None => Unsupported415
               | Some _ => IdxPut name (r_body r)
               end
      | OTHER => NotAllowed405
      end.

  (* HTTPIndexHandler.head: 404 only when the index does not exist, 400 (as GET) when it cannot
     be opened or is a directory, 200 otherwise.  [prefix = true] is the handler before the
     fixes "HEAD ... answers 404 only for a missing index" and "... does not report directories
     as indexes": every open error was 404 and a directory was 200. *)
  Definition index_head_status (prefix : bool) (o : open_result) : response :=
    match o with
    | ONotExist => resp 404 []
    | OErr => if prefix then resp 404 [] else resp 400 []
    | OIsDir => if prefix then resp 200 [] else resp 400 []
    | OFile _ => resp 200 []
    end.

  (* HTTPIndexHandler.get / head / put over a LocalIndexStore *)
  Definition index_exec (d : idir) (a : action) : response * idir :=
    match a with
    | Deny401 => (resp 401 [], d)
    | Bad400 => (resp 400 [], d)
    | NotAllowed405 => (resp 405 [], d)
    | Unsupported415 => (resp 415 [], d)
    | IdxGet n =>
        match fs_open d n with
        | ONotExist => (resp 404 [], d)
        | OIsDir | OErr => (resp 400 [], d)
        | OFile b => match idx_decode b with
                     | None => (resp 400 [], d)
                     | Some ix => (resp 200 (idx_encode ix), d)
                     end
        end
    | IdxHead n => (index_head_status false (fs_open d n), d)
    | IdxPut n b =>
        match idx_decode b with
        | None => (resp 415 [], d)
        | Some ix => match fs_create d n (idx_encode ix) with
                     | Some d' => (resp 200 [], d')
                     | None => (resp 500 [], d)
                     end
        end
    | DoGet _ | DoHead _ | DoPut _ _ => (resp 500 [], d)
    end.

  Definition index_handle (c : cfg) (d : idir) (r : request) : response * idir :=
    index_exec d (index_serve c r).
End Server.

(* ---------- request histories ----------
   Neither handler keeps anything between requests: the only state is the store.  A history of
   requests is answered one after the other, each against the store the previous ones left. *)
Section Histories.
  Variable H : bytes -> id.
  Variable zcomp : bytes -> bytes.
  Variable zdecomp : bytes -> option bytes.

  Fixpoint chunk_history (c : cfg) (s : lstore) (rs : list request) : list response * lstore :=
    match rs with
    | [] => ([], s)
    | r :: rest =>
        let (a, s1) := chunk_handle H zcomp zdecomp c s r in
        let (l, s2) := chunk_history c s1 rest in
        (a :: l, s2)
    end.

  Variable index_t : Type.
  Variable idx_decode : bytes -> option index_t.
  Variable idx_encode : index_t -> bytes.

  Fixpoint index_history (c : cfg) (d : idir) (rs : list request) : list response * idir :=
    match rs with
    | [] => ([], d)
    | r :: rest =>
        let (a, d1) := index_handle index_t idx_decode idx_encode c d r in
        let (l, d2) := index_history c d1 rest in
        (a :: l, d2)
    end.
End Histories.
