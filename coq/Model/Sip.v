(* sip.go: SipHash(b) = siphash.Hash(CaFormatGoodbyeHashKey0, CaFormatGoodbyeHashKey1, b)
   (github.com/dchest/siphash: SipHash-2-4, 64-bit result).

   64-bit words are N with the wrap-around written out (mod 2^64).
   The algorithm is the one of the SipHash paper (Aumasson, Bernstein 2012):
     v0..v3 from the key and the constants "somepseudorandomlygeneratedbytes",
     per 8-byte little-endian word m: v3 ^= m; 2 rounds; v0 ^= m,
     last word: the remaining bytes and (len mod 256) << 56,
     finalisation: v2 ^= 0xff; 4 rounds; v0^v1^v2^v3. *)
From Coq Require Import List NArith.
From DS Require Import Gen.Constants Base.Bytes.
Import ListNotations.
Local Open Scope N_scope.

Definition word64 : N := 18446744073709551616.
Definition add64 (a b : N) : N := (a + b) mod word64.
Definition rotl64 (x : N) (b : N) : N := N.lor (N.shiftl x b mod word64) (N.shiftr x (64 - b)).
Definition xor64 (a b : N) : N := N.lxor a b.

Record sipstate := mkSip { v0 : N; v1 : N; v2 : N; v3 : N }.

(* SIPROUND *)
Definition sipround (s : sipstate) : sipstate :=
  let '(mkSip a b c d) := s in
  let a := add64 a b in let b := rotl64 b 13 in let b := xor64 b a in let a := rotl64 a 32 in
  let c := add64 c d in let d := rotl64 d 16 in let d := xor64 d c in
  let a := add64 a d in let d := rotl64 d 21 in let d := xor64 d a in
  let c := add64 c b in let b := rotl64 b 17 in let b := xor64 b c in let c := rotl64 c 32 in
  mkSip a b c d.

(* little-endian value of at most 8 bytes *)
Fixpoint le_word (b : bytes) : N :=
  match b with
  | [] => 0
  | x :: r => x + 256 * le_word r
  end.

Definition compress (s : sipstate) (m : N) : sipstate :=
  let s := mkSip (v0 s) (v1 s) (v2 s) (xor64 (v3 s) m) in
  let s := sipround (sipround s) in
  mkSip (xor64 (v0 s) m) (v1 s) (v2 s) (v3 s).

(* all full 8-byte words, then the last word made of the tail and the length byte *)
Fixpoint sip_blocks (s : sipstate) (lenbyte : N) (m : bytes) : sipstate :=
  match m with
  | b0 :: b1 :: b2 :: b3 :: b4 :: b5 :: b6 :: b7 :: rest =>
      sip_blocks (compress s (le_word [b0; b1; b2; b3; b4; b5; b6; b7])) lenbyte rest
  | tail => compress s (le_word tail + lenbyte * 72057594037927936)   (* << 56 *)
  end.

Definition siphash24 (k0 k1 : N) (m : bytes) : N :=
  let s := mkSip (xor64 k0 0x736f6d6570736575) (xor64 k1 0x646f72616e646f6d)
                 (xor64 k0 0x6c7967656e657261) (xor64 k1 0x7465646279746573) in
  let s := sip_blocks s (N.of_nat (length m) mod 256) m in
  let s := mkSip (v0 s) (v1 s) (xor64 (v2 s) 255) (v3 s) in
  let s := sipround (sipround (sipround (sipround s))) in
  xor64 (xor64 (v0 s) (v1 s)) (xor64 (v2 s) (v3 s)).

(* sip.go SipHash; the result type is uint64 (the reduction is the identity on the value computed
   above -- every step keeps its words below 2^64 -- and makes that bound evident) *)
Definition sip_hash (name : bytes) : N := siphash24 CaFormatGoodbyeHashKey0 CaFormatGoodbyeHashKey1 name mod word64.

(* Reference vectors of the SipHash-2-4 reference implementation (vectors.h):
   key 00 01 .. 0f, message 00 01 .. (n-1) for n = 0..63, result as a little-endian word. *)
Definition sip_ref_key0 : N := 0x0706050403020100.
Definition sip_ref_key1 : N := 0x0f0e0d0c0b0a0908.
Definition sip_ref_vectors : list N := [
  0x726fdb47dd0e0e31;
  0x74f839c593dc67fd;
  0x0d6c8009d9a94f5a;
  0x85676696d7fb7e2d;
  0xcf2794e0277187b7;
  0x18765564cd99a68d;
  0xcbc9466e58fee3ce;
  0xab0200f58b01d137;
  0x93f5f5799a932462;
  0x9e0082df0ba9e4b0;
  0x7a5dbbc594ddb9f3;
  0xf4b32f46226bada7;
  0x751e8fbc860ee5fb;
  0x14ea5627c0843d90;
  0xf723ca908e7af2ee;
  0xa129ca6149be45e5;
  0x3f2acc7f57c29bdb;
  0x699ae9f52cbe4794;
  0x4bc1b3f0968dd39c;
  0xbb6dc91da77961bd;
  0xbed65cf21aa2ee98;
  0xd0f2cbb02e3b67c7;
  0x93536795e3a33e88;
  0xa80c038ccd5ccec8;
  0xb8ad50c6f649af94;
  0xbce192de8a85b8ea;
  0x17d835b85bbb15f3;
  0x2f2e6163076bcfad;
  0xde4daaaca71dc9a5;
  0xa6a2506687956571;
  0xad87a3535c49ef28;
  0x32d892fad841c342;
  0x7127512f72f27cce;
  0xa7f32346f95978e3;
  0x12e0b01abb051238;
  0x15e034d40fa197ae;
  0x314dffbe0815a3b4;
  0x027990f029623981;
  0xcadcd4e59ef40c4d;
  0x9abfd8766a33735c;
  0x0e3ea96b5304a7d0;
  0xad0c42d6fc585992;
  0x187306c89bc215a9;
  0xd4a60abcf3792b95;
  0xf935451de4f21df2;
  0xa9538f0419755787;
  0xdb9acddff56ca510;
  0xd06c98cd5c0975eb;
  0xe612a3cb9ecba951;
  0xc766e62cfcadaf96;
  0xee64435a9752fe72;
  0xa192d576b245165a;
  0x0a8787bf8ecb74b2;
  0x81b3e73d20b49b6f;
  0x7fa8220ba3b2ecea;
  0x245731c13ca42499;
  0xb78dbfaf3a8d83bd;
  0xea1ad565322a1a0b;
  0x60e61c23a3795013;
  0x6606d7e446282b93;
  0x6ca4ecb15c5f91e1;
  0x9f626da15c9625f3;
  0xe51b38608ef25f57;
  0x958a324ceb064572].

Definition sip_ref_message (n : nat) : bytes := map N.of_nat (seq 0 n).
Definition sip_ref_computed : list N :=
  map (fun n => siphash24 sip_ref_key0 sip_ref_key1 (sip_ref_message n)) (seq 0 64).
