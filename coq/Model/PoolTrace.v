(* Trace validation of the feeder/worker skeleton (Model/Pool.v) against verifyindex.go.

   The verif build of VerifyIndex reports, per goroutine: a worker received batch k ([PTake]), its
   validation returned nil ([POk]) or an error ([PFail]), the worker's range loop ended
   ([PExit]); the feeder left its loop, interrupted or not ([PClose], recorded BEFORE close(in));
   the harness cancelled the parent context ([PCancel], recorded BEFORE the call).

   Records are written after the operation they describe, so the record of a receive can appear
   later in the recorded sequence than records of things that really happened after it (another
   worker's later receive, the feeder leaving its loop).  The feeder sends the batches one after
   the other, so the receives happened in batch order: [catchup] applies the receives that must
   already have happened (all batches below the one just recorded; at [PClose] every receive of
   the run) using the worker the later record names; that record is skipped when it arrives
   ([early]).  Every event then has to be enabled in Pool.step with the recorded effect: the batch
   taken is the next one to hand out, the worker that reports a result is busy with that batch, an
   exit is a worker finding the channel closed, the feeder stops interrupted exactly when reported.
   [replay] returns the state reached and the schedule it followed. *)
From Coq Require Import List Arith Bool Lia.
From DS Require Import Model.Pool.
Import ListNotations.

Inductive pev :=
| PTake (w k : nat)
| POk (w k : nat)
| PFail (w k : nat)
| PExit (w : nat)
| PClose (interrupted : bool)
| PCancel.

(* a batch's validation fails iff the trace says so *)
Definition trace_job_ok (tr : list pev) (k : nat) : bool :=
  negb (existsb (fun e => match e with PFail _ k' => k' =? k | _ => false end) tr).

Fixpoint find_take (k : nat) (tr : list pev) : option nat :=
  match tr with
  | [] => None
  | PTake w k' :: r => if k' =? k then Some w else find_take k r
  | _ :: r => find_take k r
  end.

(* 1 + the largest batch number received according to [tr]; 0 if none *)
Definition takes_upto (tr : list pev) : nat :=
  fold_left (fun m e => match e with PTake _ k => Nat.max m (S k) | _ => m end) tr 0.

Section PoolTrace.
  Variable njobs : nat.
  Variable job_ok : nat -> bool.
  Notation step := (Pool.step njobs job_ok true).

  Definition busy_at (s : pstate) (w k : nat) : bool :=
    match nth_error (workers s) w with Some (Busy k') => k' =? k | _ => false end.
  Definition idle_at (s : pstate) (w : nat) : bool :=
    match nth_error (workers s) w with Some Idle => true | _ => false end.

  Definition take (s : pstate) (w k : nat) : option pstate :=
    if fed s =? k then
      match step s (Worker w) with
      | Some s' => if busy_at s' w k then Some s' else None
      | None => None
      end
    else None.

  Fixpoint catchup (fuel : nat) (rest : list pev) (k : nat) (s : pstate) (early : list nat)
    : option (pstate * list nat * list tid) :=
    if k <=? fed s then Some (s, early, []) else
    match fuel with
    | 0 => None
    | S f =>
        match find_take (fed s) rest with
        | Some w =>
            match take s w (fed s) with
            | Some s' =>
                match catchup f rest k s' (fed s :: early) with
                | Some (s2, e2, fr) => Some (s2, e2, Worker w :: fr)
                | None => None
                end
            | None => None
            end
        | None => None
        end
    end.

  Definition apply_ev (e : pev) (rest : list pev) (s : pstate) (early : list nat)
    : option (pstate * list nat * list tid) :=
    match e with
    | PTake w k =>
        if existsb (Nat.eqb k) early then
          (* already applied by a catch-up: it must have been this worker *)
          Some (s, filter (fun x => negb (x =? k)) early, [])
        else
          match catchup (S (length rest)) rest k s early with
          | Some (s1, e1, fr) =>
              match take s1 w k with
              | Some s2 => Some (s2, e1, fr ++ [Worker w])
              | None => None
              end
          | None => None
          end
    | POk w k =>
        if busy_at s w k && job_ok k then
          match step s (Worker w) with Some s' => Some (s', early, [Worker w]) | None => None end
        else None
    | PFail w k =>
        if busy_at s w k && negb (job_ok k) then
          match step s (Worker w) with Some s' => Some (s', early, [Worker w]) | None => None end
        else None
    | PExit w =>
        if idle_at s w && match feeder s with Stopped _ => true | Feeding => false end then
          match step s (Worker w) with Some s' => Some (s', early, [Worker w]) | None => None end
        else None
    | PClose b =>
        match catchup (S (length rest)) rest (takes_upto rest) s early with
        | Some (s1, e1, fr) =>
            match step s1 Feeder with
            | Some s2 => match feeder s2 with
                         | Stopped b' => if Bool.eqb b b' then Some (s2, e1, fr ++ [Feeder]) else None
                         | Feeding => None
                         end
            | None => None
            end
        | None => None
        end
    | PCancel =>
        match step s CancelEnv with Some s' => Some (s', early, [CancelEnv]) | None => None end
    end.

  Fixpoint replay (tr : list pev) (s : pstate) (early : list nat) : option (pstate * list tid) :=
    match tr with
    | [] => match early with [] => Some (s, []) | _ => None end
    | e :: r =>
        match apply_ev e r s early with
        | Some (s1, e1, fr) =>
            match replay r s1 e1 with
            | Some (s2, fr2) => Some (s2, fr ++ fr2)
            | None => None
            end
        | None => None
        end
    end.
End PoolTrace.
