(* format.go: makeGoodbyeBST / bst -- the goodbye table of a catar directory.

   Go                                         here
   ---------------------------------------    ------------------------------
   FormatGoodbyeItem{Offset,Size,Hash}        item = (offset, size, hash)
   less func given to sort.Slice              item_less
   sort.Slice(in, less)                       sort_items (merge sort; any sorting
                                              algorithm gives the same list when
                                              the (hash, offset) keys are distinct,
                                              which tar.go guarantees: offsets of
                                              different children differ)
   e := uint(math.Log2(float64(len(in)))+1)   bitlen (number of binary digits;
                                              the float computation is compared
                                              with this by the harness)
   out []FormatGoodbyeItem                    array (length + written slots)
   bst(in, out, i, e)                         bst e in out i   (None = Go panics:
                                              index out of range)
   makeGoodbyeBST(in)                         make_goodbye_bst

   Specification-side functions (not in the Go code; they describe how casync
   reads the table): arr_inorder, casync_lookup. *)
From Coq Require Import List NArith Arith Bool Orders Mergesort FMapPositive.
Import ListNotations.

Definition item := (N * N * N)%type.
Definition it_offset (x : item) : N := fst (fst x).
Definition it_size (x : item) : N := snd (fst x).
Definition it_hash (x : item) : N := snd x.

(* func(i, j int) bool { switch { case in[i].Hash < in[j].Hash: return true
                                  case in[i].Hash > in[j].Hash: return false
                                  default: return in[i].Offset < in[j].Offset } } *)
Definition item_less (a b : item) : bool :=
  if (it_hash a <? it_hash b)%N then true
  else if (it_hash b <? it_hash a)%N then false
  else (it_offset a <? it_offset b)%N.

(* The order handed to the stdlib merge sort: a <= b  :=  not (b < a).
   The functor asks for the totality proof here; it is the only proof in this file. *)
Module ItemOrder <: TotalLeBool.
  Definition t := item.
  Definition leb (a b : item) : bool := negb (item_less b a).
  Theorem leb_total : forall a b, leb a b = true \/ leb b a = true.
  Proof.
    intros a b. unfold leb, item_less.
    destruct (it_hash b <? it_hash a)%N eqn:E1; destruct (it_hash a <? it_hash b)%N eqn:E2; cbn; auto.
    - apply N.ltb_lt in E1, E2. exfalso. exact (N.lt_irrefl _ (N.lt_trans _ _ _ E1 E2)).
    - destruct (it_offset b <? it_offset a)%N eqn:E3; destruct (it_offset a <? it_offset b)%N eqn:E4; cbn; auto.
      apply N.ltb_lt in E3, E4. exfalso. exact (N.lt_irrefl _ (N.lt_trans _ _ _ E3 E4)).
  Qed.
End ItemOrder.

Module ItemSort := Sort ItemOrder.

Definition sort_items (l : list item) : list item := ItemSort.sort l.

(* number of binary digits of n: 0 for 0, floor(log2 n) + 1 otherwise *)
Definition bitlenN (n : N) : nat := N.to_nat (N.size n).
Definition bitlen (n : nat) : nat := bitlenN (N.of_nat n).

(* the index k of format.go:bst for p = 1 << (e-1) and n = len(in):
     if n >= p-1+p/2 { k = (q-2)/2 } else { v := p-1+p/2-n; k = (q-2)/2 - v }   with q = 2p
   k is a Go int: None stands for a negative value (in[k] panics). *)
Definition bst_k (p n : nat) : option nat :=
  if p - 1 + p / 2 <=? n then Some (p - 1)
  else if p / 2 <=? n then Some (n - p / 2)
  else None.

(* The output slice: a fixed length and the slots that have been written; a slot that was
   never written holds the zero value (make([]FormatGoodbyeItem, n)).  Slot i is kept under
   the key i+1 of a binary trie, so the extracted model is not quadratic in n. *)
Record array := mkArray { a_len : N; a_map : PositiveMap.t item }.

Definition zero_item : item := (0, 0, 0)%N.
Definition slot_key (i : N) : positive := N.succ_pos i.

(* make([]FormatGoodbyeItem, n) *)
Definition arr_make (n : N) : array := mkArray n (PositiveMap.empty item).

(* out[i]  (for i < len) *)
Definition arr_get (a : array) (i : N) : item :=
  match PositiveMap.find (slot_key i) (a_map a) with Some x => x | None => zero_item end.

(* out[i] = x; None when i is out of range (Go panics) *)
Definition arr_set (a : array) (i : N) (x : item) : option array :=
  if (i <? a_len a)%N then Some (mkArray (a_len a) (PositiveMap.add (slot_key i) x (a_map a))) else None.

(* the slice as a list *)
Fixpoint arr_list_from (a : array) (k : nat) (i : N) : list item :=   (* out[i], out[i+1], .. (k slots) *)
  match k with
  | O => []
  | S k' => arr_get a i :: arr_list_from a k' (N.succ i)
  end.
Definition arr_to_list (a : array) : list item := arr_list_from a (N.to_nat (a_len a)) 0.

(* func bst(in, out []FormatGoodbyeItem, i int, e uint) *)
Fixpoint bst (e : nat) (inl : list item) (out : array) (i : N) : option array :=
  match inl with
  | [] => Some out                                  (* if len(in) == 0 { return } *)
  | _ =>
    match e with
    | O => None                                     (* 1 << (e-1) with e = 0: p = 0, k = -1, in[k] panics *)
    | S e' =>
      let p := 2 ^ e' in
      match bst_k p (length inl) with
      | None => None
      | Some k =>
        match nth_error inl k with
        | None => None                              (* in[k] out of range *)
        | Some x =>
          match arr_set out i x with                (* out[i] = in[k] *)
          | None => None
          | Some out1 =>
            match bst e' (firstn k inl) out1 (2 * i + 1)%N with      (* bst(in[:k], out, 2*i+1, e-1) *)
            | None => None
            | Some out2 => bst e' (skipn (S k) inl) out2 (2 * i + 2)%N (* bst(in[k+1:], out, 2*i+2, e-1) *)
            end
          end
        end
      end
    end
  end.

(* func makeGoodbyeBST(in []FormatGoodbyeItem) []FormatGoodbyeItem *)
Definition make_goodbye_bst (items : list item) : option (list item) :=
  let s := sort_items items in
  let n := length s in
  match bst (bitlen n) s (arr_make (N.of_nat n)) 0%N with
  | Some out => Some (arr_to_list out)
  | None => None
  end.

(* ---------- how a reader uses the table ---------- *)

(* in-order traversal of the implicit tree stored in an array: children of slot i
   are the slots 2i+1 and 2i+2, a slot beyond the array is an empty subtree *)
Fixpoint arr_inorder (fuel : nat) (arr : list item) (i : nat) : list item :=
  match fuel with
  | O => []
  | S f =>
    match nth_error arr i with
    | None => []
    | Some x => arr_inorder f arr (2 * i + 1) ++ x :: arr_inorder f arr (2 * i + 2)
    end
  end.

(* casync's search for a hash in the table: equal -> found, smaller -> left child,
   larger -> right child, slot beyond the table -> not found.  Every step moves to
   a larger slot, so (length arr) steps always suffice. *)
Fixpoint lookup_from (fuel : nat) (arr : list item) (h : N) (i : nat) : option (nat * item) :=
  match fuel with
  | O => None
  | S f =>
    match nth_error arr i with
    | None => None
    | Some x =>
      if (h =? it_hash x)%N then Some (i, x)
      else if (h <? it_hash x)%N then lookup_from f arr h (2 * i + 1)
      else lookup_from f arr h (2 * i + 2)
    end
  end.

Definition casync_lookup (arr : list item) (h : N) : option (nat * item) :=
  lookup_from (S (length arr)) arr h 0.
