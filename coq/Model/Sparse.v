(* sparse-file.go: SparseFile, SparseFileHandle.ReadAt, sparseFileLoader (indexRange, loadRange,
   loadChunk with the per-chunk mutex and the re-check of the done bit, writeState, loadState,
   preloadChunksFromState), NewSparseFile start-up logic.

   The loader is a transition system in the sense of Base/Sched.v.  A label is either one atomic step of
   one goroutine (a reader in ReadAt, a preload worker in loadChunk, a WriteState call) or an action of
   the environment: a new request handed to a goroutine, or a restart of the process (any time: this
   includes being killed) with a chosen combination of {state file readable, cache file kept / absent /
   resized, preload}.  The atomic steps of loadChunk are the ones separated by synchronisation or by a
   call to the store or the file system: lock+re-check, GetChunk, WriteAt, (yield point "sparse.written")
   Set+unlock.  The scan of the done bits in loadRange happens under the RLock and is one step.

   Index rows, the store oracle, sort.Search and the null chunk are shared with Model/ReadSeeker.v.
   NewSparseFile is one atomic step ([restart], or [LFailedStart] when it returns an error): it replaces the saved
   state BEFORE it resizes the cache file, so a start-up cut short in between leaves either nothing changed or a
   blank state next to the old cache file, which the next start-up treats like [restart] does.  A state save file is
   always configured.  Between runs the cache file may be deleted or truncated/extended once ([cache_mode]), the
   state file may be unreadable ([m_state]); replacing the CONTENT of either file by an external party is not a
   label of this system.
   Abstractions: the bitmap is a list of n booleans (the up-to-7 padding bits of the byte slice are
   always 0 in a state written by writeState); file-system errors of OpenFile/WriteAt/Truncate are not
   modelled; a WriteAt of one chunk is atomic. *)
From Coq Require Import List NArith ZArith Arith Bool Lia.
From DS Require Import Base.Bytes Base.Hash Model.ReadSeeker.
Import ListNotations.
Local Open Scope Z_scope.

Definition two64 : Z := 18446744073709551616.

(* indexRange(start, length): (first, last) as Go ints; None = sort.Search out of fuel (never) *)
Fixpoint scan_last (rows : list row) (end_u : Z) (last : Z) : Z :=
  match rows with
  | [] => last
  | r :: rest => if end_u <? Z.of_N (r_start r) then last else scan_last rest end_u (last + 1)
  end.

Definition index_range (idx : index) (start length : Z) : option (Z * Z) :=
  let n := List.length idx in
  let end_u := (start + length - 1) mod two64 in                      (* uint64(start + length - 1) *)
  match go_search n (fun i => start <? r_end (nth i idx row0)) with
  | None => None
  | Some f =>
      let first := Z.of_nat f in
      if (n <=? f)%nat then Some (Z.of_nat n - 1, Z.of_nat n - 1)      (* reading past the end, load the last chunk *)
      else if length <? 1 then Some (first, first)
      else Some (first, scan_last (skipn (S f) idx) end_u first)
  end.

(* the loop of loadRange over first..last under the RLock: the chunks still to load, None = index out of
   range (done.Get(i) / l.chunks[i] with i outside [0, n)) *)
Fixpoint needed_from (idx : index) (nullid : id) (done : list bool) (cnt : nat) (i : Z) : option (list nat) :=
  match cnt with
  | O => Some []
  | S c =>
      if (i <? 0) || (Z.of_nat (List.length idx) <=? i) then None
      else
        let k := Z.to_nat i in
        match needed_from idx nullid done c (i + 1) with
        | None => None
        | Some r => Some (if nth k done false || N.eqb (r_id (nth k idx row0)) nullid then r else k :: r)
        end
  end.

Definition needed (idx : index) (nullid : id) (done : list bool) (first last : Z) : option (list nat) :=
  needed_from idx nullid done (Z.to_nat (last - first + 1)) first.

(* os.File.WriteAt: the file grows (with zeros) when the write ends past its end *)
Definition write_at (f : bytes) (off : nat) (d : bytes) : bytes :=
  let f' := f ++ repeat 0%N (off + List.length d - List.length f) in
  firstn off f' ++ d ++ skipn (off + List.length d) f'.

(* os.File.Truncate *)
Definition resize (f : bytes) (n : nat) : bytes := firstn n f ++ repeat 0%N (n - List.length f).

Inductive rerr := XStore (code : N) | XNoData | XNegative | XUnexpectedEOF (* io.ErrUnexpectedEOF *)
  | XFile (* os.OpenFile on the cache file failed *).
Inductive request := RqRead (off : Z) (len : nat) | RqLoad (i : nat) | RqSave.
Inductive result := ROk (data : bytes) (eof : bool) | RErr (e : rerr) | RDone.

(* os.File.ReadAt on the cache file *)
Definition file_read (f : bytes) (off : Z) (len : nat) : result :=
  if off <? 0 then RErr XNegative
  else
    let o := Z.to_nat off in
    let n := Nat.min len (List.length f - o) in
    ROk (slice f o n) (n <? len)%nat.

(* What ReadAt hands to its caller when loadRange fails: (0, err), except that a store error that IS io.EOF
   (code_bare_eof) is reported as io.ErrUnexpectedEOF: "if err == io.EOF { err = io.ErrUnexpectedEOF }". *)
Definition read_error (e : rerr) : result :=
  match e with
  | XStore c => if N.eqb c code_bare_eof then RErr XUnexpectedEOF else RErr e
  | _ => RErr e
  end.

Inductive phase :=
| PNeed (todo : list nat)                     (* loadRange's second loop: about to call loadChunk(head todo) *)
| PFetch (i : nat) (todo : list nat)          (* in loadChunk(i): mutex i held, done bit re-checked, before GetChunk *)
| PWrite (i : nat) (d : bytes) (todo : list nat)   (* data in hand, before WriteAt *)
| PSet (i : nat) (todo : list nat).           (* written; at the yield point before done.Set *)

Record thread := mkthread { queue : list request; pc : option phase }.

Inductive cache_mode := CKeep | CAbsent | CResize (k : nat).
Record rmode := mkmode { m_state : bool; m_cache : cache_mode; m_preload : bool }.

Inductive label :=
| LThread (k : nat)
| LSubmit (k : nat) (rq : request)
| LRestart (m : rmode)
| LFailedStart (m : rmode)
| LRestartInit (m : rmode) (b : list bool)   (* a start with a SEPARATE init state file holding the bitmap b (any bits) *)
| LUnlink.                    (* somebody unlinks the cache file while the process runs *)   (* NewSparseFile returns an error AFTER it replaced the state and resized the cache file *)

Record sstate := mkstate {
  s_done : list bool;               (* l.done *)
  s_file : bytes;                   (* content of the cache file *)
  s_calls : nat;                    (* GetChunk calls so far (index into the fault oracle) *)
  s_mutex : list bool;              (* chunks[i].mu held? *)
  s_saved : option (list bool);     (* content of the state file *)
  s_threads : list thread;
  s_log : list (request * result);  (* completed requests, newest first *)
  s_crashed : bool;                 (* a goroutine panicked: the process is gone until restarted *)
  s_nofile : bool;                  (* the cache file has been unlinked under the running process: its path is gone, open handles still read it *)
  s_fetched : list (nat * nat);     (* ghost: (call number, chunk) of every successful GetChunk whose data was written *)
}.

Section Loader.
  Variable idx : index.
  Variable nullid : id.
  Variable store : store_t.
  Let n := List.length idx.
  Let L := Z.to_nat (idx_length idx).

  Definition upd_thread (s : sstate) (k : nat) (th : thread) : list thread := set_nth (s_threads s) k th.

  Definition finish (s : sstate) (k : nat) (th : thread) (r : result) : sstate :=
    match queue th with
    | [] => s
    | rq :: q =>
        mkstate (s_done s) (s_file s) (s_calls s) (s_mutex s) (s_saved s)
                (upd_thread s k (mkthread q None)) ((rq, r) :: s_log s) (s_crashed s) (s_nofile s) (s_fetched s)
    end.

  Definition set_pc (s : sstate) (k : nat) (th : thread) (p : phase) : sstate :=
    mkstate (s_done s) (s_file s) (s_calls s) (s_mutex s) (s_saved s)
            (upd_thread s k (mkthread (queue th) (Some p))) (s_log s) (s_crashed s) (s_nofile s) (s_fetched s).

  (* one atomic step of goroutine k *)
  Definition tstep (s : sstate) (k : nat) : option sstate :=
    match nth_error (s_threads s) k with
    | None => None
    | Some th =>
      match pc th, queue th with
      | _, [] => None
      | None, RqSave :: _ =>                                     (* WriteState: l.mu.Lock(); write done *)
          let s' := mkstate (s_done s) (s_file s) (s_calls s) (s_mutex s) (Some (s_done s))
                            (s_threads s) (s_log s) (s_crashed s) (s_nofile s) (s_fetched s) in
          Some (finish s' k th RDone)
      | None, RqLoad i :: _ => Some (set_pc s k th (PNeed [i]))  (* preload worker received chunkIdx *)
      | None, RqRead off len :: _ =>                             (* ReadAt -> loadRange: indexRange + scan under RLock *)
          if (n =? 0)%nat then Some (set_pc s k th (PNeed []))   (* empty blob, nothing to load *)
          else
          match index_range idx off (Z.of_nat len) with
          | None => None
          | Some (first, last) =>
              match needed idx nullid (s_done s) first last with
              | None => Some (mkstate (s_done s) (s_file s) (s_calls s) (s_mutex s) (s_saved s) (s_threads s)
                                      (s_log s) true (s_nofile s) (s_fetched s))      (* panic *)
              | Some todo => Some (set_pc s k th (PNeed todo))
              end
          end
      | Some (PNeed []), rq :: _ =>
          match rq with
          | RqRead off len => Some (finish s k th (file_read (s_file s) off len))   (* h.file.ReadAt *)
          | _ => Some (finish s k th RDone)
          end
      | Some (PNeed (i :: todo)), _ =>                           (* loadChunk(i): Lock, RLock, done.Get *)
          if nth i (s_mutex s) true then None                    (* blocked on chunks[i].mu *)
          else if nth i (s_done s) false then Some (set_pc s k th (PNeed todo))      (* done: unlock, return nil *)
          else
            let s' := mkstate (s_done s) (s_file s) (s_calls s) (set_nth (s_mutex s) i true) (s_saved s)
                              (s_threads s) (s_log s) (s_crashed s) (s_nofile s) (s_fetched s) in
            Some (set_pc s' k th (PFetch i todo))
      | Some (PFetch i todo), rq :: _ =>                         (* l.s.GetChunk + c.Data() *)
          let s' := mkstate (s_done s) (s_file s) (S (s_calls s)) (set_nth (s_mutex s) i false) (s_saved s)
                            (s_threads s) (s_log s) (s_crashed s) (s_nofile s) (s_fetched s) in
          let fail e := Some (finish s' k th (match rq with RqRead _ _ => read_error e | _ => RDone end)) in
          match store (s_calls s) (r_id (nth i idx row0)) with
          | SFail c => fail (XStore c)
          | SData d =>
              if (List.length d =? 0)%nat then fail XNoData
              else
                let s'' := mkstate (s_done s) (s_file s) (S (s_calls s)) (s_mutex s) (s_saved s)
                                   (s_threads s) (s_log s) (s_crashed s) (s_nofile s)
                                   ((s_calls s, i) :: s_fetched s) in
                Some (set_pc s'' k th (PWrite i d todo))
          end
      | Some (PWrite i d todo), rq :: _ =>                       (* os.OpenFile(l.name, O_RDWR); f.WriteAt(b, Start) *)
          if s_nofile s then                                     (* the path is gone: loadChunk returns the error *)
            let s' := mkstate (s_done s) (s_file s) (s_calls s) (set_nth (s_mutex s) i false) (s_saved s)
                              (s_threads s) (s_log s) (s_crashed s) (s_nofile s) (s_fetched s) in
            Some (finish s' k th (match rq with RqRead _ _ => RErr XFile | _ => RDone end))
          else
          let s' := mkstate (s_done s) (write_at (s_file s) (N.to_nat (r_start (nth i idx row0))) d) (s_calls s)
                            (s_mutex s) (s_saved s) (s_threads s) (s_log s) (s_crashed s) (s_nofile s) (s_fetched s) in
          Some (set_pc s' k th (PSet i todo))
      | Some (PSet i todo), _ =>                                 (* l.done.Set(i, true); unlock *)
          let s' := mkstate (set_nth (s_done s) i true) (s_file s) (s_calls s) (set_nth (s_mutex s) i false)
                            (s_saved s) (s_threads s) (s_log s) (s_crashed s) (s_nofile s) (s_fetched s) in
          Some (set_pc s' k th (PNeed todo))
      end
    end.

  (* stateFromReader's length rule *)
  Definition state_matches (b : list bool) : bool := (List.length b =? n)%nat.

  (* NewSparseFile on (cache file, state file) left by the previous incarnation *)
  (* [src]: the content of the StateInitFile, if one is given and readable *)
  Definition restart_gen (s : sstate) (m : rmode) (src : option (list bool)) : sstate :=
    let cache := if s_nofile s then [] else
                 match m_cache m with
                 | CKeep => s_file s
                 | CAbsent => []                          (* OpenFile(O_CREATE) makes an empty file *)
                 | CResize k => resize (s_file s) k
                 end in
    let usable := match s_saved s with Some b => m_state m && state_matches b | None => false end in
    if (List.length cache =? L)%nat && usable then
      mkstate (match s_saved s with Some b => b | None => [] end) cache (s_calls s) (repeat false n) (s_saved s)
              [] (s_log s) false false (s_fetched s)
    else
      (* preloadChunksFromState: one loadChunk per set bit -- null chunks included, the pre-loader does not look at IDs *)
      let preload := match src with
                     | Some b => if m_preload m && state_matches b then
                                   map (fun i => mkthread [RqLoad i] None)
                                       (filter (fun i => nth i b false) (seq 0 n))
                                 else []
                     | None => [] end in
      (* Truncate to full size, start the preload workers, then sf.WriteState(): the state that was not used is
         replaced by the (blank) state of this incarnation *)
      mkstate (repeat false n) (resize cache L) (s_calls s) (repeat false n) (Some (repeat false n))
              preload (s_log s) false false (s_fetched s).

  (* the usual configuration: the state file is both the save file and the init file *)
  Definition restart (s : sstate) (m : rmode) : sstate :=
    restart_gen s m (if m_state m then s_saved s else None).

  Definition valid_request (rq : request) : bool :=
    match rq with RqLoad i => (i <? n)%nat | _ => true end.

  Definition step (s : sstate) (l : label) : option sstate :=
    match l with
    | LUnlink => Some (mkstate (s_done s) (s_file s) (s_calls s) (s_mutex s) (s_saved s) (s_threads s) (s_log s)
                               (s_crashed s) true (s_fetched s))
    | LRestart m => Some (restart s m)
    | LRestartInit m b => Some (restart_gen s m (Some b))   (* a bitmap of the wrong length: start-up fails late, as LFailedStart *)
    | LFailedStart m =>
        (* A start-up that fails late: the state to pre-load from is read, the saved state is replaced, the cache file
           is brought to full size, and only then pre-loading refuses the init state (wrong length): no worker is
           started.  (If state and cache can be used as they are, NewSparseFile succeeds without looking at the init
           file.)  What is left on disk is what [restart] without pre-load leaves; that the model lets the failed
           incarnation serve requests although it does not exist only adds behaviours.  A start-up that fails EARLY
           (the init file cannot be read) has changed nothing: it is not a step of this system. *)
        Some (restart s (mkmode (m_state m) (m_cache m) false))
    | LThread k => if s_crashed s then None else tstep s k
    | LSubmit k rq =>
        if s_crashed s || negb (valid_request rq) then None
        else
          match nth_error (s_threads s) k with
          | Some th =>
              Some (mkstate (s_done s) (s_file s) (s_calls s) (s_mutex s) (s_saved s)
                            (upd_thread s k (mkthread (queue th ++ [rq]) (pc th)))
                            (s_log s) (s_crashed s) (s_nofile s) (s_fetched s))
          | None =>
              Some (mkstate (s_done s) (s_file s) (s_calls s) (s_mutex s) (s_saved s)
                            (s_threads s ++ [mkthread [rq] None])
                            (s_log s) (s_crashed s) (s_nofile s) (s_fetched s))
          end
    end.

  (* first start: no cache file, no state file; NewSparseFile creates both *)
  Definition init : sstate :=
    mkstate (repeat false n) (repeat 0%N L) 0%nat (repeat false n) (Some (repeat false n)) [] [] false false [].

  (* run goroutine k until its current request (and everything queued) is finished; fuel-bounded *)
  Fixpoint drain (fuel : nat) (s : sstate) (k : nat) : sstate :=
    match fuel with
    | O => s
    | S f => match step s (LThread k) with Some s' => drain f s' k | None => s end
    end.
End Loader.

(* ---- specification vocabulary ---- *)

(* What a completed ReadAt must have returned (requests whose end would overflow uint64 are outside the model). *)
Definition read_result_ok (blob : bytes) (e : request * result) : Prop :=
  match e with
  | (RqRead off len, ROk d eof) =>
      off + Z.of_nat len < two64 ->
      0 <= off /\ d = slice blob (Z.to_nat off) (List.length d) /\
      List.length d = Nat.min len (List.length blob - Z.to_nat off) /\ eof = (List.length d <? len)%nat
  | _ => True
  end.

(* range i of the cache file holds chunk i of the blob *)
Definition range_good (idx : index) (blob f : bytes) (i : nat) : Prop :=
  forall r, nth_error idx i = Some r ->
    slice f (N.to_nat (r_start r)) (N.to_nat (r_size r)) = chunk_of blob r.

(* What holds of the loader in every reachable state. *)
Record loader_inv (idx : index) (nullid : id) (blob : bytes) (s : sstate) : Prop := {
  li_len : List.length (s_file s) = List.length blob;
  (* a set done bit (and every null chunk, which is never loaded) means the range is populated with the chunk *)
  li_done : forall i r, nth_error idx i = Some r ->
              nth i (s_done s) false = true \/ r_id r = nullid -> range_good idx blob (s_file s) i;
  (* the state file never claims more than the cache file holds *)
  li_saved : forall b, s_saved s = Some b ->
              forall i, nth i b false = true -> range_good idx blob (s_file s) i;
  (* every ReadAt that completed, in this or an earlier incarnation, returned the blob's bytes *)
  li_log : Forall (read_result_ok blob) (s_log s);
}.

(* chunk i has been fetched successfully (call number c of the store) and written, in this or an earlier incarnation *)
Definition fetched_ok (idx : index) (store : store_t) (fl : list (nat * nat)) (i : nat) : Prop :=
  exists c d, In (c, i) fl /\ store c (r_id (nth i idx row0)) = SData d.

(* a row and a byte range have a byte in common *)
Definition row_overlaps (r : row) (off : Z) (len : nat) : Prop :=
  Z.of_N (r_start r) < off + Z.of_nat len /\ off < r_end r.

(* A successful ReadAt is backed by a successful GetChunk for every chunk it covers (null chunks are never fetched). *)
Definition read_backed (idx : index) (nullid : id) (store : store_t) (fl : list (nat * nat)) (e : request * result) : Prop :=
  match e with
  | (RqRead off len, ROk _ _) =>
      0 <= off -> (1 <= len)%nat -> off + Z.of_nat len < two64 ->
      forall j r, nth_error idx j = Some r -> row_overlaps r off len ->
                  r_id r = nullid \/ fetched_ok idx store fl j
  | _ => True
  end.
