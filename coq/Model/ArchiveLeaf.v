(* archive.go: ArchiveDecoder.Next with the leaf-root rule (commit "fix: archive decoder rejects
   entries after a root entry that is not a directory").

   Model/Archive.v's [archive_next] is Next up to and including the nameless-entry check and the
   construction of the node.  The code has two more lines between that check and `a.started = true`:

       if a.leafRoot { return nil, InvalidFormat{...} }
       if name == "" && (payload != nil || device != nil || symlink != nil) { a.leafRoot = true }

   Both sit after the loop, where the only thing that can still happen is the node being returned, so
   they are modelled as a layer around [archive_next]: a call that would return a node fails when the
   flag is set; otherwise the flag is set when the node is a file, symlink or device without a name.
   "Without a name" is read off the node: its name is path.Join(a.dir, name), one component longer
   than a.dir unless name is empty (and a nameless node is only ever the first one: a.started). *)
From Coq Require Import List NArith Arith Bool.
From DS Require Import Gen.Constants Base.Bytes Base.LE64 Model.Format Model.Archive.
Import ListNotations.

Record dstate := mkDState { d_core : astate; d_leaf_root : bool }.
Definition dstate0 : dstate := mkDState astate0 false.

Definition node_name (n : node) : list bytes :=
  match n with
  | NDirectory nm _ _ | NFile nm _ _ _ _ | NSymlink nm _ _ _ | NDevice nm _ _ _ _ => nm
  end.
Definition is_leaf_node (n : node) : bool := match n with NDirectory _ _ _ => false | _ => true end.

(* ArchiveDecoder.Next *)
Definition archive_next_full (ds : dstate) : M (option node * dstate) :=
  do r <- archive_next (d_core ds);
  match fst r with
  | None => ret (None, mkDState (snd r) (d_leaf_root ds))
  | Some n =>
      if d_leaf_root ds then fail InvalidFormat
      else
        let nameless := (length (node_name n) =? length (a_dir (snd r)))%nat in
        ret (Some n, mkDState (snd r) (is_leaf_node n && nameless))
  end.

(* for { n, err := a.Next(); if err != nil {return err}; if n == nil {break}; append } *)
Fixpoint archive_all_full_loop (fuel : nat) (ds : dstate) (acc : list node) : M (list node) :=
  match fuel with
  | O => fail OutOfFuel
  | S fuel' =>
      do r <- archive_next_full ds;
      match fst r with
      | None => ret (rev acc)
      | Some n => archive_all_full_loop fuel' (snd r) (n :: acc)
      end
  end.

Definition archive_all_full : M (list node) :=
  with_input_fuel (fun fuel => archive_all_full_loop (S fuel) dstate0 []).

Definition decode_archive_next_full (ds : dstate) (b : bytes) : result ((option node * dstate) * bytes) :=
  run_result (archive_next_full ds) b.
Definition decode_archive_next_full_alloc (ds : dstate) (b : bytes) : N := run_alloc (archive_next_full ds) b.
Definition decode_archive_full (b : bytes) : result (list node * bytes) := run_result archive_all_full b.
Definition decode_archive_full_alloc (b : bytes) : N := run_alloc archive_all_full b.
