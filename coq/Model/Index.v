(* index.go: IndexFromReader and Index.WriteTo over the element codec of
   Model/Format.v, plus an independent fixed-offset reader of the caibx/caidx
   layout ([parse_layout]) written from casync's format description.

   An index file is
     offset 0   : FormatIndex   48 bytes: size=48, type, feature flags, min, avg, max
     offset 48  : FormatTable header 16 bytes: size=2^64-1, type
     offset 64  : k items of 40 bytes: end offset of the chunk (cumulative), 32-byte id
     then       : 40-byte tail: 0, 0, 48 (index offset), 16+40k+40 (table size), marker

   Go's Index keeps the FormatHeader of the decoded FormatIndex inside
   Index.Index; nothing reads it and WriteTo overwrites it, so [index] does not
   carry it. *)
From Coq Require Import List NArith Arith Bool.
From DS Require Import Gen.Constants Base.Bytes Base.LE64 Model.Format.
Import ListNotations.
Local Open Scope N_scope.

(* desync.Digest.Algorithm() *)
Inductive digest := SHA512_256 | SHA256.

Definition chunk := (bytes * N * N)%type.   (* IndexChunk: ID, Start, Size *)
Definition c_id (c : chunk) : bytes := fst (fst c).
Definition c_start (c : chunk) : N := snd (fst c).
Definition c_size (c : chunk) : N := snd c.

Record index := mkIndex {
  ix_flags : N;        (* Index.Index.FeatureFlags *)
  ix_min : N;
  ix_avg : N;
  ix_max : N;
  ix_chunks : list chunk
}.

(* the switch on Digest.Algorithm() in IndexFromReader *)
Definition digest_ok (d : digest) (flags : N) : bool :=
  match d with
  | SHA512_256 => negb (N.land flags CaFormatSHA512256 =? 0)
  | SHA256 => N.land flags CaFormatSHA512256 =? 0
  end.

(* for i, r := range table.Items {
     if r.Offset < lastOffset { return error }            (since "fix: index reader rejects decreasing ...")
     Start = lastOffset; Size = r.Offset - lastOffset; lastOffset = r.Offset;
     if Size > ChunkSizeMax { return error } } *)
Fixpoint chunks_of_items_v (v : version) (mx last : N) (items : list titem) : result (list chunk) :=
  match items with
  | [] => Ok []
  | (off, id) :: r =>
      if (match v with Fixed => off <? last | PreFix => false end) then Err DecreasingOffset
      else
        let size := sub64 off last in
        if mx <? size then Err ChunkTooLarge
        else match chunks_of_items_v v mx off r with
             | Ok cs => Ok ((id, last, size) :: cs)
             | Err e => Err e
             | Panic p => Panic p
             end
  end.
Notation chunks_of_items := (chunks_of_items_v Fixed).

(* IndexFromReader (the bufio layer does not change what is read) *)
Definition index_from_reader_v (v : version) (d : digest) : M index :=
  do e <- next Fixed;
  match e with
  | Some (Index _ ff mn av mx) =>
      if negb (digest_ok d ff) then fail DigestMismatch
      else
        do e2 <- next Fixed;
        match e2 with
        | Some (Table _ items) =>
            (* c.Chunks = make([]IndexChunk, len(table.Items)): 48 bytes each *)
            do _ <- charge (48 * N.of_nat (length items));
            match chunks_of_items_v v mx 0 items with
            | Ok cs => ret (mkIndex ff mn av mx cs)
            | Err e => fail e
            | Panic p => throw p
            end
        | _ => fail NoTable
        end
  | _ => fail NotIndex
  end.
Notation index_from_reader := (index_from_reader_v Fixed).

Definition decode_index (d : digest) (b : bytes) : result index :=
  match index_from_reader d b with
  | (Ok i, _, _) => Ok i
  | (Err e, _, _) => Err e
  | (Panic p, _, _) => Panic p
  end.
(* the same, also returning the bytes IndexFromReader did not look at *)
Definition decode_index_rest (d : digest) (b : bytes) : result (index * bytes) :=
  run_result (index_from_reader d) b.
Definition decode_index_alloc (d : digest) (b : bytes) : N := run_alloc (index_from_reader d) b.
(* the reader as it was before the decreasing-offset check *)
Definition decode_index_prefix (d : digest) (b : bytes) : result (index * bytes) :=
  run_result (index_from_reader_v PreFix d) b.

(* var offset uint64; for p, c := range i.Chunks { offset += c.Size; fChunks[p] = {c.ID, offset} } *)
Fixpoint table_items (offset : N) (cs : list chunk) : list titem :=
  match cs with
  | [] => []
  | c :: r => let o := add64 offset (c_size c) in (o, c_id c) :: table_items o r
  end.

(* Index.WriteTo *)
Definition encode_index (i : index) : bytes :=
  encode_elem (Index (mkHeader 48 CaFormatIndex) (ix_flags i) (ix_min i) (ix_avg i) (ix_max i))
  ++ encode_elem (Table (mkHeader MaxUint64 CaFormatTable) (table_items 0 (ix_chunks i))).

(* ---------- independent reader of the file layout ---------- *)

Definition word_at (b : bytes) (off : nat) : N := un_le64 (slice b off 8).

Record layout := mkLayout {
  ly_flags : N; ly_min : N; ly_avg : N; ly_max : N;
  ly_items : list titem;          (* (end offset, id) per chunk *)
  ly_index_offset : N;            (* tail field 3 *)
  ly_table_size : N               (* tail field 4 *)
}.

Definition parse_layout (b : bytes) : option layout :=
  let n := length b in
  if (n <? 104)%nat then None
  else if negb (((n - 104) mod 40 =? 0)%nat) then None
  else
    let k := ((n - 104) / 40)%nat in
    let t := (64 + 40 * k)%nat in
    let items := map (fun j => (word_at b (64 + 40 * j), slice b (72 + 40 * j) 32)) (seq 0 k) in
    if negb (word_at b 0 =? 48) then None
    else if negb (word_at b 8 =? CaFormatIndex) then None
    else if negb (word_at b 48 =? MaxUint64) then None
    else if negb (word_at b 56 =? CaFormatTable) then None
    else if existsb (fun it => fst it =? 0) items then None
    else if negb (word_at b t =? 0) then None
    else if negb (word_at b (t + 8) =? 0) then None
    else if negb (word_at b (t + 32) =? CaFormatTableTailMarker) then None
    else Some (mkLayout (word_at b 16) (word_at b 24) (word_at b 32) (word_at b 40) items
                        (word_at b (t + 16)) (word_at b (t + 24))).

(* the tail a casync-conforming writer produces for a file of n bytes:
   the index element is 48 bytes long and the table covers the rest *)
Definition canonical_tail (b : bytes) (l : layout) : bool :=
  (ly_index_offset l =? 48) && (ly_table_size l =? N.of_nat (length b - 48)).

(* The fields IndexFromReader does not look at, as a casync-conforming writer sets them:
   index element size 48, tail index offset 48, tail table size = file length - 48. *)
Definition canonical (b : bytes) : Prop :=
  word_at b 0 = 48 /\
  word_at b (length b - 24) = 48 /\
  word_at b (length b - 16) = N.of_nat (length b - 48).

(* the two reasons IndexFromReader refuses a table *)
Definition table_error (e : err) : Prop := e = ChunkTooLarge \/ e = DecreasingOffset.

(* offset before row j of a table: 0 for the first row *)
Definition prev_offset (j : nat) (items : list titem) : N :=
  match j with O => 0 | S j' => fst (nth j' items (0, [])) end.

(* ---------- what WriteTo expects of an Index ---------- *)

Fixpoint starts_from (start : N) (cs : list chunk) : Prop :=
  match cs with
  | [] => True
  | c :: r => c_start c = start /\ starts_from (start + c_size c) r
  end.

Definition total_size (cs : list chunk) : N := fold_right (fun c acc => c_size c + acc) 0 cs.

Record wf_index (i : index) : Prop := {
  wf_flags : ix_flags i < two64;
  wf_min : ix_min i < two64;
  wf_avg : ix_avg i < two64;
  wf_max : ix_max i < two64;
  wf_ids : Forall (fun c => length (c_id c) = 32%nat) (ix_chunks i);
  wf_sizes : Forall (fun c => c_size c <= ix_max i) (ix_chunks i);
  wf_total : total_size (ix_chunks i) < two64;
  wf_starts : starts_from 0 (ix_chunks i);
  (* an end offset of 0 is the table terminator: the first chunk must not be empty *)
  wf_first : match ix_chunks i with [] => True | c :: _ => c_size c <> 0 end
}.
