(* archive.go: ArchiveDecoder.Next at the level of format ELEMENTS, with the names kept as
   the Go strings they are (a.dir is a slash-separated string built with path.Join and
   taken apart with filepath.Dir).  The attacker controls the whole element sequence, so
   the input is an arbitrary [list elem]; the byte-level decoder (format.go) is not part
   of this model -- whatever bytes are fed, Next sees some element sequence, possibly
   ending in a decoder error ([EBad]).

   a.last is a one-element push-back buffer: an element that ends the current entry
   (Filename or Goodbye while an entry is pending) is stored there and is the first
   element the next call looks at.  Here it is put back at the head of the remaining
   input, which is the same thing.

   [policy]: [PreFix] is the decoder before commit 41ef764 (no check of the filename
   element); [Fix1] is the decoder of 41ef764 (filename elements are checked, but an entry
   that no filename element precedes keeps the name "" anywhere in the archive); [Fixed] is
   the decoder of b7b089e (after the first returned node an entry without a name is
   rejected -- the [started] flag); [Fixed] is the decoder as it is now (c6596cf: if the
   first node is a nameless file, symlink or device -- the root of a single-object archive
   -- no further node is accepted: the [leafRoot] flag). *)
From Coq Require Import List NArith Bool.
From DS Require Import Base.Bytes Base.GoPath.
Import ListNotations.
Local Open Scope N_scope.

Inductive elem :=
| EEntry (mode uid gid mtime : N)          (* FormatEntry *)
| EFilename (name : bytes)                 (* FormatFilename *)
| EPayload (data : bytes)                  (* FormatPayload *)
| ESymlink (target : bytes)                (* FormatSymlink *)
| EDevice (major minor : N)                (* FormatDevice *)
| EXAttr (name_and_value : bytes)          (* FormatXAttr *)
| EGoodbye                                 (* FormatGoodbye *)
| EOther                                   (* User Group SELinux ACL* FCaps: skipped by Next *)
| EUnsupported                             (* FormatIndex, FormatTable: "unsupported element" *)
| EBad.                                    (* the element decoder returned an error *)

Inductive policy := PreFix | Fix1 | Fix2 | Fixed.

(* a.started / a.leafRoot: nothing returned yet; something returned; the root entry was not a directory *)
Inductive dstate := Fresh | Started | LeafRoot.

Record nmeta := mkNMeta { n_mode : N; n_uid : N; n_gid : N; n_mtime : N; n_xattrs : list (bytes * bytes) }.

(* NodeDirectory / NodeFile / NodeSymlink / NodeDevice; [name] is the Name field *)
Inductive anode :=
| NDir (name : bytes) (m : nmeta)
| NFile (name : bytes) (m : nmeta) (data : bytes)
| NSymlink (name : bytes) (m : nmeta) (target : bytes)
| NDevice (name : bytes) (m : nmeta) (major minor : N).

Definition node_name (n : anode) : bytes :=
  match n with NDir s _ => s | NFile s _ _ => s | NSymlink s _ _ => s | NDevice s _ _ _ => s end.
Definition is_file_node (n : anode) : bool := match n with NFile _ _ _ => true | _ => false end.

(* the local variables of one call of Next *)
Record locals := mkLocals {
  l_entry : option (N * N * N * N);     (* mode uid gid mtime *)
  l_payload : option bytes;
  l_symlink : option bytes;
  l_device : option (N * N);
  l_xattrs : list (bytes * bytes);
  l_name : bytes
}.
Definition locals0 : locals := mkLocals None None None None [] [].

(* strings.IndexRune(s, 0): the part before and after the first NUL *)
Fixpoint split_nul (s : bytes) : option (bytes * bytes) :=
  match s with
  | [] => None
  | x :: t => if x =? 0 then Some ([], t)
              else match split_nul t with
                   | Some (k, v) => Some (x :: k, v)
                   | None => None
                   end
  end.

(* d.Name == "" || d.Name == "." || d.Name == ".." || strings.ContainsRune(d.Name, '/') *)
Definition bad_name (n : bytes) : bool :=
  match n with
  | [] => true
  | _ => beq n [dot] || beq n [dot; dot] || existsb is_slash n
  end.

(* the result of one call: a node (with the raw entry name it was built from, the new
   a.dir and the remaining input), the end of the archive, or an error *)
Inductive nres :=
| NNode (n : anode) (base : bytes) (dir' : bytes) (rest : list elem)
| NEnd
| NErr.

(* if name == "" && a.started { return nil, InvalidFormat{"entry without a name"} } *)
Definition nameless_rejected (pol : policy) (ds : dstate) (name : bytes) : bool :=
  match pol, name with
  | Fix2, [] | Fixed, [] => match ds with Fresh => false | _ => true end
  | _, _ => false
  end.

(* if a.leafRoot { return nil, InvalidFormat{"entry after a root entry that is not a directory"} } *)
Definition leaf_rejected (pol : policy) (ds : dstate) : bool :=
  match pol, ds with
  | Fixed, LeafRoot => true
  | _, _ => false
  end.

(* the filename check of 41ef764 *)
Definition name_rejected (pol : policy) (name : bytes) : bool :=
  match pol with PreFix => false | _ => bad_name name end.

(* the code after the loop *)
Definition finish_entry (pol : policy) (started : dstate) (dir : bytes) (l : locals) (e : N * N * N * N)
  (rest : list elem) : nres :=
  let '(mode, uid, gid, mtime) := e in
  let m := mkNMeta mode uid gid mtime (l_xattrs l) in
  if nameless_rejected pol started (l_name l) then NErr else
  if leaf_rejected pol started then NErr else
  match l_payload l, l_device l, l_symlink l with
  | None, None, None =>
      let d := GoPath.join [dir; l_name l] in           (* a.dir = path.Join(a.dir, name) *)
      NNode (NDir d m) (l_name l) d rest
  | Some data, _, _ => NNode (NFile (GoPath.join [dir; l_name l]) m data) (l_name l) dir rest
  | None, Some (major, minor), _ => NNode (NDevice (GoPath.join [dir; l_name l]) m major minor) (l_name l) dir rest
  | None, None, Some t => NNode (NSymlink (GoPath.join [dir; l_name l]) m t) (l_name l) dir rest
  end.

(* the loop of ArchiveDecoder.Next; [dir] is a.dir *)
Fixpoint next_loop (pol : policy) (started : dstate) (dir : bytes) (l : locals) (inp : list elem) : nres :=
  match inp with
  | [] => NEnd                                           (* case nil: return nil, nil *)
  | c :: rest =>
      match c with
      | EEntry mode uid gid mtime =>
          match l_entry l with
          | Some _ => NErr
          | None => next_loop pol started dir (mkLocals (Some (mode, uid, gid, mtime)) (l_payload l) (l_symlink l)
                                                (l_device l) (l_xattrs l) (l_name l)) rest
          end
      | EOther => next_loop pol started dir l rest
      | EPayload data =>
          match l_entry l with
          | None => NErr
          | Some e => finish_entry pol started dir (mkLocals (l_entry l) (Some data) (l_symlink l) (l_device l)
                                                 (l_xattrs l) (l_name l)) e rest
          end
      | EXAttr nv =>
          match l_entry l, split_nul nv with
          | Some _, Some (k, v) =>
              next_loop pol started dir (mkLocals (l_entry l) (l_payload l) (l_symlink l) (l_device l)
                                          (l_xattrs l ++ [(k, v)]) (l_name l)) rest
          | _, _ => NErr
          end
      | ESymlink t =>
          match l_entry l with
          | None => NErr
          | Some _ => next_loop pol started dir (mkLocals (l_entry l) (l_payload l) (Some t) (l_device l)
                                                  (l_xattrs l) (l_name l)) rest
          end
      | EDevice major minor =>
          match l_entry l with
          | None => NErr
          | Some _ => next_loop pol started dir (mkLocals (l_entry l) (l_payload l) (l_symlink l) (Some (major, minor))
                                                  (l_xattrs l) (l_name l)) rest
          end
      | EFilename name =>
          match l_entry l with
          | Some e => finish_entry pol started dir l e (c :: rest)   (* a.last = c; break loop *)
          | None =>
              if name_rejected pol name then NErr
              else next_loop pol started dir (mkLocals (l_entry l) (l_payload l) (l_symlink l) (l_device l)
                                               (l_xattrs l) name) rest
          end
      | EGoodbye =>
          match l_entry l with
          | Some e => finish_entry pol started dir l e (c :: rest)   (* a.last = c; break loop *)
          | None => next_loop pol started (GoPath.dir dir) l rest (* a.dir = filepath.Dir(a.dir) *)
          end
      | EUnsupported => NErr
      | EBad => NErr
      end
  end.

(* ArchiveDecoder.Next *)
Definition archive_next (pol : policy) (ds : dstate) (dir : bytes) (inp : list elem) : nres :=
  next_loop pol ds dir locals0 inp.

Definition is_dir_node (n : anode) : bool := match n with NDir _ _ => true | _ => false end.

(* the flags after a node was returned: a.started = true, and
   if name == "" && (payload != nil || device != nil || symlink != nil) { a.leafRoot = true } *)
Definition dstate_after (pol : policy) (ds : dstate) (n : anode) (base : bytes) : dstate :=
  match pol, ds, base with
  | Fixed, Fresh, [] => if is_dir_node n then Started else LeafRoot
  | _, LeafRoot, _ => LeafRoot
  | _, _, _ => Started
  end.

(* NewArchiveDecoder: dir = "." *)
Definition dir0 : bytes := [dot].

(* every node the decoder yields for an element sequence (until the end or an error),
   with the raw entry names *)
Fixpoint nodes_loop (fuel : nat) (pol : policy) (ds : dstate) (dir : bytes) (inp : list elem)
  : list (anode * bytes) :=
  match fuel with
  | O => []
  | S f =>
      match archive_next pol ds dir inp with
      | NNode n base dir' rest => (n, base) :: nodes_loop f pol (dstate_after pol ds n base) dir' rest
      | _ => []
      end
  end.
Definition nodes_of (pol : policy) (inp : list elem) : list (anode * bytes) :=
  nodes_loop (S (length inp)) pol Fresh dir0 inp.

(* how the decoding of the whole sequence ends: true = end of archive, false = error *)
Fixpoint nodes_end_loop (fuel : nat) (pol : policy) (ds : dstate) (dir : bytes) (inp : list elem) : bool :=
  match fuel with
  | O => false
  | S f =>
      match archive_next pol ds dir inp with
      | NNode n base dir' rest => nodes_end_loop f pol (dstate_after pol ds n base) dir' rest
      | NEnd => true
      | NErr => false
      end
  end.
Definition nodes_end (pol : policy) (inp : list elem) : bool :=
  nodes_end_loop (S (length inp)) pol Fresh dir0 inp.

(* a relative clean path from its components: "." for none *)
Definition rel (cs : list bytes) : bytes := match cs with [] => [dot] | _ :: _ => join47 cs end.
