(* C07: cancellation of the feeder/worker entry points.

   The six pool-shaped functions (VerifyIndex, ChopFile, Copy, ChunkStream,
   Plan.Validate, AssembleFile's main loop) are instances of Model/Pool.v; this
   file adds
     - the result function of the code BEFORE the commit "fix: cancelled bulk
       operations return Interrupted instead of nil" ([pool_result_prefix]),
     - Plan.Validate's job selection and AssembleFile's validate/retry loop,
     - an executable enumeration of all outcomes the pool model allows when
       the parent context is cancelled at a given feeder position (the oracle
       side of the cancel-at-k correspondence). *)
From Coq Require Import List Arith Bool Lia.
From DS Require Import Base.Sched Model.Pool Model.Explore.
Import ListNotations.

(* ---- the pre-fix skeleton: `close(in); return g.Wait()` ---- *)
Definition pool_result_prefix (s : pstate) : result :=
  if failed s then RErr else RNil.

(* ---- sequencer.go Plan.Validate ---- *)
Record segment := { seg_file_seed : bool;   (* s.isFileSeed() *)
                    seg_valid : bool }.     (* source.Validate(file) == nil *)

(* for _, s := range p { if !s.isFileSeed() { continue }; ... in <- Job{s,...} } *)
Definition validate_jobs (plan : list segment) : list segment := filter seg_file_seed plan.
Definition validate_job_ok (plan : list segment) (k : nat) : bool :=
  seg_valid (nth k (validate_jobs plan) {| seg_file_seed := true; seg_valid := true |}).

(* ---- assemble.go AssembleFile: the loop around plan.Validate, then the main feeder ---- *)
Inductive seed_action := BailOut | SkipSeed | RegenerateSeed.
Inductive loop_res := Retry | Return (r : result) | Proceed.

(* one iteration of `for { if err := plan.Validate(...); err != nil {...} ; break }`
   [v] = result of plan.Validate, [regen] = result of seq.RegenerateInvalidSeeds *)
Definition after_validate (a : seed_action) (v regen : result) : loop_res :=
  match v with
  | RNil => Proceed
  | RInterrupted => Return RInterrupted          (* added by the fix *)
  | RErr =>
      match a with
      | BailOut => Return RErr
      | SkipSeed => Retry
      | RegenerateSeed => match regen with RNil => Retry | r => Return r end
      end
  end.

(* [attempts] scripts the successive (Validate, Regenerate) results; [main] is the
   result of the main feeder/worker pool.  None: the script ended inside the loop. *)
Fixpoint assemble_result (a : seed_action) (attempts : list (result * result)) (main : result)
  : option result :=
  match attempts with
  | [] => None
  | (v, rg) :: rest =>
      match after_validate a v rg with
      | Proceed => Some main
      | Return r => Some r
      | Retry => assemble_result a rest main
      end
  end.

(* ---- state equality (for the explorer) ---- *)
Definition wstate_eqb (a b : wstate) : bool :=
  match a, b with
  | Idle, Idle => true
  | Busy j, Busy k => j =? k
  | Exited, Exited => true
  | _, _ => false
  end.
Definition fstate_eqb (a b : fstate) : bool :=
  match a, b with
  | Feeding, Feeding => true
  | Stopped x, Stopped y => Bool.eqb x y
  | _, _ => false
  end.
Fixpoint list_eqb {A} (e : A -> A -> bool) (a b : list A) : bool :=
  match a, b with
  | [], [] => true
  | x :: r, y :: q => e x y && list_eqb e r q
  | _, _ => false
  end.
Definition pstate_eqb (a b : pstate) : bool :=
  (fed a =? fed b) && fstate_eqb (feeder a) (feeder b) && Bool.eqb (cancelled a) (cancelled b)
  && Bool.eqb (ext_cancel a) (ext_cancel b) && list_eqb wstate_eqb (workers a) (workers b)
  && Bool.eqb (failed a) (failed b) && list_eqb Nat.eqb (processed a) (processed b).

(* ---- all outcomes of a pool run in which the parent context is cancelled
        exactly when the feeder is about to offer job [f] (cancel_at = Some f;
        the harness cancels inside the yield hook that precedes the select), or
        never (None) ---- *)
Section Outcomes.
  Variable njobs : nat.
  Variable job_ok : nat -> bool.
  Variable nw : nat.
  Variable cancel_at : option nat.

  Definition is_feeding (s : pstate) : bool :=
    match feeder s with Feeding => true | Stopped _ => false end.

  Definition cancel_now (s : pstate) : bool :=
    match cancel_at with
    | Some f => (fed s =? f) && is_feeding s && negb (ext_cancel s)
    | None => false
    end.

  Definition opt_list {A} (o : option A) : list A := match o with Some x => [x] | None => [] end.

  Definition pool_succs (s : pstate) : list pstate :=
    if cancel_now s then opt_list (Pool.step njobs job_ok true s CancelEnv)
    else opt_list (Pool.step njobs job_ok false s Feeder)
         ++ flat_map (fun i => opt_list (Pool.step njobs job_ok false s (Worker i))) (seq 0 nw).

  (* outcome of a final state: the result and whether every job was processed *)
  Definition outcome (s : pstate) : result * bool :=
    (pool_result s, forallb (fun k => existsb (Nat.eqb k) (processed s)) (seq 0 njobs)).

  Definition result_eqb (a b : result) : bool :=
    match a, b with RNil, RNil | RErr, RErr | RInterrupted, RInterrupted => true | _, _ => false end.
  Definition outcome_eqb (a b : result * bool) : bool :=
    result_eqb (fst a) (fst b) && Bool.eqb (snd a) (snd b).

  Fixpoint dedup (l : list (result * bool)) : list (result * bool) :=
    match l with
    | [] => []
    | x :: r => if existsb (outcome_eqb x) r then dedup r else x :: dedup r
    end.

  Definition pool_outcomes (fuel : nat) : option (list (result * bool)) :=
    match reach_set pool_succs pstate_eqb fuel (Pool.init nw) with
    | Some states => Some (dedup (map outcome (filter final states)))
    | None => None
    end.
End Outcomes.
