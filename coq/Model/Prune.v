(* local.go: LocalStore.Prune and LocalStore.Verify (the filepath.Walk callbacks), s3.go:
   S3Store.idFromName / Prune over a key list, sftp.go: SFTPStore.Prune (the walk callback without
   the temp-file rule).  Executable definitions only. *)
From Coq Require Import List NArith Arith Bool.
From DS Require Import Gen.Constants Base.Bytes Base.Hash Base.HexId Base.FS Model.LocalStore.
Import ListNotations.

(* What Prune / Verify can return besides nil *)
Inductive walk_err :=
| WeMissing (i : id)        (* ChunkMissing{id} from RemoveChunk *)
| WeErrno (e : errno)       (* lstat / readdir / os.Remove failure handed back by the callback *)
| WeFuel                    (* model artefact: recursion budget exhausted (never with fuel > tree depth) *)
| WeBlocked                 (* waits forever for a pooled connection (only the pre-9329890 SFTP prune) *)
| WeInterrupted.            (* Interrupted{}: the context was found cancelled *)

(* filepath.Walk(root, fn) for callbacks that return the error they are given and nil for directories
   (both Prune and Verify do).  X is the callback's state; [fs_of] is the file system the walk itself
   looks at (names are read when a directory is entered, every entry is lstat'ed when it is reached,
   so a file that a previous callback removed makes the callback see an error).
   pstr is the path STRING the callback receives, p the same path as a name list (the callback
   takes filepath.Base from its last component). *)
Definition node_is_dir (n : node) : bool := match n with Dir _ _ => true | _ => false end.

Section Walk.
  Context {X : Type}.
  Variable fs_of : X -> node.
  Variable on_file : bytes -> path -> X -> X * option walk_err.   (* fn for a non-directory *)

  (* the entries of one directory, in the order of the sorted name list read when it was entered *)
  Fixpoint walk_loop (child : bytes -> path -> bool -> X -> X * option walk_err)
           (pstr : bytes) (p : path) (names : list name) (x : X) : X * option walk_err :=
    match names with
    | [] => (x, None)
    | n :: r =>
        match lookup (p ++ [n]) (fs_of x) with
        | None => (x, Some (WeErrno ENOENT))          (* lstat failed: fn(filename, nil, err) *)
        | Some c =>
            match child (join_str pstr n) (p ++ [n]) (node_is_dir c) x with
            | (x', None) => walk_loop child pstr p r x'
            | res => res
            end
        end
    end.

  Fixpoint walk (fuel : nat) (pstr : bytes) (p : path) (isdir : bool) (x : X) : X * option walk_err :=
    match fuel with
    | O => (x, Some WeFuel)
    | S f =>
        if isdir then
          match readdir p (fs_of x) with
          | Err e => (x, Some (WeErrno e))
          | Ok names => walk_loop (walk f) pstr p names x
          end
        else on_file pstr p x
    end.

  (* Walk lstats the root first *)
  Definition walk_root (fuel : nat) (rootstr : bytes) (root : path) (x : X) : X * option walk_err :=
    match lookup root (fs_of x) with
    | None => (x, Some (WeErrno ENOENT))
    | Some c => walk fuel rootstr root (node_is_dir c) x
    end.
End Walk.

Definition default_fuel : nat := 64.

Section Prune.
  Variable H : bytes -> id.
  Variable zdecomp : bytes -> option bytes.

  (* ---------- LocalStore.Prune (tmp_rule = true) and SFTPStore.Prune (tmp_rule = false: the same
     callback without the temp-file rule) ---------- *)
  (* [stop p]: the context is found cancelled when the callback for p runs (select on ctx.Done() at the
     top of the callback; every later callback is then never reached, so a function of the path is enough
     to place the cancellation anywhere in the run) *)
  Definition prune_file_gen (tmp_rule : bool) (stop : path -> bool) (st : store) (keep : id -> bool)
             (pstr : bytes) (p : path) (s : node) : node * option walk_err :=
    let nm := last p [] in                       (* filepath.Base(path) *)
    if stop p then (s, Some WeInterrupted)
    else if tmp_rule && has_prefix nm tmpChunkPrefix_bytes then
      (* _ = os.Remove(path) *)
      (match remove p s with Ok s' => s' | Err _ => s end, None)
    else
      match chunk_file_id (st_unc st) pstr nm with
      | None => (s, None)
      | Some i =>
          if keep i then (s, None)
          else match remove_chunk st i s with
               | RmOk s' => (s', None)
               | RmMissing => (s, Some (WeMissing i))
               | RmErr e => (s, Some (WeErrno e))
               end
      end.

  Definition prune_gen (tmp_rule : bool) (stop : path -> bool) (fuel : nat) (st : store) (basestr : bytes)
             (keep : id -> bool) (s : node) : node * option walk_err :=
    walk_root (fun s => s) (prune_file_gen tmp_rule stop st keep) fuel basestr (st_base st) s.

  Definition never (_ : path) : bool := false.
  Definition prune_file := prune_file_gen true never.
  Definition prune := prune_gen true never.
  (* SFTPStore.Prune (after 9329890) stats and removes over the connection the walk holds: it is the
     callback above and never touches the pool again. *)
  Definition sftp_prune_file := prune_file_gen false never.
  Definition sftp_prune := prune_gen false never.

  (* SFTPStore.Prune as it was before 9329890: the walk holds one of the [pool] connections and the
     removal goes through s.RemoveChunk, which takes another one: with pool <= 1 it waits forever. *)
  Definition sftp_prune_file_prefix (pool : nat) (st : store) (keep : id -> bool) (pstr : bytes) (p : path) (s : node)
    : node * option walk_err :=
    match chunk_file_id (st_unc st) pstr (last p []) with
    | None => (s, None)
    | Some i =>
        if keep i then (s, None)
        else if pool <=? 1 then (s, Some WeBlocked)
        else match remove_chunk st i s with
             | RmOk s' => (s', None)
             | RmMissing => (s, Some (WeMissing i))
             | RmErr e => (s, Some (WeErrno e))
             end
    end.
  Definition sftp_prune_prefix (pool : nat) (fuel : nat) (st : store) (basestr : bytes) (keep : id -> bool) (s : node)
    : node * option walk_err :=
    walk_root (fun s => s) (sftp_prune_file_prefix pool st keep) fuel basestr (st_base st) s.

  (* ---------- LocalStore.Verify ---------- *)
  (* the walk only collects ids (it feeds them to the workers) *)
  (* Only the store's own chunk files are looked at: a file whose path is not exactly nameFromID(id) for
     the id parsed from its name (chunk name in a wrong directory, upper-case hex) is skipped. *)
  Definition verify_file (st : store) (pstr : bytes) (p : path) (x : node * list id)
    : (node * list id) * option walk_err :=
    match chunk_file_id (st_unc st) pstr (last p []) with
    | None => (x, None)
    | Some i => if path_eqb p (snd (name_from_id st i)) then ((fst x, snd x ++ [i]), None) else (x, None)
    end.

  Definition verify_ids (fuel : nat) (st : store) (basestr : bytes) (s : node) : list id * option walk_err :=
    let '((_, ids), e) := walk_root (@fst node (list id)) (verify_file st) fuel basestr (st_base st) (s, []) in
    (ids, e).

  (* one worker iteration: what is printed for the id, and the state afterwards *)
  Inductive verify_msg :=
  | VmInvalid (i sum : id) (removed : bool) (rm_failed : bool)   (* "chunk id .. does not match its hash .."[": removed" | ":"err] *)
  | VmOther (i : id).                                             (* e.g. "chunk .. missing from store" *)

  Definition verify_one (st : store) (repair : bool) (i : id) (s : node) : node * list verify_msg :=
    match get_chunk H zdecomp st i s with
    | GetOk _ => (s, [])
    | GetMissing => (s, [VmOther i])
    | GetInvalid sum =>
        if repair then
          match remove_chunk st i s with
          | RmOk s' => (s', [VmInvalid i sum true false])
          | _ => (s, [VmInvalid i sum false true])
          end
        else (s, [VmInvalid i sum false false])
    end.

  Fixpoint verify_all (st : store) (repair : bool) (ids : list id) (s : node) : node * list verify_msg :=
    match ids with
    | [] => (s, [])
    | i :: r => let (s1, m1) := verify_one st repair i s in
                let (s2, m2) := verify_all st repair r s1 in (s2, m1 ++ m2)
    end.

  (* Verify with the workers' iterations taken in feeding order *)
  Definition verify_raw (fuel : nat) (st : store) (basestr : bytes) (repair : bool) (s : node)
    : node * list verify_msg * option walk_err :=
    let (ids, e) := verify_ids fuel st basestr s in
    let (s', msgs) := verify_all st repair ids s in
    (s', msgs, e).

  (* The other extreme schedule: every fed id is handled by a worker before the walk goes on.  (The
     real run is some mixture; the two agree unless a file name that is not the canonical name of
     its id -- upper-case hex, wrong directory -- precedes that id's invalid canonical file.) *)
  Definition verify_eager_file (st : store) (repair : bool) (pstr : bytes) (p : path)
             (x : node * list verify_msg) : (node * list verify_msg) * option walk_err :=
    match chunk_file_id (st_unc st) pstr (last p []) with
    | None => (x, None)
    | Some i =>
        if path_eqb p (snd (name_from_id st i)) then
          let (s', m) := verify_one st repair i (fst x) in ((s', snd x ++ m), None)
        else (x, None)
    end.

  Definition verify_eager_raw (fuel : nat) (st : store) (basestr : bytes) (repair : bool) (s : node)
    : node * list verify_msg * option walk_err :=
    walk_root (@fst node (list verify_msg)) (verify_eager_file st repair) fuel basestr (st_base st) (s, []).

  (* LocalStore.Verify: "Verify is the check: it reads with verification whatever the store is otherwise
     configured to trust" -- the method works on its own copy of the store with SkipVerify switched off.
     [verify_raw] is the body run on that copy (it is also what Verify was before that fix, when it was run
     on the store as configured and a SkipVerify store reported nothing). *)
  Definition verifying (st : store) : store := mkStore (st_base st) (st_unc st) false.
  Definition verify (fuel : nat) (st : store) := verify_raw fuel (verifying st).
  Definition verify_eager (fuel : nat) (st : store) := verify_eager_raw fuel (verifying st).
End Prune.

(* ---------- S3Store ---------- *)

Definition trim_prefix (s pre : bytes) : bytes := if has_prefix s pre then skipn (length pre) s else s.

(* S3Store.nameFromID: prefix ++ sid[0:4] ++ "/" ++ sid ++ ext *)
Definition s3_name (prefix : bytes) (unc : bool) (i : id) : bytes :=
  let sid := hex_id i in prefix ++ firstn 4 sid ++ slash :: sid ++ ext_of unc.

(* S3Store.idFromName *)
Definition s3_id_from_name (prefix : bytes) (unc : bool) (key : bytes) : option id :=
  if has_suffix key (ext_of unc) then
    match split_slash (trim_suffix (trim_prefix key prefix) (ext_of unc)) with
    | [idx; sid] => if has_prefix sid idx then unhex_id sid else None
    | _ => None
    end
  else None.

Fixpoint remove_key (k : bytes) (keys : list bytes) : list bytes :=
  match keys with
  | [] => []
  | x :: r => if bytes_eqb x k then remove_key k r else x :: remove_key k r
  end.

(* S3Store.Prune over the listed keys; RemoveObject of an absent key succeeds *)
Fixpoint s3_prune_loop (prefix : bytes) (unc : bool) (keep : id -> bool) (listed : list bytes) (bucket : list bytes)
  : list bytes :=
  match listed with
  | [] => bucket
  | k :: r =>
      match s3_id_from_name prefix unc k with
      | None => s3_prune_loop prefix unc keep r bucket
      | Some i =>
          if keep i then s3_prune_loop prefix unc keep r bucket
          else s3_prune_loop prefix unc keep r (remove_key (s3_name prefix unc i) bucket)
      end
  end.

(* ListObjectsV2(bucket, prefix, recursive): the keys that start with prefix *)
Definition s3_prune (prefix : bytes) (unc : bool) (keep : id -> bool) (bucket : list bytes) : list bytes :=
  s3_prune_loop prefix unc keep (filter (fun k => has_prefix k prefix) bucket) bucket.

(* S3Store.Prune with cancellation: [stop k] = the context is found cancelled when object k comes up
   (select on ctx.Done() per listed object); the flag says Interrupted{} was returned. *)
Fixpoint s3_prune_loop_c (stop : bytes -> bool) (prefix : bytes) (unc : bool) (keep : id -> bool)
         (listed : list bytes) (bucket : list bytes) : list bytes * bool :=
  match listed with
  | [] => (bucket, false)
  | k :: r =>
      if stop k then (bucket, true)
      else match s3_id_from_name prefix unc k with
           | None => s3_prune_loop_c stop prefix unc keep r bucket
           | Some i =>
               if keep i then s3_prune_loop_c stop prefix unc keep r bucket
               else s3_prune_loop_c stop prefix unc keep r (remove_key (s3_name prefix unc i) bucket)
           end
  end.
Definition s3_prune_c (stop : bytes -> bool) (prefix : bytes) (unc : bool) (keep : id -> bool) (bucket : list bytes)
  : list bytes * bool :=
  s3_prune_loop_c stop prefix unc keep (filter (fun k => has_prefix k prefix) bucket) bucket.
