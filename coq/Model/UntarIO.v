(* Helpers of the C18 oracle command: build an initial file system from a listing
   (absolute path strings, parents first) and list the final one. Not part of the model. *)
From Coq Require Import List NArith Bool.
From DS Require Import Base.Bytes Base.FS Base.GoPath Model.FSLinks.
Import ListNotations.

Inductive ient := IDir (mode : N) | IFile (mode : N) (data : bytes) | ILink (target : bytes).
Definition meta_mode (mode : N) : meta := mkMeta mode 0 0 0 [].

Definition comps_of_str (s : bytes) : path := filter (fun c => negb (is_dotlike c)) (split47 s).

Definition add_ent (fs : node) (e : bytes * ient) : node :=
  let p := comps_of_str (fst e) in
  match mkdir_all (removelast p) fs with
  | Err _ => fs
  | Ok fs1 =>
      match snd e with
      | IDir mode =>
          match mkdir_all p fs1 with
          | Ok fs2 => match upd p (fun o => Ok (option_map (with_meta (fun _ => meta_mode mode)) o)) fs2 with
                      | Ok fs3 => fs3 | Err _ => fs2 end
          | Err _ => fs1
          end
      | IFile mode d => match upd p (fun _ => Ok (Some (File (meta_mode mode) d))) fs1 with Ok fs2 => fs2 | Err _ => fs1 end
      | ILink t => match upd p (fun _ => Ok (Some (Symlink meta0 t))) fs1 with Ok fs2 => fs2 | Err _ => fs1 end
      end
  end.

Definition build_fs (l : list (bytes * ient)) : node := fold_left add_ent l empty_fs.

Definition dump_fs (fs : node) : list (bytes * ent) :=
  map (fun pe => (rootstr (fst pe), snd pe)) (listing [] fs).
Definition str_of_path (p : path) : bytes := rootstr p.
