(* The casync element codec of format.go / reader.go / writer.go as an
   executable model over byte lists.

   Go                                   here
   ---------------------------------    ------------------------------------
   reader.ReadUint64 / ReadID / ReadN   read_u64 / read_id / read_n
   reader.ReadHeader                    read_header
   FormatDecoder.readBody               read_body
   FormatDecoder.Next                   next (monadic), decode_next (wrapper)
   loop over Next until nil / error     decode_all, decode_elems
   FormatEncoder.Encode                 encode_elem
   writer.WriteUint64 / WriteID         le64s / the id bytes themselves

   A reader is the list of bytes that are still to come.  A decoder step is
   a function  bytes -> result * rest * alloc  (type [M]):
     - result  is Ok x | Err e | Panic p.  [Panic] marks the places where the Go
       code would panic (slice bounds, makeslice); the C19 theorems show the
       current code never gets there.
     - rest    is what the reader still holds afterwards.
     - alloc   is a ghost counter: bytes allocated by allocations whose size is
       derived from the input (make([]byte, n) in ReadN, the buffer grown by
       ioutil.ReadAll, the appended goodbye/table items).  Fixed-size scratch
       buffers (8 and 32 bytes), the bufio buffer and string(b) copies are not
       counted; they are bounded by a constant resp. by a constant factor.

   [version] selects the code as it is now ([Fixed]) or as it was before the
   commits "fix: decoders validate element sizes ..." (element-size handling,
   here) and "fix: index reader rejects decreasing chunk offsets ..." (offset
   check, Model/Index.v) ([PreFix]); the latter exists only so that the refuted
   examples of C19 and C04 can be stated.  Everything else uses [Fixed].

   Not modelled here: os.FileMode conversion.  [Entry] keeps the raw 64-bit mode
   word of the stream (Go: StatModeToFilemode(uint32(mode)) when decoding,
   uint64(FilemodeToStatMode(m)) when encoding); UID/GID/MTime conversions
   (int, time.Time) are lossless on 64-bit platforms and keep the raw word too.
   The payload is returned as bytes: Go hands out an io.LimitReader and drains
   what the caller left unread at the next call, which reads the same bytes. *)
From Coq Require Import List NArith Bool.
From DS Require Import Gen.Constants Base.Bytes Base.LE64.
Import ListNotations.
Local Open Scope N_scope.

(* ---------- results ---------- *)

Inductive err :=
| EOF               (* io.EOF *)
| UnexpectedEOF     (* io.ErrUnexpectedEOF *)
| InvalidFormat     (* desync.InvalidFormat{...} *)
| Unsupported       (* fmt.Errorf("unsupported header type ...") and similar *)
| NotIndex          (* "input is not an index file" *)
| DigestMismatch    (* "index file uses SHA256" / "... SHA512-256" *)
| NoTable           (* "index table not found in input" *)
| ChunkTooLarge     (* "chunk size %d is larger than maximum %d" *)
| DecreasingOffset  (* "chunk offset %d is smaller than the preceding offset %d" *)
| TooShort          (* protocol: "message length too short", "protocol request too small", "received chunk too small" *)
| BadHello          (* protocol: not a HELLO / HELLO body not 8 bytes / wanted service not offered *)
| Aborted           (* protocol: "client aborted connection" *)
| StoreFailed       (* protocol server: the chunk store returned an error other than ChunkMissing *)
| OutOfFuel.        (* model artefact; shown unreachable *)

Inductive panic :=
| SliceBounds       (* b[:len(b)-1] on an empty slice, b[0:8] on a short one *)
| MakeSliceLen.     (* make([]T, n) with n beyond the runtime's maximum *)

Inductive result (A : Type) :=
| Ok (a : A)
| Err (e : err)
| Panic (p : panic).
Arguments Ok {A} a.
Arguments Err {A} e.
Arguments Panic {A} p.

Definition M (A : Type) := bytes -> result A * bytes * N.

Definition ret {A} (x : A) : M A := fun s => (Ok x, s, 0).
Definition fail {A} (e : err) : M A := fun s => (Err e, s, 0).
Definition throw {A} (p : panic) : M A := fun s => (Panic p, s, 0).
Definition charge (n : N) : M unit := fun s => (Ok tt, s, n).

Definition bind {A B} (m : M A) (f : A -> M B) : M B := fun s =>
  match m s with
  | (Ok x, s1, a1) => match f x s1 with (r, s2, a2) => (r, s2, a1 + a2) end
  | (Err e, s1, a1) => (Err e, s1, a1)
  | (Panic p, s1, a1) => (Panic p, s1, a1)
  end.

Notation "'do' x <- m ; f" := (bind m (fun x => f)) (at level 200, x name, m at level 100, f at level 200).

Definition lenN (l : bytes) : N := N.of_nat (length l).

(* ---------- reader.go ---------- *)

(* exactly n bytes, or None when fewer are left *)
Fixpoint take_exact (n : nat) (l : bytes) : option (bytes * bytes) :=
  match n with
  | O => Some ([], l)
  | S n' => match l with
            | [] => None
            | x :: t => match take_exact n' t with
                        | Some (a, r) => Some (x :: a, r)
                        | None => None
                        end
            end
  end.

(* at most n bytes; the count is an N because it comes from a size field *)
Fixpoint take_upto (n : N) (l : bytes) : bytes * bytes :=
  match l with
  | [] => ([], [])
  | x :: t => if n =? 0 then ([], l)
              else match take_upto (N.pred n) t with (a, r) => (x :: a, r) end
  end.

(* io.ReadFull into a buffer of constant size n *)
Definition read_full (n : nat) : M bytes := fun s =>
  match take_exact n s with
  | Some (a, r) => (Ok a, r, 0)
  | None => match s with
            | [] => (Err EOF, [], 0)
            | _ => (Err UnexpectedEOF, [], 0)
            end
  end.

(* reader.ReadUint64.  The result is a uint64: [u64] is the identity on the
   value of 8 real bytes and keeps the model total on lists that hold numbers
   above 255. *)
Definition read_u64 : M N := do b <- read_full 8; ret (u64 (un_le64 b)).

(* reader.ReadID: 32 bytes (ChunkIDFromSlice cannot fail on 32 bytes) *)
Definition read_id : M bytes := read_full 32.

(* Largest slice the Go runtime will try to allocate (linux/amd64 maxAlloc). *)
Definition maxAlloc : N := 281474976710656. (* 2^48 *)

Inductive version := Fixed | PreFix.

(* b := make([]byte, n); io.ReadFull(r, b) *)
Definition make_read_full (n : N) : M bytes := fun s =>
  if maxAlloc <? n then (Panic MakeSliceLen, s, 0)
  else match take_upto n s with
       | (a, r) => if lenN a =? n then (Ok a, r, n)
                   else match a with
                        | [] => (Err EOF, [], n)
                        | _ => (Err UnexpectedEOF, [], n)
                        end
       end.

(* reader.ReadN *)
Definition read_n (v : version) (n : N) : M bytes :=
  match v with
  | PreFix => make_read_full n
  | Fixed =>
      if MaxInt64 <? n then fail InvalidFormat
      else if n <=? 65536 then make_read_full n
      else (* ioutil.ReadAll(io.LimitReader(r, n)): the buffer grows with the data read *)
        fun s => match take_upto n s with
                 | (a, r) => if lenN a <? n then (Err UnexpectedEOF, r, lenN a)
                             else (Ok a, r, lenN a)
                 end
  end.

Record header := mkHeader { h_size : N; h_type : N }.

(* reader.ReadHeader as used by Next: io.EOF from either field read means a
   clean end of the stream (None); 8 bytes followed by the end are therefore a
   clean end too. *)
Definition read_header : M (option header) := fun s =>
  match read_u64 s with
  | (Ok size, s1, a1) =>
      match read_u64 s1 with
      | (Ok typ, s2, a2) => (Ok (Some (mkHeader size typ)), s2, a1 + a2)
      | (Err EOF, s2, a2) => (Ok None, s2, a1 + a2)
      | (Err e, s2, a2) => (Err e, s2, a1 + a2)
      | (Panic p, s2, a2) => (Panic p, s2, a1 + a2)
      end
  | (Err EOF, s1, a1) => (Ok None, s1, a1)
  | (Err e, s1, a1) => (Err e, s1, a1)
  | (Panic p, s1, a1) => (Panic p, s1, a1)
  end.

(* ---------- elements ---------- *)

Definition gitem := (N * N * N)%type.       (* FormatGoodbyeItem: offset, size, hash *)
Definition titem := (N * bytes)%type.       (* FormatTableItem: offset, chunk id (32 bytes) *)

Inductive elem :=
| Entry (h : header) (feature_flags mode flags uid gid mtime : N)
| User (h : header) (name : bytes)
| Group (h : header) (name : bytes)
| XAttr (h : header) (name_and_value : bytes)
| SELinux (h : header) (label : bytes)
| Filename (h : header) (name : bytes)
| Symlink (h : header) (target : bytes)
| Device (h : header) (major minor : N)
| Payload (h : header) (data : bytes)
| FCaps (h : header) (data : bytes)
| ACLUser (h : header) (uid permissions : N) (name : bytes)
| ACLGroup (h : header) (gid permissions : N) (name : bytes)
| ACLGroupObj (h : header) (permissions : N)
| ACLDefault (h : header) (user_obj group_obj other mask : N)
| Goodbye (h : header) (items : list gitem)
| Index (h : header) (feature_flags chunk_min chunk_avg chunk_max : N)
| Table (h : header) (items : list titem).

Definition elem_header (e : elem) : header :=
  match e with
  | Entry h _ _ _ _ _ _ | User h _ | Group h _ | XAttr h _ | SELinux h _ | Filename h _
  | Symlink h _ | Device h _ _ | Payload h _ | FCaps h _ | ACLUser h _ _ _ | ACLGroup h _ _ _
  | ACLGroupObj h _ | ACLDefault h _ _ _ _ | Goodbye h _ | Index h _ _ _ _ | Table h _ => h
  end.

(* the type constant Next dispatches on for each element *)
Definition elem_type (e : elem) : N :=
  match e with
  | Entry _ _ _ _ _ _ _ => CaFormatEntry | User _ _ => CaFormatUser | Group _ _ => CaFormatGroup
  | XAttr _ _ => CaFormatXAttr | SELinux _ _ => CaFormatSELinux | Filename _ _ => CaFormatFilename
  | Symlink _ _ => CaFormatSymlink | Device _ _ _ => CaFormatDevice | Payload _ _ => CaFormatPayload
  | FCaps _ _ => CaFormatFCaps | ACLUser _ _ _ _ => CaFormatACLUser | ACLGroup _ _ _ _ => CaFormatACLGroup
  | ACLGroupObj _ _ => CaFormatACLGroupObj | ACLDefault _ _ _ _ _ => CaFormatACLDefault
  | Goodbye _ _ => CaFormatGoodbye | Index _ _ _ _ _ => CaFormatIndex | Table _ _ => CaFormatTable
  end.

(* ---------- FormatDecoder ---------- *)

(* FormatDecoder.readBody (Fixed); before the fix: make([]byte, hdr.Size-consumed) + ReadFull *)
Definition read_body (v : version) (hdr : header) (consumed min : N) : M bytes :=
  match v with
  | Fixed =>
      if (h_size hdr <? consumed) || (sub64 (h_size hdr) consumed <? min) then fail InvalidFormat
      else read_n Fixed (sub64 (h_size hdr) consumed)
  | PreFix => make_read_full (sub64 (h_size hdr) consumed)
  end.

(* b = b[:len(b)-1] *)
Definition strip_last (b : bytes) : M bytes :=
  match b with
  | [] => throw SliceBounds
  | _ => ret (removelast b)
  end.

(* a NUL-terminated string body *)
Definition read_string (v : version) (hdr : header) (consumed : N) : M bytes :=
  do b <- read_body v hdr consumed 1; strip_last b.

(* for i := 0; i < n; i++ { read 3 words; items = append(items, item) }
   Every iteration consumes 24 bytes, so the input length bounds the fuel. *)
Fixpoint goodbye_loop (fuel : nat) (n : N) (acc : list gitem) : M (list gitem) :=
  if n =? 0 then ret (rev acc)
  else match fuel with
       | O => fail OutOfFuel
       | S fuel' =>
           do o <- read_u64; do s <- read_u64; do h <- read_u64;
           do _ <- charge 24;
           goodbye_loop fuel' (N.pred n) ((o, s, h) :: acc)
       end.

(* items[len(items)-1].Hash, None for an empty list *)
Definition last_hash (items : list gitem) : option N :=
  match rev items with
  | [] => None
  | (_, _, h) :: _ => Some h
  end.

(* for { offset := ReadUint64(); if offset == 0 {break}; id := ReadID(); append } *)
Fixpoint table_loop (fuel : nat) (acc : list titem) : M (list titem) :=
  match fuel with
  | O => fail OutOfFuel
  | S fuel' =>
      do offset <- read_u64;
      if offset =? 0 then ret (rev acc)
      else do id <- read_id; do _ <- charge 40; table_loop fuel' ((offset, id) :: acc)
  end.

Definition with_input_fuel {A} (f : nat -> M A) : M A := fun s => f (S (length s)) s.

(* the switch of FormatDecoder.Next after the header was read *)
Definition next_body (v : version) (hdr : header) : M elem :=
  let t := h_type hdr in
  if t =? CaFormatEntry then
    if negb (h_size hdr =? 64) then fail InvalidFormat
    else do ff <- read_u64; do mode <- read_u64; do fl <- read_u64;
         do uid <- read_u64; do gid <- read_u64; do mtime <- read_u64;
         ret (Entry hdr ff mode fl uid gid mtime)
  else if t =? CaFormatUser then do b <- read_string v hdr 16; ret (User hdr b)
  else if t =? CaFormatGroup then do b <- read_string v hdr 16; ret (Group hdr b)
  else if t =? CaFormatXAttr then do b <- read_string v hdr 16; ret (XAttr hdr b)
  else if t =? CaFormatSELinux then do b <- read_string v hdr 16; ret (SELinux hdr b)
  else if t =? CaFormatFilename then do b <- read_string v hdr 16; ret (Filename hdr b)
  else if t =? CaFormatSymlink then do b <- read_string v hdr 16; ret (Symlink hdr b)
  else if t =? CaFormatDevice then
    if negb (h_size hdr =? 32) then fail InvalidFormat
    else do major <- read_u64; do minor <- read_u64; ret (Device hdr major minor)
  else if t =? CaFormatPayload then
    match v with
    | Fixed =>
        if (h_size hdr <? 16) || (MaxInt64 <? sub64 (h_size hdr) 16) then fail InvalidFormat
        else fun s => match take_upto (sub64 (h_size hdr) 16) s with
                      | (a, r) => (Ok (Payload hdr a), r, 0)
                      end
    | PreFix =>
        (* io.LimitReader(r, int64(size)): a negative limit reads nothing *)
        if MaxInt64 <? sub64 (h_size hdr) 16 then ret (Payload hdr [])
        else fun s => match take_upto (sub64 (h_size hdr) 16) s with
                      | (a, r) => (Ok (Payload hdr a), r, 0)
                      end
    end
  else if t =? CaFormatFCaps then do b <- read_body v hdr 16 0; ret (FCaps hdr b)
  else if t =? CaFormatACLUser then
    do uid <- read_u64; do perm <- read_u64; do b <- read_string v hdr 32; ret (ACLUser hdr uid perm b)
  else if t =? CaFormatACLGroup then
    do gid <- read_u64; do perm <- read_u64; do b <- read_string v hdr 32; ret (ACLGroup hdr gid perm b)
  else if t =? CaFormatACLGroupObj then do perm <- read_u64; ret (ACLGroupObj hdr perm)
  else if t =? CaFormatACLDefault then
    do u <- read_u64; do g <- read_u64; do o <- read_u64; do m <- read_u64; ret (ACLDefault hdr u g o m)
  else if t =? CaFormatGoodbye then
    match v with
    | Fixed =>
        if h_size hdr <? 16 then fail InvalidFormat
        else
          do items <- with_input_fuel (fun fuel => goodbye_loop fuel (sub64 (h_size hdr) 16 / 24) []);
          match last_hash items with
          | Some h => if h =? CaFormatGoodbyeTailMarker then ret (Goodbye hdr items) else fail InvalidFormat
          | None => fail InvalidFormat
          end
    | PreFix =>
        (* items := make([]FormatGoodbyeItem, n) up front, filled in place *)
        let n := sub64 (h_size hdr) 16 / 24 in
        if maxAlloc <? 24 * n then throw MakeSliceLen
        else
          do _ <- charge (24 * n);
          do items <- with_input_fuel (fun fuel => goodbye_loop fuel n []);
          match last_hash items with
          | Some h => if h =? CaFormatGoodbyeTailMarker then ret (Goodbye hdr items) else fail InvalidFormat
          | None => fail InvalidFormat
          end
    end
  else if t =? CaFormatIndex then
    do ff <- read_u64; do mn <- read_u64; do av <- read_u64; do mx <- read_u64; ret (Index hdr ff mn av mx)
  else if t =? CaFormatTable then
    if negb (h_size hdr =? MaxUint64) then fail InvalidFormat
    else
      do items <- with_input_fuel (fun fuel => table_loop fuel []);
      do fill2 <- read_u64;
      if negb (fill2 =? 0) then fail InvalidFormat
      else do _ <- read_u64;        (* index offset: not checked *)
           do _ <- read_u64;        (* table size: not checked *)
           do marker <- read_u64;
           if negb (marker =? CaFormatTableTailMarker) then fail InvalidFormat
           else ret (Table hdr items)
  else fail Unsupported.

(* FormatDecoder.Next.  None = (nil, nil): the end of the stream. *)
Definition next (v : version) : M (option elem) :=
  do oh <- read_header;
  match oh with
  | None => ret None
  | Some hdr => do e <- next_body v hdr; ret (Some e)
  end.

(* for { e, err := d.Next(); if err != nil {return err}; if e == nil {break}; append } *)
Fixpoint all_loop (v : version) (fuel : nat) (acc : list elem) : M (list elem) :=
  match fuel with
  | O => fail OutOfFuel
  | S fuel' =>
      do oe <- next v;
      match oe with
      | None => ret (rev acc)
      | Some e => all_loop v fuel' (e :: acc)
      end
  end.

Definition decode_all (v : version) : M (list elem) := with_input_fuel (fun fuel => all_loop v fuel []).

(* ---------- plain-result wrappers ---------- *)

Definition run_result {A} (m : M A) (b : bytes) : result (A * bytes) :=
  match m b with
  | (Ok x, r, _) => Ok (x, r)
  | (Err e, _, _) => Err e
  | (Panic p, _, _) => Panic p
  end.
Definition run_alloc {A} (m : M A) (b : bytes) : N := snd (m b).

(* what C19 asks of a decoder run: it returns or reports an error -- no panic,
   and the model's fuel was enough *)
Definition survives {A} (r : result A) : Prop :=
  match r with
  | Ok _ => True
  | Err e => e <> OutOfFuel
  | Panic _ => False
  end.

(* FormatDecoder.Next on the bytes [b]: the element (None at the end of the
   stream) and the bytes left for the following call. *)
Definition decode_next (b : bytes) : result (option elem * bytes) := run_result (next Fixed) b.
Definition decode_next_alloc (b : bytes) : N := run_alloc (next Fixed) b.
Definition decode_elems (b : bytes) : result (list elem * bytes) := run_result (decode_all Fixed) b.
Definition decode_elems_alloc (b : bytes) : N := run_alloc (decode_all Fixed) b.

(* ---------- FormatEncoder.Encode ---------- *)

Definition enc_gitem (i : gitem) : bytes :=
  match i with (o, s, h) => le64s [o; s; h] end.
Definition enc_titem (i : titem) : bytes :=
  match i with (o, id) => le64 o ++ id end.

(* bytes written by the item loop of the FormatTable case: n counts them *)
Definition enc_titems (items : list titem) : bytes := flat_map enc_titem items.

Definition encode_elem (e : elem) : bytes :=
  match e with
  | Entry h ff mode fl uid gid mtime => le64s [h_size h; h_type h; ff; mode; fl; uid; gid; mtime]
  | User h s | Group h s | XAttr h s | SELinux h s | Filename h s | Symlink h s =>
      le64s [h_size h; h_type h] ++ s ++ [0]
  | Device h major minor => le64s [h_size h; h_type h; major; minor]
  | Payload h data => le64s [h_size h; h_type h] ++ data
  | FCaps h data => le64s [h_size h; h_type h] ++ data
  | ACLUser h id perm name | ACLGroup h id perm name => le64s [h_size h; h_type h; id; perm] ++ name ++ [0]
  | ACLGroupObj h perm => le64s [h_size h; h_type h; perm]
  | ACLDefault h u g o m => le64s [h_size h; h_type h; u; g; o; m]
  | Goodbye h items => le64s [h_size h; h_type h] ++ flat_map enc_gitem items
  | Index h ff mn av mx => le64s [h_size h; h_type h; ff; mn; av; mx]
  | Table h items =>
      let body := le64s [h_size h; h_type h] ++ enc_titems items in
      (* tail record: zero fill 1, zero fill 2, index offset, uint64(n+40), marker *)
      body ++ le64s [0; 0; 48; lenN body + 40; CaFormatTableTailMarker]
  end.

Definition encode_elems (es : list elem) : bytes := flat_map encode_elem es.

(* ---------- elements the encoder is meant to be given ----------
   [wf_elem e]: the header carries the element's type constant and the size of
   its encoding (where Next checks or uses the size), every word fits 64 bits,
   goodbye lists end in the tail marker, table offsets are non-zero (0 is the
   table terminator) and ids have 32 bytes.  ACLGroupObj, ACLDefault and Index
   may carry any size: Next does not look at it. *)
Definition w64 (x : N) : Prop := x < two64.

Definition wf_gitem (i : gitem) : Prop := match i with (o, s, h) => w64 o /\ w64 s /\ w64 h end.
Definition wf_titem (i : titem) : Prop := match i with (o, id) => w64 o /\ o <> 0 /\ length id = 32%nat end.

Definition wf_string (h : header) (typ consumed : N) (s : bytes) : Prop :=
  h = mkHeader (consumed + lenN s + 1) typ /\ lenN s + 1 <= MaxInt64.

Definition wf_elem (e : elem) : Prop :=
  match e with
  | Entry h ff mode fl uid gid mtime =>
      h = mkHeader 64 CaFormatEntry /\ w64 ff /\ w64 mode /\ w64 fl /\ w64 uid /\ w64 gid /\ w64 mtime
  | User h s => wf_string h CaFormatUser 16 s
  | Group h s => wf_string h CaFormatGroup 16 s
  | XAttr h s => wf_string h CaFormatXAttr 16 s
  | SELinux h s => wf_string h CaFormatSELinux 16 s
  | Filename h s => wf_string h CaFormatFilename 16 s
  | Symlink h s => wf_string h CaFormatSymlink 16 s
  | Device h major minor => h = mkHeader 32 CaFormatDevice /\ w64 major /\ w64 minor
  | Payload h data => h = mkHeader (16 + lenN data) CaFormatPayload /\ lenN data <= MaxInt64
  | FCaps h data => h = mkHeader (16 + lenN data) CaFormatFCaps /\ lenN data <= MaxInt64
  | ACLUser h id perm name => wf_string h CaFormatACLUser 32 name /\ w64 id /\ w64 perm
  | ACLGroup h id perm name => wf_string h CaFormatACLGroup 32 name /\ w64 id /\ w64 perm
  | ACLGroupObj h perm => h_type h = CaFormatACLGroupObj /\ w64 (h_size h) /\ w64 perm
  | ACLDefault h u g o m =>
      h_type h = CaFormatACLDefault /\ w64 (h_size h) /\ w64 u /\ w64 g /\ w64 o /\ w64 m
  | Goodbye h items =>
      h = mkHeader (16 + 24 * N.of_nat (length items)) CaFormatGoodbye /\
      16 + 24 * N.of_nat (length items) < two64 /\
      Forall wf_gitem items /\ last_hash items = Some CaFormatGoodbyeTailMarker
  | Index h ff mn av mx =>
      h_type h = CaFormatIndex /\ w64 (h_size h) /\ w64 ff /\ w64 mn /\ w64 av /\ w64 mx
  | Table h items => h = mkHeader MaxUint64 CaFormatTable /\ Forall wf_titem items
  end.
