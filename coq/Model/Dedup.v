(* C12 -- DedupQueue (dedupqueue.go) and WriteDedupQueue (writededupqueue.go) as a
   transition system over Base/Sched.v.

   One thread per caller.  The atomic steps are the ones between which another
   goroutine can observe a difference: queue.loadOrStore (under the queue mutex), the
   peek of the store queue in WriteDedupQueue.GetChunk (under the same mutex), the
   start of the upstream call, its return, request.markDone (result published, then
   [done] closed), queue.delete, and the follower's receive from the closed [done]
   channel.  The upstream store is an oracle [up : nat -> uout] indexed by the
   number of the upstream call; since an upstream call's start and return are separate
   steps, upstream calls complete in any order the schedule chooses.

   Ghost state (never read by the protocol): a logical clock, per caller its start /
   return times and the record it obtained, per record its registration / removal
   times and its leader, and the log of upstream calls with their call / return times. *)
From Coq Require Import List Arith Bool.
Import ListNotations.

Definition id := nat.
Definition tag := nat.

Inductive kind := QGet | QHas | QStore.          (* getChunkQueue | hasChunkQueue | storeChunkQueue *)

(* what a caller invokes *)
Inductive opk :=
| CGet                (* DedupQueue.GetChunk *)
| CHas                (* DedupQueue.HasChunk (= WriteDedupQueue.HasChunk) *)
| CStore (t : tag)    (* WriteDedupQueue.StoreChunk of a chunk holding data copy [t] *)
| CWGet.              (* WriteDedupQueue.GetChunk *)

Record call := { c_op : opk; c_id : id }.

Definition kind_of (o : opk) : kind :=
  match o with CGet | CWGet => QGet | CHas => QHas | CStore _ => QStore end.

Inductive errc := XNil | XMissing | XErr (n : nat).   (* nil | ChunkMissing | the error of upstream call n *)
Inductive value := VNil | VChunk (t : tag) | VBool (b : bool).   (* request.data *)
Definition result := (value * errc)%type.

Inductive uout := UOk (t : tag) | UMissing | UFail.    (* what the upstream store does with a call *)

(* the (data, err) pair the leader passes to markDone after upstream call [n] answered [o] *)
Definition interp (k : kind) (stored : tag) (n : nat) (o : uout) : result :=
  match k, o with
  | QGet, UOk t => (VChunk t, XNil)
  | QGet, UMissing => (VNil, XMissing)
  | QGet, UFail => (VNil, XErr n)
  | QHas, UOk _ => (VBool true, XNil)
  | QHas, UMissing => (VBool false, XNil)
  | QHas, UFail => (VBool false, XErr n)
  | QStore, UFail => (VChunk stored, XErr n)
  | QStore, _ => (VChunk stored, XNil)
  end.

Definition stored_tag (o : opk) : tag := match o with CStore t => t | _ => 0 end.

(* what the caller hands back from a request's (data, err): StoreChunk returns only the error *)
Definition project (o : opk) (r : result) : result :=
  match o with CStore _ => (VNil, snd r) | _ => r end.

Inductive pc :=
| PStart                          (* not called yet *)
| PPeeked                         (* WriteDedupQueue.GetChunk: nothing in the store queue; about to enter DedupQueue.GetChunk *)
| PWait (r : nat)                 (* follower of record r: before/inside req.wait() *)
| PLead (r : nat)                 (* leader of record r, before the upstream call *)
| PUp (r : nat) (n : nat)         (* upstream call n in flight *)
| PGot (r : nat) (res : result)   (* upstream returned; before markDone *)
| PMarked (r : nat) (res : result)(* after markDone; before queue.delete *)
| PDone (res : result).           (* returned *)

Record thread := {
  t_call : call;
  t_pc : pc;
  t_start : option nat;    (* ghost: time of the first step *)
  t_ret : option nat;      (* ghost: time of the return *)
  t_req : option nat;      (* ghost: the record obtained from loadOrStore / the peek *)
  t_obt : option nat;      (* ghost: when it was obtained *)
}.

Record req := {
  q_kind : kind; q_id : id;
  q_res : option result;   (* data, err *)
  q_done : bool;           (* done is closed *)
  q_leader : nat;          (* ghost *)
  q_reg : nat;             (* ghost: time of registration *)
  q_del : option nat;      (* ghost: time of removal from the queue *)
  q_up : option nat;       (* ghost: its upstream call *)
}.

Record ucall := {
  u_kind : kind; u_id : id; u_by : nat; u_req : nat;
  u_call : nat; u_ret : option nat;
}.

Record state := {
  queue : list (kind * id * nat);   (* the three [requests] maps: (kind, id) -> record *)
  reqs : list req;
  thr : list thread;
  ups : list ucall;                 (* upstream calls, by call number *)
  clock : nat;
}.

Definition kind_eqb (a b : kind) : bool :=
  match a, b with QGet, QGet | QHas, QHas | QStore, QStore => true | _, _ => false end.

Definition key_eqb (k : kind) (i : id) (e : kind * id * nat) : bool :=
  kind_eqb (fst (fst e)) k && Nat.eqb (snd (fst e)) i.

Fixpoint qfind (q : list (kind * id * nat)) (k : kind) (i : id) : option nat :=
  match q with
  | [] => None
  | e :: r => if key_eqb k i e then Some (snd e) else qfind r k i
  end.

Definition qdel (q : list (kind * id * nat)) (k : kind) (i : id) : list (kind * id * nat) :=
  filter (fun e => negb (key_eqb k i e)) q.

Fixpoint upd {A} (l : list A) (i : nat) (x : A) : list A :=
  match l, i with
  | [], _ => []
  | _ :: r, 0 => x :: r
  | y :: r, S i => y :: upd r i x
  end.

Definition set_pc (t : thread) (p : pc) (now : nat) : thread :=
  {| t_call := t_call t; t_pc := p;
     t_start := match t_start t with Some s => Some s | None => Some now end;
     t_ret := match p with PDone _ => Some now | _ => t_ret t end;
     t_req := t_req t; t_obt := t_obt t |}.

Definition set_obt (t : thread) (r : nat) (now : nat) : thread :=
  {| t_call := t_call t; t_pc := t_pc t; t_start := t_start t; t_ret := t_ret t;
     t_req := Some r; t_obt := Some now |}.

Definition with_thr (s : state) (i : nat) (t : thread) : state :=
  {| queue := queue s; reqs := reqs s; thr := upd (thr s) i t; ups := ups s; clock := S (clock s) |}.

Section Step.
  Variable up : nat -> uout.     (* the upstream store: outcome of its n-th call *)

  (* queue.loadOrStore(id) by thread [i] *)
  Definition load_or_store (s : state) (i : nat) (t : thread) : state :=
    let k := kind_of (c_op (t_call t)) in
    let d := c_id (t_call t) in
    match qfind (queue s) k d with
    | Some r => with_thr s i (set_pc (set_obt t r (clock s)) (PWait r) (clock s))
    | None =>
        let r := length (reqs s) in
        {| queue := (k, d, r) :: queue s;
           reqs := reqs s ++ [{| q_kind := k; q_id := d; q_res := None; q_done := false;
                                 q_leader := i; q_reg := clock s; q_del := None; q_up := None |}];
           thr := upd (thr s) i (set_pc (set_obt t r (clock s)) (PLead r) (clock s));
           ups := ups s; clock := S (clock s) |}
    end.

  Definition step (s : state) (i : nat) : option state :=
    match nth_error (thr s) i with
    | None => None
    | Some t =>
        let now := clock s in
        let op := c_op (t_call t) in
        let k := kind_of op in
        let d := c_id (t_call t) in
        match t_pc t with
        | PStart =>
            match op with
            | CWGet =>      (* peek q.storeChunkQueue.requests[id] under its mutex *)
                match qfind (queue s) QStore d with
                | Some r => Some (with_thr s i (set_pc (set_obt t r now) (PWait r) now))
                | None => Some (with_thr s i (set_pc t PPeeked now))
                end
            | _ => Some (load_or_store s i t)
            end
        | PPeeked => Some (load_or_store s i t)
        | PWait r =>       (* <-r.done; return r.data, r.err *)
            match nth_error (reqs s) r with
            | Some q => if q_done q
                        then match q_res q with
                             | Some res => Some (with_thr s i (set_pc t (PDone (project op res)) now))
                             | None => None
                             end
                        else None
            | None => None
            end
        | PLead r =>       (* q.store.GetChunk / HasChunk / q.S.StoreChunk is entered *)
            let n := length (ups s) in
            Some {| queue := queue s;
                    reqs := match nth_error (reqs s) r with
                            | Some q => upd (reqs s) r {| q_kind := q_kind q; q_id := q_id q; q_res := q_res q; q_done := q_done q;
                                                          q_leader := q_leader q; q_reg := q_reg q; q_del := q_del q; q_up := Some n |}
                            | None => reqs s
                            end;
                    thr := upd (thr s) i (set_pc t (PUp r n) now);
                    ups := ups s ++ [{| u_kind := k; u_id := d; u_by := i; u_req := r; u_call := now; u_ret := None |}];
                    clock := S now |}
        | PUp r n =>       (* the upstream call returns *)
            Some {| queue := queue s; reqs := reqs s;
                    thr := upd (thr s) i (set_pc t (PGot r (interp k (stored_tag op) n (up n))) now);
                    ups := match nth_error (ups s) n with
                           | Some u => upd (ups s) n {| u_kind := u_kind u; u_id := u_id u; u_by := u_by u; u_req := u_req u;
                                                        u_call := u_call u; u_ret := Some now |}
                           | None => ups s
                           end;
                    clock := S now |}
        | PGot r res =>    (* req.markDone(data, err): publish, then close(done) *)
            Some {| queue := queue s;
                    reqs := match nth_error (reqs s) r with
                            | Some q => upd (reqs s) r {| q_kind := q_kind q; q_id := q_id q; q_res := Some res; q_done := true;
                                                          q_leader := q_leader q; q_reg := q_reg q; q_del := q_del q; q_up := q_up q |}
                            | None => reqs s
                            end;
                    thr := upd (thr s) i (set_pc t (PMarked r res) now);
                    ups := ups s; clock := S now |}
        | PMarked r res => (* queue.delete(id); return *)
            Some {| queue := qdel (queue s) k d;
                    reqs := match nth_error (reqs s) r with
                            | Some q => upd (reqs s) r {| q_kind := q_kind q; q_id := q_id q; q_res := q_res q; q_done := q_done q;
                                                          q_leader := q_leader q; q_reg := q_reg q; q_del := Some now; q_up := q_up q |}
                            | None => reqs s
                            end;
                    thr := upd (thr s) i (set_pc t (PDone (project op res)) now);
                    ups := ups s; clock := S now |}
        | PDone _ => None
        end
    end.
End Step.

Definition init_thread (c : call) : thread :=
  {| t_call := c; t_pc := PStart; t_start := None; t_ret := None; t_req := None; t_obt := None |}.

Definition init (calls : list call) : state :=
  {| queue := []; reqs := []; thr := map init_thread calls; ups := []; clock := 0 |}.

Definition is_done (t : thread) : bool := match t_pc t with PDone _ => true | _ => false end.
Definition final (s : state) : bool := forallb is_done (thr s).

Definition answer (s : state) (i : nat) : option result :=
  match nth_error (thr s) i with
  | Some t => match t_pc t with PDone r => Some r | _ => None end
  | None => None
  end.

(* number of upstream calls of (k, d) that are between call and return *)
Definition in_flight (s : state) (k : kind) (d : id) : nat :=
  length (filter (fun u => kind_eqb (u_kind u) k && Nat.eqb (u_id u) d &&
                           match u_ret u with None => true | Some _ => false end) (ups s)).
