(* C11, concurrent layer: FailoverGroup (failover.go) and SwapStore (swapstore.go) as
   transition systems over Base/Sched.v.  Any number of concurrent requests: the thread
   pool is [nat], every thread starts a request when first scheduled. *)
From Coq Require Import List Arith Bool.
Import ListNotations.

Definition updf {A} (f : nat -> A) (t : nat) (x : A) : nat -> A :=
  fun u => if Nat.eqb u t then x else f u.

(* ---------- FailoverGroup.GetChunk / HasChunk ---------- *)

(* what a member call produces: an answer the group hands back as it is (a chunk, ChunkMissing for
   GetChunk, a boolean for HasChunk), or a failure that makes the group fail over *)
Inductive ans := AVal (v : nat) | AFail.

Inductive fpc :=
| F0 (k : nat)          (* loop head, k attempts made *)
| F1 (a k : nat)        (* s, active := g.current() returned member a; verifYield; about to call it *)
| F2 (a k : nat)        (* the call on a failed; about to g.errorFrom(a) *)
| FDone (r : option nat). (* returned: Some v = an answer, None = the error of the last attempt *)

Record fthread := { f_pc : fpc; f_tried : list nat (* ghost: members called, newest first *) }.
Record fstate := { f_active : nat; f_thr : nat -> fthread }.

Section Failover.
  Variable n : nat.                          (* len(g.stores) *)
  Variable resp : nat -> nat -> nat -> ans.  (* request, attempt, member: arbitrary fault oracle *)

  Definition fstep (s : fstate) (t : nat) : option fstate :=
    let th := f_thr s t in
    match f_pc th with
    | F0 k =>
        if Nat.eqb k n
        then Some {| f_active := f_active s; f_thr := updf (f_thr s) t {| f_pc := FDone None; f_tried := f_tried th |} |}
        else (* current(): read stores[active], active under the read lock *)
             Some {| f_active := f_active s; f_thr := updf (f_thr s) t {| f_pc := F1 (f_active s) k; f_tried := f_tried th |} |}
    | F1 a k =>   (* the member call *)
        match resp t k a with
        | AVal v => Some {| f_active := f_active s; f_thr := updf (f_thr s) t {| f_pc := FDone (Some v); f_tried := a :: f_tried th |} |}
        | AFail => Some {| f_active := f_active s; f_thr := updf (f_thr s) t {| f_pc := F2 a k; f_tried := a :: f_tried th |} |}
        end
    | F2 a k =>   (* errorFrom(a) under the write lock: only the request that saw the ACTIVE member fail advances it *)
        Some {| f_active := if Nat.eqb (f_active s) a then (a + 1) mod n else f_active s;
                f_thr := updf (f_thr s) t {| f_pc := F0 (S k); f_tried := f_tried th |} |}
    | FDone _ => None
    end.

  (* the same system with an errorFrom that does NOT ignore a report about a store that is no longer the active one
     but always moves on from the reporting store: g.active = (i + 1) % len(g.stores)   (used only to show that the
     [i != g.active] test matters) *)
  Definition fstep_stale (s : fstate) (t : nat) : option fstate :=
    let th := f_thr s t in
    match f_pc th with
    | F2 a k => Some {| f_active := (a + 1) mod n;
                        f_thr := updf (f_thr s) t {| f_pc := F0 (S k); f_tried := f_tried th |} |}
    | _ => fstep s t
    end.

  Definition finit (a0 : nat) : fstate := {| f_active := a0; f_thr := fun _ => {| f_pc := F0 0; f_tried := [] |} |}.
End Failover.

(* ---------- SwapStore ---------- *)

(* Stores are numbered by generation: generation g is the g-th store ever installed.  A request holds the
   read lock for its whole duration and makes [ncalls] calls into the store it finds installed; Swap takes
   the write lock, closes the installed store, installs a fresh one, unlocks.
   sync.RWMutex: RLock succeeds when no writer holds the lock; Lock succeeds when nobody holds it.  (Go also
   blocks new readers while a writer is waiting; that only removes schedules.) *)
Inductive spc :=
| Q0                      (* request: before RLock *)
| Q1 (g : nat) (j : nat)  (* request: holds the read lock, has read s.s = generation g, j member calls left *)
| Q2                      (* request: before RUnlock (deferred) *)
| W0                      (* swap: before Lock *)
| W1                      (* swap: holds the write lock; about to s.s.Close() *)
| W2                      (* swap: old store closed; about to s.s = new *)
| W3                      (* swap: before Unlock (deferred) *)
| SDone.

Record scall := { sc_tid : nat; sc_gen : nat; sc_closed : bool; sc_lockgen : nat }.

Record sstate := {
  s_cur : nat;                 (* generation installed *)
  s_next : nat;                (* next fresh generation *)
  s_closed : nat -> bool;
  s_readers : list nat;        (* threads holding the read lock *)
  s_writer : option nat;       (* thread holding the write lock *)
  s_pc : nat -> spc;
  s_lockgen : nat -> nat;      (* ghost: generation installed when the thread took the read lock *)
  s_log : list scall;          (* ghost: member calls *)
}.

Section Swap.
  Variable is_swap : nat -> bool.   (* thread t is a Swap call (else a GetChunk/HasChunk/StoreChunk request) *)
  Variable ncalls : nat -> nat.     (* member calls request t makes *)

  Definition set_spc (s : sstate) (t : nat) (p : spc) : nat -> spc := updf (s_pc s) t p.

  Definition sstep (s : sstate) (t : nat) : option sstate :=
    match s_pc s t with
    | Q0 =>   (* s.mu.RLock(); read s.s *)
        match s_writer s with
        | Some _ => None
        | None => Some {| s_cur := s_cur s; s_next := s_next s; s_closed := s_closed s;
                          s_readers := t :: s_readers s; s_writer := None;
                          s_pc := set_spc s t (Q1 (s_cur s) (ncalls t));
                          s_lockgen := updf (s_lockgen s) t (s_cur s); s_log := s_log s |}
        end
    | Q1 g (S j) =>   (* a call reaches the store *)
        Some {| s_cur := s_cur s; s_next := s_next s; s_closed := s_closed s;
                s_readers := s_readers s; s_writer := s_writer s;
                s_pc := set_spc s t (Q1 g j); s_lockgen := s_lockgen s;
                s_log := {| sc_tid := t; sc_gen := g; sc_closed := s_closed s g; sc_lockgen := s_lockgen s t |} :: s_log s |}
    | Q1 g 0 => Some {| s_cur := s_cur s; s_next := s_next s; s_closed := s_closed s;
                        s_readers := s_readers s; s_writer := s_writer s;
                        s_pc := set_spc s t Q2; s_lockgen := s_lockgen s; s_log := s_log s |}
    | Q2 =>   (* RUnlock *)
        Some {| s_cur := s_cur s; s_next := s_next s; s_closed := s_closed s;
                s_readers := filter (fun u => negb (Nat.eqb u t)) (s_readers s); s_writer := s_writer s;
                s_pc := set_spc s t SDone; s_lockgen := s_lockgen s; s_log := s_log s |}
    | W0 =>   (* s.mu.Lock() *)
        match s_writer s, s_readers s with
        | None, [] => Some {| s_cur := s_cur s; s_next := s_next s; s_closed := s_closed s;
                              s_readers := []; s_writer := Some t;
                              s_pc := set_spc s t W1; s_lockgen := s_lockgen s; s_log := s_log s |}
        | _, _ => None
        end
    | W1 =>   (* s.s.Close() *)
        Some {| s_cur := s_cur s; s_next := s_next s; s_closed := updf (s_closed s) (s_cur s) true;
                s_readers := s_readers s; s_writer := s_writer s;
                s_pc := set_spc s t W2; s_lockgen := s_lockgen s; s_log := s_log s |}
    | W2 =>   (* s.s = new *)
        Some {| s_cur := s_next s; s_next := S (s_next s); s_closed := s_closed s;
                s_readers := s_readers s; s_writer := s_writer s;
                s_pc := set_spc s t W3; s_lockgen := s_lockgen s; s_log := s_log s |}
    | W3 =>   (* Unlock *)
        Some {| s_cur := s_cur s; s_next := s_next s; s_closed := s_closed s;
                s_readers := s_readers s; s_writer := None;
                s_pc := set_spc s t SDone; s_lockgen := s_lockgen s; s_log := s_log s |}
    | SDone => None
    end.

  Definition sinit : sstate :=
    {| s_cur := 0; s_next := 1; s_closed := fun _ => false; s_readers := []; s_writer := None;
       s_pc := fun t => if is_swap t then W0 else Q0; s_lockgen := fun _ => 0; s_log := [] |}.

  (* the same system with Swap NOT taking the write lock (used only to show that the lock matters) *)
  Definition sstep_nolock (s : sstate) (t : nat) : option sstate :=
    match s_pc s t with
    | W0 => Some {| s_cur := s_cur s; s_next := s_next s; s_closed := s_closed s;
                    s_readers := s_readers s; s_writer := s_writer s;
                    s_pc := set_spc s t W1; s_lockgen := s_lockgen s; s_log := s_log s |}
    | W3 => Some {| s_cur := s_cur s; s_next := s_next s; s_closed := s_closed s;
                    s_readers := s_readers s; s_writer := s_writer s;
                    s_pc := set_spc s t SDone; s_lockgen := s_lockgen s; s_log := s_log s |}
    | _ => sstep s t
    end.
End Swap.
