(* index.go: Index.WriteTo onto a writer that can fail.

   Go                                          here
   -----------------------------------------   ------------------------------------------
   io.Writer that accepts k more bytes, then    wsink (ws_cap, ws_data); ws_write: a write that does
   short write + error (ENOSPC, EIO, EPIPE)     not fit is accepted up to the capacity and fails;
                                                nothing is accepted afterwards
   bw := bufio.NewWriter(w) (4096 bytes);       the encoding reaches w in 4096-byte blocks while the
   d.Encode(index); d.Encode(table)             two Encode calls run ([early]); a failing block write
                                                makes bufio.Writer sticky and the Encode in progress
                                                returns the error
   if err := bw.Flush(); err != nil {return}    what is still buffered -- for an index of up to 99
                                                chunks: everything -- is written by the final Flush
                                                ([last]); WriteTo returns its error
   FlushDeferred is WriteTo with the flush written as `defer bw.Flush()`: the flush error is lost. *)
From Coq Require Import List NArith Bool.
From DS Require Import Base.Bytes Base.LE64 Model.Format Model.Index.
Import ListNotations.
Local Open Scope N_scope.

Record wsink := mkWSink { ws_cap : N; ws_data : bytes }.

(* Write(p): (sink afterwards, err == nil) *)
Definition ws_write (s : wsink) (p : bytes) : wsink * bool :=
  if lenN p <=? ws_cap s then (mkWSink (ws_cap s - lenN p) (ws_data s ++ p), true)
  else (mkWSink 0 (ws_data s ++ firstn (N.to_nat (ws_cap s)) p), false).

Inductive flush_variant := FlushChecked | FlushDeferred.

Definition bufio_size : N := 4096.

(* number of bytes bufio hands to the writer before the final Flush: whole blocks, and never the
   last byte (a full buffer is only written when more data arrives) *)
Definition early_len (n : N) : nat :=
  if n =? 0 then O else N.to_nat (bufio_size * ((n - 1) / bufio_size)).

(* Index.WriteTo(w): (writer afterwards, n, err == nil).  n is only meaningful on success. *)
Definition write_to (v : flush_variant) (i : index) (s : wsink) : wsink * N * bool :=
  let b := encode_index i in
  let k := early_len (lenN b) in
  match ws_write s (firstn k b) with
  | (s1, false) => (s1, 0, false)                       (* an Encode returned the error *)
  | (s1, true) =>
      match ws_write s1 (skipn k b) with                (* bw.Flush() *)
      | (s2, true) => (s2, lenN b, true)
      | (s2, false) => (s2, lenN b, match v with FlushChecked => false | FlushDeferred => true end)
      end
  end.
Definition index_write_to := write_to FlushChecked.
