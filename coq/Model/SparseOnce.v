(* The loader as it was BEFORE the commit "fix: sparse file loader retries a chunk after a failed load":
   loadChunk(i) ran under chunks[i].once (sync.Once).  Once.Do runs its function at most once, whatever the outcome;
   every later caller returns immediately, and with it loadChunk returned its own (nil) loadErr.
   Only the difference to Model/Sparse.v is written here: a wrapper around [step] that keeps the consumed flags. *)
From Coq Require Import List NArith ZArith Arith Bool.
From DS Require Import Base.Bytes Base.Hash Model.ReadSeeker Model.Sparse.
Import ListNotations.

Section Once.
  Variable idx : index.
  Variable nullid : id.
  Variable store : store_t.

  (* state: the loader and, per chunk, whether once.Do has been entered *)
  Definition ostate := (sstate * list bool)%type.

  Definition step_once (os : ostate) (l : label) : option ostate :=
    let '(s, once) := os in
    match l with
    | LThread k =>
        match nth_error (s_threads s) k with
        | Some (mkthread (rq :: q) (Some (PNeed (i :: todo)))) =>
            if nth i once false then                 (* once already consumed: Do returns, loadErr is nil *)
              Some (set_pc s k (mkthread (rq :: q) (Some (PNeed (i :: todo)))) (PNeed todo), once)
            else
              match step idx nullid store s l with   (* first caller: runs the function (lock = Once's internal mutex) *)
              | Some s' => Some (s', if nth i (s_done s) false then once else set_nth once i true)
              | None => None
              end
        | _ => match step idx nullid store s l with Some s' => Some (s', once) | None => None end
        end
    | LRestart _ =>
        match step idx nullid store s l with Some s' => Some (s', repeat false (length idx)) | None => None end
    | _ => match step idx nullid store s l with Some s' => Some (s', once) | None => None end
    end.

  Definition init_once : ostate := (init idx, repeat false (length idx)).
End Once.
