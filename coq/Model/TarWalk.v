(* How tar() finds the tree in the flat stream of files the disk source hands it.

   Go                                         here
   ----------------------------------------   -------------------------------------------
   filepath.Walk(fs.Root, ..): the root path  walk v w name t: the node at walk path w, then its
   verbatim, children filepath.Join(path,     children in order at join [w; name], depth first
   name), depth first
   LocalFS.Next: File{Name: info.Name(),      event = (File.Path, File.Name, the node without its
     Path: path.Clean(entry.path), ..}        children); file_path PathClean.  PathRaw is
                                              `Path: entry.path` (no Clean): kept to state what
                                              the Clean is for
   tar(): the directory case                  regroup / group: "if !(path.Dir(f.Path) == dir)
     for { f := fs.Next(); if path.Dir(       { fs.Buffer(f); break }", name := path.Base(f.Name),
     f.Path) != dir { fs.Buffer(f); break }   recursion on the child
     .. tar(ctx, enc, fs, f) .. }
   io.EOF from fs.Next()                      the end of the event list

   Model/Tar.v starts from the tree; this file shows when the tree that tar() sees is the tree
   that was walked.  path.Clean / Dir / Join / Base are the models of Base/GoPath.v. *)
From Coq Require Import List NArith Bool.
From DS Require Import Base.Bytes Base.GoPath Model.Tar.
Import ListNotations.

Inductive path_variant := PathClean | PathRaw.
Definition file_path (v : path_variant) (w : bytes) : bytes :=
  match v with PathClean => clean w | PathRaw => w end.

Definition event := (bytes * bytes * node)%type.

Definition head_of (t : node) : node :=
  match t with NDir m xs _ => NDir m xs [] | _ => t end.

Fixpoint walk (v : path_variant) (w name : bytes) (t : node) : list event :=
  (file_path v w, name, head_of t) ::
  match t with
  | NDir _ _ cs => flat_map (fun nc : bytes * node => walk v (join [w; fst nc]) (fst nc) (snd nc)) cs
  | _ => []
  end.

(* tar(ctx, enc, fs, f) on the first event, and the loop of its directory case; the result is the
   tree tar() encodes and the events it leaves (one buffered event at most is looked at twice) *)
Fixpoint regroup (fuel : nat) (evs : list event) : option (node * list event) :=
  match fuel with
  | O => None
  | S f =>
    match evs with
    | [] => None
    | (p, _, h) :: rest =>
        match h with
        | NDir m xs _ =>
            match group f p rest [] with
            | Some (cs, rest') => Some (NDir m xs cs, rest')
            | None => None
            end
        | _ => Some (h, rest)
        end
    end
  end
with group (fuel : nat) (dirp : bytes) (evs : list event) (acc : list (bytes * node))
     : option (list (bytes * node) * list event) :=
  match fuel with
  | O => None
  | S f =>
    match evs with
    | [] => Some (acc, [])                                   (* io.EOF: break *)
    | (p, name, _) :: _ =>
        if beq (dir p) dirp then
          match regroup f evs with
          | Some (c, rest') => group f dirp rest' (acc ++ [(base name, c)])
          | None => None
          end
        else Some (acc, evs)                                 (* fs.Buffer(f); break *)
    end
  end.

(* Tar(): the tree encoded for the walk of t rooted at the path w, and the files never looked at *)
Definition tar_sees (v : path_variant) (w : bytes) (t : node) : option (node * list event) :=
  let evs := walk v w (base w) t in regroup (2 * length evs + 2) evs.
