(* remotehttpindex.go / remotehttp.go: RemoteHTTPIndex.StoreIndex = StoreObject(name, getReader) with
   IssueRetryableHttpRequest: up to max(1, ErrorRetry) PUT attempts, each with the body getReader()
   returns; an attempt that ends in a transport error or a 5xx is retried, any other answer ends the
   loop; StoreObject reports success iff the final answer is 200/201.

   The server is a script of what happens to the successive attempts ([AFail]: 5xx / connection reset,
   nothing stored; [AServe]: the request reaches the backend) followed by a healthy server; a backend
   stores the body it accepts (a plain object server accepts everything, desync's index handler what
   IndexFromReader accepts).  [FreshReader] is the code: getReader builds a new reader over the whole
   encoding for every attempt.  [SharedReader] returns the same reader again: after the first attempt
   it is at its end and a retry sends an empty body. *)
From Coq Require Import List NArith Bool.
From DS Require Import Base.Bytes Base.LE64 Model.Format Model.Index.
Import ListNotations.

Inductive attempt_outcome := AFail | AServe.
Inductive reader_variant := FreshReader | SharedReader.

(* Some obj: StoreIndex returned nil and the backend now holds obj; None: StoreIndex returned an error *)
Fixpoint put_retry (v : reader_variant) (accepts : bytes -> bool) (budget : nat) (script : list attempt_outcome)
                   (body : bytes) (sent_before : bool) : option bytes :=
  match budget with
  | O => None                                   (* attempt >= ErrorRetry: give up *)
  | S budget' =>
      let this_body := match v with
                       | FreshReader => body
                       | SharedReader => if sent_before then [] else body
                       end in
      match script with
      | AFail :: rest => put_retry v accepts budget' rest body true
      | _ => if accepts this_body then Some this_body else None      (* 200 / 4xx *)
      end
  end.

(* attempts IssueRetryableHttpRequest makes before giving up *)
Definition attempts_of (error_retry : nat) : nat := Nat.max 1 error_retry.

Definition remote_store_index (v : reader_variant) (accepts : bytes -> bool) (error_retry : nat)
                              (script : list attempt_outcome) (i : index) : option bytes :=
  put_retry v accepts (attempts_of error_retry) script (encode_index i) false.

(* number of attempts the script lets fail before one reaches the backend *)
Fixpoint leading_failures (script : list attempt_outcome) : nat :=
  match script with AFail :: rest => S (leading_failures rest) | _ => O end.
