(* selfseed.go: the self seed of AssembleFile.  Workers report finished segments with add(), in
   any order; the seed only offers rows below [written], the end of the contiguous run of
   reported segments that starts at row 0.

     add(segment):  cache[first] = last+1;
                    for { next, ok := cache[written]; if !ok break;
                          record rows written..next-1 in pos; delete(cache, written); written = next }
     getChunk(id):  pos[id][0]  -- the lowest recorded row with that id, or nil

   pos[id] is appended to in increasing row order, so pos[id][0] is the least row below [written]
   whose id is [id]; the state is therefore just (written, cache). *)
From Coq Require Import List NArith Arith Bool Lia.
From DS Require Import Base.Bytes Base.Hash.
Import ListNotations.

Record sstate := { ss_written : nat; ss_cache : list (nat * nat) }.   (* cache: first -> last+1 *)

Definition ss_init : sstate := {| ss_written := 0; ss_cache := [] |}.

Fixpoint cache_get (c : list (nat * nat)) (k : nat) : option nat :=
  match c with
  | [] => None
  | (k', v) :: r => if k' =? k then Some v else cache_get r k
  end.

Fixpoint cache_del (c : list (nat * nat)) (k : nat) : list (nat * nat) :=
  match c with
  | [] => []
  | (k', v) :: r => if k' =? k then cache_del r k else (k', v) :: cache_del r k
  end.

(* Go map assignment: replaces an existing binding *)
Definition cache_set (c : list (nat * nat)) (k v : nat) : list (nat * nat) := (k, v) :: cache_del c k.

Fixpoint advance (fuel : nat) (s : sstate) : sstate :=
  match fuel with
  | 0 => s
  | S f =>
      match cache_get (ss_cache s) (ss_written s) with
      | None => s
      | Some next => advance f {| ss_written := next; ss_cache := cache_del (ss_cache s) (ss_written s) |}
      end
  end.

Definition ss_add (s : sstate) (seg : nat * nat) : sstate :=
  let c := cache_set (ss_cache s) (fst seg) (snd seg + 1) in
  advance (S (length c)) {| ss_written := ss_written s; ss_cache := c |}.

(* getChunk: the least row below written with the id (ids : the index rows' ids) *)
Fixpoint find_row (ids : list id) (i : nat) (limit : nat) (x : id) : option nat :=
  match ids with
  | [] => None
  | y :: r => if limit <=? i then None else if N.eqb y x then Some i else find_row r (S i) limit x
  end.

Definition ss_get (ids : list id) (s : sstate) (x : id) : option nat := find_row ids 0 (ss_written s) x.

Definition ss_run (adds : list (nat * nat)) : sstate := fold_left ss_add adds ss_init.
