(* assemble.go: writeChunk on an existing file (in-place extract, re-run after a crash), without the
   self-seed shortcut: read the chunk's range, keep it if it hashes to the chunk id, otherwise fetch the
   chunk from the store and write it at its offset.  Executable definitions only. *)
From Coq Require Import List NArith Arith Bool.
From DS Require Import Base.Bytes Base.Hash.
Import ListNotations.

Record row := mkRow { r_id : id; r_start : nat; r_size : nat }.   (* one IndexChunk *)

(* f.WriteAt(b, start) inside the file *)
Definition write_at (f : bytes) (start : nat) (d : bytes) : bytes :=
  firstn start f ++ d ++ skipn (start + length d) f.

Section InPlace.
  Variable H : bytes -> id.
  Variable fetch : id -> option bytes.      (* s.GetChunk(id) + chunk.Data(); None = error *)

  (* writeChunk, isBlank = false: the new file content and the ids requested from the store *)
  Definition write_chunk (f : bytes) (r : row) : option (bytes * list id) :=
    if N.eqb (H (slice f (r_start r) (r_size r))) (r_id r) then Some (f, [])
    else match fetch (r_id r) with
         | Some d => if Nat.eqb (length d) (r_size r) then Some (write_at f (r_start r) d, [r_id r]) else None
         | None => None
         end.

  (* the workers' jobs in the order they happen to run (any order, repeats allowed) *)
  Fixpoint assemble_inplace (jobs : list row) (f : bytes) : option (bytes * list id) :=
    match jobs with
    | [] => Some (f, [])
    | r :: rest =>
        match write_chunk f r with
        | None => None
        | Some (f1, q1) =>
            match assemble_inplace rest f1 with
            | None => None
            | Some (f2, q2) => Some (f2, q1 ++ q2)
            end
        end
    end.
End InPlace.

(* nullseed.go: nullChunkSection.WriteInto (copy path): zero-fill exactly the section's range *)
Definition write_null (f : bytes) (r : row) : bytes := write_at f (r_start r) (repeat 0%N (r_size r)).
