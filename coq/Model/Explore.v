(* Exhaustive exploration of a finite transition system given by a successor
   function: the set of states reachable from an initial state.  Used by the
   oracle to compute the set of outcomes the concurrent models allow for a
   case (the implementation's outcome must be a member).  Fuel-bounded;
   [None] = out of fuel.  Proofs (soundness and closure) in Proofs/ExploreProofs.v. *)
From Coq Require Import List Bool.
Import ListNotations.

Section Explore.
  Context {st : Type}.
  Variable succs : st -> list st.
  Variable eqb : st -> st -> bool.

  Definition mem (s : st) (l : list st) : bool := existsb (eqb s) l.

  Fixpoint explore (fuel : nat) (todo seen : list st) : option (list st) :=
    match fuel with
    | O => None
    | S f =>
        match todo with
        | [] => Some seen
        | s :: rest =>
            if mem s seen then explore f rest seen
            else explore f (succs s ++ rest) (s :: seen)
        end
    end.

  Definition reach_set (fuel : nat) (init : st) : option (list st) := explore fuel [init] [].
End Explore.
