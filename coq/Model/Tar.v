(* tar.go: Tar / tar() -- a directory tree becomes a stream of casync format elements.

   Part 1  tar_node: the recursion of tar() over a tree value, with the byte counter n
           ("n += nn") threaded exactly as in the Go code; the goodbye items are built from
           the counter, turned into back-offsets and handed to makeGoodbyeBST.
   Part 2  validate: a reader of catar byte streams written from casync's format rules
           (same rules as harness/pyval/catar.py): element sizes, element order, name order,
           goodbye offsets / sizes / hashes / tail / search tree; name order only when asked
           (ord: the disk source).  It returns the tree that the bytes describe.

   Go                                         here
   ----------------------------------------   ---------------------------------------
   File struct (Name, Mode, Uid, Gid,         node: NDir / NFile / NSymlink / NDevice /
     ModTime, Xattrs, Size+Data, LinkTarget,  NOther (FIFO, socket) with meta + xattrs
     DevMajor, DevMinor)
   fs.Next() until path.Dir(f.Path) != dir    the children list of NDir, in the order the
                                              source delivers them (LocalFS: ascending
                                              names; tar stream: stream order)
   enc.Encode(x) returning nn                 the element x; nn = enc_len x (length of its
                                              encoding, Model/Format.v)
   sort.Strings(keys) over f.Xattrs           sort_xattrs (keys of a Go map are distinct)
   tar(ctx, enc, fs, f) (n, err)              tar_node t = (elements written, n);
                                              tar_node_v TarPreSkipFix: before commit 0d1baa3
   Tar                                        tar_model t = elements; tar_bytes t

   Numbers are N without wrap-around: n is an int64 / uint64 in Go; archives of 2^63 bytes
   and more are outside the model (the theorems carry the bound).  Cancellation and I/O
   errors are not modelled (C07 / C05). *)
From Coq Require Import List NArith Arith Bool.
From DS Require Import Gen.Constants Base.Bytes Base.LE64 Model.Format Model.Goodbye Model.Sip.
Import ListNotations.
Local Open Scope N_scope.

(* ---------- stat mode words (syscall.S_IFxxx) ---------- *)
Definition S_IFMT : N := 61440.    (* 0170000 *)
Definition S_IFSOCK : N := 49152.  (* 0140000 *)
Definition S_IFLNK : N := 40960.   (* 0120000 *)
Definition S_IFREG : N := 32768.   (* 0100000 *)
Definition S_IFBLK : N := 24576.   (* 0060000 *)
Definition S_IFDIR : N := 16384.   (* 0040000 *)
Definition S_IFCHR : N := 8192.    (* 0020000 *)
Definition S_IFIFO : N := 4096.    (* 0010000 *)
Definition PERM_MASK : N := 4095.  (* 07777: rwx bits, setuid, setgid, sticky *)

(* ---------- the source tree ---------- *)
Record meta := mkMeta { m_perm : N; m_uid : N; m_gid : N; m_mtime : N }.
Definition xattr := (bytes * bytes)%type.       (* key, value *)

Inductive node :=
| NDir (m : meta) (xs : list xattr) (children : list (bytes * node))
| NFile (m : meta) (xs : list xattr) (data : bytes)
| NSymlink (m : meta) (xs : list xattr) (target : bytes)
| NDevice (m : meta) (xs : list xattr) (char : bool) (major minor : N)
| NOther (m : meta) (xs : list xattr) (sock : bool).      (* FIFO / socket *)

Definition node_meta (t : node) : meta :=
  match t with NDir m _ _ | NFile m _ _ | NSymlink m _ _ | NDevice m _ _ _ _ | NOther m _ _ => m end.
Definition node_xattrs (t : node) : list xattr :=
  match t with NDir _ x _ | NFile _ x _ | NSymlink _ x _ | NDevice _ x _ _ _ | NOther _ x _ => x end.
(* FilemodeToStatMode: the file type bits *)
Definition type_bits (t : node) : N :=
  match t with
  | NDir _ _ _ => S_IFDIR
  | NFile _ _ _ => S_IFREG
  | NSymlink _ _ _ => S_IFLNK
  | NDevice _ _ c _ _ => if c then S_IFCHR else S_IFBLK
  | NOther _ _ s => if s then S_IFSOCK else S_IFIFO
  end.

(* ---------- byte strings in strcmp / sort.Strings order ---------- *)
Fixpoint bytes_ltb (a b : bytes) : bool :=
  match a, b with
  | _, [] => false
  | [], _ :: _ => true
  | x :: a', y :: b' => if x <? y then true else if y <? x then false else bytes_ltb a' b'
  end.

Fixpoint insert_xattr (x : xattr) (l : list xattr) : list xattr :=
  match l with
  | [] => [x]
  | y :: r => if bytes_ltb (fst y) (fst x) then y :: insert_xattr x r else x :: l
  end.
(* sort.Strings(keys): insertion sort (keys of a map are pairwise different, so every sort agrees) *)
Definition sort_xattrs (l : list xattr) : list xattr := fold_right insert_xattr [] l.

(* ---------- Part 1: tar() ---------- *)

Definition enc_len (e : elem) : N := lenN (encode_elem e).
Definition elems_len (es : list elem) : N := fold_right (fun e a => enc_len e + a) 0 es.

(* entry := FormatEntry{Size: 64, Type: CaFormatEntry, FeatureFlags: TarFeatureFlags, UID, GID, Mode, MTime} *)
Definition entry_elem (t : node) : elem :=
  let m := node_meta t in
  Entry (mkHeader 64 CaFormatEntry) TarFeatureFlags (type_bits t + m_perm m) 0 (m_uid m) (m_gid m) (m_mtime m).

(* FormatXAttr{Size: len(key)+1+len(value)+1+16, NameAndValue: key + "\000" + value} *)
Definition xattr_elem (kv : xattr) : elem :=
  XAttr (mkHeader (lenN (fst kv) + 1 + lenN (snd kv) + 1 + 16) CaFormatXAttr) (fst kv ++ 0 :: snd kv).

Definition filename_elem (name : bytes) : elem :=
  Filename (mkHeader (16 + lenN name + 1) CaFormatFilename) name.

(* the entry and the sorted xattrs every supported node starts with *)
Definition head_elems (t : node) : list elem :=
  entry_elem t :: map xattr_elem (sort_xattrs (node_xattrs t)).

(* the table of goodbye items; None of makeGoodbyeBST is a Go panic, shown impossible (C13_bst_inorder) *)
Definition goodbye_table (items : list item) : list item :=
  match make_goodbye_bst items with Some t => t | None => [] end.

Definition is_other (t : node) : bool := match t with NOther _ _ _ => true | _ => false end.

(* TarFixed: tar.go as it is.  TarPreSkipFix: before commit 0d1baa3 ("tar skips an unsupported node
   before writing its filename element") -- kept only to state what that fix repaired. *)
Inductive tar_version := TarFixed | TarPreSkipFix.

Section Children.
  Variable v : tar_version.
  Variable tar : node -> list elem * N.
  (* the "for { f, err := fs.Next() ... }" loop of the IsDir case: n is the running counter,
     items the goodbye items collected so far (offset still counted from the entry) *)
  Fixpoint tar_children (cs : list (bytes * node)) (n : N) (items : list item) : list elem * N * list item :=
    match cs with
    | [] => ([], n, items)
    | (name, c) :: rest =>
        (* if !(f.IsDir() || f.IsRegular() || f.IsSymlink() || f.IsDevice()) { ...; continue } *)
        if match v with TarFixed => is_other c | TarPreSkipFix => false end
        then tar_children rest n items
        else
        let start := n in
        let fe := filename_elem name in                    (* name := path.Base(f.Name) *)
        let n1 := n + enc_len fe in                        (* nn, err = enc.Encode(filename); n += nn *)
        let (ce, cn) := tar c in                           (* nn, err = tar(ctx, enc, fs, f) *)
        let n2 := n1 + cn in                               (* n += nn *)
        let it := (start, n2 - start, sip_hash name) in    (* Offset: start, Size: n - start, Hash: SipHash(name) *)
        match tar_children rest n2 (items ++ [it]) with
        | (re, n3, items') => (fe :: ce ++ re, n3, items')
        end
    end.
End Children.

Fixpoint tar_node_v (v : tar_version) (t : node) : list elem * N :=
  match t with
  | NOther _ _ _ => ([], 0)              (* "skipping ... unsupported node type": return 0, nil (the root; before the fix also inside a directory) *)
  | NFile _ _ data =>
      let p := Payload (mkHeader (16 + lenN data) CaFormatPayload) data in
      (head_elems t ++ [p], elems_len (head_elems t) + enc_len p)
  | NSymlink _ _ target =>
      let s := Symlink (mkHeader (16 + lenN target + 1) CaFormatSymlink) target in
      (head_elems t ++ [s], elems_len (head_elems t) + enc_len s)
  | NDevice _ _ _ major minor =>
      let d := Device (mkHeader 32 CaFormatDevice) major minor in
      (head_elems t ++ [d], elems_len (head_elems t) + enc_len d)
  | NDir _ _ children =>
      let n0 := elems_len (head_elems t) in
      match tar_children v (tar_node_v v) children n0 [] with
      | (ces, n, items) =>
          (* items[i].Offset = uint64(n) - items[i].Offset *)
          let items := map (fun it => (n - it_offset it, it_size it, it_hash it)) items in
          let table := goodbye_table items in
          (* append the tail marker: Offset n, Size 16 + len(items)*24 + 24 *)
          let all := table ++ [(n, 16 + N.of_nat (length table) * 24 + 24, CaFormatGoodbyeTailMarker)] in
          let g := Goodbye (mkHeader (16 + N.of_nat (length all) * 24) CaFormatGoodbye) all in
          (head_elems t ++ ces ++ [g], n + enc_len g)
      end
  end.

(* the code as it is *)
Definition tar_node (t : node) : list elem * N := tar_node_v TarFixed t.
Definition tar_model (t : node) : list elem := fst (tar_node t).
Definition tar_bytes (t : node) : bytes := encode_elems (tar_model t).
Definition tar_bytes_v (v : tar_version) (t : node) : bytes := encode_elems (fst (tar_node_v v t)).

(* ---------- Part 2: a catar reader from the format rules ---------- *)

(* an element with the offsets of its first byte and of the byte after its last *)
Definition pelem := (N * N * elem)%type.

Fixpoint prefix_eqb (p b : bytes) : bool :=
  match p, b with
  | [], _ => true
  | x :: p', y :: b' => (x =? y) && prefix_eqb p' b'
  | _ :: _, [] => false
  end.

(* Phase 1: cut the stream into elements.  Every element must re-encode to exactly the bytes
   it was read from: the size field is the encoded length, strings end in their NUL. *)
Fixpoint scan (fuel : nat) (b : bytes) (pos : N) : option (list pelem) :=
  match b with
  | [] => Some []
  | _ =>
    match fuel with
    | O => None
    | S f =>
      match decode_next b with
      | Ok (Some e, _) =>
          let enc := encode_elem e in
          if prefix_eqb enc b then
            match scan f (skipn (length enc) b) (pos + lenN enc) with
            | Some l => Some ((pos, pos + lenN enc, e) :: l)
            | None => None
            end
          else None
      | _ => None
      end
    end
  end.

Fixpoint split_nul (nv : bytes) : option (bytes * bytes) :=
  match nv with
  | [] => None
  | x :: r => if x =? 0 then Some ([], r)
              else match split_nul r with Some (k, v) => Some (x :: k, v) | None => None end
  end.

Definition has_nul (b : bytes) : bool := existsb (fun x => x =? 0) b.

(* the XATTR elements after an entry: names non-empty and strictly ascending.  casync's rule for
   the value: everything after the name's NUL up to the end of the element -- that includes the
   last byte of the element, which Format.v's decoder (like desync's) strips from the string;
   phase 1 has established that this byte is 0. *)
Fixpoint take_xattrs (l : list pelem) (prev : option bytes) (last_end : N) : option (list xattr * N * list pelem) :=
  match l with
  | (_, e, XAttr _ nv) :: l' =>
      match split_nul nv with
      | None => None
      | Some (k, v) =>
          if negb (match k with [] => false | _ => true end) then None
          else if negb (match prev with None => true | Some p => bytes_ltb p k end) then None
          else match take_xattrs l' (Some k) e with
               | Some (xs, le, r) => Some ((k, v ++ [0]) :: xs, le, r)
               | None => None
               end
      end
  | _ => Some ([], last_end, l)
  end.

(* a file name: 1..255 bytes, no NUL, no '/', not "." or ".." *)
Definition valid_name (name : bytes) : bool :=
  negb (has_nul name) && negb (existsb (fun x => x =? 47) name) &&
  (1 <=? lenN name) && (lenN name <=? 255) &&
  negb (match name with [46] | [46; 46] => true | _ => false end).

Definition item_eqb (a b : item) : bool :=
  (it_offset a =? it_offset b) && (it_size a =? it_size b) && (it_hash a =? it_hash b).

Fixpoint items_eqb (a b : list item) : bool :=
  match a, b with
  | [], [] => true
  | x :: a', y :: b' => item_eqb x y && items_eqb a' b'
  | _, _ => false
  end.

(* a child as the reader saw it: name, offset of its FILENAME element, offset after its last element *)
Definition seen := (bytes * N * N * node)%type.

Definition seen_child (s : seen) : bytes * node := match s with (name, _, _, c) => (name, c) end.
(* the goodbye item casync writes for a child, for a GOODBYE element starting at gs *)
Definition seen_item (gs : N) (s : seen) : item :=
  match s with (name, fs, cend, _) => (gs - fs, cend - fs, sip_hash name) end.

(* the GOODBYE of a directory whose ENTRY starts at es; the element occupies [gs, ge) *)
Definition check_goodbye (es gs ge : N) (items : list item) (acc : list seen) : bool :=
  match rev items with
  | [] => false
  | tail :: rtbl =>
      let tbl := rev rtbl in
      let expected := map (seen_item gs) acc in
      item_eqb tail (gs - es, ge - gs, CaFormatGoodbyeTailMarker) &&
      (length tbl =? length expected)%nat &&
      items_eqb (arr_inorder (length tbl) tbl 0) (sort_items expected) &&
      forallb (fun x => match casync_lookup tbl (it_hash x) with
                        | Some (_, y) => it_hash y =? it_hash x
                        | None => false
                        end) expected
  end.

(* Phase 2: the grammar  node := ENTRY XATTR* (PAYLOAD | SYMLINK | DEVICE | (FILENAME node)* GOODBYE | nothing)
   by the file type of ENTRY.mode.  Result: the node, the offset after its last element, the
   elements that follow.  Only archives in desync's feature set are accepted (flags = TarFeatureFlags). *)
(* [ord]: require strictly ascending file names within a directory (casync's rule for archives
   packed from disk); the tar-stream source keeps the order of the stream. *)
Definition order_ok (ord : bool) (prev : option bytes) (name : bytes) : bool :=
  negb ord || match prev with None => true | Some p => bytes_ltb p name end.

Fixpoint parse_node (ord : bool) (fuel : nat) (l : list pelem) : option (node * N * list pelem) :=
  match fuel with
  | O => None
  | S f =>
    match l with
    | (es, ee, Entry _ ff mode fl uid gid mtime) :: l1 =>
        if negb ((ff =? TarFeatureFlags) && (fl =? 0)) then None
        else
          let ty := N.land mode S_IFMT in
          let m := mkMeta (N.land mode PERM_MASK) uid gid mtime in
          if negb (mode =? ty + N.land mode PERM_MASK) then None
          else
            match take_xattrs l1 None ee with
            | None => None
            | Some (xs, le, l2) =>
                if ty =? S_IFREG then
                  match l2 with
                  | (_, e, Payload _ data) :: l3 => Some (NFile m xs data, e, l3)
                  | _ => None
                  end
                else if ty =? S_IFLNK then
                  match l2 with
                  | (_, e, Symlink _ target) :: l3 =>
                      if negb (has_nul target) && (1 <=? lenN target) then Some (NSymlink m xs target, e, l3) else None
                  | _ => None
                  end
                else if (ty =? S_IFCHR) || (ty =? S_IFBLK) then
                  match l2 with
                  | (_, e, Device _ major minor) :: l3 => Some (NDevice m xs (ty =? S_IFCHR) major minor, e, l3)
                  | _ => None
                  end
                else if (ty =? S_IFIFO) || (ty =? S_IFSOCK) then Some (NOther m xs (ty =? S_IFSOCK), le, l2)
                else if ty =? S_IFDIR then parse_children ord f l2 es m xs None []
                else None
            end
    | _ => None
    end
  end
with parse_children (ord : bool) (fuel : nat) (l : list pelem) (es : N) (m : meta) (xs : list xattr)
                    (prev : option bytes) (acc : list seen) : option (node * N * list pelem) :=
  match fuel with
  | O => None
  | S f =>
    match l with
    | (fs, _, Filename _ name) :: l1 =>
        if negb (valid_name name) then None
        else if negb (order_ok ord prev name) then None
        else match parse_node ord f l1 with
             | Some (c, cend, l2) => parse_children ord f l2 es m xs (Some name) (acc ++ [(name, fs, cend, c)])
             | None => None
             end
    | (gs, ge, Goodbye _ items) :: l2 =>
        if check_goodbye es gs ge items acc
        then Some (NDir m xs (map seen_child acc), ge, l2)
        else None
    | _ => None
    end
  end.

(* the whole archive: exactly one node *)
Definition validate (ord : bool) (b : bytes) : option node :=
  match scan (S (length b)) b 0 with
  | None => None
  | Some l =>
      match parse_node ord (S (length l)) l with
      | Some (t, _, []) => Some t
      | _ => None
      end
  end.

(* what a casync-rule reader makes of what desync writes: every xattr value one NUL longer (see
   take_xattrs), FIFOs and sockets inside directories left out (tar() skips them) *)
Fixpoint casync_view (t : node) : node :=
  let vx := map (fun kv : xattr => (fst kv, snd kv ++ [0])) in
  match t with
  | NDir m xs cs =>
      NDir m (vx xs) (flat_map (fun nc : bytes * node =>
                                  if is_other (snd nc) then [] else [(fst nc, casync_view (snd nc))]) cs)
  | NFile m xs d => NFile m (vx xs) d
  | NSymlink m xs tg => NSymlink m (vx xs) tg
  | NDevice m xs c ma mi => NDevice m (vx xs) c ma mi
  | NOther m xs s => NOther m (vx xs) s
  end.
