// genconst: translator from /repo's Go source to coq/Gen/Constants.v.
//
// It copies (a) every package-level integer/string constant of package desync
// (const expressions are evaluated: | & + - * << and references to other
// constants), (b) the buzhash table, and (c) a fixed list of small arithmetic
// expressions taken from named sites in function bodies, translated to Coq
// terms over N (truncated subtraction is made explicit by the models, not
// here: only + * / and identifiers/literals are accepted). Anything it cannot
// find is an error: a renamed site breaks the tie loudly.
package main

import (
	"fmt"
	"go/ast"
	"go/parser"
	"go/token"
	"math/big"
	"os"
	"path/filepath"
	"sort"
	"strconv"
	"strings"
)

var fset = token.NewFileSet()
var files = map[string]*ast.File{}
var constExpr = map[string]ast.Expr{}
var constVal = map[string]*big.Int{}
var strVal = map[string]string{}

func die(f string, a ...interface{}) {
	fmt.Fprintf(os.Stderr, "genconst: "+f+"\n", a...)
	os.Exit(2)
}

func evalInt(e ast.Expr, depth int) (*big.Int, bool) {
	if depth > 50 {
		return nil, false
	}
	switch x := e.(type) {
	case *ast.BasicLit:
		if x.Kind == token.INT {
			v, ok := new(big.Int).SetString(strings.ReplaceAll(x.Value, "_", ""), 0)
			return v, ok
		}
	case *ast.Ident:
		if v, ok := constVal[x.Name]; ok {
			return v, true
		}
		if ce, ok := constExpr[x.Name]; ok {
			v, ok := evalInt(ce, depth+1)
			if ok {
				constVal[x.Name] = v
			}
			return v, ok
		}
	case *ast.ParenExpr:
		return evalInt(x.X, depth+1)
	case *ast.CallExpr: // conversions like uint64(x)
		if len(x.Args) == 1 {
			if id, ok := x.Fun.(*ast.Ident); ok && (strings.HasPrefix(id.Name, "uint") || strings.HasPrefix(id.Name, "int")) {
				return evalInt(x.Args[0], depth+1)
			}
		}
	case *ast.BinaryExpr:
		a, ok1 := evalInt(x.X, depth+1)
		b, ok2 := evalInt(x.Y, depth+1)
		if !ok1 || !ok2 {
			return nil, false
		}
		r := new(big.Int)
		switch x.Op {
		case token.OR:
			return r.Or(a, b), true
		case token.AND:
			return r.And(a, b), true
		case token.ADD:
			return r.Add(a, b), true
		case token.SUB:
			return r.Sub(a, b), true
		case token.MUL:
			return r.Mul(a, b), true
		case token.SHL:
			return r.Lsh(a, uint(b.Uint64())), true
		}
	}
	return nil, false
}

func bytesList(s string) string {
	parts := []string{}
	for _, b := range []byte(s) {
		parts = append(parts, strconv.Itoa(int(b)))
	}
	return "[" + strings.Join(parts, "; ") + "]"
}

// exprToCoq renders a Go arithmetic expression over unsigned ints as a Coq N term.
func exprToCoq(e ast.Expr, rename map[string]string) string {
	switch x := e.(type) {
	case *ast.BasicLit:
		if x.Kind == token.INT {
			return x.Value
		}
	case *ast.Ident:
		if r, ok := rename[x.Name]; ok {
			return r
		}
		return x.Name
	case *ast.ParenExpr:
		return "(" + exprToCoq(x.X, rename) + ")"
	case *ast.CallExpr:
		if len(x.Args) == 1 {
			if id, ok := x.Fun.(*ast.Ident); ok && (strings.HasPrefix(id.Name, "uint") || strings.HasPrefix(id.Name, "int")) {
				return exprToCoq(x.Args[0], rename)
			}
		}
		if id, ok := x.Fun.(*ast.Ident); ok && id.Name == "len" && len(x.Args) == 1 {
			return "(len_" + strings.ReplaceAll(exprToCoq(x.Args[0], rename), ".", "_") + ")"
		}
	case *ast.SelectorExpr:
		return exprToCoq(x.X, rename) + "_" + x.Sel.Name
	case *ast.BinaryExpr:
		op := ""
		switch x.Op {
		case token.ADD:
			op = "+"
		case token.MUL:
			op = "*"
		case token.QUO:
			op = "/"
		case token.SUB:
			return "(wsub " + exprToCoq(x.X, rename) + " " + exprToCoq(x.Y, rename) + ")"
		case token.REM:
			op = "mod"
		case token.OR:
			return "(N.lor " + exprToCoq(x.X, rename) + " " + exprToCoq(x.Y, rename) + ")"
		case token.AND:
			return "(N.land " + exprToCoq(x.X, rename) + " " + exprToCoq(x.Y, rename) + ")"
		case token.AND_NOT:
			return "(N.ldiff " + exprToCoq(x.X, rename) + " " + exprToCoq(x.Y, rename) + ")"
		}
		if op != "" {
			return "(" + exprToCoq(x.X, rename) + " " + op + " " + exprToCoq(x.Y, rename) + ")"
		}
	}
	die("exprToCoq: unsupported expression at %s", fset.Position(e.Pos()))
	return ""
}

func findFunc(name string) *ast.FuncDecl {
	for _, f := range files {
		for _, d := range f.Decls {
			if fd, ok := d.(*ast.FuncDecl); ok && fd.Name.Name == name && fd.Body != nil {
				return fd
			}
		}
	}
	die("function %s not found", name)
	return nil
}

// findMethod returns the method <recv>.<name> (receiver type without the star).
func findMethod(recv, name string) *ast.FuncDecl {
	for _, f := range files {
		for _, d := range f.Decls {
			fd, ok := d.(*ast.FuncDecl)
			if !ok || fd.Name.Name != name || fd.Recv == nil || len(fd.Recv.List) != 1 || fd.Body == nil {
				continue
			}
			t := fd.Recv.List[0].Type
			if st, ok := t.(*ast.StarExpr); ok {
				t = st.X
			}
			if id, ok := t.(*ast.Ident); ok && id.Name == recv {
				return fd
			}
		}
	}
	die("method %s.%s not found", recv, name)
	return nil
}

// findAssign returns the RHS of the first assignment (:= or =) to ident lhs in fn.
func findAssign(fn *ast.FuncDecl, lhs string, nth int) ast.Expr {
	var out ast.Expr
	k := 0
	ast.Inspect(fn.Body, func(n ast.Node) bool {
		if out != nil {
			return false
		}
		switch as := n.(type) {
		case *ast.AssignStmt:
			if len(as.Lhs) == 1 && len(as.Rhs) == 1 {
				if id, ok := as.Lhs[0].(*ast.Ident); ok && id.Name == lhs {
					if _, lit := as.Rhs[0].(*ast.BasicLit); lit {
						return true
					}
					if k == nth {
						out = as.Rhs[0]
						return false
					}
					k++
				}
			}
		}
		return true
	})
	if out == nil {
		die("assignment #%d to %s not found in %s", nth, lhs, fn.Name.Name)
	}
	return out
}

// findAssignLit returns the literal RHS of the first assignment of a basic literal to ident lhs in fn.
func findAssignLit(fn *ast.FuncDecl, lhs string) ast.Expr {
	var out ast.Expr
	ast.Inspect(fn.Body, func(n ast.Node) bool {
		if out != nil {
			return false
		}
		if as, ok := n.(*ast.AssignStmt); ok && len(as.Lhs) == 1 && len(as.Rhs) == 1 {
			if id, ok := as.Lhs[0].(*ast.Ident); ok && id.Name == lhs {
				if _, lit := as.Rhs[0].(*ast.BasicLit); lit {
					out = as.Rhs[0]
					return false
				}
			}
		}
		return true
	})
	if out == nil {
		die("literal assignment to %s not found in %s", lhs, fn.Name.Name)
	}
	return out
}

// findOrAssign returns the RHS of the first statement `lhs |= rhs` in fn whose LHS renders (dots
// as underscores) to lhs.
func findOrAssign(fn *ast.FuncDecl, lhs string) ast.Expr {
	var out ast.Expr
	ast.Inspect(fn.Body, func(n ast.Node) bool {
		if out != nil {
			return false
		}
		if as, ok := n.(*ast.AssignStmt); ok && as.Tok == token.OR_ASSIGN && len(as.Lhs) == 1 && len(as.Rhs) == 1 {
			if sel, ok := as.Lhs[0].(*ast.SelectorExpr); ok && exprToCoq(sel, nil) == lhs {
				out = as.Rhs[0]
				return false
			}
		}
		return true
	})
	if out == nil {
		die("statement %s |= ... not found in %s", lhs, fn.Name.Name)
	}
	return out
}

// findFieldInit returns the value given to field name in the first composite literal of fn that has it.
func findFieldInit(fn *ast.FuncDecl, name string) ast.Expr {
	var out ast.Expr
	ast.Inspect(fn.Body, func(n ast.Node) bool {
		if out != nil {
			return false
		}
		if kv, ok := n.(*ast.KeyValueExpr); ok {
			if id, ok := kv.Key.(*ast.Ident); ok && id.Name == name {
				out = kv.Value
				return false
			}
		}
		return true
	})
	if out == nil {
		die("field %s: not initialised in %s", name, fn.Name.Name)
	}
	return out
}

func main() {
	if len(os.Args) < 2 {
		die("usage: genconst <repo>")
	}
	repo := os.Args[1]
	matches, _ := filepath.Glob(filepath.Join(repo, "*.go"))
	for _, m := range matches {
		if strings.HasSuffix(m, "_test.go") || strings.HasSuffix(m, "_windows.go") || strings.HasPrefix(filepath.Base(m), "verif_") {
			continue
		}
		f, err := parser.ParseFile(fset, m, nil, 0)
		if err != nil {
			die("parse %s: %v", m, err)
		}
		files[filepath.Base(m)] = f
	}
	var names []string
	var snames []string
	var table []string
	for _, f := range files {
		for _, d := range f.Decls {
			gd, ok := d.(*ast.GenDecl)
			if !ok {
				continue
			}
			for _, s := range gd.Specs {
				vs, ok := s.(*ast.ValueSpec)
				if !ok {
					continue
				}
				for i, n := range vs.Names {
					if i >= len(vs.Values) {
						continue
					}
					v := vs.Values[i]
					if gd.Tok == token.CONST {
						if bl, ok := v.(*ast.BasicLit); ok && bl.Kind == token.STRING {
							s, _ := strconv.Unquote(bl.Value)
							strVal[n.Name] = s
							snames = append(snames, n.Name)
							continue
						}
						constExpr[n.Name] = v
						names = append(names, n.Name)
					}
					if gd.Tok == token.VAR && n.Name == "hashTable" {
						cl, ok := v.(*ast.CompositeLit)
						if !ok {
							die("hashTable is not a composite literal")
						}
						for _, e := range cl.Elts {
							bv, ok := evalInt(e, 0)
							if !ok {
								die("hashTable element not an int literal")
							}
							table = append(table, "0x"+bv.Text(16))
						}
					}
				}
			}
		}
	}
	sort.Strings(names)
	sort.Strings(snames)
	var b strings.Builder
	b.WriteString("(* GENERATED by tools/genconst from /repo — do not edit. *)\n")
	b.WriteString("From Coq Require Import NArith List.\nImport ListNotations.\nLocal Open Scope N_scope.\n\n")
	b.WriteString("(* Go's unsigned 64-bit subtraction (wraps) *)\nDefinition wsub (a b : N) : N := (a + 2 ^ 64 - b) mod 2 ^ 64.\n\n")
	for _, n := range names {
		v, ok := evalInt(constExpr[n], 0)
		if !ok || v.Sign() < 0 {
			continue
		}
		fmt.Fprintf(&b, "Definition %s : N := 0x%s.\n", n, v.Text(16))
	}
	b.WriteString("\n")
	for _, n := range snames {
		fmt.Fprintf(&b, "Definition %s_bytes : list N := %s. (* %q *)\n", n, bytesList(strVal[n]), strVal[n])
	}
	if len(table) != 256 {
		die("hashTable has %d entries, want 256", len(table))
	}
	b.WriteString("\nDefinition hashTable : list N :=\n  [")
	for i, t := range table {
		if i > 0 {
			b.WriteString("; ")
			if i%6 == 0 {
				b.WriteString("\n   ")
			}
		}
		b.WriteString(t)
	}
	b.WriteString("].\n\n")

	// --- expression sites ---
	// verifyindex.go: batch := chunksNum / (n * 10); i = i + batch + 1; last := i + batch
	vi := findFunc("VerifyIndex")
	fmt.Fprintf(&b, "(* verifyindex.go VerifyIndex *)\nDefinition vi_batch (chunksNum n : N) : N := %s.\n", exprToCoq(findAssign(vi, "batch", 0), nil))
	fmt.Fprintf(&b, "Definition vi_last (i batch : N) : N := %s.\n", exprToCoq(findAssign(vi, "last", 0), nil))
	fmt.Fprintf(&b, "Definition vi_next (i batch : N) : N := %s.\n", exprToCoq(findAssign(vi, "i", 0), nil))
	// --- C01: clone arithmetic of fileseed.go / nullseed.go ---
	fc := findMethod("fileSeedSegment", "clone")
	fparams := "(srcOffset srcLength dstOffset blocksize srcAlignStart srcAlignEnd dstAlignStart alignLength : N)"
	b.WriteString("\n(* fileseed.go fileSeedSegment.clone *)\n")
	for _, v := range []string{"srcAlignStart", "srcAlignEnd", "dstAlignStart", "alignLength", "dstAlignEnd"} {
		fmt.Fprintf(&b, "Definition fsclone_%s %s : N := %s.\n", v, fparams, exprToCoq(findAssign(fc, v, 0), nil))
	}
	nc := findMethod("nullChunkSection", "clone")
	nparams := "(offset length blocksize : N)"
	b.WriteString("(* nullseed.go nullChunkSection.clone *)\n")
	for _, v := range []string{"dstAlignStart", "dstAlignEnd"} {
		fmt.Fprintf(&b, "Definition nsclone_%s %s : N := %s.\n", v, nparams, exprToCoq(findAssign(nc, v, 0), nil))
	}
	// --- C02: the feature flags IndexFromFile records (make.go) ---
	{
		fn := findFunc("IndexFromFile")
		b.WriteString("\n(* make.go IndexFromFile: FeatureFlags: ... and index.Index.FeatureFlags |= ... for a catar input *)\n")
		fmt.Fprintf(&b, "Definition make_flags_init (digestFlag : N) : N := %s.\n", exprToCoq(findFieldInit(fn, "FeatureFlags"), nil))
		fmt.Fprintf(&b, "Definition make_flags_catar (t_FeatureFlags : N) : N := %s.\n", exprToCoq(findOrAssign(fn, "index_Index_FeatureFlags"), nil))
	}
	// --- C01: the per-segment row limit of seeds without reflinks (fileseed.go, nullseed.go: `limit = 100`) ---
	b.WriteString("\n(* fileseed.go FileSeed.LongestMatchWith / nullseed.go nullChunkSeed.LongestMatchWith: limit = ... *)\n")
	for _, site := range []struct{ recv, coq string }{{"FileSeed", "fileseed_limit"}, {"nullChunkSeed", "nullseed_limit"}} {
		fn := findMethod(site.recv, "LongestMatchWith")
		v, ok := evalInt(findAssignLit(fn, "limit"), 0)
		if !ok {
			die("%s.LongestMatchWith: limit is not an integer constant", site.recv)
		}
		fmt.Fprintf(&b, "Definition %s : nat := %s%%nat.\n", site.coq, v.String())
	}
	// --- C05: FileMode/st_mode bits, mkdev and the rdev split (tools/genconst/c05.go) ---
	genC05(&b)
	os.Stdout.WriteString(b.String())
}
