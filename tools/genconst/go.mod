module genconst

go 1.23
