// C05: constants and bit expressions used by the tar/untar models.
//
//   - Go's os.FileMode bits and the st_mode bits of the platform, taken from the
//     Go toolchain this translator is built with (the same one that builds desync);
//   - localfs_other.go: the body of mkdev and the major/minor split of
//     LocalFS.Next, translated expression by expression (& | << >> %).
package main

import (
	"fmt"
	"go/ast"
	"go/token"
	"os"
	"strings"
	"syscall"
)

// bitsToCoq renders a Go expression over uint64 with & | << >> % + as a Coq N term.
// Left shifts are truncated to 64 bits (Go's uint64 <<).
func bitsToCoq(e ast.Expr, rename map[string]string) string {
	switch x := e.(type) {
	case *ast.BasicLit:
		if x.Kind == token.INT {
			return x.Value
		}
	case *ast.Ident:
		if r, ok := rename[x.Name]; ok {
			return r
		}
		return x.Name
	case *ast.ParenExpr:
		return bitsToCoq(x.X, rename)
	case *ast.SelectorExpr:
		key := ""
		if id, ok := x.X.(*ast.Ident); ok {
			key = id.Name + "." + x.Sel.Name
		}
		if r, ok := rename[key]; ok {
			return r
		}
	case *ast.CallExpr:
		if len(x.Args) == 1 {
			if id, ok := x.Fun.(*ast.Ident); ok && id.Name == "uint64" {
				return bitsToCoq(x.Args[0], rename)
			}
		}
	case *ast.BinaryExpr:
		a, b := bitsToCoq(x.X, rename), bitsToCoq(x.Y, rename)
		switch x.Op {
		case token.AND:
			return "(N.land " + a + " " + b + ")"
		case token.OR:
			return "(N.lor " + a + " " + b + ")"
		case token.SHL:
			return "((N.shiftl " + a + " " + b + ") mod 2 ^ 64)"
		case token.SHR:
			return "(N.shiftr " + a + " " + b + ")"
		case token.REM:
			return "(" + a + " mod " + b + ")"
		}
	}
	die("bitsToCoq: unsupported expression at %s", fset.Position(e.Pos()))
	return ""
}

func genC05(b *strings.Builder) {
	b.WriteString("\n(* --- C05 --- *)\n(* os.FileMode bits (Go toolchain) *)\n")
	gm := []struct {
		n string
		v os.FileMode
	}{
		{"GoModeDir", os.ModeDir}, {"GoModeSymlink", os.ModeSymlink}, {"GoModeNamedPipe", os.ModeNamedPipe},
		{"GoModeSocket", os.ModeSocket}, {"GoModeDevice", os.ModeDevice}, {"GoModeCharDevice", os.ModeCharDevice},
		{"GoModeIrregular", os.ModeIrregular}, {"GoModeSetuid", os.ModeSetuid}, {"GoModeSetgid", os.ModeSetgid},
		{"GoModeSticky", os.ModeSticky}, {"GoModeType", os.ModeType}, {"GoModePerm", os.ModePerm},
	}
	for _, c := range gm {
		fmt.Fprintf(b, "Definition %s : N := 0x%x.\n", c.n, uint32(c.v))
	}
	b.WriteString("(* st_mode bits (package syscall of the Go toolchain, linux) *)\n")
	sm := []struct {
		n string
		v uint32
	}{
		{"S_IFMT", syscall.S_IFMT}, {"S_IFBLK", syscall.S_IFBLK}, {"S_IFCHR", syscall.S_IFCHR}, {"S_IFDIR", syscall.S_IFDIR},
		{"S_IFIFO", syscall.S_IFIFO}, {"S_IFLNK", syscall.S_IFLNK}, {"S_IFREG", syscall.S_IFREG}, {"S_IFSOCK", syscall.S_IFSOCK},
		{"S_ISUID", syscall.S_ISUID}, {"S_ISGID", syscall.S_ISGID}, {"S_ISVTX", syscall.S_ISVTX},
	}
	for _, c := range sm {
		fmt.Fprintf(b, "Definition %s : N := 0x%x.\n", c.n, c.v)
	}

	// localfs_other.go: func mkdev(major, minor uint64) uint64 { dev := e0; dev |= e1; ...; return dev }
	mk := findFunc("mkdev")
	var terms []string
	for _, st := range mk.Body.List {
		as, ok := st.(*ast.AssignStmt)
		if !ok || len(as.Lhs) != 1 || len(as.Rhs) != 1 {
			continue
		}
		id, ok := as.Lhs[0].(*ast.Ident)
		if !ok || id.Name != "dev" {
			die("mkdev: unexpected assignment at %s", fset.Position(st.Pos()))
		}
		switch as.Tok {
		case token.DEFINE, token.ASSIGN:
			if len(terms) != 0 {
				die("mkdev: second plain assignment at %s", fset.Position(st.Pos()))
			}
			terms = append(terms, bitsToCoq(as.Rhs[0], nil))
		case token.OR_ASSIGN:
			if len(terms) == 0 {
				die("mkdev: |= before the first assignment")
			}
			terms = append(terms, bitsToCoq(as.Rhs[0], nil))
		default:
			die("mkdev: unsupported assignment operator at %s", fset.Position(st.Pos()))
		}
	}
	if len(terms) == 0 {
		die("mkdev: no assignments found")
	}
	acc := terms[0]
	for _, t := range terms[1:] {
		acc = "(N.lor " + acc + " " + t + ")"
	}
	fmt.Fprintf(b, "(* localfs_other.go mkdev *)\nDefinition c05_mkdev (major minor : N) : N := %s.\n", acc)

	// localfs_other.go LocalFS.Next: major = uint64((sys.Rdev >> 8) & 0xfff); minor = ...
	nx := findMethod("LocalFS", "Next")
	ren := map[string]string{"sys.Rdev": "rdev"}
	find := func(lhs string) ast.Expr {
		var out ast.Expr
		ast.Inspect(nx.Body, func(n ast.Node) bool {
			as, ok := n.(*ast.AssignStmt)
			if !ok || out != nil || len(as.Lhs) != 1 || len(as.Rhs) != 1 || as.Tok != token.ASSIGN {
				return true
			}
			if id, ok := as.Lhs[0].(*ast.Ident); ok && id.Name == lhs {
				out = as.Rhs[0]
			}
			return true
		})
		if out == nil {
			die("LocalFS.Next: assignment to %s not found", lhs)
		}
		return out
	}
	// tar.go Tar(): does it look at the source again after the root entry was encoded (buf.Next())
	// and refuse what is left, or does it return nil whatever remains?
	tarFn := findFunc("Tar")
	rejects := false
	ast.Inspect(tarFn.Body, func(n ast.Node) bool {
		if ce, ok := n.(*ast.CallExpr); ok {
			if se, ok := ce.Fun.(*ast.SelectorExpr); ok && se.Sel.Name == "Next" {
				rejects = true
			}
		}
		return true
	})
	fmt.Fprintf(b, "(* tar.go Tar: entries left in the source after the root entry are refused *)\nDefinition c05_tar_rejects_leftover : bool := %v.\n", rejects)
	fmt.Fprintf(b, "(* localfs_other.go LocalFS.Next *)\nDefinition c05_rdev_major (rdev : N) : N := %s.\n", bitsToCoq(find("major"), ren))
	fmt.Fprintf(b, "Definition c05_rdev_minor (rdev : N) : N := %s.\n", bitsToCoq(find("minor"), ren))
}
