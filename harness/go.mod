module vh

go 1.23.0

require (
	github.com/folbricht/desync v0.0.0
	github.com/hanwen/go-fuse/v2 v2.2.0
	github.com/klauspost/compress v1.16.4
	github.com/minio/minio-go/v6 v6.0.57
	github.com/pkg/sftp v1.13.5
)

require (
	cloud.google.com/go v0.110.0 // indirect
	cloud.google.com/go/compute/metadata v0.2.3 // indirect
	cloud.google.com/go/iam v0.13.0 // indirect
	cloud.google.com/go/storage v1.30.1 // indirect
	github.com/DataDog/zstd v1.5.2 // indirect
	github.com/boljen/go-bitmap v0.0.0-20151001105940-23cd2fb0ce7d // indirect
	github.com/dchest/siphash v1.2.3 // indirect
	github.com/folbricht/tempfile v0.0.1 // indirect
	github.com/golang/groupcache v0.0.0-20210331224755-41bb18bfe9da // indirect
	github.com/golang/protobuf v1.5.3 // indirect
	github.com/google/go-cmp v0.5.9 // indirect
	github.com/google/uuid v1.3.0 // indirect
	github.com/googleapis/enterprise-certificate-proxy v0.2.3 // indirect
	github.com/googleapis/gax-go/v2 v2.8.0 // indirect
	github.com/json-iterator/go v1.1.12 // indirect
	github.com/klauspost/cpuid/v2 v2.0.4 // indirect
	github.com/kr/fs v0.1.0 // indirect
	github.com/mattn/go-runewidth v0.0.14 // indirect
	github.com/minio/md5-simd v1.1.2 // indirect
	github.com/minio/sha256-simd v1.0.0 // indirect
	github.com/mitchellh/go-homedir v1.1.0 // indirect
	github.com/modern-go/concurrent v0.0.0-20180306012644-bacd9c7ef1dd // indirect
	github.com/modern-go/reflect2 v1.0.2 // indirect
	github.com/pkg/errors v0.9.1 // indirect
	github.com/pkg/xattr v0.4.9 // indirect
	github.com/rivo/uniseg v0.2.0 // indirect
	github.com/sirupsen/logrus v1.9.0 // indirect
	go.opencensus.io v0.24.0 // indirect
	golang.org/x/crypto v0.36.0 // indirect
	golang.org/x/net v0.38.0 // indirect
	golang.org/x/oauth2 v0.7.0 // indirect
	golang.org/x/sync v0.12.0 // indirect
	golang.org/x/sys v0.31.0 // indirect
	golang.org/x/term v0.30.0 // indirect
	golang.org/x/text v0.23.0 // indirect
	golang.org/x/xerrors v0.0.0-20220907171357-04be3eba64a2 // indirect
	google.golang.org/api v0.116.0 // indirect
	google.golang.org/genproto v0.0.0-20230410155749-daa745c078e1 // indirect
	google.golang.org/grpc v1.56.3 // indirect
	google.golang.org/protobuf v1.33.0 // indirect
	gopkg.in/cheggaaa/pb.v1 v1.0.28 // indirect
	gopkg.in/ini.v1 v1.67.0 // indirect
)

replace github.com/folbricht/desync => /repo
