module vh

go 1.23.0

require github.com/folbricht/desync v0.0.0

replace github.com/folbricht/desync => /repo
