package vh

import (
	"runtime"
	"strconv"
	"strings"
	"sync"
	"time"
)

// Chaos is a randomized-priority perturbation of goroutine schedules driven
// through the verifYield hook: every goroutine that reaches a yield point gets
// a random priority (re-drawn at random change points); low priorities sleep
// longer, so some goroutines run far ahead of others. All choices derive from
// the seed; which goroutine gets which priority still depends on arrival
// order, so a failing case is replayed over many schedule seeds.
type Chaos struct {
	mu     sync.Mutex
	rng    *Rand
	levels int
	unit   time.Duration
	g      map[int64]*chaosG
	Hits   int
	Sites  map[string]int
	// Bias: 0 = random priorities; 1 = goroutines that arrive later get higher priority (run ahead);
	// 2 = earlier arrivals get higher priority. Change points still re-draw at random.
	Bias int
}

type chaosG struct {
	prio   int
	count  int
	change int
}

func NewChaos(seed uint64, levels int, unit time.Duration) *Chaos {
	return &Chaos{rng: NewRand(seed), levels: levels, unit: unit, g: map[int64]*chaosG{}, Sites: map[string]int{}}
}

func goid() int64 {
	var buf [64]byte
	n := runtime.Stack(buf[:], false)
	f := strings.Fields(string(buf[:n]))
	if len(f) < 2 {
		return 0
	}
	id, _ := strconv.ParseInt(f[1], 10, 64)
	return id
}

// Hook is the function to install with desync.VerifSetYieldHook.
func (c *Chaos) Hook(site string) {
	id := goid()
	c.mu.Lock()
	c.Hits++
	c.Sites[site]++
	st := c.g[id]
	if st == nil {
		st = &chaosG{prio: c.rng.Intn(c.levels), change: 1 + c.rng.Intn(40)}
		switch c.Bias {
		case 1:
			st.prio = len(c.g)
			st.change = 1000000
		case 2:
			st.prio = c.levels - 1 - len(c.g)
			st.change = 1000000
		}
		if st.prio >= c.levels {
			st.prio = c.levels - 1
		}
		if st.prio < 0 {
			st.prio = 0
		}
		c.g[id] = st
	}
	st.count++
	if st.count >= st.change {
		st.prio = c.rng.Intn(c.levels)
		st.count = 0
		st.change = 1 + c.rng.Intn(40)
	}
	d := time.Duration(c.levels-1-st.prio) * c.unit
	gos := c.rng.Intn(3)
	c.mu.Unlock()
	for i := 0; i < gos; i++ {
		runtime.Gosched()
	}
	if d > 0 {
		time.Sleep(d)
	}
}

// Goid returns the id of the calling goroutine.
func Goid() int64 { return goid() }
