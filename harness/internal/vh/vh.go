// Package vh holds what every property harness shares: the deterministic
// PRNG, the oracle client (extracted Coq models), the result file, generators.
package vh

import (
	"bufio"
	"encoding/hex"
	"encoding/json"
	"fmt"
	"io"
	"os"
	"os/exec"
	"sort"
	"strings"
	"sync"
	"time"
)

// ---------- PRNG (splitmix64): every random choice derives from VERIF_SEED ----------

type Rand struct{ s uint64 }

func NewRand(seed uint64) *Rand {
	// scramble the seed so that consecutive seeds give unrelated streams
	z := (seed ^ 0x5851F42D4C957F2D) * 0xBF58476D1CE4E5B9
	z = (z ^ (z >> 29)) * 0x94D049BB133111EB
	z ^= z >> 32
	return &Rand{s: z}
}
func (r *Rand) U64() uint64 {
	r.s += 0x9E3779B97F4A7C15
	z := r.s
	z = (z ^ (z >> 30)) * 0xBF58476D1CE4E5B9
	z = (z ^ (z >> 27)) * 0x94D049BB133111EB
	return z ^ (z >> 31)
}
func (r *Rand) Intn(n int) int {
	if n <= 0 {
		return 0
	}
	return int(r.U64() % uint64(n))
}
func (r *Rand) Range(lo, hi int) int { return lo + r.Intn(hi-lo+1) } // inclusive
func (r *Rand) Bool() bool          { return r.U64()&1 == 1 }
func (r *Rand) Chance(num, den int) bool {
	return r.Intn(den) < num
}
func (r *Rand) Bytes(n int) []byte {
	b := make([]byte, n)
	for i := 0; i < n; i += 8 {
		v := r.U64()
		for j := 0; j < 8 && i+j < n; j++ {
			b[i+j] = byte(v >> (8 * j))
		}
	}
	return b
}
func (r *Rand) Fork() *Rand { return NewRand(r.U64()) }

// ---------- oracle client ----------

type Oracle struct {
	cmd *exec.Cmd
	in  io.WriteCloser
	out *bufio.Reader
	mu  sync.Mutex
	N   int
}

func StartOracle(path string) (*Oracle, error) {
	// the extracted list functions recurse deeply on large inputs: lift the stack limit
	c := exec.Command("/bin/sh", "-c", `ulimit -s unlimited 2>/dev/null || ulimit -s 4000000 2>/dev/null; exec "$0"`, path)
	in, err := c.StdinPipe()
	if err != nil {
		return nil, err
	}
	out, err := c.StdoutPipe()
	if err != nil {
		return nil, err
	}
	c.Stderr = os.Stderr
	if err := c.Start(); err != nil {
		return nil, err
	}
	return &Oracle{cmd: c, in: in, out: bufio.NewReaderSize(out, 1<<20)}, nil
}

// Call sends one command line and returns the answer line.
func (o *Oracle) Call(cmd string, args ...string) (string, error) {
	o.mu.Lock()
	defer o.mu.Unlock()
	o.N++
	line := cmd
	for _, a := range args {
		if a == "" {
			a = "-"
		}
		line += " " + a
	}
	if _, err := io.WriteString(o.in, line+"\n"); err != nil {
		return "", err
	}
	ans, err := o.out.ReadString('\n')
	if err != nil {
		return "", fmt.Errorf("oracle died on %q: %v", cmd, err)
	}
	ans = strings.TrimRight(ans, "\n")
	if strings.HasPrefix(ans, "ERR") {
		return ans, fmt.Errorf("oracle: %s (command %s)", ans, cmd)
	}
	return ans, nil
}

func (o *Oracle) Close() {
	o.in.Close()
	o.cmd.Wait()
}

func Hex(b []byte) string {
	if len(b) == 0 {
		return "-"
	}
	return hex.EncodeToString(b)
}

func UnHex(s string) []byte {
	if s == "-" || s == "" {
		return nil
	}
	b, _ := hex.DecodeString(s)
	return b
}

// ---------- result file ----------

type Failure struct {
	Kind  string      `json:"kind"`  // "predicate" (the property itself fails on the implementation) | "corr" (model and implementation disagree)
	Class string      `json:"class"` // narrow class of the failing case; known-findings match on it
	What  string      `json:"what"`
	Case  interface{} `json:"case"`
}

type Result struct {
	Property     string                 `json:"property"`
	Tier         string                 `json:"tier"`
	Seed         uint64                 `json:"seed"`
	Evaluations  int                    `json:"evaluations"`
	Nontrivial   int                    `json:"distinct_nontrivial"`
	Rule         string                 `json:"rule"`
	Samples      []interface{}          `json:"samples"`
	Distribution map[string]int         `json:"distribution"`
	CorrChecked  int                    `json:"corr_checked"`
	OracleCalls  int                    `json:"oracle_calls"`
	Failures     []Failure              `json:"failures"`
	Notes        []string               `json:"notes"`
	Extra        map[string]interface{} `json:"extra,omitempty"`
	WallS        float64                `json:"wall_s"`

	mu       sync.Mutex
	current  interface{}
	distinct map[string]struct{}
	start    time.Time
	maxFail  int
}

func NewResult(prop, tier string, seed uint64) *Result {
	return &Result{Property: prop, Tier: tier, Seed: seed, Distribution: map[string]int{},
		distinct: map[string]struct{}{}, start: time.Now(), maxFail: 20, Samples: []interface{}{}, Failures: []Failure{}, Notes: []string{}}
}

// Count records one evaluated case. key identifies the case for the distinct
// count; nontrivial says whether it counts as non-trivial under Rule.
func (r *Result) Count(key string, nontrivial bool) {
	r.mu.Lock()
	defer r.mu.Unlock()
	r.Evaluations++
	if nontrivial {
		if _, ok := r.distinct[key]; !ok {
			r.distinct[key] = struct{}{}
			r.Nontrivial++
		}
	}
}
func (r *Result) Dist(k string) {
	r.mu.Lock()
	r.Distribution[k]++
	r.mu.Unlock()
}
func (r *Result) Sample(v interface{}) {
	r.mu.Lock()
	if len(r.Samples) < 5 {
		r.Samples = append(r.Samples, v)
	}
	r.mu.Unlock()
}
// Running records the case that is about to be handed to the implementation; when the
// implementation panics on the calling goroutine the case is reported as the failing input.
func (r *Result) Running(c interface{}) { r.mu.Lock(); r.current = c; r.mu.Unlock() }
func (r *Result) Current() interface{}  { r.mu.Lock(); defer r.mu.Unlock(); return r.current }
func (r *Result) Corr() { r.mu.Lock(); r.CorrChecked++; r.mu.Unlock() }
func (r *Result) Fail(kind, class, what string, c interface{}) {
	r.mu.Lock()
	defer r.mu.Unlock()
	// keep at most maxFail failures, but always at least one per class
	n := 0
	for _, f := range r.Failures {
		if f.Class == class && f.Kind == kind {
			n++
		}
	}
	if n >= 3 || len(r.Failures) >= r.maxFail && n > 0 {
		return
	}
	r.Failures = append(r.Failures, Failure{kind, class, what, c})
}
func (r *Result) Note(f string, a ...interface{}) {
	r.mu.Lock()
	r.Notes = append(r.Notes, fmt.Sprintf(f, a...))
	r.mu.Unlock()
}
func (r *Result) Write(path string) error {
	r.WallS = time.Since(r.start).Seconds()
	b, err := json.MarshalIndent(r, "", " ")
	if err != nil {
		return err
	}
	return os.WriteFile(path, b, 0644)
}
func (r *Result) NFailures() int { r.mu.Lock(); defer r.mu.Unlock(); return len(r.Failures) }

// ---------- blob generators ----------

// Blob draws a byte string of about n bytes from a mix of shapes; the shape name is returned.
func Blob(r *Rand, n int) ([]byte, string) {
	switch r.Intn(8) {
	case 0:
		return make([]byte, n), "zero"
	case 1: // random with long zero runs
		b := r.Bytes(n)
		for k := 0; k < 1+r.Intn(3) && n > 0; k++ {
			s := r.Intn(n)
			l := r.Intn(n-s+1)
			for i := s; i < s+l; i++ {
				b[i] = 0
			}
		}
		return b, "zero-runs"
	case 2: // low entropy
		b := make([]byte, n)
		for i := range b {
			b[i] = byte(r.Intn(3))
		}
		return b, "low-entropy"
	case 3: // repeated block
		blk := r.Bytes(1 + r.Intn(300))
		b := make([]byte, n)
		for i := range b {
			b[i] = blk[i%len(blk)]
		}
		return b, "repeat"
	default:
		return r.Bytes(n), "random"
	}
}

func SortedKeys(m map[string]int) []string {
	ks := make([]string, 0, len(m))
	for k := range m {
		ks = append(ks, k)
	}
	sort.Strings(ks)
	return ks
}

// Args common to every sub-command.
type Args struct {
	Tier   string
	Seed   uint64
	Oracle string
	Out    string
	Replay string
	Work   string // scratch directory (removed by the caller)
}
