// zinterop: tiny helper built twice -- default (klauspost/compress) and `-tags datadog` (cgo, bundled
// libzstd) -- to check that chunk stores written by one zstd implementation are read by the other.
//
//	zinterop write <storedir> <seed> <n>   store n deterministic chunks (compressed store); prints a digest line
//	zinterop read <storedir>               read every chunk back through LocalStore, verify, print the same digest line
//	zinterop read512 <storedir>            same for a store whose ids are SHA512/256 (the casync fixtures)
package main

import (
	"crypto/sha256"
	"fmt"
	"os"
	"path/filepath"
	"sort"
	"strconv"
	"strings"

	"github.com/folbricht/desync"
)

type rnd struct{ s uint64 }

func (r *rnd) u64() uint64 {
	r.s += 0x9E3779B97F4A7C15
	z := r.s
	z = (z ^ (z >> 30)) * 0xBF58476D1CE4E5B9
	z = (z ^ (z >> 27)) * 0x94D049BB133111EB
	return z ^ (z >> 31)
}

func (r *rnd) bytes(n int) []byte {
	b := make([]byte, n)
	for i := range b {
		if i%8 == 0 {
			v := r.u64()
			for j := 0; j < 8 && i+j < n; j++ {
				b[i+j] = byte(v >> (8 * j))
			}
		}
	}
	return b
}

func chunks(seed uint64, n int) [][]byte {
	r := &rnd{s: seed*7919 + 1}
	out := [][]byte{{0x42}, make([]byte, 1), make([]byte, 4096), make([]byte, 256*1024), r.bytes(256 * 1024), r.bytes(100)}
	for len(out) < n {
		size := int(r.u64() % 70000)
		var b []byte
		switch r.u64() % 4 {
		case 0:
			b = r.bytes(size + 1)
		case 1: // low entropy
			b = make([]byte, size+1)
			for i := range b {
				b[i] = byte(r.u64() % 3)
			}
		case 2: // repeated block
			blk := r.bytes(1 + int(r.u64()%300))
			b = make([]byte, size+1)
			for i := range b {
				b[i] = blk[i%len(blk)]
			}
		default: // random with a long zero run
			b = r.bytes(size + 1)
			for i := len(b) / 3; i < 2*len(b)/3; i++ {
				b[i] = 0
			}
		}
		// make every chunk distinct
		b = append(b, byte(len(out)), byte(len(out)>>8))
		out = append(out, b)
	}
	return out
}

func die(f string, a ...interface{}) {
	fmt.Fprintf(os.Stderr, f+"\n", a...)
	os.Exit(1)
}

func main() {
	if len(os.Args) < 3 {
		die("usage: zinterop write|read|read512 <storedir> [seed n]")
	}
	mode, dir := os.Args[1], os.Args[2]
	desync.Digest = desync.SHA256{}
	if mode == "read512" {
		desync.Digest = desync.SHA512256{}
	}
	s, err := desync.NewLocalStore(dir, desync.StoreOptions{})
	if err != nil {
		die("%v", err)
	}
	switch mode {
	case "write":
		seed, _ := strconv.ParseUint(os.Args[3], 10, 64)
		n, _ := strconv.Atoi(os.Args[4])
		for _, c := range chunks(seed, n) {
			if err := s.StoreChunk(desync.NewChunk(c)); err != nil {
				die("store: %v", err)
			}
		}
		fallthrough
	case "read", "read512":
		var names []string
		filepath.Walk(dir, func(p string, info os.FileInfo, err error) error {
			if err == nil && !info.IsDir() && strings.HasSuffix(p, ".cacnk") {
				names = append(names, strings.TrimSuffix(filepath.Base(p), ".cacnk"))
			}
			return nil
		})
		sort.Strings(names)
		h := sha256.New()
		total := 0
		for _, n := range names {
			id, err := desync.ChunkIDFromString(n)
			if err != nil {
				die("bad name %s", n)
			}
			ch, err := s.GetChunk(id)
			if err != nil {
				die("get %s: %v", n, err)
			}
			d, err := ch.Data()
			if err != nil {
				die("data %s: %v", n, err)
			}
			if desync.Digest.Sum(d) != id {
				die("chunk %s does not hash to its name", n)
			}
			h.Write([]byte(n))
			h.Write(d)
			total += len(d)
		}
		fmt.Printf("chunks=%d bytes=%d digest=%x\n", len(names), total, h.Sum(nil))
	default:
		die("unknown mode %s", mode)
	}
}
