package main

// C18 hostile-archive generator: element sequences.

import (
	"strings"

	"vh/internal/vh"
)

const c18None = "\x00none" // "no Filename element"

type c18B struct {
	els []c18El
	rng *vh.Rand
}

func (b *c18B) meta(mode uint64) c18El {
	e := c18El{K: "E", Mode: mode}
	if b.rng != nil {
		e.UID = []uint64{0, 0, 1000, 65534}[b.rng.Intn(4)]
		e.GID = []uint64{0, 0, 1000, 65534}[b.rng.Intn(4)]
		if b.rng.Chance(2, 3) {
			e.MTime = 1600000000 + uint64(b.rng.Intn(1000000))
		}
		if b.rng.Chance(1, 6) {
			e.Mode = mode&sIFMT | uint64(b.rng.Intn(01000))
			if mode&sIFMT != sIFDIR && b.rng.Chance(1, 3) { // setuid/setgid/sticky (a setgid directory changes the group of what is created in it)
				e.Mode |= uint64(b.rng.Intn(8)) << 9
			}
		}
	}
	return e
}
func (b *c18B) name(n string) {
	if n != c18None {
		b.els = append(b.els, c18El{K: "F", S: hx(n)})
	}
}
func (b *c18B) dir(n string) { b.name(n); b.els = append(b.els, b.meta(sIFDIR|0755)) }
func (b *c18B) bye()         { b.els = append(b.els, c18El{K: "G"}) }
func (b *c18B) raw(k string) { b.els = append(b.els, c18El{K: k}) }
func (b *c18B) file(n, data string) {
	b.name(n)
	b.els = append(b.els, b.meta(sIFREG|0644), c18El{K: "P", S: hx(data)})
}
func (b *c18B) link(n, target string) {
	b.name(n)
	b.els = append(b.els, b.meta(sIFLNK|0777), c18El{K: "S", S: hx(target)})
}
func (b *c18B) dev(n string, mode uint64) {
	b.name(n)
	b.els = append(b.els, b.meta(mode), c18El{K: "D", Major: 1, Minor: 3})
}

// an entry of a random kind
func (b *c18B) any(n string, kind int, target string) {
	switch kind % 5 {
	case 0:
		b.dir(n)
		if b.rng != nil && b.rng.Bool() {
			b.file("x", "below")
		}
		b.bye()
	case 1:
		b.file(n, "data-"+n)
	case 2:
		b.link(n, target)
	case 3:
		b.dev(n, sIFIFO|0644)
	case 4:
		b.dev(n, sIFCHR|0600)
	}
}

var c18Targets = []string{
	"../outside", "../outside/x", "../../outside", "../../../outside", "@SB@/outside", "@SB@/outside/x", "@SB@",
	"..", ".", "../..", "../../..", "../lnk", "../lnk/sub", "../sentinel", "../sib", "outside", "x", "s", "t", "d",
	"nonexistent", "/nonexistent-c18/q", "", "s/", "./../outside", "..//outside", "../outside/", "../outside/.",
}

var c18CraftedNames = []string{
	"..", ".", "", "a/b", "/abs", "../x", "../../x", "../outside/x", "../outside/new", "../sentinel", "sub/evil", "s/x", "s/sub/y",
	"a/../../x", "../../../../../../x", "./x", "x/", "x/.", "x/..", "/", "//", "a//b", "..x", "...", ". ", "s/../x",
	"nul\x00byte", "\x00", strings.Repeat("n", 255), strings.Repeat("n", 256), strings.Repeat("L", 5000), "@SB@/outside/x",
	"../dest/x", "d/../../outside/x",
}

var c18PlainNames = []string{"a", "b", "d", "e", "f", "s", "t", "x", "y", "outside", "sub", "lnk", "..x", "...", "a b", "\xff\xfe"}

func (b *c18B) pick(l []string) string { return l[b.rng.Intn(len(l))] }

// a well-formed tree below the current directory
func (b *c18B) tree(depth, width int) {
	used := map[string]bool{}
	for i := 0; i < width; i++ {
		n := b.pick(c18PlainNames)
		if used[n] {
			continue
		}
		used[n] = true
		switch b.rng.Intn(6) {
		case 0, 1:
			b.dir(n)
			if depth > 0 {
				b.tree(depth-1, 1+b.rng.Intn(3))
			}
			b.bye()
		case 2, 3:
			b.file(n, string(b.rng.Bytes(b.rng.Intn(40))))
		case 4:
			b.link(n, b.pick(c18Targets))
		case 5:
			b.dev(n, []uint64{sIFIFO | 0644, sIFCHR | 0600, sIFREG | 0600}[b.rng.Intn(3)])
		}
	}
}

// the names a decoder is supposed to refuse
var c18Degenerate = []string{"", ".", "..", "a/..", "./", "x/.", "d/../", "../d", "/", "s/x", "nul\x00"}

// c18Histories: the degenerate name re-entered with changing kinds -- a file (CreateFile clears the
// way with RemoveAll, whatever the name resolves to), then a link to the outside (which as a
// first step would fail on a directory), then ordinary entries that would be written through
// it -- at the root and inside a sub-directory, with the destination existing and absent.
func c18Histories(name, shape string) []*c18Case {
	var out []*c18Case
	for _, depth := range []int{0, 1, 2} {
		for _, dest := range []string{"", "absent"} {
			for variant := 0; variant < 3; variant++ {
				b := &c18B{}
				b.dir(c18None)
				for i := 0; i < depth; i++ {
					b.dir([]string{"d", "e"}[i])
				}
				switch variant {
				case 0: // file, link, entries
					b.file(name, "step1")
					b.link(name, "@SB@/outside")
				case 1: // device, file, link, entries
					b.dev(name, sIFCHR|0600)
					b.file(name, "step1")
					b.link(name, "@SB@/outside")
				case 2: // link at once
					b.link(name, "@SB@/outside")
				}
				b.file("x", "PWNED")
				b.dir("sub")
				b.file("y", "PWNED")
				b.bye()
				b.link("sentinel", "gone")
				for i := 0; i <= depth; i++ {
					b.bye()
				}
				out = append(out, &c18Case{Shape: shape, Elems: b.els, Via: []string{"untar", "index"}[(depth+variant)%2], Dest: dest})
			}
		}
	}
	return out
}

func c18Corpus() []*c18Case {
	var out []*c18Case
	add := func(shape string, f func(b *c18B)) {
		for _, via := range []string{"untar", "index"} {
			b := &c18B{}
			f(b)
			out = append(out, &c18Case{Shape: shape, Elems: b.els, Via: via})
		}
	}
	// the design-round witnesses for the entry-name fix
	for _, n := range []string{"../outside/x", "../escaped", "a/../../x", "sub/evil", "", "..", "/abs"} {
		n := n
		add("corpus-name", func(b *c18B) { b.dir(c18None); b.file(n, "PWNED"); b.bye() })
		add("corpus-name-dir", func(b *c18B) { b.dir(c18None); b.dir(n); b.file("x", "PWNED"); b.bye(); b.bye() })
		add("corpus-name-link", func(b *c18B) { b.dir(c18None); b.link(n, "x"); b.bye() })
	}
	// nameless entries: the current directory is replaced by a file, then by a link
	add("corpus-nameless-chain", func(b *c18B) {
		b.dir(c18None)
		b.dir("d")
		b.dir("e")
		b.bye()
		b.file(c18None, "f")
		b.link(c18None, "../outside")
		b.file("x", "PWNED")
		b.bye()
		b.bye()
	})
	add("corpus-nameless-root", func(b *c18B) {
		b.file(c18None, "f")
		b.link(c18None, "outside")
		b.file("x", "PWNED")
	})
	// the first entry is a link / a device at the destination path itself
	add("corpus-root-link", func(b *c18B) {
		b.link(c18None, "outside")
		b.file("x", "PWNED")
		b.dir("sub")
		b.file("y", "PWNED")
		b.bye()
	})
	add("corpus-root-link-abs", func(b *c18B) { b.link(c18None, "@SB@/outside"); b.file("x", "PWNED") })
	add("corpus-root-device", func(b *c18B) { b.dev(c18None, sIFIFO|0644); b.file("x", "PWNED") })
	// the destination does not exist yet (or is a file) and the root entry is not a directory
	for _, dest := range []string{"absent", "file", ""} {
		dest := dest
		addD := func(shape string, f func(b *c18B)) {
			n := len(out)
			add(shape, f)
			for _, c := range out[n:] {
				c.Dest = dest
			}
		}
		addD("corpus-leafroot-link", func(b *c18B) { b.link(c18None, "outside"); b.file("x", "PWNED") })
		addD("corpus-leafroot-link-abs", func(b *c18B) { b.link(c18None, "@SB@/outside"); b.dir("sub"); b.file("y", "PWNED"); b.bye() })
		addD("corpus-leafroot-link-up", func(b *c18B) { b.link(c18None, ".."); b.link("sentinel", "gone") })
		addD("corpus-leafroot-fifo", func(b *c18B) { b.dev(c18None, sIFIFO|0644); b.file("x", "PWNED") })
		addD("corpus-leafroot-file", func(b *c18B) { b.file(c18None, "single"); b.file("x", "PWNED") })
		addD("corpus-leafroot-only", func(b *c18B) { b.link(c18None, "outside/x") })
		addD("corpus-dirroot", func(b *c18B) { b.dir(c18None); b.file("x", "fine"); b.link("s", "../outside"); b.bye() })
		addD("corpus-noroot", func(b *c18B) { b.file("x", "no root entry"); b.link("s", "../outside") })
	}
	// one name with a history: directory, then file, then link (what a deferred second pass over directories would follow)
	add("corpus-name-history", func(b *c18B) {
		b.dir(c18None)
		b.els = append(b.els, c18El{K: "F", S: hx("a")}, c18El{K: "E", Mode: sIFDIR | 0700, UID: 1000, GID: 1000, MTime: 1300000000})
		b.bye()
		b.file("a", "was a directory")
		b.els = append(b.els, c18El{K: "F", S: hx("a")}, c18El{K: "E", Mode: sIFLNK | 0777, UID: 1000, GID: 1000, MTime: 1300000001}, c18El{K: "S", S: hx("../outside")})
		b.bye()
	})
	// degenerate names as steps of a history
	for _, n := range []string{"", ".", "a/..", ".."} {
		out = append(out, c18Histories(n, "corpus-degenerate-history")...)
	}
	// link then the same name
	for k := 0; k < 5; k++ {
		k := k
		add("corpus-link-then-same", func(b *c18B) { b.dir(c18None); b.link("s", "../outside"); b.any("s", k, "../outside/x"); b.bye() })
		add("corpus-link-then-below", func(b *c18B) {
			b.dir(c18None)
			b.link("s", "@SB@/outside")
			b.dir("s")
			b.any("x", k, "..")
			b.bye()
			b.bye()
		})
	}
	return out
}

func c18Gen(rng *vh.Rand) *c18Case {
	b := &c18B{rng: rng}
	c := &c18Case{NoSameOwner: rng.Chance(1, 4), NoSamePerms: rng.Chance(1, 4)}
	switch v := rng.Intn(20); {
	case v < 12:
		c.Via = "untar"
	case v < 17:
		c.Via = "index"
	case v < 19:
		c.Via = "cli"
	default:
		c.Via = "cli-index"
	}
	switch v := rng.Intn(25); {
	case v < 3:
		c.Dest = "absent"
	case v < 5:
		c.Dest = "file"
	}
	root := func() {
		if rng.Chance(9, 10) {
			b.dir(c18None)
		}
	}
	descend := func() int { // enter 0..5 nested directories
		d := rng.Intn(6)
		for i := 0; i < d; i++ {
			b.dir(b.pick([]string{"a", "b", "d", "e"}))
		}
		return d
	}
	close := func(d int) {
		for i := 0; i < d+1; i++ {
			b.bye()
		}
	}
	switch rng.Intn(16) {
	case 15: // a name the decoder has to refuse, re-entered as file, link, ...; ordinary entries after it
		c.Shape = "degenerate-history"
		root()
		d := descend()
		n := b.pick(c18Degenerate)
		for i := 1 + rng.Intn(3); i > 0; i-- {
			b.any(n, 1+rng.Intn(4), b.pick(c18Targets))
		}
		b.link(n, b.pick([]string{"@SB@/outside", "../outside", "../../outside", ".."}))
		b.file("x", "PWNED")
		b.dir("sub")
		b.file("y", "PWNED")
		b.bye()
		close(d)
	case 14: // one name, several entries of changing kinds
		c.Shape = "name-history"
		root()
		d := descend()
		n := b.pick([]string{"a", "s", "d"})
		for i := 2 + rng.Intn(3); i > 0; i-- {
			b.any(n, rng.Intn(5), b.pick(c18Targets))
		}
		if rng.Bool() {
			b.file("x", "after")
		}
		close(d)
	case 13: // the root entry is a file, link or device; more entries follow
		c.Shape = "leaf-root"
		if rng.Chance(1, 2) {
			c.Dest = []string{"absent", "file"}[rng.Intn(2)]
		}
		for i := rng.Intn(2); i > 0; i-- {
			b.bye()
		}
		switch rng.Intn(4) {
		case 0:
			b.file(c18None, "single")
		case 1, 2:
			b.link(c18None, b.pick(c18Targets))
		case 3:
			b.dev(c18None, []uint64{sIFIFO | 0644, sIFCHR | 0600}[rng.Intn(2)])
		}
		for i := rng.Intn(4); i > 0; i-- {
			b.any(b.pick(c18PlainNames), rng.Intn(5), b.pick(c18Targets))
		}
	case 0:
		c.Shape = "benign"
		b.dir(c18None)
		b.tree(rng.Intn(6), 1+rng.Intn(4))
		b.bye()
	case 1: // one crafted name in an otherwise fine tree
		c.Shape = "crafted-name"
		root()
		d := descend()
		if rng.Bool() {
			b.tree(1, 2)
		}
		b.any(b.pick(c18CraftedNames), rng.Intn(5), b.pick(c18Targets))
		if rng.Bool() {
			b.file("x", "after")
		}
		close(d)
	case 2: // link, then an entry with the same name, or below it
		c.Shape = "link-then-same-name"
		root()
		d := descend()
		b.link("s", b.pick(c18Targets))
		switch rng.Intn(3) {
		case 0:
			b.any("s", rng.Intn(5), b.pick(c18Targets))
		case 1:
			b.dir("s")
			b.any(b.pick([]string{"x", "sub", "new"}), rng.Intn(5), b.pick(c18Targets))
			b.bye()
		case 2:
			b.link("t", "s")
			b.dir("t")
			b.file("x", "PWNED")
			b.bye()
		}
		close(d)
	case 3: // directory (with content), then a link with the same name, then the name again
		c.Shape = "dir-then-link"
		root()
		d := descend()
		b.dir("s")
		if rng.Bool() {
			b.file("x", "inner")
		}
		b.bye()
		b.link("s", b.pick(c18Targets))
		if rng.Bool() {
			b.dir("s")
			b.file("x", "PWNED")
			b.bye()
		}
		close(d)
	case 4: // goodbyes in excess / before any entry
		c.Shape = "excess-goodbye"
		for i := rng.Intn(4); i > 0; i-- {
			b.bye()
		}
		root()
		d := descend()
		for i := rng.Intn(d + 4); i > 0; i-- {
			b.bye()
		}
		b.any(b.pick(c18PlainNames), rng.Intn(5), b.pick(c18Targets))
		b.dir("d")
		b.file("x", "after")
		for i := rng.Intn(9); i > 0; i-- {
			b.bye()
		}
		if rng.Bool() {
			b.file("y", "late")
		}
	case 5: // a file named like a directory created before, and the reverse
		c.Shape = "file-vs-dir"
		root()
		d := descend()
		b.dir("d")
		b.file("x", "inner")
		b.link("l", "../..")
		b.bye()
		b.any("d", 1+rng.Intn(4), b.pick(c18Targets))
		if rng.Bool() {
			b.dir("d")
			b.file("x", "again")
			b.bye()
		}
		close(d)
	case 6: // entries without a Filename element
		c.Shape = "nameless"
		root()
		d := descend()
		if d > 0 && rng.Bool() {
			b.bye()
			d--
		}
		for i := 1 + rng.Intn(3); i > 0; i-- {
			switch rng.Intn(5) {
			case 0:
				b.file(c18None, "f")
			case 1:
				b.link(c18None, b.pick(c18Targets))
			case 2:
				b.dev(c18None, sIFIFO|0644)
			case 3:
				b.dir(c18None)
			case 4:
				b.any(b.pick(c18PlainNames), rng.Intn(5), b.pick(c18Targets))
			}
		}
		b.file("x", "PWNED")
		close(d)
	case 7: // the destination holds content of an earlier extraction
		c.Shape = "pre-existing"
		c.Dest = ""
		c.Pre = []c18Pre{{Path: "pre", Kind: "l", S: hx(b.pick(c18Targets[:20]))}, {Path: "d", Kind: "d"}, {Path: "d/l", Kind: "l", S: hx("../../outside")},
			{Path: "f", Kind: "f", S: hx("old")}}
		if rng.Bool() {
			c.Pre = append(c.Pre, c18Pre{Path: "s", Kind: "l", S: hx("@SB@/outside")})
		}
		root()
		n := b.pick([]string{"pre", "d", "f", "s"})
		switch rng.Intn(3) {
		case 0:
			b.dir(n)
			b.any(b.pick([]string{"x", "l", "sub"}), rng.Intn(5), b.pick(c18Targets))
			b.bye()
		case 1:
			b.any(n, rng.Intn(5), b.pick(c18Targets))
		case 2:
			b.dir("d")
			b.dir("l")
			b.file("x", "PWNED")
			b.bye()
			b.bye()
		}
		b.bye()
	case 8: // malformed element order
		c.Shape = "malformed"
		root()
		switch rng.Intn(8) {
		case 0:
			b.els = append(b.els, b.meta(sIFREG|0644), b.meta(sIFREG|0644))
		case 1:
			b.els = append(b.els, c18El{K: "P", S: hx("x")})
		case 2:
			b.name("a")
			b.els = append(b.els, b.meta(sIFLNK|0777), c18El{K: "S", S: hx("../outside/x")}, c18El{K: "P", S: hx("both")})
		case 3:
			b.name("a")
			b.els = append(b.els, b.meta(sIFREG|0644), c18El{K: "X", S: hx("no-nul")}, c18El{K: "P", S: hx("x")})
		case 4:
			b.name("a")
			b.raw("U")
		case 5:
			b.file("a", "x")
			b.raw("B")
			b.file("b", "y")
		case 6:
			b.name("a")
			b.name("b")
			b.els = append(b.els, b.meta(sIFREG|0644), c18El{K: "D", Major: 1, Minor: 3}, c18El{K: "S", S: hx("..")})
			b.raw("O")
			b.bye()
		case 7:
			b.name("a")
			b.els = append(b.els, c18El{K: "S", S: hx("..")})
		}
		b.file("z", "tail")
		b.bye()
	case 9: // deep nesting with a hostile leaf
		c.Shape = "deep"
		root()
		d := 0
		for ; d < 6; d++ {
			b.dir(b.pick([]string{"a", "b", "s"}))
			if rng.Chance(1, 3) {
				b.link(b.pick([]string{"s", "t"}), b.pick(c18Targets))
			}
		}
		b.any(b.pick(append(c18PlainNames, c18CraftedNames...)), rng.Intn(5), b.pick(c18Targets))
		close(d)
	default: // element soup
		c.Shape = "soup"
		names := []string{"a", "d", "s", "t", "x", "s", "s"}
		if rng.Chance(1, 3) {
			names = append(names, c18CraftedNames...)
		}
		if rng.Chance(2, 3) {
			b.dir(c18None)
		}
		for i := 2 + rng.Intn(30); i > 0; i-- {
			switch rng.Intn(16) {
			case 0, 1, 2:
				b.name(b.pick(names))
			case 3, 4:
				b.els = append(b.els, b.meta(sIFDIR|0755))
			case 5:
				b.els = append(b.els, b.meta(sIFREG|0644))
			case 6:
				b.els = append(b.els, c18El{K: "P", S: hx("soup")})
			case 7:
				b.els = append(b.els, c18El{K: "S", S: hx(b.pick(c18Targets))})
			case 8:
				b.bye()
			case 9:
				b.file(b.pick(names), "soupfile")
			case 10:
				b.link(b.pick(names), b.pick(c18Targets))
			case 11:
				b.dir(b.pick(names))
			case 12:
				if rng.Chance(1, 4) {
					b.raw("O")
				} else {
					b.dir(b.pick(names))
				}
			case 13:
				b.file(c18None, "nameless")
			case 14:
				b.link(c18None, b.pick(c18Targets))
			case 15:
				b.dev(b.pick(names), sIFIFO|0600)
			}
		}
	}
	c.Elems = b.els
	return c
}
