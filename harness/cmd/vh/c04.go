package main

// C04 -- index files round-trip exactly and malformed ones are rejected.
//
// Two kinds of case:
//   encode: a generated Index -> Index.WriteTo; the bytes are checked against an independent
//           fixed-offset reader of the caibx layout (c04RefParse, written from the format
//           description) and read back with IndexFromReader; byte-for-byte against the model.
//   decode: a byte string (strict prefix, single-field corruption, swapped rows, duplicated
//           offsets, casync-made fixture, ...) -> IndexFromReader; the property predicate is
//           evaluated from the bytes alone (c04Predicate); result class and table against the model.

import (
	"bytes"
	"encoding/binary"
	"encoding/hex"
	"fmt"
	"io"
	"net/http"
	"net/http/httptest"
	"net/url"
	"os"
	"os/exec"
	"path/filepath"
	"strconv"
	"strings"

	"github.com/folbricht/desync"

	"vh/internal/vh"
)

func init() { props["C04"] = runC04 }

type c04Row struct {
	ID   string `json:"id"`
	Size uint64 `json:"size"`
}

type c04Case struct {
	Kind   string   `json:"kind"` // encode | decode
	Digest string   `json:"digest"`
	Flags  uint64   `json:"flags,omitempty"`
	Min    uint64   `json:"min,omitempty"`
	Avg    uint64   `json:"avg,omitempty"`
	Max    uint64   `json:"max,omitempty"`
	Rows   []c04Row `json:"rows,omitempty"`
	// encode: the Start fields of the chunks when they are NOT the running sum of the sizes (an Index
	// assembled from other lists: concatenation, sub-range, zero / shuffled Starts); WriteTo has to go by the sizes
	Starts    []uint64 `json:"starts,omitempty"`
	StartsTag string   `json:"starts_kind,omitempty"`
	// decode
	FileHex   string `json:"file_hex,omitempty"`
	Mut       string `json:"mutation,omitempty"`
	Truncated bool   `json:"truncated,omitempty"` // strict prefix of a file WriteTo produced
	Got       string `json:"impl_result,omitempty"`
	Model     string `json:"model_result,omitempty"`
}

const (
	c04IndexType   = 0x96824d9c7b129ff9
	c04TableType   = 0xe75b9e112f17417d
	c04TailMarker  = 0x4b4f050e5549ecd1
	c04SHA512Flag  = 0x2000000000000000
	c04MaxUint64   = ^uint64(0)
	c04HeaderBytes = 48
)

func c04SetDigest(d string) {
	if d == "sha256" {
		desync.Digest = desync.SHA256{}
	} else {
		desync.Digest = desync.SHA512256{}
	}
}

func c04BuildIndex(c *c04Case) desync.Index {
	idx := desync.Index{Index: desync.FormatIndex{FeatureFlags: c.Flags, ChunkSizeMin: c.Min, ChunkSizeAvg: c.Avg, ChunkSizeMax: c.Max}}
	var off uint64
	for i, r := range c.Rows {
		var id desync.ChunkID
		b, _ := hex.DecodeString(r.ID)
		copy(id[:], b)
		start := off
		if i < len(c.Starts) {
			start = c.Starts[i]
		}
		idx.Chunks = append(idx.Chunks, desync.IndexChunk{ID: id, Start: start, Size: r.Size})
		off += r.Size
	}
	return idx
}

func c04IndexString(idx desync.Index) string {
	var sb strings.Builder
	fmt.Fprintf(&sb, "%d %d %d %d ", idx.Index.FeatureFlags, idx.Index.ChunkSizeMin, idx.Index.ChunkSizeAvg, idx.Index.ChunkSizeMax)
	if len(idx.Chunks) == 0 {
		sb.WriteString("-")
	}
	for i, ch := range idx.Chunks {
		if i > 0 {
			sb.WriteByte(',')
		}
		sb.WriteString(hex.EncodeToString(ch.ID[:]))
		sb.WriteByte(':')
		sb.WriteString(strconv.FormatUint(ch.Start, 10))
		sb.WriteByte(':')
		sb.WriteString(strconv.FormatUint(ch.Size, 10))
	}
	return sb.String()
}

// ---------- independent reader of the caibx layout (fixed offsets, no streaming) ----------

type c04Ref struct {
	HdrSize, HdrType                     uint64
	Flags, Min, Avg, Max                 uint64
	TblSize, TblType                     uint64
	Offsets                              []uint64
	IDs                                  [][]byte
	Fill2, IndexOffset, TableSize, Marker uint64
	End                                  int // first byte after the tail record
}

func c04Word(b []byte, off int) (uint64, bool) {
	if off+8 > len(b) {
		return 0, false
	}
	return binary.LittleEndian.Uint64(b[off:]), true
}

// c04RefParse reads the fields at their offsets. ok=false: the file ends before the tail record is complete.
func c04RefParse(b []byte) (r c04Ref, ok bool) {
	w := func(off int) uint64 {
		v, good := c04Word(b, off)
		if !good {
			ok = false
		}
		return v
	}
	ok = true
	r.HdrSize, r.HdrType = w(0), w(8)
	r.Flags, r.Min, r.Avg, r.Max = w(16), w(24), w(32), w(40)
	r.TblSize, r.TblType = w(48), w(56)
	if !ok {
		return r, false
	}
	p := 64
	for {
		o, good := c04Word(b, p)
		if !good {
			return r, false
		}
		if o == 0 {
			break
		}
		if p+40 > len(b) {
			return r, false
		}
		r.Offsets = append(r.Offsets, o)
		r.IDs = append(r.IDs, b[p+8:p+40])
		p += 40
	}
	r.Fill2, r.IndexOffset, r.TableSize, r.Marker = w(p+8), w(p+16), w(p+24), w(p+32)
	r.End = p + 40
	return r, ok
}

// c04Predicate: what the property says about IndexFromReader on these bytes, evaluated from the bytes
// alone. Returns the classes of violated clauses.
func c04Predicate(c *c04Case, file []byte, idx desync.Index, err error) (class, what string) {
	ref, complete := c04RefParse(file)
	accepted := err == nil
	if c.Truncated && accepted {
		return "accepts-truncated-file", fmt.Sprintf("IndexFromReader accepted a strict prefix (%d bytes) of a valid index file", len(file))
	}
	if !complete {
		if accepted {
			return "accepts-incomplete-file", "IndexFromReader accepted a file that ends before its tail record"
		}
		return "", ""
	}
	wellFormedFrame := ref.HdrType == c04IndexType && ref.TblType == c04TableType && ref.TblSize == c04MaxUint64 && ref.Fill2 == 0 && ref.Marker == c04TailMarker
	if !wellFormedFrame {
		if accepted {
			return "accepts-bad-marker", "IndexFromReader accepted a file whose element types / table size / tail record (0, 0, .., .., marker) are wrong"
		}
		return "", ""
	}
	sha512file := ref.Flags&c04SHA512Flag != 0
	if sha512file != (c.Digest != "sha256") {
		if accepted {
			return "accepts-digest-mismatch", fmt.Sprintf("index flagged sha512-256=%v accepted while Digest is %s", sha512file, c.Digest)
		}
		return "", ""
	}
	var last uint64
	for i, o := range ref.Offsets {
		if o < last {
			if !accepted {
				return "", ""
			}
			// whatever the declared maximum: 2^64-(last-o) <= max does not excuse it
			return "accepts-decreasing-offsets", fmt.Sprintf("row %d: end offset %d after %d accepted (max=%d)", i, o, last, ref.Max)
		} else if o-last > ref.Max {
			if accepted {
				return "accepts-oversize-chunk", fmt.Sprintf("row %d: chunk of %d bytes accepted with max %d", i, o-last, ref.Max)
			}
			return "", ""
		}
		last = o
	}
	if !accepted {
		// rejecting a file none of the clauses condemns is not a violation of this property unless it is
		// a file WriteTo itself produced (checked by the encode cases); the model comparison covers the rest
		return "", ""
	}
	// accepted: the table must be the one the bytes spell out
	if idx.Index.FeatureFlags != ref.Flags || idx.Index.ChunkSizeMin != ref.Min || idx.Index.ChunkSizeAvg != ref.Avg || idx.Index.ChunkSizeMax != ref.Max {
		return "misread-parameters", "returned parameters differ from the words at offsets 16..47"
	}
	if len(idx.Chunks) != len(ref.Offsets) {
		return "misread-table-length", fmt.Sprintf("returned %d chunks, the table holds %d", len(idx.Chunks), len(ref.Offsets))
	}
	last = 0
	for i, ch := range idx.Chunks {
		if !bytes.Equal(ch.ID[:], ref.IDs[i]) || ch.Start != last || ch.Size != ref.Offsets[i]-last {
			return "misread-table-row", fmt.Sprintf("row %d differs from the bytes at offset %d", i, 64+40*i)
		}
		last = ref.Offsets[i]
	}
	return "", ""
}

func c04ErrKind(err error) string {
	if err == nil {
		return "ok"
	}
	return "err"
}

// ---------- case evaluation ----------

func c04Bucket(n int) string {
	switch {
	case n <= 2:
		return strconv.Itoa(n)
	case n <= 16:
		return "3-16"
	case n <= 200:
		return "17-200"
	default:
		return ">200"
	}
}

func c04RowsArg(c *c04Case) string {
	if len(c.Rows) == 0 {
		return "-"
	}
	var sb strings.Builder
	var off uint64
	for i, r := range c.Rows {
		if i > 0 {
			sb.WriteByte(',')
		}
		start := off
		if i < len(c.Starts) {
			start = c.Starts[i] // the model's encode_index must not look at it either
		}
		fmt.Fprintf(&sb, "%s:%d:%d", r.ID, start, r.Size)
		off += r.Size
	}
	return sb.String()
}

// wfIndex: the domain of the round-trip theorem (sizes <= max, no overflow, first chunk not empty).
func c04WF(c *c04Case) bool {
	var tot uint64
	for i, r := range c.Rows {
		if r.Size > c.Max || (i == 0 && r.Size == 0) || tot+r.Size < tot {
			return false
		}
		tot += r.Size
	}
	return true
}

func c04Encode(a vh.Args, o *vh.Oracle, r *vh.Result, c *c04Case) ([]byte, error) {
	c04SetDigest(c.Digest)
	idx := c04BuildIndex(c)
	var buf bytes.Buffer
	n, err := idx.WriteTo(&buf)
	file := buf.Bytes()
	flagOK := (c.Flags&c04SHA512Flag != 0) == (c.Digest != "sha256")
	wf := c04WF(c)
	r.Count(fmt.Sprintf("enc|%s|%d|%x|%d|%s|%s", c.Digest, len(c.Rows), c.Flags, c.Max, c.RowsKey(), c.StartsTag), len(c.Rows) > 0)
	if c.StartsTag != "" {
		r.Dist("encode-starts:" + c.StartsTag)
	}
	r.Dist("encode-rows:" + c04Bucket(len(c.Rows)))
	r.Dist(fmt.Sprintf("encode-wf:%v", wf))
	r.Dist("digest:" + c.Digest)
	r.Sample(map[string]interface{}{"kind": "encode", "rows": len(c.Rows), "digest": c.Digest, "flags": fmt.Sprintf("%#x", c.Flags), "bytes": len(file)})
	fail := func(class, what string) {
		r.Fail("predicate", class, what, c)
	}
	if err != nil || int(n) != len(file) {
		fail("writeto-error", fmt.Sprintf("WriteTo returned n=%d err=%v for %d bytes", n, err, len(file)))
		return file, nil
	}
	// layout, from the format description
	ref, complete := c04RefParse(file)
	switch {
	case len(file) != 48+16+40*len(c.Rows)+40:
		fail("layout-length", fmt.Sprintf("file has %d bytes, expected %d for %d rows", len(file), 48+16+40*len(c.Rows)+40, len(c.Rows)))
	case !wf:
		// outside the domain WriteTo is meant for (empty first chunk, size > max, total >= 2^64): only the model comparison applies
	case !complete || len(ref.Offsets) != len(c.Rows):
		fail("layout-incomplete", "file written by WriteTo does not parse at the fixed offsets")
	case ref.HdrSize != 48 || ref.HdrType != c04IndexType || ref.TblSize != c04MaxUint64 || ref.TblType != c04TableType:
		fail("layout-headers", "index/table headers differ from (48, CaFormatIndex) / (2^64-1, CaFormatTable)")
	case ref.Flags != c.Flags || ref.Min != c.Min || ref.Avg != c.Avg || ref.Max != c.Max:
		fail("layout-parameters", "feature flags / min / avg / max not at offsets 16..47")
	case ref.Fill2 != 0 || ref.Marker != c04TailMarker || ref.End != len(file):
		fail("layout-tail-marker", "tail record is not 0,0,..,marker at the end of the file")
	case ref.IndexOffset != 48 || ref.TableSize != uint64(len(file)-48):
		fail("layout-tail-sizes", fmt.Sprintf("tail carries index offset %d, table size %d; expected 48, %d", ref.IndexOffset, ref.TableSize, len(file)-48))
	default:
		var off uint64
		for i, row := range c.Rows {
			off += row.Size
			if ref.Offsets[i] != off || hex.EncodeToString(ref.IDs[i]) != row.ID {
				fail("layout-table-row", fmt.Sprintf("row %d: end offset %d in the file, the sizes of rows 0..%d add up to %d%s", i, ref.Offsets[i], i, off, c.startsNote()))
				break
			}
		}
	}
	// read back
	back, rerr := desync.IndexFromReader(bytes.NewReader(file))
	switch {
	case wf && flagOK && rerr != nil:
		fail("roundtrip-rejected", fmt.Sprintf("IndexFromReader rejects what WriteTo wrote: %v", rerr))
	case wf && flagOK && c04IndexString(back) != c04IndexString(c04BuildIndex(&c04Case{Flags: c.Flags, Min: c.Min, Avg: c.Avg, Max: c.Max, Rows: c.Rows})):
		// (ids and sizes as given, Start = sum of the preceding sizes)
		fail("roundtrip-differs", "IndexFromReader(WriteTo(i)) does not have i's ids and sizes"+c.startsNote())
	case !flagOK && rerr == nil:
		fail("accepts-digest-mismatch", "index read back although its digest flag disagrees with desync.Digest")
	}
	if o != nil {
		ans, err := o.Call("c04.encode", u64s(c.Flags), u64s(c.Min), u64s(c.Avg), u64s(c.Max), c04RowsArg(c))
		if err != nil {
			return file, err
		}
		r.Corr()
		if ans != vh.Hex(file) {
			c.Model = "encode differs"
			r.Fail("corr", "corr:C04/encode-bytes", fmt.Sprintf("WriteTo and encode_index differ (%d vs %d bytes, first difference at %d)", len(file), len(vh.UnHex(ans)), firstDiff(file, vh.UnHex(ans))), c)
		}
	}
	return file, nil
}

func (c *c04Case) startsNote() string {
	if c.StartsTag == "" {
		return ""
	}
	return " (Start fields: " + c.StartsTag + ")"
}

// c04StartVariants: the same rows with Start fields that are not the running sum of the sizes.
func c04StartVariants(rng *vh.Rand, c *c04Case) []*c04Case {
	n := len(c.Rows)
	if n < 2 {
		return nil
	}
	mk := func(tag string, starts []uint64) *c04Case {
		v := *c
		v.Starts, v.StartsTag = starts, tag
		return &v
	}
	sum := make([]uint64, n)
	var off uint64
	for i, r := range c.Rows {
		sum[i] = off
		off += r.Size
	}
	zero := make([]uint64, n)
	shifted := make([]uint64, n) // idx.Chunks[k:] of a longer index
	concat := make([]uint64, n)  // two chunk lists appended: the second starts at 0 again
	shuffled := append([]uint64{}, sum...)
	random := make([]uint64, n)
	base := uint64(1 + rng.Intn(1<<30))
	half := 1 + rng.Intn(n-1)
	for i := range sum {
		shifted[i] = sum[i] + base
		concat[i] = sum[i]
		if i >= half {
			concat[i] = sum[i] - sum[half]
		}
		random[i] = rng.U64()
	}
	for i := n - 1; i > 0; i-- {
		j := rng.Intn(i + 1)
		shuffled[i], shuffled[j] = shuffled[j], shuffled[i]
	}
	return []*c04Case{mk("all-zero", zero), mk("sub-range", shifted), mk("concatenation", concat), mk("shuffled", shuffled), mk("random", random)}
}

func (c *c04Case) RowsKey() string {
	if len(c.Rows) == 0 {
		return "-"
	}
	return fmt.Sprintf("%s/%d/%d", c.Rows[0].ID[:8], c.Rows[0].Size, c.Rows[len(c.Rows)-1].Size)
}

func u64s(v uint64) string { return strconv.FormatUint(v, 10) }

func firstDiff(a, b []byte) int {
	for i := 0; i < len(a) && i < len(b); i++ {
		if a[i] != b[i] {
			return i
		}
	}
	return min(len(a), len(b))
}

func c04Decode(a vh.Args, o *vh.Oracle, r *vh.Result, c *c04Case) error {
	c04SetDigest(c.Digest)
	file := vh.UnHex(c.FileHex)
	idx, err := desync.IndexFromReader(bytes.NewReader(file))
	c.Got = c04ErrKind(err)
	mutClass := strings.SplitN(c.Mut, "@", 2)[0]
	r.Count(fmt.Sprintf("dec|%s|%s|%d|%x", c.Digest, c.Mut, len(file), fnv(file)), mutClass != "none")
	r.Dist("decode:" + mutClass)
	r.Dist("decode-result:" + c.Got)
	if cls, what := c04Predicate(c, file, idx, err); cls != "" {
		r.Fail("predicate", cls, what+" (mutation "+c.Mut+")", c)
	}
	if o != nil {
		ans, oerr := o.Call("c04.decode", c.Digest, vh.Hex(file))
		if oerr != nil {
			return oerr
		}
		r.Corr()
		f := strings.SplitN(ans, " ", 4)
		c.Model = f[0]
		if f[0] == "err" {
			c.Model = f[0] + ":" + f[1]
		}
		switch {
		case f[0] != c.Got:
			r.Fail("corr", "corr:C04/decode-class", fmt.Sprintf("IndexFromReader=%s (%v), decode_index=%s (mutation %s)", c.Got, err, c.Model, c.Mut), c)
		case f[0] == "ok" && f[3] != c04IndexString(idx):
			r.Fail("corr", "corr:C04/decode-table", "IndexFromReader and decode_index return different tables (mutation "+c.Mut+")", c)
		}
	}
	return nil
}

func fnv(b []byte) uint32 {
	h := uint32(2166136261)
	for _, x := range b {
		h = (h ^ uint32(x)) * 16777619
	}
	return h
}

// ---------- generators ----------

func c04RandU64(rng *vh.Rand) uint64 {
	switch rng.Intn(6) {
	case 0:
		return 0
	case 1:
		return uint64(rng.Intn(1 << 20))
	case 2:
		return 1 << uint(rng.Intn(64))
	case 3:
		return c04MaxUint64 - uint64(rng.Intn(3))
	default:
		return rng.U64()
	}
}

func c04GenIndex(rng *vh.Rand, nrows int) *c04Case {
	c := &c04Case{Kind: "encode", Digest: "sha512-256"}
	if rng.Bool() {
		c.Digest = "sha256"
	}
	c.Flags = c04RandU64(rng)
	if !rng.Chance(1, 12) { // mostly the flag agrees with the digest
		if c.Digest == "sha256" {
			c.Flags &^= c04SHA512Flag
		} else {
			c.Flags |= c04SHA512Flag
		}
	}
	c.Min, c.Avg = c04RandU64(rng), c04RandU64(rng)
	switch rng.Intn(5) {
	case 0:
		c.Max = uint64(1 + rng.Intn(4))
	case 1:
		c.Max = 1 << 40
	case 2:
		c.Max = c04MaxUint64
	default:
		c.Max = uint64(1 + rng.Intn(1<<18))
	}
	budget := c04MaxUint64
	for i := 0; i < nrows; i++ {
		var sz uint64
		m := c.Max
		if m > budget {
			m = budget
		}
		switch rng.Intn(8) {
		case 0:
			sz = m
		case 1:
			if i > 0 {
				sz = 0 // duplicated end offset
			} else {
				sz = 1
			}
		default:
			if m > 1<<20 && rng.Chance(9, 10) {
				sz = 1 + uint64(rng.Intn(1<<20))
			} else if m > 0 {
				sz = 1 + rng.U64()%m
			}
		}
		if sz > m {
			sz = m
		}
		budget -= sz
		id := rng.Bytes(32)
		if rng.Chance(1, 20) {
			id = make([]byte, 32) // all-zero id: looks like a tail record
		}
		c.Rows = append(c.Rows, c04Row{ID: hex.EncodeToString(id), Size: sz})
	}
	// now and then leave the domain WriteTo is meant for
	if nrows > 0 && rng.Chance(1, 10) {
		j := rng.Intn(nrows)
		switch rng.Intn(3) {
		case 0:
			c.Rows[0].Size = 0
		case 1:
			if c.Max < c04MaxUint64 {
				c.Rows[j].Size = c.Max + 1 + uint64(rng.Intn(3))
			}
		case 2:
			c.Rows[j].Size = c04MaxUint64 - uint64(rng.Intn(1000)) // total wraps around
		}
	}
	return c
}

func putWord(b []byte, off int, v uint64) []byte {
	out := append([]byte{}, b...)
	binary.LittleEndian.PutUint64(out[off:], v)
	return out
}

// c04Mutations derives decode cases from a valid file: strict prefixes, single-field corruptions,
// swapped rows, duplicated offsets.
func c04Mutations(rng *vh.Rand, base *c04Case, file []byte, thorough bool) []*c04Case {
	var out []*c04Case
	mk := func(mut string, f []byte, trunc bool) {
		out = append(out, &c04Case{Kind: "decode", Digest: base.Digest, Mut: mut, FileHex: vh.Hex(f), Truncated: trunc})
	}
	k := len(base.Rows)
	mk("none", file, false)
	// strict prefixes: all of them for small files, the structural boundaries and a sample otherwise
	cuts := map[int]bool{}
	if len(file) <= 400 || thorough && len(file) <= 3000 {
		for n := 0; n < len(file); n++ {
			cuts[n] = true
		}
	} else {
		for _, n := range []int{0, 1, 7, 8, 9, 15, 16, 17, 40, 47, 48, 49, 55, 56, 57, 63, 64, 65, 71, 72, 73, 103, 104, 105} {
			cuts[n] = true
		}
		for t := 0; t < 12; t++ {
			j := rng.Intn(k + 1)
			cuts[64+40*j+[]int{-1, 0, 1, 7, 8, 9, 39}[rng.Intn(7)]] = true
			cuts[rng.Intn(len(file))] = true
		}
		for n := len(file) - 41; n < len(file); n++ {
			cuts[n] = true
		}
	}
	for n := 0; n < len(file); n++ {
		if cuts[n] {
			mk(fmt.Sprintf("prefix@%d", n), file[:n], c04WF(base))
		}
	}
	// single-field corruptions
	word := func(off int) uint64 { return binary.LittleEndian.Uint64(file[off:]) }
	field := func(name string, off int) {
		old := word(off)
		vals := []uint64{old ^ 1, old + 1, old - 1, 0, c04MaxUint64, old ^ (1 << uint(rng.Intn(64))), rng.U64()}
		for _, v := range vals[:2+rng.Intn(len(vals)-1)] {
			if v != old {
				mk(fmt.Sprintf("%s@%d", name, off), putWord(file, off, v), false)
			}
		}
	}
	field("hdr-size", 0)
	field("hdr-type", 8)
	field("flags", 16)
	mk("flags-digest-bit@16", putWord(file, 16, word(16)^c04SHA512Flag), false)
	field("min", 24)
	field("avg", 32)
	field("max", 40)
	field("table-size", 48)
	field("table-type", 56)
	t := 64 + 40*k
	field("tail-fill1", t)
	field("tail-fill2", t+8)
	field("tail-index-offset", t+16)
	field("tail-table-size", t+24)
	field("tail-marker", t+32)
	rowsToHit := 3
	if thorough {
		rowsToHit = 12
	}
	for n := 0; n < rowsToHit && k > 0; n++ {
		j := rng.Intn(k)
		off := 64 + 40*j
		cur := word(off)
		var prev uint64
		if j > 0 {
			prev = word(off - 40)
		}
		mx := word(40)
		mk(fmt.Sprintf("row-offset-zero@%d", j), putWord(file, off, 0), false)
		mk(fmt.Sprintf("row-offset-dup@%d", j), putWord(file, off, prev), false)
		if prev > 0 {
			mk(fmt.Sprintf("row-offset-decrease@%d", j), putWord(file, off, prev-1-uint64(rng.Intn(int(min(prev, 1000))))), false)
			mk(fmt.Sprintf("row-offset-decrease@%d", j), putWord(file, off, rng.U64()%prev), false)
		}
		if prev+mx+1 > prev {
			mk(fmt.Sprintf("row-offset-oversize@%d", j), putWord(file, off, prev+mx+1), false)
		}
		mk(fmt.Sprintf("row-offset-max@%d", j), putWord(file, off, prev+mx), false)
		mk(fmt.Sprintf("row-offset-random@%d", j), putWord(file, off, rng.U64()), false)
		mk(fmt.Sprintf("row-offset-bit@%d", j), putWord(file, off, cur^(1<<uint(rng.Intn(64)))), false)
		f := append([]byte{}, file...)
		f[off+8+rng.Intn(32)] ^= byte(1 << uint(rng.Intn(8)))
		mk(fmt.Sprintf("row-id@%d", j), f, false)
		if k > 1 {
			j2 := rng.Intn(k)
			if j2 != j {
				f := append([]byte{}, file...)
				copy(f[64+40*j:64+40*j+40], file[64+40*j2:64+40*j2+40])
				copy(f[64+40*j2:64+40*j2+40], file[64+40*j:64+40*j+40])
				mk(fmt.Sprintf("rows-swapped@%d,%d", j, j2), f, false)
				// offsets swapped, ids kept
				f = append([]byte{}, file...)
				copy(f[64+40*j:64+40*j+8], file[64+40*j2:64+40*j2+8])
				copy(f[64+40*j2:64+40*j2+8], file[64+40*j:64+40*j+8])
				mk(fmt.Sprintf("offsets-swapped@%d,%d", j, j2), f, false)
			}
			// a row removed / duplicated (tail sizes now wrong, table still terminated)
			f = append(append([]byte{}, file[:off]...), file[off+40:]...)
			mk(fmt.Sprintf("row-removed@%d", j), f, false)
			f = append(append(append([]byte{}, file[:off+40]...), file[off:off+40]...), file[off+40:]...)
			mk(fmt.Sprintf("row-duplicated@%d", j), f, false)
		}
	}
	// trailing bytes, random byte flips
	mk("trailing-bytes", append(append([]byte{}, file...), rng.Bytes(1+rng.Intn(50))...), false)
	for n := 0; n < 4; n++ {
		f := append([]byte{}, file...)
		p := rng.Intn(len(f))
		f[p] ^= byte(1 << uint(rng.Intn(8)))
		mk(fmt.Sprintf("bitflip@%d", p), f, false)
	}
	return out
}

// ---------- fixtures and stores ----------

func c04Fixtures(a vh.Args, o *vh.Oracle, r *vh.Result) error {
	repo := os.Getenv("VH_REPO")
	if repo == "" {
		repo = "/repo"
	}
	var files []string
	for _, pat := range []string{"testdata/*.caibx", "testdata/*.index", "testdata/*.caidx", "cmd/desync/testdata/*.caibx", "cmd/desync/testdata/*.caidx"} {
		m, _ := filepath.Glob(filepath.Join(repo, pat))
		files = append(files, m...)
	}
	if len(files) == 0 {
		r.Note("no index fixtures found under %s", repo)
	}
	for _, f := range files {
		b, err := os.ReadFile(f)
		if err != nil {
			return err
		}
		rel, _ := filepath.Rel(repo, f)
		ref, complete := c04RefParse(b)
		digest := "sha256"
		if complete && ref.Flags&c04SHA512Flag != 0 {
			digest = "sha512-256"
		}
		c := &c04Case{Kind: "decode", Digest: digest, Mut: "fixture:" + rel, FileHex: vh.Hex(b)}
		c04SetDigest(digest)
		idx, err := desync.IndexFromReader(bytes.NewReader(b))
		r.Count("fixture|"+rel, true)
		r.Dist("decode:fixture")
		if err != nil {
			r.Fail("predicate", "fixture-rejected", fmt.Sprintf("%s: IndexFromReader: %v", rel, err), c)
			continue
		}
		var buf bytes.Buffer
		if _, err := idx.WriteTo(&buf); err != nil || !bytes.Equal(buf.Bytes(), b) {
			r.Fail("predicate", "fixture-reencode", fmt.Sprintf("%s: re-encoding differs at byte %d (err=%v)", rel, firstDiff(buf.Bytes(), b), err), c)
		}
		if err := c04Decode(a, o, r, c); err != nil {
			return err
		}
		if o != nil {
			// the model re-encodes its own decode result to the same bytes, and the layout reader calls the file canonical
			ans, err := o.Call("c04.decode", digest, vh.Hex(b))
			if err != nil {
				return err
			}
			f := strings.SplitN(ans, " ", 8)
			if f[0] == "ok" {
				enc, err := o.Call("c04.encode", f[3], f[4], f[5], f[6], f[7])
				if err != nil {
					return err
				}
				r.Corr()
				if enc != vh.Hex(b) {
					r.Fail("corr", "corr:C04/fixture-reencode", rel+": encode_index(decode_index(file)) differs from the file", c)
				}
			}
			lay, err := o.Call("c04.layout", vh.Hex(b))
			if err != nil {
				return err
			}
			r.Corr()
			if !strings.HasPrefix(lay, "some 1 ") {
				r.Fail("corr", "corr:C04/fixture-layout", rel+": parse_layout does not call the casync-made file canonical: "+lay[:min(len(lay), 40)], c)
			}
		}
	}
	return nil
}

// c04Stores: a sample through LocalIndexStore and through the HTTP index handler.
func c04Stores(a vh.Args, r *vh.Result, rng *vh.Rand, n int) error {
	dir := filepath.Join(a.Work, "idxstore")
	if err := os.MkdirAll(dir, 0755); err != nil {
		return err
	}
	local, err := desync.NewLocalIndexStore(dir)
	if err != nil {
		return err
	}
	srv := httptest.NewServer(desync.NewHTTPIndexHandler(local, true, ""))
	defer srv.Close()
	u, _ := url.Parse(srv.URL + "/")
	remote, err := desync.NewRemoteHTTPIndexStore(u, desync.StoreOptions{})
	if err != nil {
		return err
	}
	for t := 0; t < n; t++ {
		c := c04GenIndex(rng, []int{0, 1, 2, 17, 300}[rng.Intn(5)])
		if c.Digest == "sha256" {
			c.Flags &^= c04SHA512Flag
		} else {
			c.Flags |= c04SHA512Flag
		}
		if !c04WF(c) {
			continue
		}
		c04SetDigest(c.Digest)
		idx := c04BuildIndex(c)
		var want bytes.Buffer
		idx.WriteTo(&want)
		r.Count(fmt.Sprintf("store|%d|%s|%d", t, c.Digest, len(c.Rows)), true)
		r.Dist("store:local+http")
		// local file store
		name := fmt.Sprintf("i%d.caibx", t)
		if err := local.StoreIndex(name, idx); err != nil {
			r.Fail("predicate", "store-local-write", err.Error(), c)
			continue
		}
		onDisk, _ := os.ReadFile(filepath.Join(dir, name))
		back, err := local.GetIndex(name)
		if !bytes.Equal(onDisk, want.Bytes()) || err != nil || c04IndexString(back) != c04IndexString(idx) {
			r.Fail("predicate", "store-local-roundtrip", fmt.Sprintf("LocalIndexStore round trip differs (err=%v)", err), c)
		}
		// HTTP: PUT through the client, file on disk, GET through the client, raw GET bytes
		hname := fmt.Sprintf("h%d.caibx", t)
		if err := remote.StoreIndex(hname, idx); err != nil {
			r.Fail("predicate", "store-http-put", err.Error(), c)
			continue
		}
		onDisk, _ = os.ReadFile(filepath.Join(dir, hname))
		back, err = remote.GetIndex(hname)
		if !bytes.Equal(onDisk, want.Bytes()) || err != nil || c04IndexString(back) != c04IndexString(idx) {
			r.Fail("predicate", "store-http-roundtrip", fmt.Sprintf("HTTP index store round trip differs (err=%v)", err), c)
		}
		resp, err := http.Get(srv.URL + "/" + hname)
		if err == nil {
			body, _ := io.ReadAll(resp.Body)
			resp.Body.Close()
			if resp.StatusCode != 200 || !bytes.Equal(body, want.Bytes()) {
				r.Fail("predicate", "store-http-get-bytes", fmt.Sprintf("GET returned status %d and %d bytes", resp.StatusCode, len(body)), c)
			}
		}
		// a truncated and a digest-mismatched upload must be refused and leave nothing behind
		bad := [][]byte{
			want.Bytes()[:rng.Intn(want.Len())],
			putWord(want.Bytes(), 16, binary.LittleEndian.Uint64(want.Bytes()[16:])^c04SHA512Flag),
		}
		for bi, body := range bad {
			tag := []string{"trunc", "digest"}[bi]
			bn := fmt.Sprintf("bad-%s-%d.caibx", tag, t)
			req, _ := http.NewRequest("PUT", srv.URL+"/"+bn, bytes.NewReader(body))
			resp, err := http.DefaultClient.Do(req)
			if err != nil {
				return err
			}
			io.Copy(io.Discard, resp.Body)
			resp.Body.Close()
			_, serr := os.Stat(filepath.Join(dir, bn))
			r.Count(fmt.Sprintf("store-bad|%s|%d", tag, t), true)
			if resp.StatusCode/100 == 2 || serr == nil {
				r.Fail("predicate", "store-http-accepts-"+tag, fmt.Sprintf("PUT of a %s index answered %d, stored=%v", tag, resp.StatusCode, serr == nil),
					&c04Case{Kind: "decode", Digest: c.Digest, Mut: "http-put-" + tag, FileHex: vh.Hex(body), Truncated: tag == "trunc"})
			}
		}
	}
	return nil
}

// c04CLI: the console index store ("-") and the file store through the desync binary.
func c04CLI(a vh.Args, o *vh.Oracle, r *vh.Result, rng *vh.Rand) error {
	bin := os.Getenv("VH_DESYNC")
	if bin == "" {
		r.Note("VH_DESYNC not set: CLI cases skipped")
		return nil
	}
	run := func(stdin []byte, args ...string) (int, []byte) {
		cmd := exec.Command(bin, args...)
		cmd.Stdin = bytes.NewReader(stdin)
		var out bytes.Buffer
		cmd.Stdout = &out
		err := cmd.Run()
		if err == nil {
			return 0, out.Bytes()
		}
		if ee, ok := err.(*exec.ExitError); ok {
			return ee.ExitCode(), out.Bytes()
		}
		return -1, out.Bytes()
	}
	for t := 0; t < 3; t++ {
		c := c04GenIndex(rng, []int{0, 3, 40}[t])
		c.Digest = []string{"sha512-256", "sha256", "sha512-256"}[t]
		if c.Digest == "sha256" {
			c.Flags &^= c04SHA512Flag
		} else {
			c.Flags |= c04SHA512Flag
		}
		if !c04WF(c) {
			continue
		}
		c04SetDigest(c.Digest)
		idx := c04BuildIndex(c)
		var buf bytes.Buffer
		idx.WriteTo(&buf)
		file := filepath.Join(a.Work, fmt.Sprintf("cli%d.caibx", t))
		os.WriteFile(file, buf.Bytes(), 0644)
		var want strings.Builder
		for _, row := range c.Rows {
			want.WriteString(row.ID + "\n")
		}
		for _, src := range []string{file, "-"} {
			rc, out := run(buf.Bytes(), "list-chunks", "--digest", strings.Replace(c.Digest, "sha512-256", "sha512-256", 1), src)
			r.Count(fmt.Sprintf("cli|list|%d|%s", t, src == "-"), true)
			r.Dist("cli:list-chunks")
			if rc != 0 || string(out) != want.String() {
				r.Fail("predicate", "cli-list-chunks", fmt.Sprintf("desync list-chunks %s: exit %d, %d bytes of output, expected the %d ids of the index", src, rc, len(out), len(c.Rows)), c)
			}
			cut := rng.Intn(buf.Len())
			os.WriteFile(file+".cut", buf.Bytes()[:cut], 0644)
			srcCut := src
			if src != "-" {
				srcCut = file + ".cut"
			}
			rc, _ = run(buf.Bytes()[:cut], "list-chunks", "--digest", c.Digest, srcCut)
			r.Count(fmt.Sprintf("cli|list-trunc|%d|%s", t, src == "-"), true)
			if rc == 0 {
				r.Fail("predicate", "cli-accepts-truncated", fmt.Sprintf("desync list-chunks accepted an index cut at %d of %d bytes", cut, buf.Len()),
					&c04Case{Kind: "decode", Digest: c.Digest, Mut: fmt.Sprintf("prefix@%d", cut), FileHex: vh.Hex(buf.Bytes()[:cut]), Truncated: true})
			}
		}
	}
	// desync make writing the index to stdout (ConsoleIndexStore.StoreIndex)
	blob := filepath.Join(a.Work, "cli.blob")
	data, _ := vh.Blob(rng, 40000+rng.Intn(30000))
	os.WriteFile(blob, data, 0644)
	for _, digest := range []string{"sha512-256", "sha256"} {
		rc, out := run(nil, "make", "--digest", digest, "-m", "64:256:1024", "-", blob)
		c := &c04Case{Kind: "decode", Digest: digest, Mut: "cli-make-stdout", FileHex: vh.Hex(out)}
		r.Count("cli|make|"+digest, true)
		r.Dist("cli:make-stdout")
		ref, complete := c04RefParse(out)
		switch {
		case rc != 0 || !complete:
			r.Fail("predicate", "cli-make", fmt.Sprintf("desync make - : exit %d, %d bytes", rc, len(out)), c)
		case ref.HdrSize != 48 || ref.IndexOffset != 48 || ref.TableSize != uint64(len(out)-48) || ref.End != len(out) || ref.Marker != c04TailMarker:
			r.Fail("predicate", "layout-tail-sizes", "index written by desync make to stdout is not canonical", c)
		case len(ref.Offsets) == 0 || ref.Offsets[len(ref.Offsets)-1] != uint64(len(data)):
			r.Fail("predicate", "cli-make-length", "last end offset differs from the blob length", c)
		case (ref.Flags&c04SHA512Flag != 0) != (digest != "sha256"):
			r.Fail("predicate", "cli-make-digest-flag", "digest flag of the written index disagrees with --digest", c)
		}
		if err := c04Decode(a, o, r, c); err != nil {
			return err
		}
	}
	return nil
}

func runC04(a vh.Args, o *vh.Oracle, r *vh.Result) error {
	r.Rule = "case = (generated index -> WriteTo) or (byte string -> IndexFromReader); non-trivial = an index with >= 1 row, or a file that is a strict prefix / single-field corruption / row swap / duplicated offset / fixture (not the unmodified file); distinct by (digest, mutation, length, content hash)"
	if a.Replay != "" {
		var c c04Case
		if err := readJSON(a.Replay, &c); err != nil {
			return err
		}
		if c.Kind == "header" {
			var hc c04Header
			if err := readJSON(a.Replay, &hc); err != nil {
				return err
			}
			return c04RunHeader(a, r, &hc, 0)
		}
		if c.Kind == "overlap" {
			var oc c04Overlap
			if err := readJSON(a.Replay, &oc); err != nil {
				return err
			}
			return c04RunOverlap(a, r, &oc)
		}
		if c.Kind == "retry" {
			var rc c04Retry
			if err := readJSON(a.Replay, &rc); err != nil {
				return err
			}
			return c04RunRetry(a, r, &rc)
		}
		if c.Kind == "fault" {
			var f c04Fault
			if err := readJSON(a.Replay, &f); err != nil {
				return err
			}
			return c04RunFault(a, o, r, &f, true)
		}
		if c.Kind == "history" {
			var h c04History
			if err := readJSON(a.Replay, &h); err != nil {
				return err
			}
			return c04RunHistory(a, o, r, &h, 0)
		}
		if c.Kind == "encode" {
			_, err := c04Encode(a, o, r, &c)
			return err
		}
		return c04Decode(a, o, r, &c)
	}
	rng := vh.NewRand(a.Seed)
	if err := c04Fixtures(a, o, r); err != nil {
		return err
	}
	sizes := []int{0, 1, 2, 3, 5, 9, 17, 40, 120}
	rounds := 4
	big := []int{700, 2000}
	if a.Tier == "thorough" {
		rounds = 40
		big = []int{400, 700, 1000, 1500, 2000, 2000}
	}
	var plan []int
	for i := 0; i < rounds; i++ {
		plan = append(plan, sizes...)
		plan = append(plan, rng.Intn(300))
	}
	plan = append(plan, big...)
	// Row counts at and around the sizes where a writer or reader could batch: powers of two and their
	// multiples (64..2048 rows), the 4096-byte bufio blocks (99/100/101, 203/204/205 rows: 104+40n crossing
	// 4096 and 8192), the 64 KiB ReadN threshold (1635..1637 rows).  Written, laid out and read back only
	// (WF indexes: the round trip and the fixed-offset layout are the predicate); no mutation family.
	var boundary []int
	for _, b := range []int{64, 128, 256, 384, 512, 1024, 2048} {
		boundary = append(boundary, b-1, b, b+1)
	}
	boundary = append(boundary, 99, 100, 101, 102, 203, 204, 205, 640, 1635, 1636, 1637, 1638)
	if a.Tier == "thorough" {
		for k := 1; k <= 32; k++ {
			boundary = append(boundary, 128*k)
		}
		boundary = append(boundary, 4095, 4096, 4097, 8192)
	}
	for _, nrows := range boundary {
		c := c04GenIndex(rng, nrows)
		for !c04WF(c) {
			c = c04GenIndex(rng, nrows)
		}
		if c.Digest == "sha256" {
			c.Flags &^= c04SHA512Flag
		} else {
			c.Flags |= c04SHA512Flag
		}
		r.Dist("encode-boundary-rows")
		if _, err := c04Encode(a, o, r, c); err != nil {
			return err
		}
	}
	for pi, nrows := range plan {
		c := c04GenIndex(rng, nrows)
		file, err := c04Encode(a, o, r, c)
		if err != nil {
			return err
		}
		if nrows <= 200 && (a.Tier == "thorough" || pi%3 == 0) {
			for _, v := range c04StartVariants(rng, c) {
				if _, err := c04Encode(a, o, r, v); err != nil {
					return err
				}
			}
		}
		if r.NFailures() > 0 && nrows > 3 {
			// shrink: the same index cut to its first rows
			for _, k := range []int{0, 1, 2, 3} {
				s := *c
				s.Rows = c.Rows[:k]
				before := r.NFailures()
				if _, err := c04Encode(a, o, r, &s); err != nil {
					return err
				}
				if r.NFailures() > before {
					break
				}
			}
		}
		flagOK := (c.Flags&c04SHA512Flag != 0) == (c.Digest != "sha256")
		if !flagOK || len(file) < 104 {
			// still a decode case of its own
			if err := c04Decode(a, o, r, &c04Case{Kind: "decode", Digest: c.Digest, Mut: "digest-flag-mismatch", FileHex: vh.Hex(file)}); err != nil {
				return err
			}
			continue
		}
		for _, m := range c04Mutations(rng, c, file, a.Tier == "thorough") {
			if err := c04Decode(a, o, r, m); err != nil {
				return err
			}
		}
		// the independent layout reader of the model on the written bytes
		if o != nil && nrows <= 300 {
			lay, err := o.Call("c04.layout", vh.Hex(file))
			if err != nil {
				return err
			}
			r.Corr()
			// the layout reader does not judge sizes: it only needs every end offset to be non-zero
			want := fmt.Sprintf("some 1 %d %d %d %d 48 %d ", c.Flags, c.Min, c.Avg, c.Max, len(file)-48)
			var off uint64
			for _, row := range c.Rows {
				off += row.Size
				if off == 0 {
					want = "none"
				}
			}
			if !strings.HasPrefix(lay, want) {
				r.Fail("corr", "corr:C04/layout", fmt.Sprintf("parse_layout on WriteTo output: %s..., expected %s...", lay[:min(len(lay), 60)], want), c)
			}
		}
	}
	nstore := 6
	if a.Tier == "thorough" {
		nstore = 40
	}
	if err := c04Stores(a, r, rng, nstore); err != nil {
		return err
	}
	if err := c04S3(a, r, rng, nstore/2); err != nil {
		return err
	}
	if err := c04Histories(a, o, r, rng); err != nil {
		return err
	}
	if err := c04Faults(a, o, r, rng); err != nil {
		return err
	}
	if err := c04Retries(a, r, rng); err != nil {
		return err
	}
	if err := c04Overlaps(a, r, rng); err != nil {
		return err
	}
	if err := c04Headers(a, r, rng); err != nil {
		return err
	}
	return c04CLI(a, o, r, rng)
}
