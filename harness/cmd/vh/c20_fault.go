package main

// C20 (and C08): a write fault on StoreChunk's temp file.  A child process (the C08 store child: RLIMIT_FSIZE
// set, SIGXFSZ ignored, so write() transfers what fits and then fails with EFBIG while close() succeeds)
// stores one chunk; several byte limits, both formats, small and 256 KiB incompressible chunks, empty store
// and a store that already holds the chunk in the other format.
// Predicate: StoreChunk returned nil => the object under the chunk's final name is complete and valid (the
// layout predicate); StoreChunk returned an error => nothing new under the final name; in both cases the
// other format's file is untouched.

import (
	"bytes"
	"fmt"
	"os"
	"os/exec"
	"path/filepath"
	"strconv"
	"syscall"
	"time"

	"github.com/folbricht/desync"

	"vh/internal/vh"
)

type c20FaultCase struct {
	Kind    string `json:"kind"` // store-fault
	Unc     bool   `json:"unc"`
	DataLen int    `json:"data_len"`
	Limit   int    `json:"rlimit_fsize"`
	Other   bool   `json:"other_format_present"`
	Seed    uint64 `json:"seed"`
	What    string `json:"what,omitempty"`
}

func c20StoreFault(a vh.Args, r *vh.Result, c *c20FaultCase) error {
	desync.Digest = desync.SHA256{}
	data := vh.NewRand(c.Seed).Bytes(c.DataLen)
	idh := lsSha256Hex(data)
	dir, err := lsFreshDir(a.Work, "fault")
	if err != nil {
		return err
	}
	frame, _ := desync.Compress(data)
	objLen := len(data)
	if !c.Unc {
		objLen = len(frame)
	}
	otherPath, otherData := filepath.Join(dir, idh[:4], idh+".cacnk"), frame
	if !c.Unc {
		otherPath, otherData = filepath.Join(dir, idh[:4], idh), data
	}
	if c.Other {
		os.MkdirAll(filepath.Dir(otherPath), 0755)
		os.WriteFile(otherPath, otherData, 0644)
	}
	dataFile := filepath.Join(a.Work, "fault-data.bin")
	if err := os.WriteFile(dataFile, data, 0644); err != nil {
		return err
	}
	self, _ := os.Executable()
	cmd := exec.Command(self)
	cmd.Env = append(os.Environ(), "VH_C08_CHILD=store", "VH_C08_DIR="+dir, "VH_C08_UNC="+lsB01(c.Unc), "VH_C08_DATAFILE="+dataFile,
		"VH_C08_WRITERS=1", "VH_C08_FSIZE="+strconv.Itoa(c.Limit), "VH_C08_IGNXFSZ=1")
	done := make(chan error, 1)
	if err := cmd.Start(); err != nil {
		return err
	}
	go func() { done <- cmd.Wait() }()
	exit := "timeout"
	select {
	case werr := <-done:
		exit = "exit0"
		if ee, ok := werr.(*exec.ExitError); ok {
			exit = fmt.Sprintf("exit%d", ee.ExitCode())
			if ws, ok := ee.Sys().(syscall.WaitStatus); ok && ws.Signaled() {
				exit = "signal:" + ws.Signal().String()
			}
		}
	case <-time.After(30 * time.Second):
		cmd.Process.Kill()
	}
	r.Count(fmt.Sprintf("store-fault|%v|%d|%d|%v", c.Unc, c.DataLen, c.Limit, c.Other), c.Limit < objLen)
	r.Dist(fmt.Sprintf("store-fault:limit<object=%v/%s", c.Limit < objLen, exit))
	fail := func(class, what string) {
		c.What = what
		r.Fail("predicate", class, what, c)
	}
	ext := ".cacnk"
	if c.Unc {
		ext = ""
	}
	final := filepath.Join(dir, idh[:4], idh+ext)
	cur, rerr := os.ReadFile(final)
	switch exit {
	case "exit0":
		if p := layoutProblem(dir, data, map[bool]bool{c.Unc: true}); p != "" {
			fail("storefault/partial-object-stored", fmt.Sprintf("StoreChunk returned nil although write() on the temp file was cut at %d of %d bytes (RLIMIT_FSIZE, close succeeded): %s", c.Limit, objLen, p))
		}
	case "exit3":
		if rerr == nil {
			fail("storefault/error-but-object-present", fmt.Sprintf("StoreChunk returned an error (write cut at %d of %d bytes) but %d bytes sit under the chunk's final name", c.Limit, objLen, len(cur)))
		}
	default:
		fail("storefault/child", "store child ended with "+exit)
	}
	if c.Other {
		if b, err := os.ReadFile(otherPath); err != nil || !bytes.Equal(b, otherData) {
			fail("storefault/touches-other-format", "the other format's file of the same chunk changed")
		}
	}
	return nil
}

func c20StoreFaultAll(a vh.Args, r *vh.Result, rng *vh.Rand) error {
	sizes := []int{300, 256 << 10}
	if a.Tier == "thorough" {
		sizes = append(sizes, 1, 5000, 70000)
	}
	for _, unc := range []bool{false, true} {
		for _, n := range sizes {
			for _, lim := range []int{0, 1, 4096, n / 2, n - 1, n + 4096} {
				c := &c20FaultCase{Kind: "store-fault", Unc: unc, DataLen: n, Limit: lim, Other: rng.Bool(), Seed: rng.U64() % 1000000}
				if err := c20StoreFault(a, r, c); err != nil {
					return err
				}
			}
		}
	}
	return nil
}
