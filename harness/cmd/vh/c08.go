package main

// C08 -- process death never exposes a partial chunk or a partial extract target.
//
// StoreChunk: the harness re-executes itself as a tiny child (VH_C08_CHILD) that calls
// LocalStore.StoreChunk, under `strace --inject=<syscall>:signal=SIGKILL:when=k` for every store-related
// system call of an uninjected trace (the child dies on ENTERING the k-th call, i.e. right after the
// previous one), under RLIMIT_FSIZE (a write cut short: death by SIGXFSZ with a partial temp file, or
// EFBIG and the cleanup path), and with two concurrent writers of the same chunk.
// Predicate (independent of the model), on the directory afterwards: every file named like a chunk of
// either format holds a complete valid object; every other new file is <4 hex>/.tmp-cacnk*; files that
// were there before are unchanged.  Correspondence: the uninjected trace has the model's operation list
// (kinds and path shapes), and every observed directory is one of the model's crash states.
//
// Extract: `desync extract` against an in-harness HTTP chunk store that kills the process at the k-th
// request.  Predicate: without -k the destination path keeps its previous content (or absence) and only
// ".<name>*" temp files appear next to it; with -k a re-run completes with the right content and never
// requests a chunk whose range in the killed run's file already hashed to its id.

import (
	"bufio"
	"bytes"
	"crypto/sha256"
	"fmt"
	"os"
	"os/exec"
	"os/signal"
	"path/filepath"
	"regexp"
	"runtime"
	"sort"
	"strconv"
	"strings"
	"sync"
	"syscall"
	"time"

	"github.com/folbricht/desync"

	"vh/internal/vh"
)

func init() {
	if mode := os.Getenv("VH_C08_CHILD"); mode != "" {
		c08Child(mode)
	}
	props["C08"] = runC08
}

// ---------- the child ----------

func c08Child(mode string) {
	runtime.LockOSThread()
	desync.Digest = desync.SHA256{}
	dir := os.Getenv("VH_C08_DIR")
	unc := os.Getenv("VH_C08_UNC") == "1"
	data, _ := os.ReadFile(os.Getenv("VH_C08_DATAFILE"))
	if os.Getenv("VH_C08_IGNXFSZ") == "1" {
		signal.Ignore(syscall.SIGXFSZ)
	}
	if l := os.Getenv("VH_C08_FSIZE"); l != "" {
		n, _ := strconv.ParseUint(l, 10, 64)
		syscall.Setrlimit(syscall.RLIMIT_FSIZE, &syscall.Rlimit{Cur: n, Max: n})
	}
	s, err := desync.NewLocalStore(dir, desync.StoreOptions{Uncompressed: unc})
	if err != nil {
		os.Exit(4)
	}
	writers, _ := strconv.Atoi(os.Getenv("VH_C08_WRITERS"))
	if mode == "storeloop" {
		c08ChildLoop(dir, unc, data, writers)
	}
	if writers <= 1 {
		if err := s.StoreChunk(desync.NewChunk(data)); err != nil {
			os.Exit(3)
		}
		os.Exit(0)
	}
	var wg sync.WaitGroup
	failed := false
	start := make(chan struct{})
	for i := 0; i < writers; i++ {
		wg.Add(1)
		go func() {
			runtime.LockOSThread()
			defer wg.Done()
			<-start
			if err := s.StoreChunk(desync.NewChunk(append([]byte{}, data...))); err != nil {
				failed = true
			}
		}()
	}
	close(start)
	wg.Wait()
	if failed {
		os.Exit(3)
	}
	os.Exit(0)
}

// ---------- strace ----------

type sysEv struct {
	pid  string
	name string
	args string
	ret  string
	ord  int // ordinal of this call among the calls of the same name by the same thread (1-based)
}

var (
	reSysLine    = regexp.MustCompile(`^(\d+)\s+(\w+)\((.*)$`)
	reSysResumed = regexp.MustCompile(`^(\d+)\s+<\.\.\. (\w+) resumed>(.*)$`)
	reSysRet     = regexp.MustCompile(`^(.*)\)\s+= (.*)$`)
)

func parseStrace(path string) ([]sysEv, error) {
	f, err := os.Open(path)
	if err != nil {
		return nil, err
	}
	defer f.Close()
	var evs []sysEv
	pending := map[string]int{} // pid -> index of unfinished event
	counts := map[string]int{}
	sc := bufio.NewScanner(f)
	sc.Buffer(make([]byte, 1<<20), 1<<24)
	split := func(rest string) (string, string) {
		if m := reSysRet.FindStringSubmatch(rest); m != nil {
			return m[1], strings.TrimSpace(m[2])
		}
		return rest, ""
	}
	for sc.Scan() {
		line := sc.Text()
		if m := reSysResumed.FindStringSubmatch(line); m != nil {
			if i, ok := pending[m[1]]; ok {
				a, r := split(m[3])
				evs[i].args += a
				evs[i].ret = r
				delete(pending, m[1])
			}
			continue
		}
		m := reSysLine.FindStringSubmatch(line)
		if m == nil {
			continue
		}
		ev := sysEv{pid: m[1], name: m[2]}
		counts[m[1]+"/"+m[2]]++
		ev.ord = counts[m[1]+"/"+m[2]]
		if strings.HasSuffix(m[3], "<unfinished ...>") {
			ev.args = strings.TrimSuffix(m[3], "<unfinished ...>")
			pending[m[1]] = len(evs)
		} else {
			ev.args, ev.ret = split(m[3])
		}
		evs = append(evs, ev)
	}
	return evs, sc.Err()
}

var reQuoted = regexp.MustCompile(`"((?:[^"\\]|\\.)*)"`)

// storeOps extracts the operations on paths below dir, in the notation of the oracle's c08.ops
// (base "s", temp suffix replaced by "*"), together with the (syscall, ordinal) of each.
func storeOps(evs []sysEv, dir string) (ops []string, points [][2]string, mkdirs []string) {
	fds := map[string]string{} // pid-independent: fd -> rel path
	rel := func(p string) (string, bool) {
		if p == dir {
			return "s", true
		}
		if strings.HasPrefix(p, dir+"/") {
			return "s/" + reTmpSuffix.ReplaceAllString(p[len(dir)+1:], ".tmp-cacnk*"), true
		}
		return "", false
	}
	for _, e := range evs {
		qs := reQuoted.FindAllStringSubmatch(e.args, -1)
		pt := [2]string{e.name, strconv.Itoa(e.ord)}
		switch e.name {
		case "mkdirat":
			if len(qs) >= 1 {
				if r, ok := rel(qs[0][1]); ok {
					points = append(points, pt)
					if strings.HasPrefix(e.ret, "0") {
						mkdirs = append(mkdirs, r)
					}
				}
			}
		case "openat":
			if len(qs) >= 1 && strings.Contains(e.args, "O_EXCL") {
				if r, ok := rel(qs[0][1]); ok {
					points = append(points, pt)
					fd := strings.Fields(e.ret + " ")
					if len(fd) > 0 && !strings.HasPrefix(e.ret, "-1") {
						fds[fd[0]] = r
						ops = append(ops, "create_excl:"+r)
					}
				}
			}
		case "write":
			fd := strings.SplitN(e.args, ",", 2)[0]
			if r, ok := fds[fd]; ok {
				points = append(points, pt)
				n := strings.Fields(e.ret + " ")
				if len(n) > 0 && !strings.HasPrefix(e.ret, "-1") {
					ops = append(ops, "write:"+r+":"+n[0])
				}
			}
		case "close":
			fd := strings.TrimSpace(e.args)
			if r, ok := fds[fd]; ok {
				points = append(points, pt)
				ops = append(ops, "close:"+r)
				delete(fds, fd)
			}
		case "renameat", "renameat2", "rename":
			if len(qs) >= 2 {
				a, ok1 := rel(qs[0][1])
				b, ok2 := rel(qs[1][1])
				if ok1 && ok2 {
					points = append(points, pt)
					if strings.HasPrefix(e.ret, "0") {
						ops = append(ops, "rename:"+a+">"+b)
					}
				}
			}
		case "unlinkat", "unlink":
			if len(qs) >= 1 {
				if r, ok := rel(qs[0][1]); ok {
					points = append(points, pt)
					if strings.HasPrefix(e.ret, "0") {
						ops = append(ops, "unlink:"+r)
					}
				}
			}
		case "exit_group":
			points = append(points, pt)
		}
	}
	return
}

var reTmpSuffix = regexp.MustCompile(`\.tmp-cacnk[^/]*`)

const c08Trace = "trace=openat,write,close,renameat,renameat2,rename,mkdirat,unlinkat,unlink,exit_group"

type c08Case struct {
	Kind    string  `json:"kind"` // store-kill | store-fsize | store-2writers | extract-kill | extract-inplace
	Unc     bool    `json:"unc"`
	DataHex string  `json:"data,omitempty"`
	Pre     []fsEnt `json:"pre,omitempty"`
	Syscall string  `json:"syscall,omitempty"`
	K       int     `json:"k,omitempty"`
	Fsize   int     `json:"fsize,omitempty"`
	IgnXfsz bool    `json:"ignore_sigxfsz,omitempty"`
	Writers int     `json:"writers,omitempty"`
	BlobLen int     `json:"blob_len,omitempty"`
	N       int     `json:"n,omitempty"`
	Seed    uint64  `json:"seed,omitempty"`
	Repeat  bool    `json:"repeated_chunks,omitempty"` // extract: the index repeats chunks (A B C D B E A F)
	Signal  string  `json:"signal,omitempty"`          // extract-signal: TERM | INT, sent at the k-th request, which is then served
	State   string  `json:"observed_state,omitempty"`
	What    string  `json:"what,omitempty"`
}

// c08RunChild runs the store child under strace; inject is "" or "<syscall>:signal=SIGKILL:when=k".
func c08RunChild(a vh.Args, c *c08Case, dir, inject, log string) (exit string, err error) {
	self, _ := os.Executable()
	args := []string{"-f", "-o", log, "-e", c08Trace}
	if inject != "" {
		args = append(args, "--inject="+inject)
	}
	args = append(args, self)
	cmd := exec.Command("strace", args...)
	dataFile := filepath.Join(a.Work, "c08-data.bin")
	if err := os.WriteFile(dataFile, vh.UnHex(c.DataHex), 0644); err != nil {
		return "", err
	}
	cmd.Env = append(os.Environ(), "VH_C08_CHILD=store", "VH_C08_DIR="+dir, "VH_C08_UNC="+lsB01(c.Unc),
		"VH_C08_DATAFILE="+dataFile, "GOMAXPROCS=2", "GOGC=off",
		"VH_C08_WRITERS="+strconv.Itoa(c.Writers))
	if c.Kind == "store-fsize" {
		cmd.Env = append(cmd.Env, "VH_C08_FSIZE="+strconv.Itoa(c.Fsize), "VH_C08_IGNXFSZ="+lsB01(c.IgnXfsz))
	}
	done := make(chan error, 1)
	if err := cmd.Start(); err != nil {
		return "", err
	}
	go func() { done <- cmd.Wait() }()
	select {
	case werr := <-done:
		if werr == nil {
			return "exit0", nil
		}
		if ee, ok := werr.(*exec.ExitError); ok {
			if ws, ok := ee.Sys().(syscall.WaitStatus); ok && ws.Signaled() {
				return "signal:" + ws.Signal().String(), nil
			}
			return fmt.Sprintf("exit%d", ee.ExitCode()), nil
		}
		return "", werr
	case <-time.After(30 * time.Second):
		cmd.Process.Kill()
		return "timeout", nil
	}
}

// c08Classify names the state of the store with respect to the chunk being written.
func c08Classify(pre, post []fsEnt, finalRel string, obj []byte) string {
	pm := map[string]bool{}
	for _, e := range pre {
		pm[e.Path] = true
	}
	var tmp []fsEnt
	final := false
	newDir := false
	for _, e := range post {
		if e.Path == finalRel && e.Kind == "f" && bytes.Equal(e.Data, obj) {
			final = true
		}
		if pm[e.Path] {
			continue
		}
		if e.Kind == "d" {
			newDir = true
		} else if isTmpName(e.Path) {
			tmp = append(tmp, e)
		}
	}
	st := "nothing"
	if newDir {
		st = "dir-created"
	}
	for _, t := range tmp {
		switch {
		case len(t.Data) == 0:
			st = "tmp-empty"
		case bytes.Equal(t.Data, obj):
			st = "tmp-complete"
		default:
			st = "tmp-partial"
		}
	}
	if final {
		if len(tmp) > 0 {
			return "final+" + st
		}
		return "final"
	}
	return st
}

// c08CheckStore evaluates the predicate on the directory after a (killed) run and the membership of the
// observed tree in the model's crash states.
func c08CheckStore(a vh.Args, o *vh.Oracle, r *vh.Result, c *c08Case, dir string, reach *c08Sets, exit string) error {
	post, err := snapshotTree(dir)
	if err != nil {
		return err
	}
	data := vh.UnHex(c.DataHex)
	idh := lsSha256Hex(data)
	obj := data
	ext := ""
	if !c.Unc {
		obj, _ = desync.Compress(data)
		ext = ".cacnk"
	}
	c.State = c08Classify(c.Pre, post, idh[:4]+"/"+idh+ext, obj)
	r.Dist("state:" + c.Kind + "/" + c.State)
	fail := func(class, what string) {
		c.What = what
		r.Fail("predicate", class, what, c)
	}
	pm := map[string]fsEnt{}
	for _, e := range c.Pre {
		pm[e.Path] = e
	}
	seen := map[string]bool{}
	for _, e := range post {
		seen[e.Path] = true
		old, was := pm[e.Path]
		if was && old.Kind == e.Kind && bytes.Equal(old.Data, e.Data) {
			continue
		}
		if e.Kind == "d" {
			if !regexp.MustCompile(`^[0-9a-f]{4}$`).MatchString(e.Path) {
				fail("store/unexpected-directory", "new directory "+e.Path)
			}
			continue
		}
		if id, ok := canonicalID(e.Path, false); ok {
			if !validObject(false, e.Data, id) {
				fail("store/partial-chunk-visible", fmt.Sprintf("%s holds %d bytes that are not a complete valid compressed chunk (after %s)", e.Path, len(e.Data), c.Kind))
			}
			continue
		}
		if id, ok := canonicalID(e.Path, true); ok {
			if !validObject(true, e.Data, id) {
				fail("store/partial-chunk-visible", fmt.Sprintf("%s holds %d bytes that are not the complete chunk (after %s)", e.Path, len(e.Data), c.Kind))
			}
			continue
		}
		if was {
			fail("store/changes-existing-file", "existing file changed: "+e.Path)
			continue
		}
		if !isTmpName(e.Path) || !regexp.MustCompile(`^[0-9a-f]{4}/[^/]+$`).MatchString(e.Path) {
			fail("store/stray-new-file", "new file that is neither a chunk nor a temp file: "+e.Path)
		}
	}
	for _, e := range c.Pre {
		if !seen[e.Path] {
			fail("store/removes-existing", "existing entry disappeared: "+e.Path)
		}
	}
	if reach != nil {
		r.Corr()
		key := encodeTree("s", normTmp(post))
		set, what := reach.all, "crash states"
		switch exit {
		case "exit0": // StoreChunk returned nil
			set, what = reach.ok, "states after every StoreChunk returned nil"
		case "exit3": // StoreChunk returned an error
			set, what = reach.failed, "states after StoreChunk returned an error"
		}
		if !set[key] {
			c.What = fmt.Sprintf("directory after the run (child %s) is not among the model's %s: %s", exit, what, key)
			r.Fail("corr", "corr:C08/crash-state", c.What, c)
		}
	}
	return nil
}

// c08Reach asks the oracle for the crash states of n writers of the chunk from tree pre.
type c08Sets struct{ all, ok, failed map[string]bool }

func c08Reach(o *vh.Oracle, c *c08Case, writers int) (*c08Sets, error) {
	if o == nil {
		return nil, nil
	}
	data := vh.UnHex(c.DataHex)
	if len(data) > 5000 {
		return nil, nil // the crash-state set is only enumerated for small objects
	}
	obj := data
	if !c.Unc {
		obj, _ = desync.Compress(data)
	}
	var ws []string
	for i := 0; i < writers; i++ {
		ws = append(ws, fmt.Sprintf("%s:%s:%s:%s", lsB01(c.Unc), lsSha256Hex(data), lsHx([]byte(fmt.Sprintf(".%d", i+1))), lsHx(obj)))
	}
	ans, err := o.Call("c08.reach", strings.Join(ws, ","), encodeTree("s", c.Pre))
	if err != nil {
		return nil, err
	}
	parts := strings.Split(ans, " ")
	if len(parts) != 3 {
		return nil, fmt.Errorf("c08.reach: bad answer")
	}
	conv := func(p string) (map[string]bool, error) {
		out := map[string]bool{}
		if p == "none" {
			return out, nil
		}
		for _, t := range strings.Split(p, "|") {
			ents, err := decodeTree("s", t)
			if err != nil {
				return nil, err
			}
			out[encodeTree("s", normTmp(ents))] = true
		}
		return out, nil
	}
	var sets c08Sets
	var err2 error
	if sets.all, err2 = conv(parts[0]); err2 != nil {
		return nil, err2
	}
	if sets.ok, err2 = conv(parts[1]); err2 != nil {
		return nil, err2
	}
	if sets.failed, err2 = conv(parts[2]); err2 != nil {
		return nil, err2
	}
	return &sets, nil
}

func c08StoreSweep(a vh.Args, o *vh.Oracle, r *vh.Result, unc bool, data []byte, pre []fsEnt, tag string) error {
	t0 := time.Now()
	defer func() {
		if os.Getenv("VH_DEBUG") != "" {
			fmt.Fprintf(os.Stderr, "sweep %s: %v\n", tag, time.Since(t0))
		}
	}()
	base := c08Case{Kind: "store-kill", Unc: unc, DataHex: vh.Hex(data), Pre: pre, Writers: 1}
	reach, err := c08Reach(o, &base, 1)
	if err != nil {
		return err
	}
	if os.Getenv("VH_DEBUG") != "" {
		fmt.Fprintf(os.Stderr, "reach %s: %v\n", tag, time.Since(t0))
	}
	prep := func() (string, error) {
		dir, err := lsFreshDir(a.Work, "c08")
		if err != nil {
			return "", err
		}
		return dir, writeTree(dir, pre)
	}
	log := filepath.Join(a.Work, "strace.log")
	// 1. uninjected, traced
	dir, err := prep()
	if err != nil {
		return err
	}
	c0 := base
	c0.Kind = "store-trace"
	exit, err := c08RunChild(a, &c0, dir, "", log)
	if err != nil {
		return err
	}
	r.Count("store-trace|"+tag, true)
	if exit != "exit0" {
		r.Fail("predicate", "store/uninjected-run-fails", "uninjected child: "+exit, &c0)
		return nil
	}
	evs, err := parseStrace(log)
	if err != nil {
		return err
	}
	ops, points, mkdirs := storeOps(evs, dir)
	if err := c08CheckStore(a, o, r, &c0, dir, reach, exit); err != nil {
		return err
	}
	if o != nil {
		obj := data
		if !unc {
			obj, _ = desync.Compress(data)
		}
		ans, err := o.Call("c08.ops", lsB01(unc), lsSha256Hex(data), lsHx([]byte("*")), lsHx(obj))
		if err != nil {
			return err
		}
		r.Corr()
		var mops, mdirs []string
		have := map[string]bool{"s": true}
		for _, e := range pre {
			if e.Kind == "d" {
				have["s/"+e.Path] = true
			}
		}
		for _, op := range strings.Split(ans, ",") {
			if strings.HasPrefix(op, "ensuredir:") {
				if p := strings.TrimPrefix(op, "ensuredir:"); !have[p] {
					mdirs = append(mdirs, p)
				}
				continue
			}
			mops = append(mops, op)
		}
		if strings.Join(mops, ",") != strings.Join(ops, ",") || strings.Join(mdirs, ",") != strings.Join(mkdirs, ",") {
			c0.What = fmt.Sprintf("system calls on the store: mkdir %v then %v; model: mkdir %v then %v", mkdirs, ops, mdirs, mops)
			r.Fail("corr", "corr:C08/op-list", c0.What, &c0)
		}
	}
	// 2. death on entering each store-related call (and exit_group = after the last one)
	seenPt := map[[2]string]bool{}
	for _, pt := range points {
		if seenPt[pt] {
			continue
		}
		seenPt[pt] = true
		dir, err := prep()
		if err != nil {
			return err
		}
		c := base
		c.Syscall = pt[0]
		c.K, _ = strconv.Atoi(pt[1])
		exit, err := c08RunChild(a, &c, dir, fmt.Sprintf("%s:signal=SIGKILL:when=%d", c.Syscall, c.K), log)
		if err != nil {
			return err
		}
		r.Count(fmt.Sprintf("store-kill|%s|%s|%d", tag, c.Syscall, c.K), strings.HasPrefix(exit, "signal"))
		r.Dist("kill-at:" + c.Syscall)
		r.Dist("child:" + exit)
		if err := c08CheckStore(a, o, r, &c, dir, reach, exit); err != nil {
			return err
		}
	}
	// 3. writes cut short by RLIMIT_FSIZE
	objLen := len(data)
	if !unc {
		b, _ := desync.Compress(data)
		objLen = len(b)
	}
	for _, l := range []int{0, 1, objLen / 2, objLen - 1} {
		if l < 0 || l >= objLen {
			continue
		}
		for _, ign := range []bool{false, true} {
			dir, err := prep()
			if err != nil {
				return err
			}
			c := base
			c.Kind = "store-fsize"
			c.Fsize = l
			c.IgnXfsz = ign
			exit, err := c08RunChild(a, &c, dir, "", log)
			if err != nil {
				return err
			}
			r.Count(fmt.Sprintf("store-fsize|%s|%d|%v", tag, l, ign), true)
			r.Dist("child-fsize:" + exit)
			if exit == "exit0" {
				r.Fail("predicate", "store/short-write-reports-success", fmt.Sprintf("StoreChunk returned nil although the file size limit %d is below the object size %d", l, objLen), &c)
			}
			if err := c08CheckStore(a, o, r, &c, dir, reach, exit); err != nil {
				return err
			}
		}
		// death right after the short write: the kernel wrote l bytes, Go calls write again for the rest
		if l >= 1 {
			for _, pt := range points {
				if pt[0] != "write" {
					continue
				}
				dir, err := prep()
				if err != nil {
					return err
				}
				c := base
				c.Kind = "store-fsize"
				c.Fsize = l
				c.Syscall = "write"
				c.K, _ = strconv.Atoi(pt[1])
				c.K++
				exit, err := c08RunChild(a, &c, dir, fmt.Sprintf("write:signal=SIGKILL:when=%d", c.K), log)
				if err != nil {
					return err
				}
				r.Count(fmt.Sprintf("store-fsize-kill|%s|%d", tag, l), strings.HasPrefix(exit, "signal"))
				r.Dist("child-fsize-kill:" + exit)
				if err := c08CheckStore(a, o, r, &c, dir, reach, exit); err != nil {
					return err
				}
				break
			}
		}
	}
	return nil
}

func c08TwoWriters(a vh.Args, o *vh.Oracle, r *vh.Result, unc bool, data []byte, ks []int) error {
	base := c08Case{Kind: "store-2writers", Unc: unc, DataHex: vh.Hex(data), Writers: 2}
	reach, err := c08Reach(o, &base, 2)
	if err != nil {
		return err
	}
	log := filepath.Join(a.Work, "strace.log")
	for _, sc := range []string{"openat", "write", "close", "renameat", "mkdirat", "exit_group"} {
		for _, k := range ks {
			dir, err := lsFreshDir(a.Work, "c08")
			if err != nil {
				return err
			}
			c := base
			c.Syscall, c.K = sc, k
			exit, err := c08RunChild(a, &c, dir, fmt.Sprintf("%s:signal=SIGKILL:when=%d", sc, k), log)
			if err != nil {
				return err
			}
			r.Count(fmt.Sprintf("store-2writers|%v|%s|%d|%d", unc, sc, k, len(data)), strings.HasPrefix(exit, "signal"))
			r.Dist("child-2w:" + exit)
			if err := c08CheckStore(a, o, r, &c, dir, reach, exit); err != nil {
				return err
			}
		}
	}
	return nil
}

func runC08(a vh.Args, o *vh.Oracle, r *vh.Result) error {
	r.Rule = "store cases = (format; chunk data; prior store content) x (death on entering every store-related system call of the uninjected trace, and at exit) + (RLIMIT_FSIZE 0, 1, half, size-1; SIGXFSZ fatal or ignored) + two concurrent writers of the same chunk killed at the k-th openat/write/close/renameat/mkdirat of any thread + 6 concurrent writers of one 4 MiB chunk for 25 (150) rounds with an observer polling only the final name + a child running rounds of 4 concurrent writers of one 2 MiB chunk killed with SIGKILL after a random delay; extract cases = (blob, n workers, k) with the process killed at the k-th chunk request, with and without --in-place, incl. indexes with repeated chunks; extract over an existing destination killed on entering every directory-changing or data-writing system call of its own trace; SIGTERM/SIGINT at EVERY k of a small index (n=1,2; destination existing/absent); non-trivial = the child was actually killed (store) / the kill happened before the last chunk (extract)"
	desync.Digest = desync.SHA256{}
	if _, err := exec.LookPath("strace"); err != nil {
		r.Note("strace not found: process-death cases cannot run")
		r.Fail("harness", "no-strace", "strace is required for C08", nil)
		return nil
	}
	if a.Replay != "" {
		var c c08Case
		if err := readJSON(a.Replay, &c); err != nil {
			return err
		}
		return c08Replay(a, o, r, &c)
	}
	rng := vh.NewRand(a.Seed)
	thorough := a.Tier == "thorough"
	datas := [][]byte{rng.Bytes(5), bytes.Repeat([]byte("abcdefgh"), 40)}
	if thorough {
		datas = append(datas, rng.Bytes(1), rng.Bytes(4000), make([]byte, 70000))
	}
	for di, data := range datas {
		for _, unc := range []bool{false, true} {
			idh := lsSha256Hex(data)
			other := rng.Bytes(9)
			oid := lsSha256Hex(other)
			oc, _ := desync.Compress(other)
			pres := [][]fsEnt{nil}
			// the same id already present in the other format, the directory exists, an unrelated chunk, junk
			otherFmt := fsEnt{Path: idh[:4] + "/" + idh + ".cacnk", Kind: "f"}
			otherFmt.Data, _ = desync.Compress(data)
			if !unc {
				otherFmt = fsEnt{Path: idh[:4] + "/" + idh, Kind: "f", Data: data}
			}
			pres = append(pres, []fsEnt{{Path: idh[:4], Kind: "d"}, otherFmt, {Path: oid[:4], Kind: "d"}, {Path: oid[:4] + "/" + oid + ".cacnk", Kind: "f", Data: oc}, {Path: "README", Kind: "f", Data: []byte("x")}})
			if thorough {
				// the chunk is already there (rename replaces it), and a stale temp file sits in the directory
				own := fsEnt{Path: idh[:4] + "/" + idh, Kind: "f", Data: data}
				if !unc {
					own = fsEnt{Path: idh[:4] + "/" + idh + ".cacnk", Kind: "f"}
					own.Data, _ = desync.Compress(data)
				}
				pres = append(pres, []fsEnt{{Path: idh[:4], Kind: "d"}, own, {Path: idh[:4] + "/.tmp-cacnk.77", Kind: "f", Data: []byte("stale")}})
			}
			for pi, pre := range pres {
				sort.Slice(pre, func(i, j int) bool { return pre[i].Path < pre[j].Path })
				if err := c08StoreSweep(a, o, r, unc, data, pre, fmt.Sprintf("%d|%v|%d", di, unc, pi)); err != nil {
					return err
				}
			}
		}
	}
	ks := []int{1, 2}
	if thorough {
		ks = []int{1, 2, 3, 4, 5, 6}
	}
	for _, unc := range []bool{false, true} {
		if err := c08TwoWriters(a, o, r, unc, rng.Bytes(3), ks); err != nil {
			return err
		}
	}
	if err := c08ConcurrentAll(a, r, rng); err != nil {
		return err
	}
	r.Sample(map[string]interface{}{"kind": "store-kill", "note": "one case = one child process killed at one system call"})
	if err := c08ExtractSysAll(a, r, rng); err != nil {
		return err
	}
	if err := c08ExtractMoreAll(a, r, rng); err != nil {
		return err
	}
	return c08Extract(a, o, r, rng)
}

func c08Replay(a vh.Args, o *vh.Oracle, r *vh.Result, c *c08Case) error {
	switch c.Kind {
	case "store-kill", "store-fsize", "store-2writers", "store-trace":
		dir, err := lsFreshDir(a.Work, "c08")
		if err != nil {
			return err
		}
		if err := writeTree(dir, c.Pre); err != nil {
			return err
		}
		inject := ""
		if c.Syscall != "" {
			inject = fmt.Sprintf("%s:signal=SIGKILL:when=%d", c.Syscall, c.K)
		}
		w := c.Writers
		if w < 1 {
			w = 1
		}
		reach, err := c08Reach(o, c, w)
		if err != nil {
			return err
		}
		exit, err := c08RunChild(a, c, dir, inject, filepath.Join(a.Work, "strace.log"))
		if err != nil {
			return err
		}
		r.Note("child: %s", exit)
		r.Count("replay", true)
		return c08CheckStore(a, o, r, c, dir, reach, exit)
	case "store-concurrent":
		return c08Concurrent(a, r, c)
	case "store-concurrent-kill":
		return c08ConcurrentKill(a, r, c)
	case "extract-inplace-existing":
		return c08InplaceExisting(a, r, c)
	case "extract-seeddir":
		return c08SeedDir(a, r, c)
	case "extract-noroom":
		return c08NoRoom(a, r, c)
	case "extract-syscall-kill":
		return c08ExtractSys(a, r, c)
	case "extract-kill", "extract-inplace", "extract-signal":
		return c08ExtractCase(a, r, c)
	}
	return fmt.Errorf("cannot replay kind %q", c.Kind)
}

var _ = sha256.Sum256
