package main

// C12 -- request de-duplication is safe under every interleaving.
//
// k callers (GetChunk / HasChunk / StoreChunk) run against a real DedupQueue or WriteDedupQueue whose
// upstream store is a gate: an upstream call reports its entry and then waits until the controller lets
// it return with the outcome (data / missing / error) the case prescribes.  Exactly one caller goroutine
// runs at a time; it stops at the verif yield hooks, at the gate, or when it returns.  The schedule (which
// caller is granted the next stretch) comes from the extracted model (Model/Dedup.v), which also predicts
// the event every grant ends with and every caller's answer:
//   * correspondence: events and answers of the implementation = the model's, grant by grant;
//   * predicate (independent of the model), on the observed logs with logical timestamps: every caller
//     returns; never two upstream requests of one (kind, id) in flight; every answer is the outcome of one
//     upstream request whose leader's call overlaps the caller's call and was not finished before the caller
//     started; a WriteDedupQueue.GetChunk that starts while a StoreChunk of the id is registered gets that chunk.

import (
	"errors"
	"fmt"
	"os"
	"os/exec"
	"runtime"
	"strconv"
	"strings"
	"sync"
	"sync/atomic"
	"time"

	"github.com/folbricht/desync"

	"vh/internal/vh"
)

func init() { props["C12"] = runC12 }

type c12Case struct {
	Callers  []string `json:"callers"`  // g<id> | h<id> | s<id>:<tag> | w<id>
	Outcomes string   `json:"outcomes"` // d m e per upstream call number
	Grants   []int    `json:"grants"`   // schedule: which caller is granted the next stretch
	Tokens   string   `json:"model_events,omitempty"`
	Model    string   `json:"model_answers,omitempty"`
	Impl     string   `json:"impl_answers,omitempty"`
	ImplEv   string   `json:"impl_events,omitempty"`
	Conc     string   `json:"conc,omitempty"`
}

type c12Err struct{ n int }

func (e c12Err) Error() string { return fmt.Sprintf("upstream call %d failed", e.n) }

func c12ErrClass(err error) string {
	if err == nil {
		return "n"
	}
	var ue c12Err
	if errors.As(err, &ue) {
		return "e" + strconv.Itoa(ue.n)
	}
	var cm desync.ChunkMissing
	if errors.As(err, &cm) {
		return "m"
	}
	return "o"
}

type c12Event struct {
	Kind byte // Y yield, G gate, R returned, P panic
	Site string
	Res  string
	T    int
}

func (e c12Event) String() string {
	switch e.Kind {
	case 'Y':
		return "Y:" + e.Site
	case 'G':
		return "G:" + e.Site
	case 'R':
		return "R:" + e.Res
	}
	return "P:" + e.Res
}

type c12Thread struct {
	idx      int
	call     string
	op       byte
	id, tag  int
	resume   chan byte
	events   chan c12Event
	gid      string
	atGate   bool
	async    bool // blocked inside req.wait() without having announced it (peek hit in WriteDedupQueue.GetChunk)
	startT   int
	retT     int
	started  bool
	returned bool
	result   string
	pending  *c12Event
}

type c12UpCall struct {
	Kind     byte
	ID       int
	By       int
	CallT    int
	RetT     int
	Returned bool
	Outcome  byte
}

type c12Ctl struct {
	threads  []*c12Thread
	cur      *c12Thread
	time     int64
	aborted  int32
	mu       sync.Mutex
	ups      []*c12UpCall
	outcomes string
	active   map[string]int
	maxAct   int
}

func (c *c12Ctl) now() int { return int(atomic.LoadInt64(&c.time)) }

func (c *c12Ctl) outcome(n int) byte {
	if n < len(c.outcomes) {
		return c.outcomes[n]
	}
	return 'd'
}

// hook is installed as the verif yield hook: the running caller announces the site and waits for its next grant.
func (c *c12Ctl) hook(site string) {
	if atomic.LoadInt32(&c.aborted) != 0 {
		return
	}
	t := c.cur
	t.events <- c12Event{Kind: 'Y', Site: site, T: c.now()}
	<-t.resume
}

// gate is called by the upstream store on entry; it returns the outcome once the controller releases the call.
func (c *c12Ctl) gate(kind byte, id int) (int, byte) {
	c.mu.Lock()
	n := len(c.ups)
	t := c.cur
	by := -1
	if t != nil {
		by = t.idx
	} else { // free-running after an abort: identify the caller by its goroutine
		gid := c12GoroutineID()
		for _, x := range c.threads {
			if x.gid == gid {
				by = x.idx
			}
		}
	}
	u := &c12UpCall{Kind: kind, ID: id, By: by, CallT: c.now(), Outcome: c.outcome(n)}
	c.ups = append(c.ups, u)
	key := fmt.Sprintf("%c%d", kind, id)
	c.active[key]++
	if c.active[key] > c.maxAct {
		c.maxAct = c.active[key]
	}
	aborted := atomic.LoadInt32(&c.aborted) != 0
	c.mu.Unlock()
	if !aborted && t != nil {
		t.atGate = true
		t.events <- c12Event{Kind: 'G', Site: fmt.Sprintf("%c%d:%d", kind, id, n), T: c.now()}
		<-t.resume
		t.atGate = false
	}
	c.mu.Lock()
	c.active[key]--
	u.RetT, u.Returned = c.now(), true
	c.mu.Unlock()
	return n, u.Outcome
}

type c12Upstream struct{ c *c12Ctl }

func (s c12Upstream) GetChunk(id desync.ChunkID) (*desync.Chunk, error) {
	i := c11Idx(id)
	n, o := s.c.gate('g', i)
	switch o {
	case 'm':
		return nil, desync.ChunkMissing{ID: id}
	case 'e':
		return nil, c12Err{n}
	}
	return c11Chunk(i, 100+n), nil
}

func (s c12Upstream) HasChunk(id desync.ChunkID) (bool, error) {
	n, o := s.c.gate('h', c11Idx(id))
	switch o {
	case 'm':
		return false, nil
	case 'e':
		return false, c12Err{n}
	}
	return true, nil
}

func (s c12Upstream) StoreChunk(ch *desync.Chunk) error {
	n, o := s.c.gate('s', c11Idx(ch.ID()))
	if o == 'e' {
		return c12Err{n}
	}
	return nil
}

func (s c12Upstream) Close() error   { return nil }
func (s c12Upstream) String() string { return "gate" }

func c12GoroutineID() string {
	buf := make([]byte, 64)
	buf = buf[:runtime.Stack(buf, false)]
	f := strings.Fields(string(buf))
	if len(f) >= 2 {
		return f[1]
	}
	return ""
}

// c12BlockedInRecv reports whether goroutine gid is parked in a channel receive.
func c12BlockedInRecv(gid string) bool {
	buf := make([]byte, 1<<16)
	buf = buf[:runtime.Stack(buf, true)]
	s := string(buf)
	k := strings.Index(s, "goroutine "+gid+" [")
	if k < 0 {
		return false
	}
	rest := s[k+len("goroutine "+gid+" ["):]
	return strings.HasPrefix(rest, "chan receive")
}

func c12ParseCall(s string) (op byte, id, tag int, err error) {
	if len(s) < 2 {
		return 0, 0, 0, fmt.Errorf("bad caller %q", s)
	}
	op = s[0]
	f := strings.Split(s[1:], ":")
	if id, err = strconv.Atoi(f[0]); err != nil {
		return
	}
	if op == 's' {
		if len(f) != 2 {
			return 0, 0, 0, fmt.Errorf("bad caller %q", s)
		}
		tag, err = strconv.Atoi(f[1])
	}
	return
}

func c12ValueOfChunk(c *desync.Chunk) string {
	if c == nil {
		return "_"
	}
	return "c" + strconv.Itoa(c11Tag(c))
}

type c12Obs struct {
	Events   []string
	Deviated string // first difference from the model's prediction, "" if none
	Ctl      *c12Ctl
}

const c12Timeout = 5 * time.Second

// c12Execute runs the case on the real queue, following the model's tokens grant by grant.
func c12Execute(c *c12Case, tokens []string) *c12Obs {
	ctl := &c12Ctl{outcomes: c.Outcomes, active: map[string]int{}}
	if ctl.outcomes == "_" {
		ctl.outcomes = ""
	}
	write := false
	for _, s := range c.Callers {
		if s[0] == 's' || s[0] == 'w' {
			write = true
		}
	}
	var store desync.Store
	if write {
		store = desync.NewWriteDedupQueue(c12Upstream{ctl})
	} else {
		store = desync.NewDedupQueue(c12Upstream{ctl})
	}
	obs := &c12Obs{Ctl: ctl}
	for i, s := range c.Callers {
		op, id, tag, err := c12ParseCall(s)
		if err != nil {
			obs.Deviated = err.Error()
			return obs
		}
		if write && op == 'g' {
			op = 'w'
		}
		t := &c12Thread{idx: i, call: s, op: op, id: id, tag: tag, resume: make(chan byte), events: make(chan c12Event, 8)}
		ctl.threads = append(ctl.threads, t)
	}
	desync.VerifSetYieldHook(ctl.hook)
	defer desync.VerifSetYieldHook(nil)
	var ready sync.WaitGroup
	for _, t := range ctl.threads {
		ready.Add(1)
		go func(t *c12Thread) {
			t.gid = c12GoroutineID()
			ready.Done()
			<-t.resume
			defer func() {
				if p := recover(); p != nil {
					t.events <- c12Event{Kind: 'P', Res: fmt.Sprint(p), T: ctl.now()}
				}
			}()
			var res string
			switch t.op {
			case 'g', 'w':
				ch, err := store.GetChunk(c11ID(t.id))
				res = c12ValueOfChunk(ch) + ":" + c12ErrClass(err)
			case 'h':
				b, err := store.HasChunk(c11ID(t.id))
				if b {
					res = "b1:" + c12ErrClass(err)
				} else {
					res = "b0:" + c12ErrClass(err)
				}
			case 's':
				err := store.(desync.WriteStore).StoreChunk(c11Chunk(t.id, t.tag))
				res = "_:" + c12ErrClass(err)
			}
			t.events <- c12Event{Kind: 'R', Res: res, T: ctl.now()}
		}(t)
	}
	ready.Wait()

	wait := func(t *c12Thread) (c12Event, bool) {
		if t.pending != nil {
			e := *t.pending
			t.pending = nil
			return e, true
		}
		select {
		case e := <-t.events:
			return e, true
		case <-time.After(c12Timeout):
			return c12Event{}, false
		}
	}
	note := func(t *c12Thread, e c12Event) {
		if e.Kind == 'R' {
			t.returned, t.result, t.retT = true, e.Res, e.T
		}
		if e.Kind == 'P' {
			t.returned, t.result, t.retT = true, "PANIC:"+e.Res, e.T
		}
	}
	for j, g := range c.Grants {
		if j >= len(tokens) {
			break
		}
		tok := tokens[j]
		if tok == "-" {
			obs.Events = append(obs.Events, "-")
			continue
		}
		if g < 0 || g >= len(ctl.threads) {
			obs.Deviated = fmt.Sprintf("grant %d names caller %d", j, g)
			break
		}
		t := ctl.threads[g]
		atomic.AddInt64(&ctl.time, 1)
		if !t.started {
			t.started, t.startT = true, ctl.now()
		}
		if t.async {
			// the caller sits in req.wait(); the model says the request is done now, so it returns by itself
			if !strings.HasPrefix(tok, "R:") {
				obs.Deviated = fmt.Sprintf("grant %d: model expects %s from a caller blocked in wait()", j, tok)
				break
			}
			e, ok := wait(t)
			if !ok {
				obs.Events = append(obs.Events, "TIMEOUT")
				obs.Deviated = fmt.Sprintf("grant %d: caller %d does not return from wait() although its request is done", j, g)
				break
			}
			e.T = ctl.now()
			note(t, e)
			t.async = false
			obs.Events = append(obs.Events, e.String())
			if e.String() != tok {
				obs.Deviated = fmt.Sprintf("grant %d: model %s, implementation %s", j, tok, e)
				break
			}
			continue
		}
		ctl.cur = t
		t.resume <- 0
		if tok == "B" {
			// no event is expected: wait until the goroutine is parked in the channel receive of req.wait()
			deadline := time.Now().Add(c12Timeout)
			parked := false
			for time.Now().Before(deadline) {
				select {
				case e := <-t.events:
					t.pending = &e
					parked = true
				default:
				}
				if parked || c12BlockedInRecv(t.gid) {
					parked = true
					break
				}
				runtime.Gosched()
			}
			t.async = true
			obs.Events = append(obs.Events, "B")
			if t.pending != nil && t.pending.Kind != 'R' {
				obs.Events[len(obs.Events)-1] = t.pending.String()
				obs.Deviated = fmt.Sprintf("grant %d: model expects the caller to block in wait(), implementation %s", j, t.pending)
				break
			}
			if !parked {
				obs.Deviated = fmt.Sprintf("grant %d: caller %d neither blocked nor returned", j, g)
				break
			}
			continue
		}
		e, ok := wait(t)
		if !ok {
			obs.Events = append(obs.Events, "TIMEOUT")
			obs.Deviated = fmt.Sprintf("grant %d: model expects %s, caller %d produced no event (blocked)", j, tok, g)
			break
		}
		note(t, e)
		obs.Events = append(obs.Events, e.String())
		if e.String() != tok {
			obs.Deviated = fmt.Sprintf("grant %d: model %s, implementation %s", j, tok, e)
			break
		}
	}
	// let everything that is still held run free and collect what returns
	atomic.StoreInt32(&ctl.aborted, 1)
	ctl.cur = nil
	for _, t := range ctl.threads {
		if t.returned {
			continue
		}
		if !t.started {
			t.started, t.startT = true, ctl.now()+1
		}
		select {
		case t.resume <- 0:
		default:
		}
	}
	deadline := time.After(c12Timeout / 4)
	if obs.Deviated == "" {
		deadline = time.After(c12Timeout)
	}
	for _, t := range ctl.threads {
		for !t.returned {
			var e c12Event
			ok := true
			if t.pending != nil {
				e, t.pending = *t.pending, nil
			} else {
				select {
				case e = <-t.events:
				case <-deadline:
					ok = false
				}
			}
			if !ok {
				break
			}
			if e.Kind == 'R' || e.Kind == 'P' {
				e.T = ctl.now() + 1
				note(t, e)
			} else {
				select { // a thread that was waiting at a hook or gate when the run was aborted
				case t.resume <- 0:
				case <-time.After(50 * time.Millisecond):
				}
			}
		}
	}
	return obs
}

// ---------- the property predicate on the observed logs ----------

type c12Finding struct{ Class, What string }

func c12Outcome(kind byte, n int, o byte, storedTag int) string {
	switch kind {
	case 'g':
		switch o {
		case 'm':
			return "_:m"
		case 'e':
			return fmt.Sprintf("_:e%d", n)
		}
		return fmt.Sprintf("c%d:n", 100+n)
	case 'h':
		switch o {
		case 'm':
			return "b0:n"
		case 'e':
			return fmt.Sprintf("b0:e%d", n)
		}
		return "b1:n"
	}
	if o == 'e' {
		return fmt.Sprintf("c%d:e%d", storedTag, n)
	}
	return fmt.Sprintf("c%d:n", storedTag)
}

func c12Predicate(ctl *c12Ctl) (fs []c12Finding, strictMisses int) {
	big := 1 << 30
	ivl := func(t *c12Thread) (int, int) {
		if t.returned {
			return t.startT, t.retT
		}
		return t.startT, big
	}
	for _, t := range ctl.threads {
		if !t.returned {
			fs = append(fs, c12Finding{"dedup/caller-does-not-return", fmt.Sprintf("caller %d (%s) never returned", t.idx, t.call)})
		} else if strings.HasPrefix(t.result, "PANIC") {
			fs = append(fs, c12Finding{"dedup/panic", fmt.Sprintf("caller %d (%s): %s", t.idx, t.call, t.result)})
		}
	}
	if ctl.maxAct > 1 {
		fs = append(fs, c12Finding{"dedup/concurrent-upstream-requests", fmt.Sprintf("%d upstream requests of one (kind, id) were in flight together", ctl.maxAct)})
	}
	for a := 0; a < len(ctl.ups); a++ {
		for b := a + 1; b < len(ctl.ups); b++ {
			x, y := ctl.ups[a], ctl.ups[b]
			if x.Kind == y.Kind && x.ID == y.ID && (!x.Returned || y.CallT < x.RetT) && ctl.maxAct <= 1 {
				fs = append(fs, c12Finding{"dedup/concurrent-upstream-requests", fmt.Sprintf("upstream calls %d and %d of %c%d overlap", a, b, x.Kind, x.ID)})
			}
		}
	}
	for _, t := range ctl.threads {
		if !t.returned || strings.HasPrefix(t.result, "PANIC") {
			continue
		}
		cs, cr := ivl(t)
		kind := t.op
		if kind == 'w' {
			kind = 'g'
		}
		want := t.result
		if t.op == 's' { // StoreChunk hands back only the error
			want = want[strings.Index(want, ":"):]
		}
		cands, overl, strict, finishedBefore := 0, 0, 0, 0
		for n, u := range ctl.ups {
			if u.ID != t.id || u.By < 0 {
				continue
			}
			ld := ctl.threads[u.By]
			out := c12Outcome(u.Kind, n, u.Outcome, ld.tag)
			match := false
			switch {
			case u.Kind == kind && t.op != 's':
				match = u.Returned && out == want
			case u.Kind == 's' && t.op == 's':
				match = u.Returned && out[strings.Index(out, ":"):] == want
			case u.Kind == 's' && t.op == 'w':
				match = u.Returned && out == want
			}
			if !match {
				continue
			}
			cands++
			ls, lr := ivl(ld)
			if cs <= lr && ls <= cr {
				overl++
			} else if lr < cs {
				finishedBefore++
			}
			if u.CallT <= cr && cs <= u.RetT {
				strict++
			}
		}
		switch {
		case cands == 0:
			fs = append(fs, c12Finding{"dedup/result-from-nowhere", fmt.Sprintf("caller %d (%s) returned %s, which no upstream request of that chunk produced", t.idx, t.call, t.result)})
		case overl == 0 && finishedBefore > 0:
			fs = append(fs, c12Finding{"dedup/result-reused-after-completion", fmt.Sprintf("caller %d (%s, started at %d) returned %s, the result of a request whose leader had already returned", t.idx, t.call, cs, t.result)})
		case overl == 0:
			fs = append(fs, c12Finding{"dedup/result-not-overlapping", fmt.Sprintf("caller %d (%s) returned %s from a request that does not overlap its call", t.idx, t.call, t.result)})
		case strict == 0:
			strictMisses++
		}
	}
	// WriteDedupQueue.GetChunk that starts while a StoreChunk leader of the id is registered sees that chunk
	for _, t := range ctl.threads {
		if t.op != 'w' || !t.returned {
			continue
		}
		for n, u := range ctl.ups {
			if u.Kind != 's' || u.ID != t.id || u.By < 0 || !u.Returned {
				continue
			}
			ld := ctl.threads[u.By]
			ls, lr := ivl(ld)
			if ls < t.startT && t.startT < lr {
				want := c12Outcome('s', n, u.Outcome, ld.tag)
				if t.result != want {
					fs = append(fs, c12Finding{"wdedup/read-misses-inflight-write", fmt.Sprintf("GetChunk caller %d started while StoreChunk caller %d had chunk %d registered, but returned %s instead of %s", t.idx, ld.idx, t.id, t.result, want)})
				}
			}
		}
	}
	return fs, strictMisses
}

// ---------- one case: model prediction, execution, predicate, correspondence ----------

func c12GrantString(g []int) string {
	if len(g) == 0 {
		return "_"
	}
	s := make([]string, len(g))
	for i, x := range g {
		s[i] = strconv.Itoa(x)
	}
	return strings.Join(s, ".")
}

func c12ParseGrants(s string) []int {
	if s == "_" || s == "" {
		return nil
	}
	var out []int
	for _, f := range strings.Split(s, ".") {
		n, _ := strconv.Atoi(f)
		out = append(out, n)
	}
	return out
}

type c12Stats struct{ strictModel, strictImpl int }

func c12Check(o *vh.Oracle, r *vh.Result, c *c12Case, record bool, st *c12Stats) (bad bool, err error) {
	if o == nil {
		return false, fmt.Errorf("C12 needs the oracle (the schedule is model-guided)")
	}
	outc := c.Outcomes
	if outc == "" {
		outc = "_"
	}
	ans, err := o.Call("c12.run", strings.Join(c.Callers, ","), outc, c12GrantString(c.Grants))
	if err != nil {
		return false, err
	}
	p := strings.Split(ans, "|")
	if len(p) != 5 {
		return false, fmt.Errorf("bad oracle answer %q", ans)
	}
	c.Tokens, c.Model = p[0], p[1]
	var tokens []string
	if p[0] != "_" {
		tokens = strings.Split(p[0], ",")
	}
	obs := c12Execute(c, tokens)
	var impl []string
	for _, t := range obs.Ctl.threads {
		if t.returned {
			impl = append(impl, t.result)
		} else {
			impl = append(impl, "?")
		}
	}
	c.Impl = strings.Join(impl, ",")
	c.ImplEv = joinOr(obs.Events, ",")
	fs, strict := c12Predicate(obs.Ctl)
	for _, f := range fs {
		bad = true
		if record {
			r.Fail("predicate", f.Class, f.What+fmt.Sprintf(" (callers %v, upstream outcomes %q, schedule %s)", c.Callers, c.Outcomes, c12GrantString(c.Grants)), c)
		}
	}
	if r != nil {
		r.Corr()
	}
	ms, _ := strconv.Atoi(p[3])
	if st != nil {
		st.strictModel += ms
		st.strictImpl += strict
	}
	switch {
	case obs.Deviated != "":
		bad = true
		if record {
			r.Fail("corr", "corr:C12/events", obs.Deviated+fmt.Sprintf(" (callers %v, schedule %s)", c.Callers, c12GrantString(c.Grants)), c)
		}
	case c.Impl != c.Model:
		bad = true
		if record {
			r.Fail("corr", "corr:C12/answers", fmt.Sprintf("answers differ: model %s, implementation %s (callers %v, schedule %s)", c.Model, c.Impl, c.Callers, c12GrantString(c.Grants)), c)
		}
	case p[2] == "_" && (strict > ms || (ms != strict && c12Distinguishable(c))):
		// answers that do not identify their upstream call (booleans, missing, StoreChunk's nil) let the harness
		// match a caller with a later, overlapping call of the same outcome: then it may only count fewer
		bad = true
		if record {
			r.Fail("corr", "corr:C12/strict-overlap", fmt.Sprintf("callers outside the upstream interval of their result: model %d, implementation %d", ms, strict), c)
		}
	}
	return bad, nil
}

func c12Distinguishable(c *c12Case) bool {
	for _, s := range c.Callers {
		if s[0] == 'h' || s[0] == 's' {
			return false
		}
	}
	return !strings.Contains(c.Outcomes, "m")
}

// c12Walk asks the model for a maximal schedule, choosing among the enabled callers with the given random numbers.
func c12Walk(o *vh.Oracle, rng *vh.Rand, c *c12Case) error {
	outc := c.Outcomes
	if outc == "" {
		outc = "_"
	}
	c.Grants = nil
	for step := 0; step < 200; step++ {
		ans, err := o.Call("c12.run", strings.Join(c.Callers, ","), outc, c12GrantString(c.Grants))
		if err != nil {
			return err
		}
		p := strings.Split(ans, "|")
		if len(p) != 5 {
			return fmt.Errorf("bad oracle answer %q", ans)
		}
		en := c12ParseGrants(p[2])
		if len(en) == 0 {
			return nil
		}
		// a few grants at once keep the number of oracle calls low; a disabled pick is a stutter in the model
		c.Grants = append(c.Grants, en[rng.Intn(len(en))])
	}
	return fmt.Errorf("schedule does not end: %v", c.Callers)
}

func c12GenCallers(rng *vh.Rand, k int, write bool) []string {
	nid := rng.Range(1, 3)
	var cs []string
	for i := 0; i < k; i++ {
		id := rng.Intn(nid)
		if rng.Chance(2, 3) {
			id = 0
		}
		p := rng.Intn(10)
		switch {
		case write && p < 4:
			cs = append(cs, fmt.Sprintf("s%d:%d", id, 7+i))
		case write && p < 8:
			cs = append(cs, fmt.Sprintf("w%d", id))
		case p < 7 && !write:
			cs = append(cs, fmt.Sprintf("g%d", id))
		default:
			cs = append(cs, fmt.Sprintf("h%d", id))
		}
	}
	return cs
}

func c12GenOutcomes(rng *vh.Rand, k int) string {
	b := make([]byte, k)
	for i := range b {
		b[i] = "dddme"[rng.Intn(5)]
	}
	return string(b)
}

func c12Record(r *vh.Result, c *c12Case, src string) {
	kinds := map[byte]bool{}
	for _, s := range c.Callers {
		kinds[s[0]] = true
	}
	multi := false
	seen := map[string]bool{}
	for _, s := range c.Callers {
		key := s[:1] + strings.Split(s[1:], ":")[0]
		if s[0] == 'w' {
			key = "s" + s[1:]
		}
		if seen[key] {
			multi = true
		}
		seen[key] = true
	}
	r.Count(strings.Join(c.Callers, ",")+"|"+c.Outcomes+"|"+c12GrantString(c.Grants), multi)
	r.Dist(fmt.Sprintf("callers:%d", len(c.Callers)))
	r.Dist("source:" + src)
	for _, s := range c.Callers {
		r.Dist("op:" + s[:1])
	}
	for _, a := range strings.Split(c.Impl, ",") {
		if i := strings.Index(a, ":"); i >= 0 {
			cl := a[i+1:]
			if strings.HasPrefix(cl, "e") {
				cl = "e"
			}
			r.Dist("answer:" + cl)
		}
	}
}

func runC12(a vh.Args, o *vh.Oracle, r *vh.Result) error {
	r.Rule = "case = (k <= 6 callers GetChunk/HasChunk/StoreChunk over <= 3 ids on a DedupQueue or WriteDedupQueue, outcome data/missing/error of every upstream call, a maximal schedule of grants); non-trivial = two or more callers compete for the same (queue, id); distinct by (callers, outcomes, schedule). Schedules are enumerated exhaustively for the listed small caller sets and sampled (random walk over the enabled callers) otherwise"
	if a.Replay != "" {
		var c c12Case
		if err := readJSON(a.Replay, &c); err != nil {
			return err
		}
		if c.Conc == "stress" {
			return c12Stress(a, r)
		}
		_, err := c12Check(o, r, &c, true, nil)
		fmt.Printf("model events:          %s\nimplementation events: %s\nmodel answers:          %s\nimplementation answers: %s\n", c.Tokens, c.ImplEv, c.Model, c.Impl)
		return err
	}
	if o == nil {
		return fmt.Errorf("C12 needs the oracle")
	}
	rng := vh.NewRand(a.Seed)
	st := &c12Stats{}
	hangs := 0
	errStop := fmt.Errorf("stop")
	run := func(c *c12Case, src string) error {
		if hangs >= 3 {
			return errStop
		}
		r.Running(c)
		_, err := c12Check(o, r, c, true, st)
		if err != nil {
			return err
		}
		if strings.Contains(c.ImplEv, "TIMEOUT") || strings.Contains(c.Impl, "?") {
			if hangs++; hangs >= 3 {
				r.Note("three cases ended with a blocked caller: the remaining cases are skipped (each costs seconds of watchdog time)")
			}
		}
		c12Record(r, c, src)
		if r.Evaluations <= 3 {
			r.Sample(map[string]interface{}{"callers": c.Callers, "outcomes": c.Outcomes, "schedule": c12GrantString(c.Grants), "events": c.ImplEv, "answers": c.Impl})
		}
		return nil
	}
	// exhaustive enumeration for small caller sets
	type enumSet struct {
		callers  string
		outcomes []string
		limit    int
	}
	sets := []enumSet{
		{"g0,g0", []string{"d", "m", "e"}, 1000},
		{"h0,h0", []string{"d", "m", "e"}, 1000},
		{"g0,h0", []string{"dd", "em"}, 1000},
		{"s0:7,s0:8", []string{"d", "e"}, 1000},
		{"s0:7,w0", []string{"dd", "ed", "de", "dm"}, 1000},
		{"g0,g0,g0", []string{"dm"}, 400},
	}
	if a.Tier == "thorough" {
		sets = append(sets,
			enumSet{"g0,g0,g0", []string{"dd", "ed", "md"}, 100000},
			enumSet{"h0,h0,h0", []string{"dd", "em"}, 100000},
			enumSet{"s0:7,w0,w0", []string{"dd", "ed"}, 100000},
			enumSet{"s0:7,s0:8,w0", []string{"dd", "ee"}, 100000},
			enumSet{"g0,g1", []string{"dd"}, 100000},
			enumSet{"g0,g0,g1", []string{"ddd"}, 6000},
			enumSet{"s0:7,w0,h0", []string{"ddd"}, 6000},
			enumSet{"g0,g0,h0", []string{"ded"}, 6000},
		)
	}
	for _, s := range sets {
		for _, oc := range s.outcomes {
			ans, err := o.Call("c12.enum", s.callers, oc, strconv.Itoa(s.limit))
			if err != nil {
				return err
			}
			p := strings.SplitN(ans, "|", 2)
			if len(p) != 2 {
				return fmt.Errorf("bad c12.enum answer")
			}
			r.Dist("enumerated:" + s.callers + "/" + oc + "=" + p[0])
			if p[1] == "_" {
				continue
			}
			for _, sch := range strings.Split(p[1], "/") {
				c := &c12Case{Callers: strings.Split(s.callers, ","), Outcomes: oc, Grants: c12ParseGrants(sch)}
				if err := run(c, "enumerated"); err != nil && err != errStop {
					return err
				}
			}
		}
	}
	// sampled schedules for up to 6 callers
	n := 2000
	if a.Tier == "thorough" {
		n = 12000
	}
	for i := 0; i < n; i++ {
		k := rng.Range(2, 6)
		c := &c12Case{Callers: c12GenCallers(rng, k, rng.Chance(1, 2)), Outcomes: c12GenOutcomes(rng, k)}
		if err := c12Walk(o, rng, c); err != nil {
			return err
		}
		if err := run(c, "sampled"); err == errStop {
			break
		} else if err != nil {
			return err
		}
	}
	if r.Extra == nil {
		r.Extra = map[string]interface{}{}
	}
	r.Extra["callers_outside_upstream_interval_of_their_result"] = map[string]int{"model": st.strictModel, "implementation": st.strictImpl}
	if st.strictImpl > 0 {
		r.Note("strict reading of 'in flight during its own call' (overlap with the upstream call proper): %d callers in this run were handed a result whose upstream call had returned before they started (they arrived between markDone and delete); the model counts %d for the same schedules (the harness can only count fewer where answers do not identify their upstream call); this is dedup_strict_overlap_refuted, not a violation (see level_note)", st.strictImpl, st.strictModel)
	}
	if err := c12Stress(a, r); err != nil {
		return err
	}
	if a.Tier == "thorough" {
		if bin := chainsRaceBinary(a, r); bin != "" {
			chainsRaceRun(a, r, bin, "C12", "C12", 10*time.Minute)
		}
	}
	return nil
}

// ---------- free-running stress in a child process (no hooks): crashes, hangs, races ----------

func c12Stress(a vh.Args, r *vh.Result) error {
	if os.Getenv("VH_C12_CHILD") == "1" {
		return nil
	}
	rounds := "300"
	if a.Tier == "thorough" {
		rounds = "6000"
	}
	cmd := exec.Command(os.Args[0], "C12stress", "-seed", strconv.FormatUint(a.Seed, 10), "-tier", rounds)
	cmd.Env = append(os.Environ(), "VH_C12_CHILD=1")
	done := make(chan struct{})
	var out []byte
	var err error
	go func() { out, err = cmd.CombinedOutput(); close(done) }()
	select {
	case <-done:
	case <-time.After(45 * time.Second):
		cmd.Process.Kill()
		<-done
		r.Fail("predicate", "dedup/stress-hang", "free-running callers did not finish within 45 s", map[string]interface{}{"conc": "stress"})
		return nil
	}
	r.Count("stress", true)
	r.Dist("source:stress-child")
	if err != nil {
		tail := string(out)
		if len(tail) > 1500 {
			tail = tail[:1500]
		}
		r.Fail("predicate", "dedup/stress-failure", "free-running callers on a DedupQueue/WriteDedupQueue failed: "+tail, map[string]interface{}{"conc": "stress"})
	}
	return nil
}

func init() { props["C12stress"] = runC12StressChild }

// slow upstream without gates; callers run freely in parallel; checks single flight and answer provenance.
type c12FreeUp struct {
	mu      sync.Mutex
	active  map[string]int
	maxAct  int
	serial  int
	content map[int]int
}

func (s *c12FreeUp) enter(kind byte, id int) (string, int) {
	s.mu.Lock()
	defer s.mu.Unlock()
	k := fmt.Sprintf("%c%d", kind, id)
	s.active[k]++
	if s.active[k] > s.maxAct {
		s.maxAct = s.active[k]
	}
	s.serial++
	return k, s.serial
}
func (s *c12FreeUp) leave(k string) { s.mu.Lock(); s.active[k]--; s.mu.Unlock() }
func (s *c12FreeUp) GetChunk(id desync.ChunkID) (*desync.Chunk, error) {
	k, n := s.enter('g', c11Idx(id))
	defer s.leave(k)
	for i := 0; i < n%5; i++ {
		runtime.Gosched()
	}
	if n%7 == 0 {
		return nil, desync.ChunkMissing{ID: id}
	}
	return c11Chunk(c11Idx(id), n%60000), nil
}
func (s *c12FreeUp) HasChunk(id desync.ChunkID) (bool, error) {
	k, n := s.enter('h', c11Idx(id))
	defer s.leave(k)
	runtime.Gosched()
	return n%3 != 0, nil
}
func (s *c12FreeUp) StoreChunk(c *desync.Chunk) error {
	k, n := s.enter('s', c11Idx(c.ID()))
	defer s.leave(k)
	for i := 0; i < n%4; i++ {
		runtime.Gosched()
	}
	return nil
}
func (s *c12FreeUp) Close() error   { return nil }
func (s *c12FreeUp) String() string { return "free" }

func runC12StressChild(a vh.Args, o *vh.Oracle, r *vh.Result) error {
	rounds, _ := strconv.Atoi(a.Tier)
	if rounds == 0 {
		rounds = 300
	}
	desync.VerifSetYieldHook(nil)
	rng := vh.NewRand(a.Seed)
	for round := 0; round < rounds; round++ {
		up := &c12FreeUp{active: map[string]int{}, content: map[int]int{}}
		var q desync.Store
		write := round%2 == 1
		if write {
			q = desync.NewWriteDedupQueue(up)
		} else {
			q = desync.NewDedupQueue(up)
		}
		var wg sync.WaitGroup
		for g := 0; g < 8; g++ {
			wg.Add(1)
			seed := rng.U64()
			go func() {
				defer wg.Done()
				lr := vh.NewRand(seed)
				for k := 0; k < 40; k++ {
					id := lr.Intn(2)
					switch lr.Intn(3) {
					case 0:
						c, err := q.GetChunk(c11ID(id))
						if err == nil && (c == nil || c11Idx(c.ID()) != id) {
							fmt.Println("GetChunk returned a wrong chunk")
							os.Exit(3)
						}
					case 1:
						q.HasChunk(c11ID(id))
					default:
						if write {
							q.(desync.WriteStore).StoreChunk(c11Chunk(id, k))
						} else {
							q.GetChunk(c11ID(id))
						}
					}
				}
			}()
		}
		wg.Wait()
		if up.maxAct > 1 {
			fmt.Printf("round %d: %d upstream requests of one (kind, id) in flight together\n", round, up.maxAct)
			os.Exit(3)
		}
	}
	return nil
}
