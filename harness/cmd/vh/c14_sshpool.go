package main

// C14 (h) sshpool: RemoteSSH with a pool of n sessions (1..3) against `desync pull` through a
// fake ssh.  A history of m look-ups of MISSING chunks (GetChunk and HasChunk alternating,
// m = 0..2n) is followed by a request for a PRESENT chunk, which must be answered with its
// data, and by Close, which must return.  Every history runs in a child process (this binary
// re-executed with the pseudo-property C14sshchild) under a watchdog, so that a request that
// blocks forever is an observable result ("HANG"), not a stuck harness.

import (
	"bufio"
	"encoding/hex"
	"encoding/json"
	"fmt"
	"net/url"
	"os"
	"os/exec"
	"path/filepath"
	"strings"
	"syscall"
	"time"

	"github.com/folbricht/desync"

	"vh/internal/vh"
)

func init() { props["C14sshchild"] = runC14SSHChild }

type c14SSHOp struct {
	Kind string `json:"kind"` // get | has
	ID   string `json:"id"`
}

type c14SSHJob struct {
	Dir    string     `json:"dir"`
	N      int        `json:"n"`
	SSH    string     `json:"ssh"`
	Remote string     `json:"remote"`
	Ops    []c14SSHOp `json:"ops"`
}

// child: performs the operations one after the other, one flushed line per result
func runC14SSHChild(a vh.Args, o *vh.Oracle, r *vh.Result) error {
	var job c14SSHJob
	if err := json.Unmarshal([]byte(os.Getenv("VH_C14_CHILD")), &job); err != nil {
		return err
	}
	desync.Digest = desync.SHA256{}
	os.Setenv("CASYNC_SSH_PATH", job.SSH)
	os.Setenv("CASYNC_REMOTE_PATH", job.Remote)
	u, _ := url.Parse("ssh://localhost" + job.Dir)
	st, err := desync.NewRemoteSSHStore(u, desync.StoreOptions{N: job.N})
	if err != nil {
		fmt.Println("CHILD START error", err)
		return nil
	}
	fmt.Println("CHILD START ok")
	for _, op := range job.Ops {
		var id desync.ChunkID
		b, _ := hex.DecodeString(op.ID)
		copy(id[:], b)
		switch op.Kind {
		case "has":
			ok, err := st.HasChunk(id)
			switch {
			case err != nil:
				if _, m := err.(desync.ChunkMissing); m {
					fmt.Println("CHILD R M")
				} else {
					fmt.Println("CHILD R E")
				}
			case ok:
				fmt.Println("CHILD R T")
			default:
				fmt.Println("CHILD R M")
			}
		default:
			ch, err := st.GetChunk(id)
			fmt.Println("CHILD R " + c14PClass(ch, err))
		}
		os.Stdout.Sync()
	}
	st.Close()
	fmt.Println("CHILD CLOSE ok")
	os.Stdout.Sync()
	return nil
}

// parent: results per op ("HANG" for the op that never returned and everything after it),
// whether Close returned
func c14RunSSHChild(a vh.Args, dir string, n int, ops []c14SSHOp, watchdog time.Duration, remoteExtra string) ([]string, bool, error) {
	bin := os.Getenv("VH_DESYNC")
	if bin == "" {
		return nil, false, nil
	}
	fake := filepath.Join(a.Work, "fake-ssh")
	if _, err := os.Stat(fake); err != nil {
		if err := os.WriteFile(fake, []byte("#!/bin/sh\n# fake ssh: ignore the host, run the remote command locally\nshift\nexec sh -c \"$1\"\n"), 0755); err != nil {
			return nil, false, err
		}
	}
	job, _ := json.Marshal(c14SSHJob{Dir: dir, N: n, SSH: fake, Remote: bin + " --digest sha256" + remoteExtra, Ops: ops})
	cmd := exec.Command(os.Args[0], "C14sshchild", "-oracle", "/nonexistent")
	cmd.Env = append(os.Environ(), "VH_C14_CHILD="+string(job))
	cmd.SysProcAttr = &syscall.SysProcAttr{Setpgid: true}
	out, err := cmd.StdoutPipe()
	if err != nil {
		return nil, false, err
	}
	if err := cmd.Start(); err != nil {
		return nil, false, err
	}
	lines := make(chan string, 64)
	go func() {
		sc := bufio.NewScanner(out)
		sc.Buffer(make([]byte, 1<<20), 1<<24)
		for sc.Scan() {
			lines <- sc.Text()
		}
		close(lines)
	}()
	var res []string
	closed := false
	timer := time.After(watchdog)
loop:
	for {
		select {
		case l, ok := <-lines:
			if !ok {
				break loop
			}
			switch {
			case strings.HasPrefix(l, "CHILD R "):
				res = append(res, strings.TrimPrefix(l, "CHILD R "))
			case l == "CHILD CLOSE ok":
				closed = true
			case strings.HasPrefix(l, "CHILD START error"):
				syscall.Kill(-cmd.Process.Pid, syscall.SIGKILL)
				cmd.Wait()
				return nil, false, fmt.Errorf("RemoteSSH store could not be started: %s", l)
			}
		case <-timer:
			break loop
		}
	}
	syscall.Kill(-cmd.Process.Pid, syscall.SIGKILL)
	cmd.Wait()
	for len(res) < len(ops) {
		res = append(res, "HANG")
	}
	return res, closed, nil
}

func c14SSHPool(a vh.Args, o *vh.Oracle, r *vh.Result, rng *vh.Rand) error {
	if os.Getenv("VH_DESYNC") == "" {
		r.Note("VH_DESYNC not set: sshpool part skipped")
		return nil
	}
	s, err := c14NewSession(a, rng)
	if err != nil {
		return err
	}
	idOf := func(n string) string { id := s.ids[n]; return id.String() }
	for n := 1; n <= 3; n++ {
		for m := 0; m <= 2*n; m++ {
			var ops []c14SSHOp
			var names []string
			for i := 0; i < m; i++ {
				k, nm := "get", []string{"m0", "m1"}[i%2]
				if i%2 == 1 {
					k = "has"
				}
				ops = append(ops, c14SSHOp{k, idOf(nm)})
				names = append(names, k+":"+nm)
			}
			ops = append(ops, c14SSHOp{"get", idOf("p1")}, c14SSHOp{"has", idOf("p0")})
			names = append(names, "get:p1", "has:p0")
			res, closed, err := c14RunSSHChild(a, s.dir, n, ops, 5*time.Second, "")
			if err != nil {
				return err
			}
			c := &c14Case{Part: "sshpool", Level: fmt.Sprintf("%d sessions", n), Requests: names, Got: c14Short(strings.Join(res, ","))}
			r.Count(fmt.Sprintf("sshpool|%d|%d", n, m), true)
			r.Dist("part:sshpool")
			r.Dist(fmt.Sprintf("sshpool-sessions:%d", n))
			r.Sample(map[string]interface{}{"part": "sshpool", "sessions": n, "missing_lookups": m, "results": c.Got, "close_returned": closed})
			what := fmt.Sprintf("RemoteSSH with %d session(s): %d look-ups of missing chunks, then a present chunk: results %s, Close returned: %v", n, m, c.Got, closed)
			for i := 0; i < m; i++ {
				if res[i] != "M" {
					cls := "ssh/missing-not-missing"
					if res[i] == "HANG" {
						cls = "ssh/session-leak-hang"
					}
					r.Fail("predicate", cls, what+fmt.Sprintf(" (look-up %d of a missing chunk answered %s)", i+1, res[i]), c)
					break
				}
			}
			wantData := "D:" + vh.Hex(s.present["p1"])
			switch {
			case res[m] == "HANG" || res[m+1] == "HANG":
				r.Fail("predicate", "ssh/session-leak-hang", what+": the request for a present chunk was never answered (the truthful MISSING answers used up the session pool)", c)
			case res[m] != wantData:
				r.Fail("predicate", "ssh/present-not-delivered", what, c)
			case res[m+1] != "T":
				r.Fail("predicate", "ssh/has-present", what, c)
			case !closed:
				r.Fail("predicate", "ssh/close-hang", what+": Close never returned", c)
			}
			// model: n pooled sessions are n independent sessions; every request is answered truthfully
			if o != nil {
				var pres []string
				var datas [][]byte
				for _, nm := range []string{"p0", "p1", "p2"} {
					pres = append(pres, idOf(nm)+":"+vh.Hex(s.present[nm]))
					datas = append(datas, s.present[nm])
				}
				zt, ct := c15ZTables(datas...)
				var ids, want []string
				for i, op := range ops {
					ids = append(ids, op.ID)
					_ = i
				}
				ans, err := o.Call("c14.session", strings.Join(pres, ","), "-", strings.Join(ids, ","), zt, ct)
				if err != nil {
					return err
				}
				for i, f := range strings.Split(ans, ",") {
					if ops[i].Kind == "has" && strings.HasPrefix(f, "D:") {
						f = "T"
					}
					want = append(want, f)
				}
				r.Corr()
				if strings.Join(want, ",") != strings.Join(res, ",") {
					r.Fail("corr", "corr:C14/sshpool", fmt.Sprintf("RemoteSSH %d sessions, history %v: model %s, implementation %s", n, names, c14Short(strings.Join(want, ",")), c.Got), c)
				}
			}
		}
	}
	return nil
}
