package main

// C06 under cancellation: "success => complete" must also hold when the context is cancelled at
// any moment.  Copy, ChopFile, ChunkStream, IndexFromFile and make (= IndexFromFile + ChopFile) are
// run with a context that is cancelled
//   before   before the call,
//   hook     inside the k-th yield hook of the operation (feeder loops, parallel chunker),
//   call     right before / right after the k-th HasChunk, StoreChunk or GetChunk call,
//   digest   while the k-th chunk digest is computed,
//   (call and tail also with context-bound stores: a request in flight when the context is cancelled, and
//   every later one, fails instead of completing)
//   tail     after the feeder has handed out the last job: the last n calls of a kind are held at a
//            barrier until all of them are in flight (or 50 ms passed), then the context is cancelled
//            and the calls are released.
// Judged on the implementation alone: err == nil => every chunk of the index is readable and valid from
// the target through a fresh store, and a produced index describes the input exactly (length,
// contiguity, every range hashes to its id).  Any error is fine here (C07 judges that side).

import (
	"bytes"
	"context"
	"crypto"
	"fmt"
	"os"
	"path/filepath"
	"strconv"
	"sync"
	"sync/atomic"
	"time"

	"github.com/folbricht/desync"

	"vh/internal/vh"
)

type c06Cancel struct {
	Mode  string `json:"mode"`            // before | hook | call | digest | tail
	Kind  string `json:"kind,omitempty"`  // call/tail: has | store | get
	K     int    `json:"k,omitempty"`     // hook/call/digest: 1-based hit number
	After bool   `json:"after,omitempty"` // call: cancel after the inner call returned
}

func (cc c06Cancel) tag() string {
	s := cc.Mode
	if cc.Kind != "" {
		s += ":" + cc.Kind
	}
	if cc.K > 0 {
		s += ":" + strconv.Itoa(cc.K)
	}
	if cc.After {
		s += ":after"
	}
	return s
}

type c06CancelCase struct {
	Op       string    `json:"op"` // copy | chop | chunkstream | indexfromfile | make
	N        int       `json:"n"`
	BlobHex  string    `json:"blob_hex"`
	Sizes    []int     `json:"sizes"`
	Min      uint64    `json:"min,omitempty"`
	Avg      uint64    `json:"avg,omitempty"`
	Max      uint64    `json:"max,omitempty"`
	Cancel   c06Cancel `json:"cancel"`
	CtxBound bool      `json:"ctx_bound,omitempty"` // stores bound to the context: a call fails once the context is done
	Level    string    `json:"level"`               // "library-cancel"

	Got    string         `json:"impl_result,omitempty"`
	Detail string         `json:"detail,omitempty"`
	Fired  bool           `json:"cancel_fired"`
	Calls  map[string]int `json:"calls,omitempty"`
	Hooks  int            `json:"hook_hits"`
	Sums   int            `json:"digest_calls"`
}

// cancelDigest cancels while the k-th digest is computed.
type cancelDigest struct {
	desync.HashAlgorithm
	n  *int64
	at int64
	f  func()
}

func (d cancelDigest) Sum(b []byte) [32]byte {
	if atomic.AddInt64(d.n, 1) == d.at {
		d.f()
	}
	return d.HashAlgorithm.Sum(b)
}
func (d cancelDigest) Algorithm() crypto.Hash { return d.HashAlgorithm.Algorithm() }

// cancelStore wraps a store: counts calls per kind, cancels at the k-th call of a kind (before or
// after the inner call) or holds the last n calls of a kind at a barrier, cancels, releases.
type cancelStore struct {
	ctx    context.Context // non-nil: the store is bound to this context
	inner  desync.WriteStore
	cc     c06Cancel
	cancel func()
	mu     sync.Mutex
	calls  map[string]int
	// tail mode
	tailFrom int // calls of cc.Kind with number > tailFrom are held
	tailN    int
	waiting  int
	gate     chan struct{}
	once     sync.Once
}

func (s *cancelStore) open() {
	s.once.Do(func() { s.cancel(); close(s.gate) })
}

func (s *cancelStore) enter(kind string) (num int) {
	s.mu.Lock()
	s.calls[kind]++
	num = s.calls[kind]
	hold := s.cc.Mode == "tail" && kind == s.cc.Kind && s.tailN > 0 && num > s.tailFrom
	if hold {
		s.waiting++
		if s.waiting == 1 {
			go func() { time.Sleep(50 * time.Millisecond); s.open() }()
		}
		if s.waiting >= s.tailN {
			s.mu.Unlock()
			s.open()
			return num
		}
	}
	s.mu.Unlock()
	if hold {
		<-s.gate
	}
	if s.cc.Mode == "call" && kind == s.cc.Kind && num == s.cc.K && !s.cc.After {
		s.cancel()
	}
	return num
}
func (s *cancelStore) leave(kind string, num int) {
	if s.cc.Mode == "call" && kind == s.cc.Kind && num == s.cc.K && s.cc.After {
		s.cancel()
	}
}
func (s *cancelStore) aborted() bool { return s.ctx != nil && s.ctx.Err() != nil }

func (s *cancelStore) GetChunk(id desync.ChunkID) (*desync.Chunk, error) {
	n := s.enter("get")
	if s.aborted() {
		return nil, errCtxBound
	}
	c, err := s.inner.GetChunk(id)
	s.leave("get", n)
	return c, err
}
func (s *cancelStore) HasChunk(id desync.ChunkID) (bool, error) {
	n := s.enter("has")
	if s.aborted() {
		return false, errCtxBound
	}
	ok, err := s.inner.HasChunk(id)
	s.leave("has", n)
	return ok, err
}
func (s *cancelStore) StoreChunk(c *desync.Chunk) error {
	n := s.enter("store")
	if s.aborted() {
		return errCtxBound
	}
	err := s.inner.StoreChunk(c)
	s.leave("store", n)
	return err
}
func (s *cancelStore) Close() error   { return s.inner.Close() }
func (s *cancelStore) String() string { return "cancel(" + s.inner.String() + ")" }

// c06CancelExec runs one case; totals (calls of the uncancelled run) are needed for the tail mode.
func c06CancelExec(a vh.Args, c *c06CancelCase, totals map[string]int) (idx desync.Index, dir string, produced *desync.Index, err error) {
	desync.Digest = desync.SHA512256{}
	in := bkInput{Blob: vh.UnHex(c.BlobHex), Sizes: c.Sizes}
	work := filepath.Join(a.Work, "c06c")
	os.RemoveAll(work)
	if err = os.MkdirAll(work, 0755); err != nil {
		return
	}
	ctx, cancel := context.WithCancel(context.Background())
	defer cancel()
	var fired int32
	doCancel := func() { atomic.StoreInt32(&fired, 1); cancel() }
	var hooks, sums int64
	desync.VerifSetYieldHook(func(site string) {
		if atomic.AddInt64(&hooks, 1) == int64(c.Cancel.K) && c.Cancel.Mode == "hook" {
			doCancel()
		}
	})
	defer desync.VerifSetYieldHook(nil)
	at := int64(-1)
	if c.Cancel.Mode == "digest" {
		at = int64(c.Cancel.K)
	}
	pb := desync.NullProgressBar{}
	var target desync.LocalStore
	target, dir, err = bkNewStore(work, "target")
	if err != nil {
		return
	}
	mk := func(inner desync.WriteStore) *cancelStore {
		s := &cancelStore{inner: inner, cc: c.Cancel, cancel: doCancel, calls: map[string]int{}, gate: make(chan struct{})}
		if c.CtxBound {
			s.ctx = ctx
		}
		if c.Cancel.Mode == "tail" {
			s.tailN = c.N
			if t := totals[c.Cancel.Kind]; t < s.tailN {
				s.tailN = t
			}
			s.tailFrom = totals[c.Cancel.Kind] - s.tailN
		}
		return s
	}
	ws := mk(target)
	stores := []*cancelStore{ws}
	var opErr error
	if c.Cancel.Mode == "before" {
		doCancel()
	}
	// the digest wrapper is installed only around the operation itself
	withDigest := func(f func()) {
		old := desync.Digest
		desync.Digest = cancelDigest{old, &sums, at, doCancel}
		defer func() { desync.Digest = old }()
		f()
	}
	done := make(chan struct{})
	go func() {
		defer close(done)
		switch c.Op {
		case "chop":
			idx = in.index()
			name := filepath.Join(work, "file")
			os.WriteFile(name, in.Blob, 0644)
			withDigest(func() { opErr = desync.ChopFile(ctx, name, idx.Chunks, ws, c.N, pb) })
		case "copy":
			idx = in.index()
			src, _, e := bkNewStore(work, "src")
			if e != nil {
				opErr = e
				return
			}
			ids := make([]desync.ChunkID, len(idx.Chunks))
			for i, ch := range in.chunks() {
				ids[i] = idx.Chunks[i].ID
				src.StoreChunk(desync.NewChunk(ch))
			}
			ss := mk(src)
			stores = append(stores, ss)
			withDigest(func() { opErr = desync.Copy(ctx, ids, ss, ws, c.N, pb) })
		case "chunkstream":
			idx, _ = c06SeqIndex(in.Blob, c.Min, c.Avg, c.Max)
			ch, e := desync.NewChunker(bytes.NewReader(in.Blob), c.Min, c.Avg, c.Max)
			if e != nil {
				opErr = e
				return
			}
			var got desync.Index
			withDigest(func() { got, opErr = desync.ChunkStream(ctx, ch, ws, c.N) })
			produced = &got
		case "indexfromfile", "make":
			name := filepath.Join(work, "file")
			os.WriteFile(name, in.Blob, 0644)
			var got desync.Index
			withDigest(func() {
				got, _, opErr = desync.IndexFromFile(ctx, name, c.N, c.Min, c.Avg, c.Max, pb)
				if opErr == nil && c.Op == "make" {
					opErr = desync.ChopFile(ctx, name, got.Chunks, ws, c.N, pb)
				}
			})
			produced = &got
			idx = got
		default:
			opErr = fmt.Errorf("unknown op %q", c.Op)
		}
	}()
	select {
	case <-done:
	case <-time.After(30 * time.Second):
		c.Got = "hang"
		return
	}
	c.Got = bkErrClass(opErr)
	if opErr != nil {
		c.Detail = opErr.Error()
	}
	c.Fired = atomic.LoadInt32(&fired) == 1
	c.Hooks, c.Sums = int(hooks), int(sums)
	c.Calls = map[string]int{}
	for _, s := range stores {
		s.mu.Lock()
		for k, v := range s.calls {
			c.Calls[k] += v
		}
		s.mu.Unlock()
	}
	return
}

func c06CancelCheck(a vh.Args, r *vh.Result, c *c06CancelCase, totals map[string]int) error {
	idx, dir, produced, err := c06CancelExec(a, c, totals)
	if err != nil {
		return err
	}
	in := bkInput{Blob: vh.UnHex(c.BlobHex), Sizes: c.Sizes}
	key := fmt.Sprintf("cancel|%s|%d|%d|%s|%v", c.Op, c.N, len(in.Blob), c.Cancel.tag(), c.CtxBound)
	if c.CtxBound {
		r.Dist("cancel-store:context-bound")
	}
	r.Count(key, c.Fired)
	r.Dist("cancel-op:" + c.Op)
	r.Dist("cancel-mode:" + c.Cancel.Mode)
	r.Dist("cancel-result:" + c.Op + "/" + c.Got)
	switch c.Got {
	case "hang":
		r.Fail("predicate", c.Op+"/hang-after-cancel", fmt.Sprintf("%s (n=%d) did not return within 30s after cancellation %s", c.Op, c.N, c.Cancel.tag()), c)
	case "nil":
		var d string
		if produced != nil {
			if x := bkIndexDescribes(*produced, in.Blob); x != "" {
				d = "index: " + x
			}
		}
		if d == "" && c.Op != "indexfromfile" {
			if produced != nil {
				idx = *produced
			}
			d = bkReadBack(dir, idx, in.Blob)
		}
		if d != "" {
			c.Detail = d
			r.Fail("predicate", c.Op+"/nil-after-cancel-but-incomplete", fmt.Sprintf("%s (n=%d) returned nil although the context was cancelled (%s%s) and the result is incomplete: %s", c.Op, c.N, c.Cancel.tag(), map[bool]string{true: ", context-bound stores", false: ""}[c.CtxBound], d), c)
		}
	}
	return nil
}

func c06Cancels(a vh.Args, r *vh.Result, rng *vh.Rand) error {
	thorough := a.Tier == "thorough"
	inputs := 1
	limit := 10
	if thorough {
		inputs = 4
		limit = 60
	}
	ns := []int{1, 2, 4, 8}
	for _, op := range []string{"copy", "chop", "chunkstream", "indexfromfile", "make"} {
		for ii := 0; ii < inputs; ii++ {
			c0 := c06CancelCase{Op: op, Level: "library-cancel"}
			if op == "copy" || op == "chop" {
				nch := 10 + rng.Intn(16)
				in := bkDupInput(rng, nch, nch-nch/4, 40)
				c0.BlobHex, c0.Sizes = vh.Hex(in.Blob), in.Sizes
			} else {
				c0.BlobHex = vh.Hex(rng.Bytes(3000 + rng.Intn(5000)))
				c0.Min, c0.Avg, c0.Max = 64, 128, 512
			}
			for _, n := range ns {
				base := c0
				base.N, base.Cancel = n, c06Cancel{Mode: "never"}
				if err := c06CancelCheck(a, r, &base, nil); err != nil {
					return err
				}
				if base.Got != "nil" {
					r.Fail("predicate", op+"/error-without-failure", fmt.Sprintf("%s (n=%d) returned %s (%s) without cancellation or failure", op, n, base.Got, base.Detail), &base)
					continue
				}
				var cs []c06Cancel
				cs = append(cs, c06Cancel{Mode: "before"})
				for _, k := range pickKs1(rng, base.Hooks, limit) {
					cs = append(cs, c06Cancel{Mode: "hook", K: k})
				}
				for _, kind := range []string{"has", "store", "get"} {
					if base.Calls[kind] == 0 {
						continue
					}
					for _, k := range pickKs1(rng, base.Calls[kind], limit/2) {
						cs = append(cs, c06Cancel{Mode: "call", Kind: kind, K: k, After: rng.Bool()})
					}
					// the last call of each kind, cancelled right after it returned and right before it
					cs = append(cs, c06Cancel{Mode: "call", Kind: kind, K: base.Calls[kind], After: true},
						c06Cancel{Mode: "call", Kind: kind, K: base.Calls[kind], After: false})
					for rep := 0; rep < 2; rep++ {
						cs = append(cs, c06Cancel{Mode: "tail", Kind: kind})
					}
				}
				for _, k := range pickKs1(rng, base.Sums, limit/2) {
					cs = append(cs, c06Cancel{Mode: "digest", K: k})
				}
				for _, cc := range cs {
					c := c0
					c.N, c.Cancel = n, cc
					if err := c06CancelCheck(a, r, &c, base.Calls); err != nil {
						return err
					}
					// the same point with context-bound stores (in-flight and later requests fail after the cancel)
					if op != "indexfromfile" && (cc.Mode == "tail" || (cc.Mode == "call" && !cc.After && rng.Chance(1, 2))) {
						cb := c0
						cb.N, cb.Cancel, cb.CtxBound = n, cc, true
						if err := c06CancelCheck(a, r, &cb, base.Calls); err != nil {
							return err
						}
					}
				}
			}
		}
	}
	return nil
}
