package main

// C14 (l) upfail: HEAD / GET / PUT through the HTTP chunk server while the upstream store's
// HasChunk / GetChunk / StoreChunk answers "present", "missing" or FAILS (a fault oracle per call).
// Truth table, judged on the server's answers and on what the RemoteHTTP client reports:
//   present -> 200 / true / data;  missing -> 404 / false / ChunkMissing;
//   failure -> never 404 and never 200, the client sees an error (not false, not missing, not nil).
// Upstreams: a fault-injecting wrapper around a LocalStore, and a FailoverGroup of two
// RemoteHTTP stores whose origin answers 200 / 404 / 503 / resets the connection.

import (
	"fmt"
	"net/http"
	"net/http/httptest"
	"net/url"
	"os"
	"path/filepath"
	"strconv"
	"strings"
	"sync"
	"time"

	"github.com/folbricht/desync"

	"vh/internal/vh"
)

type c14FaultStore struct {
	desync.LocalStore
	mu   *sync.Mutex
	mode *string // ok | missing | fail
}

func (s c14FaultStore) m() string { s.mu.Lock(); defer s.mu.Unlock(); return *s.mode }

func (s c14FaultStore) GetChunk(id desync.ChunkID) (*desync.Chunk, error) {
	switch s.m() {
	case "fail":
		return nil, fmt.Errorf("injected upstream failure")
	case "missing":
		return nil, desync.ChunkMissing{ID: id}
	}
	return s.LocalStore.GetChunk(id)
}
func (s c14FaultStore) HasChunk(id desync.ChunkID) (bool, error) {
	switch s.m() {
	case "fail":
		return false, fmt.Errorf("injected upstream failure")
	case "missing":
		return false, nil
	}
	return s.LocalStore.HasChunk(id)
}
func (s c14FaultStore) StoreChunk(ch *desync.Chunk) error {
	if s.m() == "fail" {
		return fmt.Errorf("injected upstream failure")
	}
	return s.LocalStore.StoreChunk(ch)
}

type c14CodeRec struct {
	h     http.Handler
	mu    sync.Mutex
	codes []int
}

func (c *c14CodeRec) ServeHTTP(w http.ResponseWriter, r *http.Request) {
	rec := &c14StatusRec{ResponseWriter: w, code: 200}
	c.h.ServeHTTP(rec, r)
	c.mu.Lock()
	c.codes = append(c.codes, rec.code)
	c.mu.Unlock()
}
func (c *c14CodeRec) take() []int {
	c.mu.Lock()
	defer c.mu.Unlock()
	out := c.codes
	c.codes = nil
	return out
}

func c14UpFail(a vh.Args, o *vh.Oracle, r *vh.Result, rng *vh.Rand) error {
	dir := filepath.Join(a.Work, "upfail")
	os.MkdirAll(dir, 0755)
	ls, err := desync.NewLocalStore(dir, desync.StoreOptions{})
	if err != nil {
		return err
	}
	data := rng.Bytes(500)
	id := c15ID(data)
	if err := ls.StoreChunk(desync.NewChunk(data)); err != nil {
		return err
	}
	// (1) fault-injecting local upstream
	var mu sync.Mutex
	mode := "ok"
	fs := c14FaultStore{ls, &mu, &mode}
	for _, comp := range []bool{true, false} {
		var conv desync.Converters
		if comp {
			conv = desync.Converters{desync.Compressor{}}
		}
		rec := &c14CodeRec{h: desync.NewHTTPHandler(fs, true, false, conv, "")}
		srv := httptest.NewServer(rec)
		u, _ := url.Parse(srv.URL)
		for _, budget := range []int{1, 2} {
			cli, err := desync.NewRemoteHTTPStore(u, desync.StoreOptions{Uncompressed: !comp, ErrorRetry: budget, ErrorRetryBaseInterval: 200 * time.Microsecond, Timeout: 5 * time.Second})
			if err != nil {
				srv.Close()
				return err
			}
			for _, m := range []string{"ok", "missing", "fail"} {
				for _, op := range []string{"head", "get", "put"} {
					if op == "put" && m == "missing" {
						continue
					}
					mu.Lock()
					mode = m
					mu.Unlock()
					rec.take()
					got := c14UpOp(cli, op, id, data)
					if err := c14UpJudge(o, r, "fault-injecting store", comp, budget, op, m, got, rec.take()); err != nil {
						srv.Close()
						return err
					}
				}
			}
		}
		srv.Close()
	}
	mu.Lock()
	mode = "ok"
	mu.Unlock()
	// (2) chunk server -> FailoverGroup -> two RemoteHTTP stores -> one scripted origin
	origin, err := c14NewScriptSrv()
	if err != nil {
		return err
	}
	defer origin.ln.Close()
	ou, _ := url.Parse("http://" + origin.ln.Addr().String() + "/")
	ra, err := desync.NewRemoteHTTPStore(ou, desync.StoreOptions{ErrorRetry: 1, ErrorRetryBaseInterval: 200 * time.Microsecond, Timeout: 5 * time.Second})
	if err != nil {
		return err
	}
	ou2, _ := url.Parse("http://" + origin.ln.Addr().String() + "/")
	rb, err := desync.NewRemoteHTTPStore(ou2, desync.StoreOptions{ErrorRetry: 1, ErrorRetryBaseInterval: 200 * time.Microsecond, Timeout: 5 * time.Second})
	if err != nil {
		return err
	}
	rec := &c14CodeRec{h: desync.NewHTTPHandler(desync.NewFailoverGroup(ra, rb), false, true, desync.Converters{desync.Compressor{}}, "")}
	srv := httptest.NewServer(rec)
	defer srv.Close()
	u, _ := url.Parse(srv.URL)
	cli, err := desync.NewRemoteHTTPStore(u, desync.StoreOptions{ErrorRetry: 2, ErrorRetryBaseInterval: 200 * time.Microsecond, Timeout: 5 * time.Second})
	if err != nil {
		return err
	}
	for _, tok := range []string{"200", "404", "503", "500", "reset"} {
		script := make([]string, 40)
		for i := range script {
			script[i] = tok
		}
		m := map[string]string{"200": "ok", "404": "missing"}[tok]
		if m == "" {
			m = "fail"
		}
		for _, op := range []string{"head", "get"} {
			origin.set(script, map[string][]byte{"200": c15Compress(data)})
			rec.take()
			got := c14UpOp(cli, op, id, data)
			if err := c14UpJudge(o, r, "failover group of two remote stores, origin answers "+tok, true, 2, op, m, got, rec.take()); err != nil {
				return err
			}
		}
	}
	return nil
}

func c14UpOp(cli *desync.RemoteHTTP, op string, id desync.ChunkID, data []byte) string {
	switch op {
	case "head":
		ok, err := cli.HasChunk(id)
		if err != nil {
			return "error"
		}
		return map[bool]string{true: "true", false: "false"}[ok]
	case "get":
		ch, err := cli.GetChunk(id)
		g := c14ChunkClass(ch, err)
		if strings.HasPrefix(g, "data:") {
			if g == "data:"+vh.Hex(data) {
				return "data"
			}
			return "wrong-data"
		}
		return g
	default:
		if err := cli.StoreChunk(desync.NewChunk(data)); err != nil {
			return "error"
		}
		return "ok"
	}
}

func c14UpJudge(o *vh.Oracle, r *vh.Result, upstream string, comp bool, budget int, op, mode, got string, codes []int) error {
	c := &c14Case{Part: "upfail", Op: op, Level: upstream, SrvComp: comp, Budget: budget, Want: mode, Got: got, Attempts: len(codes)}
	for _, cd := range codes {
		c.Script = append(c.Script, strconv.Itoa(cd))
	}
	r.Count(fmt.Sprintf("upfail|%s|%v|%d|%s|%s", upstream, comp, budget, op, mode), true)
	r.Dist("part:upfail")
	r.Dist("upfail:" + op + "/" + mode + "->" + got)
	r.Sample(map[string]interface{}{"part": "upfail", "upstream": upstream, "op": op, "upstream_answer": mode, "server_codes": codes, "client": got})
	what := fmt.Sprintf("chunk server (compressed=%v) over %s, upstream %s for %s: server answered %v, client (error-retry %d) reports %s", comp, upstream, map[string]string{"ok": "has the chunk", "missing": "says missing", "fail": "FAILS"}[mode], strings.ToUpper(op), codes, budget, got)
	has := func(code int) bool {
		for _, cd := range codes {
			if cd == code {
				return true
			}
		}
		return false
	}
	want := map[string]map[string]string{
		"head": {"ok": "true", "missing": "false", "fail": "error"},
		"get":  {"ok": "data", "missing": "missing", "fail": "error"},
		"put":  {"ok": "ok", "fail": "error"},
	}[op][mode]
	switch {
	case mode == "fail" && (has(404) || got == "false" || got == "missing"):
		r.Fail("predicate", "upfail/failure-reported-missing", what+": an upstream failure was reported as missing", c)
	case mode == "fail" && (has(200) || got == "true" || got == "data" || got == "ok" || got == "wrong-data"):
		r.Fail("predicate", "upfail/failure-reported-success", what+": an upstream failure was reported as success", c)
	case mode == "missing" && got != want:
		r.Fail("predicate", "upfail/missing-not-missing", what, c)
	case mode == "ok" && got != want:
		r.Fail("predicate", "upfail/present-not-delivered", what, c)
	}
	max := budget
	if max < 1 {
		max = 1
	}
	if len(codes) > max {
		r.Fail("predicate", "upfail/attempts", what+": more requests than max(1, error-retry)", c)
	}
	if o != nil && !(op == "get" && mode == "ok") && !(op == "put" && mode == "ok") {
		ans, err := o.Call("c14.upstream", op, strconv.Itoa(budget), map[string]string{"ok": "yes", "missing": "no", "fail": "fail"}[mode])
		if err != nil {
			return err
		}
		r.Corr()
		c.Model = ans
		if ans != fmt.Sprintf("%s %d", got, len(codes)) {
			r.Fail("corr", "corr:C14/upfail", what+": model "+ans, c)
		}
	}
	return nil
}
