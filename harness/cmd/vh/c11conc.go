package main

import "vh/internal/vh"

func c11Concurrent(a vh.Args, o *vh.Oracle, r *vh.Result, rng *vh.Rand) error { return nil }
func c11ReplayConc(a vh.Args, o *vh.Oracle, r *vh.Result) error             { return nil }
