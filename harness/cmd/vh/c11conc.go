package main

// C11, concurrent cases: FailoverGroup and SwapStore under controlled interleavings.
//
// A small cooperative scheduler (gSched) lets exactly one goroutine advance at a time.  Goroutines park
//   * at the verif yield hooks ("failover.get", "failover.has": between current() and the member call;
//     "swap.lock": before Swap takes the write lock), and
//   * at the entry of every member-store call (c11World.onCall), i.e. while a request holds SwapStore's read lock.
// A goroutine that blocks in a sync.RWMutex is recognised by its runtime state and left alone until the lock
// holder lets it through.  The next goroutine to resume is drawn from the case's PRNG, so a case replays.
// Only the property predicates are evaluated here (the all-schedule theorems are C11_failover_progress and
// C11_swap_safe):
//   failover: with one member that never fails no request fails; at most len(stores) member calls per request,
//             on pairwise distinct members; the answer is the last called member's answer (missing stays missing);
//   swap:     no call reaches a closed member store; all calls of one request go to one generation of the store;
//             no request fails or returns another generation's data than the one it called.

import (
	"fmt"
	"runtime"
	"strconv"
	"strings"
	"sync"
	"sync/atomic"
	"time"

	"github.com/folbricht/desync"

	"vh/internal/vh"
)

// ---------- cooperative scheduler ----------

const (
	gRunning = iota
	gParked
	gFinished
)

type gThread struct {
	id     int
	gid    string
	resume chan struct{}
	state  int
	site   string
	ready  chan struct{}
}

type gSched struct {
	mu      sync.Mutex
	threads []*gThread
	byGid   map[string]*gThread
	wake    chan struct{}
	free    bool  // let everything run (after a failure)
	Steps   int64 // atomic
	Trace   []string
}

func newGSched() *gSched {
	return &gSched{byGid: map[string]*gThread{}, wake: make(chan struct{}, 1024)}
}

func (s *gSched) notify() {
	select {
	case s.wake <- struct{}{}:
	default:
	}
}

// park is called from hooks; goroutines the scheduler does not manage pass through.
func (s *gSched) park(site string) {
	gid := c12GoroutineID()
	s.mu.Lock()
	t := s.byGid[gid]
	if t == nil || s.free {
		s.mu.Unlock()
		return
	}
	t.state, t.site = gParked, site
	s.mu.Unlock()
	s.notify()
	<-t.resume
}

// spawn starts fn as a managed goroutine, parked at "start".
func (s *gSched) spawn(fn func()) *gThread {
	t := &gThread{id: len(s.threads), resume: make(chan struct{}), ready: make(chan struct{})}
	s.threads = append(s.threads, t)
	go func() {
		t.gid = c12GoroutineID()
		s.mu.Lock()
		s.byGid[t.gid] = t
		s.mu.Unlock()
		close(t.ready)
		s.park("start")
		defer func() {
			s.mu.Lock()
			t.state = gFinished
			s.mu.Unlock()
			s.notify()
		}()
		fn()
	}()
	<-t.ready
	return t
}

func gBlockedOnLock(dump, gid string) bool {
	k := strings.Index(dump, "goroutine "+gid+" [")
	if k < 0 {
		return false
	}
	rest := dump[k+len("goroutine "+gid+" ["):]
	// "semacquire" alone is NOT a lock wait: a goroutine inside runtime.Stack waits that way for the world to restart
	return strings.HasPrefix(rest, "sync.RWMutex") || strings.HasPrefix(rest, "sync.Mutex")
}

// quiesce waits until no managed goroutine is running: each is parked, finished, or blocked on a lock.
var gLastDump string

func (s *gSched) quiesce() (parked []*gThread, blocked int, unfinished int, ok bool) {
	deadline := time.Now().Add(20 * time.Second)
	for spin := 0; ; spin++ {
		s.mu.Lock()
		running := []*gThread{}
		parked = parked[:0]
		unfinished = 0
		for _, t := range s.threads {
			switch t.state {
			case gRunning:
				running = append(running, t)
				unfinished++
			case gParked:
				parked = append(parked, t)
				unfinished++
			}
		}
		s.mu.Unlock()
		if len(running) == 0 {
			return parked, 0, unfinished, true
		}
		if spin > 20 {
			buf := make([]byte, 1<<17)
			dump := string(buf[:runtime.Stack(buf, true)])
			gLastDump = dump
			blocked = 0
			for _, t := range running {
				if gBlockedOnLock(dump, t.gid) {
					blocked++
				}
			}
			if blocked == len(running) {
				// confirm with a second look a moment later that nothing moved meanwhile
				time.Sleep(300 * time.Microsecond)
				buf2 := make([]byte, 1<<17)
				dump2 := string(buf2[:runtime.Stack(buf2, true)])
				s.mu.Lock()
				still := true
				for _, t := range running {
					if t.state != gRunning || !gBlockedOnLock(dump2, t.gid) {
						still = false
					}
				}
				s.mu.Unlock()
				if still {
					return parked, blocked, unfinished, true
				}
			}
		}
		if time.Now().After(deadline) {
			return parked, blocked, unfinished, false
		}
		if spin < 50 {
			runtime.Gosched()
		} else {
			select {
			case <-s.wake:
			case <-time.After(200 * time.Microsecond):
			}
		}
	}
}

// run drives the goroutines to completion; returns "" or a description of a deadlock / stall.
func (s *gSched) run(rng *vh.Rand, maxSteps int) string {
	for {
		parked, blocked, unfinished, ok := s.quiesce()
		if !ok {
			s.release()
			return "a goroutine neither parks, finishes nor blocks within 20 s"
		}
		if unfinished == 0 {
			return ""
		}
		if len(parked) == 0 {
			s.release()
			d := chainsFilterStacks(gLastDump)
			return fmt.Sprintf("deadlock: %d goroutines blocked on a lock, none can run\n%s", blocked, d)
		}
		if atomic.LoadInt64(&s.Steps) >= int64(maxSteps) {
			s.release()
			return "schedule too long"
		}
		t := parked[rng.Intn(len(parked))]
		atomic.AddInt64(&s.Steps, 1)
		if len(s.Trace) < 400 {
			s.Trace = append(s.Trace, fmt.Sprintf("%d@%s", t.id, t.site))
		}
		s.mu.Lock()
		t.state = gRunning
		s.mu.Unlock()
		t.resume <- struct{}{}
	}
}

// release lets every goroutine run free (used after a failure so that nothing leaks parked).
func (s *gSched) release() {
	s.mu.Lock()
	s.free = true
	var parked []*gThread
	for _, t := range s.threads {
		if t.state == gParked {
			t.state = gRunning
			parked = append(parked, t)
		}
	}
	s.mu.Unlock()
	for _, t := range parked {
		select {
		case t.resume <- struct{}{}:
		case <-time.After(100 * time.Millisecond):
		}
	}
	deadline := time.Now().Add(400 * time.Millisecond)
	for time.Now().Before(deadline) {
		s.mu.Lock()
		n := 0
		for _, t := range s.threads {
			if t.state != gFinished {
				n++
			}
		}
		s.mu.Unlock()
		if n == 0 {
			return
		}
		time.Sleep(time.Millisecond)
	}
}

// ---------- cases ----------

type c11ConcCase struct {
	Conc      string     `json:"conc"` // "failover" | "swap" | "swapw"
	Members   []string   `json:"members"`
	Shape     string     `json:"shape"`          // failover: F0[...]; swap: the first generation
	Gens      []string   `json:"gens,omitempty"` // swap: shapes installed by the successive Swap calls
	Threads   [][]string `json:"threads"`        // per goroutine: g<id> | h<id> ; swap: "w" = next Swap
	SchedSeed uint64     `json:"sched_seed"`
	Trace     string     `json:"schedule,omitempty"`
	Observed  []string   `json:"observed,omitempty"`
	stalled   bool
}

type c11Req struct {
	Thread int
	Op     string
	Calls  []int  // members called, in order
	Closed []bool // was the member closed at the call
	Result string
	Last   string // answer class of the last member call as the member gave it
	Start  int    // scheduler step in which the request began (its first current() runs in that same stretch)
}

// c11RunConc executes a concurrent case and returns the predicate failures.
func c11RunConc(c *c11ConcCase) (fails []c11PolicyFail, reqs []*c11Req, err error) {
	w, err := c11NewWorld(c.Members)
	if err != nil {
		return nil, nil, err
	}
	run := &c11Run{w: w, fresh: true}
	shape, err := c11ParseStack(c.Shape)
	if err != nil {
		return nil, nil, err
	}
	sched := newGSched()
	var mu sync.Mutex
	cur := map[string]*c11Req{} // goroutine -> request in progress
	w.onCall = func(m *c11Member, op byte, id int) {
		if op != 'x' {
			sched.park("member")
		} else if c.Conc == "swapw" {
			sched.park("close") // inside Swap, which holds the write lock while it closes the old store
		}
		gid := c12GoroutineID()
		mu.Lock()
		if r := cur[gid]; r != nil && op != 'x' {
			r.Calls = append(r.Calls, m.idx)
			w.mu.Lock()
			r.Closed = append(r.Closed, m.closed)
			w.mu.Unlock()
		}
		mu.Unlock()
	}
	desync.VerifSetYieldHook(func(site string) {
		if strings.HasPrefix(site, "failover.") || site == "swap.lock" {
			sched.park(site)
		}
	})
	defer desync.VerifSetYieldHook(nil)

	run.wrapLeaf = func(m *c11Member) desync.Store {
		return c11Rec{m, func(ans string) {
			gid := c12GoroutineID()
			mu.Lock()
			if r := cur[gid]; r != nil {
				r.Last = ans
			}
			mu.Unlock()
		}}
	}
	inner := run.build(shape)
	var top desync.Store = inner
	var swap *desync.SwapStore
	if c.Conc == "swap" {
		swap = desync.NewSwapStore(inner)
		top = swap
	}
	if c.Conc == "swapw" {
		ws := desync.NewSwapWriteStore(inner)
		swap = &ws.SwapStore
		top = ws
	}
	nextGen := 0
	var genMu sync.Mutex
	for ti, ops := range c.Threads {
		ti, ops := ti, ops
		sched.spawn(func() {
			gid := c12GoroutineID()
			for _, op := range ops {
				if op == "w" {
					genMu.Lock()
					g := nextGen
					nextGen++
					genMu.Unlock()
					if g >= len(c.Gens) {
						continue
					}
					sh, perr := c11ParseStack(c.Gens[g])
					if perr != nil {
						continue
					}
					func() {
						defer func() {
							if p := recover(); p != nil {
								mu.Lock()
								fails = append(fails, c11PolicyFail{"swap/panic", fmt.Sprintf("Swap of %s for %s panicked: %v", c.Shape, c.Gens[g], p)})
								mu.Unlock()
							}
						}()
						if e := swap.Swap(run.build(sh)); e != nil {
							mu.Lock()
							fails = append(fails, c11PolicyFail{"swap/swap-fails", fmt.Sprintf("Swap returned %v", e)})
							mu.Unlock()
						}
					}()
					continue
				}
				r := &c11Req{Thread: ti, Op: op, Start: int(atomic.LoadInt64(&sched.Steps))}
				mu.Lock()
				cur[gid] = r
				reqs = append(reqs, r)
				mu.Unlock()
				i, _ := strconv.Atoi(strings.SplitN(op[1:], ":", 2)[0])
				func() {
					defer func() {
						if p := recover(); p != nil {
							r.Result = fmt.Sprintf("PANIC(%v)", p)
						}
					}()
					if op[0] == 's' { // s<id>:<tag>
						tag, _ := strconv.Atoi(op[strings.Index(op, ":")+1:])
						e := top.(desync.WriteStore).StoreChunk(c11Chunk(i, tag))
						r.Result = "S:" + c11Class(e)
					} else if op[0] == 'g' {
						ch, e := top.GetChunk(c11ID(i))
						t := "_"
						if ch != nil {
							t = strconv.Itoa(c11Tag(ch))
						}
						r.Result = "G" + t + ":" + c11Class(e)
					} else {
						b, e := top.HasChunk(c11ID(i))
						r.Result = fmt.Sprintf("H%v:%s", b, c11Class(e))
					}
				}()
				mu.Lock()
				delete(cur, gid)
				mu.Unlock()
			}
		})
	}
	rng := vh.NewRand(c.SchedSeed)
	if msg := sched.run(rng, 5000); msg != "" {
		class := "chain/concurrent-stall"
		if strings.HasPrefix(msg, "deadlock") {
			// every goroutine that has not finished waits for a lock and nobody who could release it can run
			class = "failover/requests-stuck"
			if strings.HasPrefix(c.Conc, "swap") {
				class = "swap/request-and-swap-stuck"
			}
		}
		fails = append(fails, c11PolicyFail{class, msg})
		c.stalled = true
	}
	c.Trace = strings.Join(sched.Trace, " ")
	return fails, reqs, nil
}

// c11Rec reports every answer of a member to the request in progress.
type c11Rec struct {
	m   *c11Member
	rec func(ans string)
}

func (c c11Rec) GetChunk(id desync.ChunkID) (*desync.Chunk, error) {
	ch, err := c.m.GetChunk(id)
	t := "_"
	if ch != nil {
		t = strconv.Itoa(c11Tag(ch))
	}
	c.rec("G" + t + ":" + c11Class(err))
	return ch, err
}
func (c c11Rec) HasChunk(id desync.ChunkID) (bool, error) {
	b, err := c.m.HasChunk(id)
	c.rec(fmt.Sprintf("H%v:%s", b, c11Class(err)))
	return b, err
}
func (c c11Rec) StoreChunk(ch *desync.Chunk) error { return c.m.StoreChunk(ch) }
func (c c11Rec) Close() error                      { return c.m.Close() }
func (c c11Rec) String() string                    { return c.m.String() }

// member k never fails a request for id i (GetChunk: a valid object or none; no injected fault ever)
func c11NeverFails(m *c11Member) bool {
	if m.faults != "" || m.dflt != 'n' {
		return false
	}
	for _, o := range m.content {
		if !o.Valid {
			return false
		}
	}
	return true
}

func c11ConcPredicate(c *c11ConcCase, w []*c11Member, reqs []*c11Req, shape *c11Node) (fails []c11PolicyFail) {
	bad := func(class, f string, a ...interface{}) {
		fails = append(fails, c11PolicyFail{class, fmt.Sprintf(f, a...)})
	}
	var returned []*c11Req
	for _, r := range reqs {
		if r.Result == "" {
			c.Observed = append(c.Observed, fmt.Sprintf("t%d %s calls=%v closed=%v -> (never returned)", r.Thread, r.Op, r.Calls, r.Closed))
		} else {
			returned = append(returned, r)
		}
	}
	reqs = returned // a request that never returned is reported by the stall classes
	for _, r := range reqs {
		c.Observed = append(c.Observed, fmt.Sprintf("t%d %s calls=%v closed=%v -> %s", r.Thread, r.Op, r.Calls, r.Closed, r.Result))
		if strings.HasPrefix(r.Result, "PANIC") {
			bad("chain/panic", "request %s of goroutine %d panicked: %s", r.Op, r.Thread, r.Result)
		}
	}
	switch c.Conc {
	case "failover":
		n := len(shape.Kids)
		healthy := false
		for _, k := range shape.Kids {
			if c11NeverFails(w[k.K]) {
				healthy = true
			}
		}
		// "ignore [a failure report] if i is not (no longer) the active store": once a request has been served by the
		// never-failing member h as its FIRST choice, h is the active member and nothing can move the group off it:
		// every request that starts later asks h and only h (C11_failover_active_settles, ..._stale_report_ignored)
		if healthy {
			h, settled := -1, -1
			for _, k := range shape.Kids {
				if c11NeverFails(w[k.K]) && h < 0 {
					h = k.K
				}
			}
			for _, r := range reqs {
				if len(r.Calls) > 0 && r.Calls[0] == h && (settled < 0 || r.Start < settled) {
					settled = r.Start
				}
			}
			for _, r := range reqs {
				if settled >= 0 && r.Start > settled && !(len(r.Calls) == 1 && r.Calls[0] == h) {
					bad("failover/active-leaves-healthy-member", "the group had settled on member %d, which never fails (a request was served by it as its first choice in step %d); request %s of goroutine %d, started in step %d, called members %v: a stale failure report moved the active index", h, settled, r.Op, r.Thread, r.Start, r.Calls)
					break
				}
			}
		}
		for _, r := range reqs {
			cls := r.Result[strings.LastIndex(r.Result, ":")+1:]
			if len(r.Calls) == 0 || len(r.Calls) > n {
				bad("failover/attempts", "request %s of goroutine %d made %d member calls (group of %d)", r.Op, r.Thread, len(r.Calls), n)
			}
			// the group hands back what the last member it consulted said (a ChunkMissing stays a ChunkMissing)
			if r.Last != "" && r.Last != r.Result {
				if strings.HasSuffix(r.Last, ":m") {
					bad("failover/masks-missing", "request %s of goroutine %d: the last consulted member answered %s, the group %s", r.Op, r.Thread, r.Last, r.Result)
				} else {
					bad("failover/result", "request %s of goroutine %d: the last consulted member answered %s, the group %s", r.Op, r.Thread, r.Last, r.Result)
				}
			}
			if healthy {
				if !(cls == "n" || (r.Op[0] == 'g' && cls == "m")) {
					bad("failover/fails-with-healthy-member", "request %s of goroutine %d failed (%s) after calling members %v although one member never fails", r.Op, r.Thread, r.Result, r.Calls)
				}
				seen := map[int]bool{}
				for _, m := range r.Calls {
					if seen[m] {
						bad("failover/repeats-member", "request %s of goroutine %d called member %d twice (%v)", r.Op, r.Thread, m, r.Calls)
					}
					seen[m] = true
				}
			}
		}
	case "swap", "swapw":
		// generation of every member
		gen := map[int]int{}
		shapes := append([]string{c.Shape}, c.Gens...)
		for g, s := range shapes {
			n, err := c11ParseStack(s)
			if err != nil {
				continue
			}
			var ls []int
			n.leaves(&ls)
			for _, l := range ls {
				gen[l] = g
			}
		}
		for _, r := range reqs {
			for k, cl := range r.Closed {
				if cl {
					bad("swap/call-on-closed-store", "request %s of goroutine %d called member %d after it had been closed", r.Op, r.Thread, r.Calls[k])
				}
			}
			for k := 1; k < len(r.Calls); k++ {
				if gen[r.Calls[k]] != gen[r.Calls[0]] {
					bad("swap/request-spans-generations", "request %s of goroutine %d called members %v of different store generations", r.Op, r.Thread, r.Calls)
				}
			}
			cls := r.Result[strings.LastIndex(r.Result, ":")+1:]
			faulty := false
			for _, m := range w {
				if m.faults != "" || m.dflt != 'n' {
					faulty = true // the case injects member failures on purpose (requests that fail while Swap runs)
				}
			}
			if cls != "n" && cls != "m" && !faulty {
				bad("swap/request-fails", "request %s of goroutine %d failed under Swap: %s", r.Op, r.Thread, r.Result)
			}
			if r.Op[0] == 'g' && cls == "n" && len(r.Calls) > 0 && !strings.HasPrefix(r.Result, "G5") {
				// (copies 5xxx are the ones written by the case's own StoreChunk callers)
				// the data must come from the generation that was called: members of generation g hold tags g*100+id
				tag, _ := strconv.Atoi(r.Result[1:strings.Index(r.Result, ":")])
				if tag/100 != gen[r.Calls[0]] {
					bad("swap/wrong-generation-data", "request %s of goroutine %d returned copy %d but called generation %d", r.Op, r.Thread, tag, gen[r.Calls[0]])
				}
			}
		}
		// an acknowledged write is in the store that was current when it returned: the same goroutine reads it back at
		// once; if no swap came in between (same generation called) the chunk just stored must be there
		last := map[int]*c11Req{}
		for _, r := range reqs {
			if p := last[r.Thread]; p != nil && p.Op[0] == 's' && p.Result == "S:n" && r.Op[0] == 'g' &&
				len(p.Calls) == 1 && len(r.Calls) == 1 && gen[p.Calls[0]] == gen[r.Calls[0]] && !p.Closed[0] && !r.Closed[0] {
				tag := p.Op[strings.Index(p.Op, ":")+1:]
				if r.Op[1:] == strings.SplitN(p.Op[1:], ":", 2)[0] && r.Result != "G"+tag+":n" {
					bad("swap/acknowledged-write-lost", "goroutine %d: %s returned nil on generation %d, the read-back %s on the same generation returned %s", r.Thread, p.Op, gen[p.Calls[0]], r.Op, r.Result)
				}
			}
			if r.Op[0] == 's' && r.Result == "S:n" && len(r.Calls) != 1 {
				bad("swap/acknowledged-write-lost", "goroutine %d: %s returned nil but reached %d member stores", r.Thread, r.Op, len(r.Calls))
			}
			last[r.Thread] = r
		}
	}
	return fails
}

func c11CheckConc(r *vh.Result, c *c11ConcCase, record bool) (bool, error) {
	c.Observed = nil
	fails, reqs, err := c11RunConc(c)
	if err != nil {
		return false, err
	}
	w, _ := c11NewWorld(c.Members)
	shape, _ := c11ParseStack(c.Shape)
	fails = append(fails, c11ConcPredicate(c, w.members, reqs, shape)...)
	if record {
		for _, f := range fails {
			r.Fail("predicate", f.Class, f.What+fmt.Sprintf(" (%s %s, schedule seed %d)", c.Conc, c.Shape, c.SchedSeed), c)
		}
	}
	return len(fails) > 0, nil
}

func c11GenFailoverCase(rng *vh.Rand) *c11ConcCase {
	n := rng.Range(2, 4)
	c := &c11ConcCase{Conc: "failover", SchedSeed: rng.U64()}
	healthy := rng.Intn(n)
	if rng.Chance(1, 6) {
		healthy = -1
	}
	var kids []string
	for k := 0; k < n; k++ {
		var content []string
		for i := 0; i < 3; i++ {
			if rng.Chance(2, 3) {
				content = append(content, fmt.Sprintf("%d:%d:1", i, k*10+i))
			}
		}
		spec := joinOr(content, ",") + "/_/n"
		if k != healthy {
			switch rng.Intn(4) {
			case 0:
				spec = joinOr(content, ",") + "/_/e"
			case 1:
				spec = joinOr(content, ",") + "/" + strings.Repeat("n", rng.Intn(4)) + "/e"
			case 2:
				b := make([]byte, rng.Range(3, 10))
				for j := range b {
					b[j] = "nee"[rng.Intn(3)]
				}
				spec = joinOr(content, ",") + "/" + string(b) + "/" + string("ne"[rng.Intn(2)])
			}
		}
		c.Members = append(c.Members, spec)
		kids = append(kids, fmt.Sprintf("L%d", k))
	}
	c.Shape = "F0[" + strings.Join(kids, ",") + "]"
	for t := rng.Range(2, 5); t > 0; t-- {
		var ops []string
		for k := rng.Range(1, 4); k > 0; k-- {
			ops = append(ops, fmt.Sprintf("%c%d", "ggh"[rng.Intn(3)], rng.Intn(3)))
		}
		c.Threads = append(c.Threads, ops)
	}
	return c
}

// c11GenFailoverLateCase: 3-5 members, all but the last one broken for good, several goroutines with several
// requests each: schedules in which a request sits in an early member while the others move the group on, and
// reports its failure late.
func c11GenFailoverLateCase(rng *vh.Rand) *c11ConcCase {
	n := rng.Range(3, 5)
	c := &c11ConcCase{Conc: "failover", SchedSeed: rng.U64()}
	var kids []string
	for k := 0; k < n; k++ {
		spec := "0:0:1,1:1:1/_/e"
		if k == n-1 {
			spec = fmt.Sprintf("0:%d:1,1:%d:1/_/n", k*10, k*10+1)
		}
		c.Members = append(c.Members, spec)
		kids = append(kids, fmt.Sprintf("L%d", k))
	}
	c.Shape = "F0[" + strings.Join(kids, ",") + "]"
	for t := rng.Range(3, 5); t > 0; t-- {
		var ops []string
		for k := rng.Range(2, 4); k > 0; k-- {
			ops = append(ops, fmt.Sprintf("%c%d", "ggh"[rng.Intn(3)], rng.Intn(2)))
		}
		c.Threads = append(c.Threads, ops)
	}
	return c
}

func c11GenSwapCase(rng *vh.Rand) *c11ConcCase {
	c := &c11ConcCase{Conc: "swap", SchedSeed: rng.U64()}
	ngen := rng.Range(2, 4)
	m := 0
	for g := 0; g < ngen; g++ {
		var kids []string
		for k := rng.Range(1, 2); k > 0; k-- {
			var content []string
			for i := 0; i < 3; i++ {
				// in a two-member router the first member lacks some chunks, so requests make two calls
				if len(kids) > 0 || k == 1 || rng.Chance(1, 2) {
					content = append(content, fmt.Sprintf("%d:%d:1", i, g*100+i))
				}
			}
			c.Members = append(c.Members, joinOr(content, ",")+"/_/n")
			kids = append(kids, fmt.Sprintf("L%d", m))
			m++
		}
		sh := "R[" + strings.Join(kids, ",") + "]"
		if g == 0 {
			c.Shape = sh
		} else {
			c.Gens = append(c.Gens, sh)
		}
	}
	swaps := ngen - 1
	for t := rng.Range(2, 4); t > 0; t-- {
		var ops []string
		for k := rng.Range(1, 3); k > 0; k-- {
			ops = append(ops, fmt.Sprintf("%c%d", "ggh"[rng.Intn(3)], rng.Intn(3)))
		}
		c.Threads = append(c.Threads, ops)
	}
	for swaps > 0 {
		k := 1
		if swaps > 1 && rng.Chance(1, 2) {
			k = 2
		}
		ops := make([]string, k)
		for j := range ops {
			ops[j] = "w"
		}
		c.Threads = append(c.Threads, ops)
		swaps -= k
	}
	return c
}

// c11GenSwapWCase: a SwapWriteStore over single writable member stores; writers (StoreChunk + read-back), readers
// and Swap calls; the scheduler also parks Swap inside the old store's Close, i.e. while it holds the write lock.
func c11GenSwapWCase(rng *vh.Rand) *c11ConcCase {
	c := &c11ConcCase{Conc: "swapw", SchedSeed: rng.U64()}
	ngen := rng.Range(2, 4)
	for g := 0; g < ngen; g++ {
		var content []string
		for i := 0; i < 3; i++ {
			content = append(content, fmt.Sprintf("%d:%d:1", i, g*100+i))
		}
		c.Members = append(c.Members, joinOr(content, ",")+"/_/n")
		if g == 0 {
			c.Shape = "L0"
		} else {
			c.Gens = append(c.Gens, fmt.Sprintf("L%d", g))
		}
	}
	for t := 0; t < rng.Range(1, 3); t++ { // writers, each on its own chunk id 3, 4, 5
		var ops []string
		for k := rng.Range(1, 3); k > 0; k-- {
			ops = append(ops, fmt.Sprintf("s%d:%d", 3+t, 5000+t*10+k), fmt.Sprintf("g%d", 3+t))
		}
		c.Threads = append(c.Threads, ops)
	}
	for t := rng.Range(0, 2); t > 0; t-- {
		var ops []string
		for k := rng.Range(1, 3); k > 0; k-- {
			ops = append(ops, fmt.Sprintf("%c%d", "ggh"[rng.Intn(3)], rng.Intn(3)))
		}
		c.Threads = append(c.Threads, ops)
	}
	for swaps := ngen - 1; swaps > 0; {
		k := 1
		if swaps > 1 && rng.Chance(1, 2) {
			k = 2
		}
		ops := make([]string, k)
		for j := range ops {
			ops[j] = "w"
		}
		c.Threads = append(c.Threads, ops)
		swaps -= k
	}
	return c
}

func c11Concurrent(a vh.Args, o *vh.Oracle, r *vh.Result, rng *vh.Rand) error {
	n := 400
	if a.Tier == "thorough" {
		n = 6000
	}
	// corpus: a FAILING request (missing chunk / failing member) sits inside the wrapped store while Swap is called
	// and is released afterwards; and a swap of a value-typed chain for another one of the same type
	stalls := 0
	corpus := []*c11ConcCase{
		{Conc: "swap", Members: []string{"0:0:1/_/n", "0:100:1/_/n"}, Shape: "R[L0]", Gens: []string{"R[L1]"}, Threads: [][]string{{"g2", "g0"}, {"w"}}},
		{Conc: "swap", Members: []string{"0:0:1/_/e", "0:100:1/_/n"}, Shape: "R[L0]", Gens: []string{"R[L1]"}, Threads: [][]string{{"h0", "g0"}, {"w"}, {"g0"}}},
		{Conc: "swapw", Members: []string{"0:0:1/_/n", "0:100:1/_/n"}, Shape: "L0", Gens: []string{"L1"}, Threads: [][]string{{"g4", "s3:5001", "g3"}, {"w"}}},
	}
	for _, c := range corpus {
		for s := 0; s < 6 && stalls < 2; s++ {
			c.SchedSeed = rng.U64()
			r.Running(c)
			if _, err := c11CheckConc(r, c, true); err != nil {
				return err
			}
			if c.stalled {
				stalls++
			}
			r.Count(fmt.Sprintf("conc-corpus|%s|%v|%d", c.Shape, c.Threads, c.SchedSeed), true)
			r.Dist("conc:corpus")
		}
	}
	for k := 0; k < n; k++ {
		if stalls >= 2 {
			r.Note("two concurrent cases ended with every goroutine stuck on a lock: the remaining scheduled cases are skipped")
			break
		}
		var c *c11ConcCase
		switch k % 3 {
		case 0:
			if k%2 == 0 {
				c = c11GenFailoverLateCase(rng)
			} else {
				c = c11GenFailoverCase(rng)
			}
		case 1:
			c = c11GenSwapCase(rng)
		default:
			c = c11GenSwapWCase(rng)
		}
		// several schedules per configuration
		for s := 0; s < 3; s++ {
			c.SchedSeed = rng.U64()
			r.Running(c)
			bad, err := c11CheckConc(r, c, true)
			if err != nil {
				return err
			}
			if c.stalled {
				stalls++
			}
			nth := 0
			for _, t := range c.Threads {
				nth += len(t)
			}
			r.Count(fmt.Sprintf("conc|%s|%s|%v|%d", c.Conc, c.Shape, c.Threads, c.SchedSeed), len(c.Threads) >= 2)
			r.Dist("conc:" + c.Conc)
			r.Dist(fmt.Sprintf("conc-goroutines:%d", len(c.Threads)))
			if k < 2 && s == 0 {
				r.Sample(map[string]interface{}{"conc": c.Conc, "shape": c.Shape, "gens": c.Gens, "threads": c.Threads, "schedule": c.Trace, "observed": c.Observed})
			}
			if bad {
				break
			}
		}
		if r.NFailures() >= 12 {
			break
		}
	}
	return nil
}

func c11ReplayConc(a vh.Args, o *vh.Oracle, r *vh.Result) error {
	var c c11ConcCase
	if err := readJSON(a.Replay, &c); err != nil {
		return err
	}
	if c.Conc == "failover-late-reports" {
		// truly parallel trials: the replay repeats them (many more than a quick run) with the recorded seed
		var p struct {
			Trials int    `json:"trials"`
			Seed   uint64 `json:"late_seed"`
		}
		readJSON(a.Replay, &p)
		c11FailoverLateReports(r, vh.NewRand(p.Seed+13), p.Trials, map[string]interface{}{"conc": "failover-late-reports", "trials": p.Trials, "late_seed": p.Seed})
		fmt.Printf("%d parallel late-report trials: %d failures\n", p.Trials, r.NFailures())
		return nil
	}
	_, err := c11CheckConc(r, &c, true)
	fmt.Printf("schedule: %s\n", c.Trace)
	for _, l := range c.Observed {
		fmt.Println(" ", l)
	}
	return err
}
