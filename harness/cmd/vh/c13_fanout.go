package main

// C13, directory fan-out at and above the powers of two: directories of 1023 / 1024 / 1025,
// 2047 / 2048 / 2049, 4096+ (thorough: 5000) EMPTY files packed from disk by the CLI and the
// library; the independent validator judges the archive (names strictly ascending over the WHOLE
// directory, goodbye table a complete search tree over all entries) and its listing is compared
// with the lstat snapshot.  Cheap: no payload, no extracted model (which costs ms per entry).

import (
	"bytes"
	"encoding/hex"
	"fmt"
	"os"
	"path/filepath"
	"sort"

	"vh/internal/vh"
)

func c13FanoutNodes(rng *vh.Rand, fans []int) []c13Node {
	nodes := []c13Node{{Type: "dir", Mode: 0755, Mtime: 1600000000 * 1e9}}
	for di, fan := range fans {
		dn := hex.EncodeToString([]byte(fmt.Sprintf("fan%d_%d", fan, di)))
		nodes = append(nodes, c13Node{Path: []string{dn}, Type: "dir", Mode: 0755, Mtime: 1600000000 * 1e9})
		used := map[string]bool{}
		for len(used) < fan {
			// short names in no particular order; a few longer and non-ASCII ones
			var name string
			switch rng.Intn(12) {
			case 0:
				name = string(c13Name(rng))
			default:
				name = fmt.Sprintf("%c%x", "abcxyzABC_-.~"[rng.Intn(13)], rng.U64()&0xffffff)
			}
			if used[name] || name == "." || name == ".." {
				continue
			}
			used[name] = true
			nodes = append(nodes, c13Node{Path: []string{dn, hex.EncodeToString([]byte(name))}, Type: "file", Mode: 0644, Mtime: 1600000000 * 1e9})
		}
	}
	return nodes
}

func c13CheckFanout(a vh.Args, r *vh.Result, c *c13Case, id int) error {
	work := filepath.Join(a.Work, fmt.Sprintf("fanout%d", id))
	if err := os.MkdirAll(work, 0755); err != nil {
		return err
	}
	defer os.RemoveAll(work)
	tree := filepath.Join(work, "tree")
	if err := c13Materialize(tree, c.Nodes); err != nil {
		return err
	}
	want, order, err := c13Snapshot(tree)
	if err != nil {
		return err
	}
	maxfan := 0
	for _, w := range want {
		if w.Kids > maxfan {
			maxfan = w.Kids
		}
		if w.Type == "dir" && w.Path != "" {
			r.Dist(fmt.Sprintf("fanout:%d", w.Kids))
		}
	}
	r.Count(fmt.Sprintf("fanout|%d|%d", len(c.Nodes), maxfan), true)
	catar := filepath.Join(work, "out.catar")
	rc, stderr := c13RunCLI("tar", catar, tree)
	if rc != 0 {
		r.Fail("predicate", "tar/cli-error", fmt.Sprintf("desync tar exits %d: %s", rc, c13Trunc(stderr)), c13Slim(c))
		return nil
	}
	cli, err := os.ReadFile(catar)
	if err != nil {
		return err
	}
	lib, err := c13LibTar(tree)
	if err != nil {
		r.Fail("predicate", "tar/lib-error", fmt.Sprintf("desync.Tar: %v", err), c13Slim(c))
		return nil
	}
	r.Corr()
	if !bytes.Equal(cli, lib) {
		r.Fail("corr", "corr:C13/cli-vs-library", fmt.Sprintf("`desync tar` and desync.Tar(NewLocalFS) wrote different archives (%d vs %d bytes)", len(cli), len(lib)), c13Slim(c))
	}
	out, _, err := c13Validate(catar)
	if err != nil {
		return err
	}
	if !out.OK && id > 0 {
		// shrink: the directories one at a time, smallest first; report the first that fails alone
		tops := map[string][]c13Node{}
		var names []string
		for _, n := range c.Nodes[1:] {
			if _, ok := tops[n.Path[0]]; !ok {
				names = append(names, n.Path[0])
			}
			tops[n.Path[0]] = append(tops[n.Path[0]], n)
		}
		sort.Slice(names, func(i, j int) bool { return len(tops[names[i]]) < len(tops[names[j]]) })
		if len(names) > 1 {
			before := r.NFailures()
			for _, nm := range names {
				sub := &c13Case{Kind: "fanout", Source: "disk", Nodes: append([]c13Node{c.Nodes[0]}, tops[nm]...)}
				if err := c13CheckFanout(a, r, sub, -id); err != nil {
					return err
				}
				if r.NFailures() > before {
					return nil
				}
			}
		}
	}
	c13Judge(r, c, out, want, order, fmt.Sprintf("disk source, directories of up to %d entries", maxfan))
	return nil
}

func c13RunFanouts(a vh.Args, r *vh.Result, rng *vh.Rand, thorough bool) error {
	sets := [][]int{{1023, 1024, 1025, 2049, 4097}}
	if thorough {
		sets = [][]int{{1023, 1024, 1025}, {2047, 2048, 2049}, {4095, 4096, 4097}, {5000, 3000 + rng.Intn(1000)}, {1026 + rng.Intn(900), 2050 + rng.Intn(1900)}}
	}
	for i, fans := range sets {
		c := &c13Case{Kind: "fanout", Source: "disk", Nodes: c13FanoutNodes(rng.Fork(), fans)}
		if err := c13CheckFanout(a, r, c, i+1); err != nil {
			return err
		}
	}
	return nil
}
