package main

import (
	"context"
	"fmt"
	"os"
	"path/filepath"
	"sync/atomic"

	"github.com/folbricht/desync"

	"vh/internal/vh"
)

// c17Cancel: "verify-index succeeds ONLY IF the file matches" must also hold when the context is
// cancelled while it runs (Model/VerifyIndex.v: nil only if every batch validated, for every
// cancellation point).  An altered file is verified while the context is cancelled
//   - before the call,
//   - when the k-th chunk digest is being computed (for every k),
//   - from the progress bar after T chunks were reported (for every T),
//   - at the m-th hand-over of a batch (yield hook),
// and a nil result is a violation.  An error (Interrupted or mismatch) is fine.

type c17CancelCase struct {
	BlobHex string `json:"blob_hex"`
	Sizes   []int  `json:"sizes"`
	N       int    `json:"n"`
	Flip    int    `json:"flipped_chunk"`
	Kind    string `json:"cancel_kind"` // before | digest | progress | feed
	At      int    `json:"cancel_at"`
	Got     string `json:"impl_result,omitempty"`
}

type c17CancelDigest struct {
	desync.SHA256
	n      *int64
	at     int64
	cancel context.CancelFunc
}

func (h c17CancelDigest) Sum(b []byte) [32]byte {
	if atomic.AddInt64(h.n, 1) == h.at {
		h.cancel()
	}
	return h.SHA256.Sum(b)
}

type c17CancelBar struct {
	desync.NullProgressBar
	sum    *int64
	at     int64
	cancel context.CancelFunc
}

func (p c17CancelBar) Add(n int) int {
	v := atomic.AddInt64(p.sum, int64(n))
	if v >= p.at {
		p.cancel()
	}
	return int(v)
}

func c17CancelOne(a vh.Args, r *vh.Result, c *c17CancelCase) error {
	desync.Digest = desync.SHA256{}
	defer func() { desync.Digest = desync.SHA256{} }()
	blob := vh.UnHex(c.BlobHex)
	idx := buildIndex(blob, c.Sizes)
	file := append([]byte{}, blob...)
	file[chunkStart(c.Sizes, c.Flip)] ^= 0x40
	name := filepath.Join(a.Work, "cancel.file")
	if err := os.WriteFile(name, file, 0644); err != nil {
		return err
	}
	ctx, cancel := context.WithCancel(context.Background())
	defer cancel()
	var pb desync.ProgressBar = desync.NullProgressBar{}
	var cnt int64
	switch c.Kind {
	case "before":
		cancel()
	case "digest":
		desync.Digest = c17CancelDigest{n: &cnt, at: int64(c.At), cancel: cancel}
	case "progress":
		pb = c17CancelBar{sum: &cnt, at: int64(c.At), cancel: cancel}
	case "feed":
		desync.VerifSetYieldHook(func(site string) {
			if site == "verifyindex.feed" && atomic.AddInt64(&cnt, 1) == int64(c.At) {
				cancel()
			}
		})
		defer desync.VerifSetYieldHook(nil)
	}
	err := desync.VerifyIndex(ctx, name, idx, c.N, pb)
	desync.Digest = desync.SHA256{}
	r.Count(fmt.Sprintf("cancel|%s|%d|%d|%d|%d", c.Kind, c.At, c.N, c.Flip, len(c.Sizes)), true)
	r.Dist("cancel:" + c.Kind)
	if err == nil {
		c.Got = "nil"
		r.Fail("predicate", "cancel/accepts-modified-file",
			fmt.Sprintf("VerifyIndex returned nil for a file with an altered byte in chunk %d of %d when the context was cancelled (%s at %d, n=%d)", c.Flip, len(c.Sizes), c.Kind, c.At, c.N), c)
	} else {
		r.Dist("cancel:result:" + map[bool]string{true: "interrupted", false: "mismatch"}[fmt.Sprint(err) == "interrupted"])
	}
	return nil
}

func c17Cancel(a vh.Args, r *vh.Result, rng *vh.Rand) error {
	rounds := 3
	if a.Tier == "thorough" {
		rounds = 40
	}
	for k := 0; k < rounds; k++ {
		nchunks := 12 + rng.Intn(30)
		blob := rng.Bytes(nchunks * 8)
		sizes := make([]int, nchunks)
		for i := range sizes {
			sizes[i] = 8
		}
		for _, n := range []int{1, 2, 1 + rng.Intn(8)} {
			// the altered byte in the last chunk (the tail of the last batch), in the first, and in a random one
			for _, flip := range []int{nchunks - 1, 0, rng.Intn(nchunks)} {
				mk := func(kind string, at int) *c17CancelCase {
					return &c17CancelCase{BlobHex: vh.Hex(blob), Sizes: sizes, N: n, Flip: flip, Kind: kind, At: at}
				}
				cases := []*c17CancelCase{mk("before", 0)}
				for at := 1; at <= nchunks; at++ {
					cases = append(cases, mk("digest", at), mk("progress", at))
				}
				for at := 1; at <= nchunks/(n*10)+nchunks+1 && at <= 2*nchunks; at += 1 + at/8 {
					cases = append(cases, mk("feed", at))
				}
				for _, c := range cases {
					reps := 1
					if c.Kind == "progress" {
						reps = 3 // the feeder's select between "cancelled" and "worker ready" is a coin toss
					}
					for i := 0; i < reps; i++ {
						if err := c17CancelOne(a, r, c); err != nil {
							return err
						}
					}
				}
			}
		}
	}
	return nil
}
