package main

import (
	"context"
	"fmt"
	"os"
	"path/filepath"
	"sync/atomic"
	"syscall"

	"github.com/folbricht/desync"

	"vh/internal/vh"
)

// c17Cancel: "verify-index succeeds ONLY IF the file matches" must also hold when the context is
// cancelled while it runs (Model/VerifyIndex.v: nil only if every batch validated, for every
// cancellation point).  An altered file is verified while the context is cancelled
//   - before the call,
//   - when the k-th chunk digest is being computed (for every k),
//   - from the progress bar after T chunks were reported (for every T),
//   - at the m-th hand-over of a batch (yield hook),
// and a nil result is a violation.  An error (Interrupted or mismatch) is fine.

type c17CancelCase struct {
	BlobHex string `json:"blob_hex"`
	Sizes   []int  `json:"sizes"`
	N       int    `json:"n"`
	Flip    int    `json:"flipped_chunk"`
	Kind    string `json:"cancel_kind"` // before | digest | progress | feed
	At      int    `json:"cancel_at"`
	Got     string `json:"impl_result,omitempty"`
}

type c17CancelDigest struct {
	desync.SHA256
	n      *int64
	at     int64
	cancel context.CancelFunc
}

func (h c17CancelDigest) Sum(b []byte) [32]byte {
	if atomic.AddInt64(h.n, 1) == h.at {
		h.cancel()
	}
	return h.SHA256.Sum(b)
}

type c17CancelBar struct {
	desync.NullProgressBar
	sum    *int64
	at     int64
	cancel context.CancelFunc
}

func (p c17CancelBar) Add(n int) int {
	v := atomic.AddInt64(p.sum, int64(n))
	if v >= p.at {
		p.cancel()
	}
	return int(v)
}

func c17CancelOne(a vh.Args, r *vh.Result, c *c17CancelCase) error {
	desync.Digest = desync.SHA256{}
	defer func() { desync.Digest = desync.SHA256{} }()
	blob := vh.UnHex(c.BlobHex)
	idx := buildIndex(blob, c.Sizes)
	file := append([]byte{}, blob...)
	file[chunkStart(c.Sizes, c.Flip)] ^= 0x40
	name := filepath.Join(a.Work, "cancel.file")
	if err := os.WriteFile(name, file, 0644); err != nil {
		return err
	}
	ctx, cancel := context.WithCancel(context.Background())
	defer cancel()
	var pb desync.ProgressBar = desync.NullProgressBar{}
	var cnt int64
	switch c.Kind {
	case "before":
		cancel()
	case "digest":
		desync.Digest = c17CancelDigest{n: &cnt, at: int64(c.At), cancel: cancel}
	case "progress":
		pb = c17CancelBar{sum: &cnt, at: int64(c.At), cancel: cancel}
	case "feed":
		desync.VerifSetYieldHook(func(site string) {
			if site == "verifyindex.feed" && atomic.AddInt64(&cnt, 1) == int64(c.At) {
				cancel()
			}
		})
		defer desync.VerifSetYieldHook(nil)
	}
	err := desync.VerifyIndex(ctx, name, idx, c.N, pb)
	desync.Digest = desync.SHA256{}
	r.Count(fmt.Sprintf("cancel|%s|%d|%d|%d|%d", c.Kind, c.At, c.N, c.Flip, len(c.Sizes)), true)
	r.Dist("cancel:" + c.Kind)
	if err == nil {
		c.Got = "nil"
		r.Fail("predicate", "cancel/accepts-modified-file",
			fmt.Sprintf("VerifyIndex returned nil for a file with an altered byte in chunk %d of %d when the context was cancelled (%s at %d, n=%d)", c.Flip, len(c.Sizes), c.Kind, c.At, c.N), c)
	} else {
		r.Dist("cancel:result:" + map[bool]string{true: "interrupted", false: "mismatch"}[fmt.Sprint(err) == "interrupted"])
	}
	return nil
}

func c17Cancel(a vh.Args, r *vh.Result, rng *vh.Rand) error {
	rounds := 3
	if a.Tier == "thorough" {
		rounds = 40
	}
	for k := 0; k < rounds; k++ {
		nchunks := 12 + rng.Intn(30)
		blob := rng.Bytes(nchunks * 8)
		sizes := make([]int, nchunks)
		for i := range sizes {
			sizes[i] = 8
		}
		for _, n := range []int{1, 2, 1 + rng.Intn(8)} {
			// the altered byte in the last chunk (the tail of the last batch), in the first, and in a random one
			for _, flip := range []int{nchunks - 1, 0, rng.Intn(nchunks)} {
				mk := func(kind string, at int) *c17CancelCase {
					return &c17CancelCase{BlobHex: vh.Hex(blob), Sizes: sizes, N: n, Flip: flip, Kind: kind, At: at}
				}
				cases := []*c17CancelCase{mk("before", 0)}
				for at := 1; at <= nchunks; at++ {
					cases = append(cases, mk("digest", at), mk("progress", at))
				}
				for at := 1; at <= nchunks/(n*10)+nchunks+1 && at <= 2*nchunks; at += 1 + at/8 {
					cases = append(cases, mk("feed", at))
				}
				for _, c := range cases {
					reps := 1
					if c.Kind == "progress" {
						reps = 3 // the feeder's select between "cancelled" and "worker ready" is a coin toss
					}
					for i := 0; i < reps; i++ {
						if err := c17CancelOne(a, r, c); err != nil {
							return err
						}
					}
				}
			}
		}
	}
	return nil
}

// c17Resource: VerifyIndex on an altered (and on an intact) file while no file handle can be
// opened (RLIMIT_NOFILE soft limit 0 around the call), on a missing file, and with the empty
// index against non-empty / missing files: it must not return nil unless the file matches.
func c17Resource(a vh.Args, r *vh.Result, rng *vh.Rand) error {
	desync.Digest = desync.SHA256{}
	name := filepath.Join(a.Work, "res.file")
	for _, nchunks := range []int{0, 1, 40} {
		blob := rng.Bytes(nchunks * 16)
		sizes := make([]int, nchunks)
		for i := range sizes {
			sizes[i] = 16
		}
		idx := buildIndex(blob, sizes)
		for _, n := range []int{1, 3, 64} {
			type variant struct {
				tag   string
				file  []byte
				exist bool
			}
			vars := []variant{{"missing", nil, false}}
			if nchunks > 0 {
				alt := append([]byte{}, blob...)
				alt[rng.Intn(len(alt))] ^= 0x10
				vars = append(vars, variant{"altered", alt, true})
			} else {
				vars = append(vars, variant{"nonempty-vs-empty-index", rng.Bytes(1 + rng.Intn(3000)), true})
			}
			for _, v := range vars {
				for _, nofd := range []bool{false, true} {
					os.Remove(name)
					if v.exist {
						if err := os.WriteFile(name, v.file, 0644); err != nil {
							return err
						}
					}
					var old syscall.Rlimit
					if nofd {
						if err := syscall.Getrlimit(syscall.RLIMIT_NOFILE, &old); err != nil {
							return err
						}
						lim := old
						lim.Cur = 0
						if err := syscall.Setrlimit(syscall.RLIMIT_NOFILE, &lim); err != nil {
							return err
						}
					}
					err := desync.VerifyIndex(context.Background(), name, idx, n, desync.NullProgressBar{})
					if nofd {
						syscall.Setrlimit(syscall.RLIMIT_NOFILE, &old)
					}
					key := fmt.Sprintf("resource|%s|%d|%d|%v", v.tag, nchunks, n, nofd)
					r.Count(key, true)
					r.Dist("resource:" + v.tag)
					if err == nil {
						r.Fail("predicate", "resource/accepts-"+v.tag,
							fmt.Sprintf("VerifyIndex returned nil for a %s file (index of %d chunks, n=%d, no file handles available: %v)", v.tag, nchunks, n, nofd),
							map[string]interface{}{"kind": "resource", "variant": v.tag, "chunks": nchunks, "n": n, "no_file_handles": nofd})
						return nil
					}
				}
			}
		}
	}
	return nil
}

// c17Large: batches whose bytes exceed the sizes a reader might buffer by (64 KiB, 1 MiB, 4 MiB):
// a 12 MiB file of 256 KiB chunks verified with one worker (5 chunks = 1.25 MiB per batch) and a
// file of 1.5 MiB chunks (every chunk larger than 1 MiB); one byte is altered in every chunk in
// turn (in place), and every altered file must be rejected for every worker count tried.
func c17Large(a vh.Args, r *vh.Result, rng *vh.Rand) error {
	desync.Digest = desync.SHA256{}
	name := filepath.Join(a.Work, "large.file")
	defer os.Remove(name)
	type cfg struct{ chunk, n int }
	cfgs := []cfg{{256 << 10, 48}, {1536 << 10, 8}}
	if a.Tier == "thorough" {
		cfgs = append(cfgs, cfg{64 << 10, 192}, cfg{4<<20 + 3, 4})
	}
	for _, cf := range cfgs {
		blob := rng.Bytes(cf.chunk * cf.n)
		sizes := make([]int, cf.n)
		for i := range sizes {
			sizes[i] = cf.chunk
		}
		idx := buildIndex(blob, sizes)
		if err := os.WriteFile(name, blob, 0644); err != nil {
			return err
		}
		f, err := os.OpenFile(name, os.O_RDWR, 0)
		if err != nil {
			return err
		}
		ns := []int{1, 2}
		verify := func(n int) string {
			if err := desync.VerifyIndex(context.Background(), name, idx, n, desync.NullProgressBar{}); err != nil {
				return "err"
			}
			return "nil"
		}
		for _, n := range ns {
			r.Count(fmt.Sprintf("large|%d|%d|%d|none", cf.chunk, cf.n, n), true)
			if got := verify(n); got != "nil" {
				r.Fail("predicate", "rejects-matching-file", fmt.Sprintf("large file (%d chunks of %d bytes), n=%d: the matching file was rejected", cf.n, cf.chunk, n),
					map[string]interface{}{"kind": "large", "chunk": cf.chunk, "chunks": cf.n, "n": n})
			}
		}
		for ci := 0; ci < cf.n; ci++ {
			pos := int64(ci*cf.chunk + rng.Intn(cf.chunk))
			orig := []byte{blob[pos]}
			if _, err := f.WriteAt([]byte{orig[0] ^ 0x08}, pos); err != nil {
				f.Close()
				return err
			}
			n := ns[ci%len(ns)]
			if ci < 24 {
				n = 1
			}
			r.Count(fmt.Sprintf("large|%d|%d|%d|%d", cf.chunk, cf.n, n, ci), true)
			r.Dist("large:chunk-bytes:" + bucket(cf.chunk))
			if got := verify(n); got != "err" {
				r.Fail("predicate", "accepts-modified-file", fmt.Sprintf("large file (%d chunks of %d bytes), n=%d: one byte altered in chunk %d (offset %d), VerifyIndex returned nil", cf.n, cf.chunk, n, ci, pos),
					map[string]interface{}{"kind": "large", "chunk": cf.chunk, "chunks": cf.n, "n": n, "altered_chunk": ci, "offset": pos, "seed": a.Seed})
			}
			if _, err := f.WriteAt(orig, pos); err != nil {
				f.Close()
				return err
			}
		}
		f.Close()
	}
	return nil
}

// c17LargeReplay re-runs the large-batch family with fresh data (the predicate does not depend on
// the bytes: every single-byte change must be rejected).
func c17LargeReplay(a vh.Args, r *vh.Result, seed uint64) error {
	return c17Large(a, r, vh.NewRand(seed+7))
}
