// vh: the verification harness. One sub-command per property:
//   vh <Cxx> -tier quick|thorough -seed N -oracle <path> -out <result.json> [-replay case.json]
package main

import (
	"flag"
	"fmt"
	"os"
	"runtime/debug"
	"sort"
	"strings"

	"vh/internal/vh"
)

type propFn func(a vh.Args, o *vh.Oracle, r *vh.Result) error

var props = map[string]propFn{}

// runProp runs the property's harness. A panic on the calling goroutine whose innermost
// non-runtime frame is in the implementation is a failure of the implementation on the case that
// was running (Result.Running); any other panic is a harness error.
func runProp(f propFn, a vh.Args, o *vh.Oracle, r *vh.Result) (err error) {
	defer func() {
		p := recover()
		if p == nil {
			return
		}
		stack := string(debug.Stack())
		inImpl := false
		lines := strings.Split(stack, "\n")
		seenPanic := false
		var short []string
		for _, l := range lines {
			if strings.HasPrefix(l, "panic(") {
				seenPanic = true
				continue
			}
			if !seenPanic || strings.HasPrefix(l, "\t") {
				continue
			}
			if strings.HasPrefix(l, "runtime.") {
				continue
			}
			if len(short) == 0 {
				inImpl = strings.HasPrefix(l, "github.com/folbricht/desync.") || strings.HasPrefix(l, "github.com/folbricht/desync/")
			}
			if len(short) < 6 {
				short = append(short, l)
			}
		}
		msg := fmt.Sprintf("%v; frames: %s", p, strings.Join(short, " <- "))
		if inImpl && r.Current() != nil {
			r.Fail("predicate", "panic", "the implementation panicked on this case: "+msg, r.Current())
			return
		}
		r.Fail("harness", "harness-error", "panic: "+msg, r.Current())
	}()
	return f(a, o, r)
}

func main() {
	if len(os.Args) < 2 {
		names := []string{}
		for k := range props {
			names = append(names, k)
		}
		sort.Strings(names)
		fmt.Fprintln(os.Stderr, "usage: vh <property> [flags]; properties:", names)
		os.Exit(2)
	}
	prop := os.Args[1]
	fs := flag.NewFlagSet(prop, flag.ExitOnError)
	var a vh.Args
	fs.StringVar(&a.Tier, "tier", "quick", "quick|thorough")
	fs.Uint64Var(&a.Seed, "seed", 1, "PRNG seed")
	fs.StringVar(&a.Oracle, "oracle", "/verif/coq/extract/build/oracle", "extracted model binary")
	fs.StringVar(&a.Out, "out", "", "result json")
	fs.StringVar(&a.Replay, "replay", "", "replay one stored case")
	fs.Parse(os.Args[2:])
	f, ok := props[prop]
	if !ok {
		fmt.Fprintln(os.Stderr, "unknown property", prop)
		os.Exit(2)
	}
	work, err := os.MkdirTemp("", "vh-"+prop+"-")
	if err != nil {
		fmt.Fprintln(os.Stderr, err)
		os.Exit(2)
	}
	defer os.RemoveAll(work)
	a.Work = work
	var o *vh.Oracle
	if _, err := os.Stat(a.Oracle); err == nil {
		o, err = vh.StartOracle(a.Oracle)
		if err != nil {
			fmt.Fprintln(os.Stderr, "oracle:", err)
			os.RemoveAll(work)
			os.Exit(3)
		}
		defer o.Close()
	}
	r := vh.NewResult(prop, a.Tier, a.Seed)
	err = runProp(f, a, o, r)
	if o != nil {
		r.OracleCalls = o.N
	}
	if err != nil {
		r.Note("harness error: %v", err)
		r.Fail("harness", "harness-error", err.Error(), nil)
	}
	if a.Out != "" {
		if werr := r.Write(a.Out); werr != nil {
			fmt.Fprintln(os.Stderr, werr)
			os.RemoveAll(work)
			os.Exit(2)
		}
	}
	fmt.Printf("%s: %d evaluations, %d distinct non-trivial, %d corr, %d failures\n", prop, r.Evaluations, r.Nontrivial, r.CorrChecked, r.NFailures())
}
