package main

// C14 (g) overlap: a compressed chunk server in front of a casync-protocol store with ONE
// session, two HTTP GETs that overlap: request A has fetched its chunk from the session but
// its response is not written yet while request B is fetched and answered on the same session;
// then A's response is written.  HTTPHandler.get passes chunk.storage through untouched in
// this configuration, so whatever the session does with its receive memory between A and B is
// visible.  Predicate (implementation alone): the body of each GET decodes to the chunk of ITS
// id.  The schedule is forced with a Store wrapper that holds A's GetChunk result until B is done.

import (
	"context"
	"fmt"
	"io"
	"net/http"
	"net/http/httptest"
	"net/url"
	"os"
	"path/filepath"
	"sync"
	"time"

	"github.com/folbricht/desync"

	"vh/internal/vh"
)

// one protocol session used by one caller at a time, like RemoteSSH with a pool of one
type c14ProtoStore struct {
	p  *desync.Protocol
	mu sync.Mutex
}

func (s *c14ProtoStore) GetChunk(id desync.ChunkID) (*desync.Chunk, error) {
	s.mu.Lock()
	defer s.mu.Unlock()
	return s.p.RequestChunk(id)
}
func (s *c14ProtoStore) HasChunk(id desync.ChunkID) (bool, error) {
	_, err := s.GetChunk(id)
	return err == nil, nil
}
func (s *c14ProtoStore) Close() error   { return nil }
func (s *c14ProtoStore) String() string { return "protocol session" }

// holds the result of GetChunk(hold) until release is closed
type c14GateStore struct {
	desync.Store
	hold    desync.ChunkID
	fetched chan struct{}
	release chan struct{}
}

func (g *c14GateStore) GetChunk(id desync.ChunkID) (*desync.Chunk, error) {
	ch, err := g.Store.GetChunk(id)
	if id == g.hold {
		close(g.fetched)
		select {
		case <-g.release:
		case <-time.After(10 * time.Second):
		}
	}
	return ch, err
}

func c14HTTPGet(u string) (int, []byte) {
	resp, err := http.Get(u)
	if err != nil {
		return 0, nil
	}
	defer resp.Body.Close()
	b, _ := io.ReadAll(resp.Body)
	return resp.StatusCode, b
}

func c14Overlap(a vh.Args, o *vh.Oracle, r *vh.Result, rng *vh.Rand) error {
	dir := filepath.Join(a.Work, "ostore")
	os.MkdirAll(dir, 0755)
	ls, err := desync.NewLocalStore(dir, desync.StoreOptions{SkipVerify: true})
	if err != nil {
		return err
	}
	datas := [][]byte{rng.Bytes(3000), rng.Bytes(3000), rng.Bytes(500), rng.Bytes(20000), append([]byte("low entropy "), make([]byte, 4000)...)}
	for _, d := range datas {
		if err := ls.StoreChunk(desync.NewChunk(d)); err != nil {
			return err
		}
	}
	type upstream struct {
		name  string
		store desync.Store
		stop  func()
	}
	var ups []upstream
	// (1) in-process: Protocol client <-> ProtocolServer over pipes
	{
		r1, w1 := io.Pipe()
		r2, w2 := io.Pipe()
		ctx, cancel := context.WithCancel(context.Background())
		go func() {
			desync.NewProtocolServer(r1, w2, ls).Serve(ctx)
			r1.Close()
			w2.Close()
		}()
		cli := desync.NewProtocol(r2, w1)
		ini := make(chan error, 1)
		go func() { _, err := cli.Initialize(desync.CaProtocolPullChunks); ini <- err }()
		select {
		case err := <-ini:
			if err != nil {
				cancel()
				return err
			}
		case <-time.After(5 * time.Second):
			cancel()
			return fmt.Errorf("protocol handshake hung")
		}
		ups = append(ups, upstream{"pipe", &c14ProtoStore{p: cli}, func() { cancel(); w1.Close(); r2.Close(); r1.Close(); w2.Close() }})
	}
	// (2) RemoteSSH with one session against `desync pull` through the fake ssh
	if bin := os.Getenv("VH_DESYNC"); bin != "" {
		fake := filepath.Join(a.Work, "fake-ssh")
		if _, err := os.Stat(fake); err != nil {
			os.WriteFile(fake, []byte("#!/bin/sh\n# fake ssh: ignore the host, run the remote command locally\nshift\nexec sh -c \"$1\"\n"), 0755)
		}
		os.Setenv("CASYNC_SSH_PATH", fake)
		os.Setenv("CASYNC_REMOTE_PATH", bin+" --digest sha256")
		u, _ := url.Parse("ssh://localhost" + dir)
		st, err := desync.NewRemoteSSHStore(u, desync.StoreOptions{N: 1})
		os.Unsetenv("CASYNC_SSH_PATH")
		os.Unsetenv("CASYNC_REMOTE_PATH")
		if err == nil {
			ups = append(ups, upstream{"ssh", st, func() { st.Close() }})
		} else {
			r.Note("overlap: RemoteSSH store not available: %v", err)
		}
	}
	defer func() {
		for _, u := range ups {
			u.stop()
		}
	}()
	pairs := [][2]int{{0, 1}, {1, 0}, {0, 2}, {2, 0}, {3, 0}, {0, 3}, {4, 2}, {2, 4}, {3, 4}}
	for _, up := range ups {
		for _, srvComp := range []bool{true, false} {
			for _, pr := range pairs {
				if err := c14OverlapOne(a, o, r, up.name, up.store, srvComp, datas[pr[0]], datas[pr[1]], dir); err != nil {
					return err
				}
			}
		}
	}
	return nil
}

func c14OverlapOne(a vh.Args, o *vh.Oracle, r *vh.Result, upName string, up desync.Store, srvComp bool, dataA, dataB []byte, dir string) error {
	idA, idB := c15ID(dataA), c15ID(dataB)
	gate := &c14GateStore{Store: up, hold: idA, fetched: make(chan struct{}), release: make(chan struct{})}
	var conv desync.Converters
	ext := ""
	if srvComp {
		conv, ext = desync.Converters{desync.Compressor{}}, ".cacnk"
	}
	srv := httptest.NewServer(desync.NewHTTPHandler(gate, false, true, conv, ""))
	defer srv.Close()
	path := func(id desync.ChunkID) string { s := id.String(); return srv.URL + "/" + s[:4] + "/" + s + ext }
	type res struct {
		code int
		body []byte
	}
	ra := make(chan res, 1)
	go func() { c, b := c14HTTPGet(path(idA)); ra <- res{c, b} }()
	select {
	case <-gate.fetched:
	case <-time.After(10 * time.Second):
		close(gate.release)
		return fmt.Errorf("overlap: request A never reached the store")
	}
	codeB, bodyB := c14HTTPGet(path(idB)) // B completes while A's chunk is held
	close(gate.release)
	var A res
	select {
	case A = <-ra:
	case <-time.After(10 * time.Second):
		return fmt.Errorf("overlap: request A hung")
	}
	c := &c14Case{Part: "overlap", Level: upName, SrvComp: srvComp, DataHex: vh.Hex(dataA[:min(len(dataA), 16)]), PayloadLen: len(dataA)}
	c.BodyLens = []int{len(dataA), len(dataB)}
	r.Count(fmt.Sprintf("overlap|%s|%v|%d|%d|%s", upName, srvComp, len(dataA), len(dataB), vh.Hex(dataA[:4])), true)
	r.Dist("part:overlap")
	r.Dist("overlap-upstream:" + upName)
	judge := func(which string, code int, body, want []byte) string {
		got, ok := c15Decode(body, srvComp)
		switch {
		case code != 200:
			r.Fail("predicate", "overlap/not-delivered", fmt.Sprintf("overlapping GETs (%s upstream, server compressed=%v, A %d bytes, B %d bytes): request %s answered %d", upName, srvComp, len(dataA), len(dataB), which, code), c)
			return "error"
		case !ok || string(got) != string(want):
			what := "bytes that are not its chunk"
			if ok && which == "A" && string(got) == string(dataB) {
				what = "the content of chunk B"
			}
			r.Fail("predicate", "overlap/wrong-chunk", fmt.Sprintf("overlapping GETs on one protocol session (%s upstream, server compressed=%v, A %d bytes held while B %d bytes was served): the response for %s carries %s", upName, srvComp, len(dataA), len(dataB), which, what), c)
			return "wrong"
		}
		return "data"
	}
	ga := judge("A", A.code, A.body, dataA)
	gb := judge("B", codeB, bodyB, dataB)
	c.Got = ga + "," + gb
	r.Dist("overlap-result:" + c.Got)
	r.Sample(map[string]interface{}{"part": "overlap", "upstream": upName, "server_compressed": srvComp, "size_a": len(dataA), "size_b": len(dataB), "result": c.Got})
	if o == nil {
		return nil
	}
	// model: whatever the schedule, each client receives its own chunk
	for i, d := range [][]byte{dataA, dataB} {
		id := c15ID(d)
		file, _ := os.ReadFile(c14StoreFile(dir, id, false))
		zt, ct := c15ZTables(d, file)
		ans, err := o.Call("c14.remote", "get", "1", b01(!srvComp), "1", "-", "0", "1", b01(srvComp), "0", "1", id.String(), "-", id.String()+":"+vh.Hex(file), zt, ct)
		if err != nil {
			return err
		}
		r.Corr()
		body := A.body
		if i == 1 {
			body = bodyB
		}
		got, ok := c15Decode(body, srvComp)
		impl := "error"
		if ok {
			impl = "data:" + vh.Hex(got)
		}
		if f := ans[:len(ans)-2]; f != impl {
			r.Fail("corr", "corr:C14/overlap", fmt.Sprintf("overlap %s: request %d: model %s, implementation %s", upName, i, c14Short(f), c14Short(impl)), c)
		}
	}
	return nil
}
