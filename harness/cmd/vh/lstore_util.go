package main

// Helpers shared by the local-store properties (C20, C16, C08): directory snapshots in the
// transfer syntax of coq/extract/fsconv.ml, a zstd frame-structure check, error classes.

import (
	"context"
	"sync/atomic"
	"encoding/binary"
	"encoding/hex"
	"errors"
	"fmt"
	"os"
	"path/filepath"
	"sort"
	"strings"

	"github.com/folbricht/desync"
)

type fsEnt struct {
	Path string `json:"path"` // relative, "/"-separated
	Kind string `json:"kind"` // d | f | l
	Data []byte `json:"data,omitempty"`
}

// snapshotTree lists everything below root (root itself excluded), sorted by path.
func snapshotTree(root string) ([]fsEnt, error) {
	var out []fsEnt
	err := filepath.Walk(root, func(p string, info os.FileInfo, err error) error {
		if err != nil {
			return err
		}
		if p == root {
			return nil
		}
		rel, _ := filepath.Rel(root, p)
		switch {
		case info.IsDir():
			out = append(out, fsEnt{Path: rel, Kind: "d"})
		case info.Mode()&os.ModeSymlink != 0:
			t, _ := os.Readlink(p)
			out = append(out, fsEnt{Path: rel, Kind: "l", Data: []byte(t)})
		default:
			b, err := os.ReadFile(p)
			if err != nil {
				return err
			}
			out = append(out, fsEnt{Path: rel, Kind: "f", Data: b})
		}
		return nil
	})
	sort.Slice(out, func(i, j int) bool { return out[i].Path < out[j].Path })
	return out, err
}

func lsHx(b []byte) string {
	if len(b) == 0 {
		return "-"
	}
	return hex.EncodeToString(b)
}

// encodeTree renders a snapshot for the oracle; every path is prefixed with base ("s") and the
// base directory itself is listed first.
func encodeTree(base string, ents []fsEnt) string {
	parts := []string{"d:" + lsHx([]byte(base)) + ":-"}
	for _, e := range ents {
		parts = append(parts, e.Kind+":"+lsHx([]byte(base+"/"+e.Path))+":"+lsHx(e.Data))
	}
	return strings.Join(parts, ",")
}

// encodeTreeOutside: as encodeTree, plus files that live next to the store directory (model path "o/...").
func encodeTreeOutside(base string, ents, outside []fsEnt) string {
	t := encodeTree(base, ents)
	for _, e := range outside {
		t += "," + e.Kind + ":" + lsHx([]byte("o/"+e.Path)) + ":" + lsHx(e.Data)
	}
	return t
}

// countCtx is a context that is found cancelled from the at-th look at Done() on: Prune and Verify look
// once per walk callback, so this places the cancellation at any point of the run, deterministically.
type countCtx struct {
	context.Context
	n, at int32
}

var closedCh = func() chan struct{} { c := make(chan struct{}); close(c); return c }()

func (c *countCtx) Done() <-chan struct{} {
	if c.at > 0 && atomic.AddInt32(&c.n, 1) >= c.at {
		return closedCh
	}
	return nil
}
func (c *countCtx) Err() error {
	if c.at > 0 && atomic.LoadInt32(&c.n) >= c.at {
		return context.Canceled
	}
	return nil
}

// decodeTree parses the oracle's answer, stripping the base prefix again.
func decodeTree(base, s string) ([]fsEnt, error) {
	var out []fsEnt
	if s == "-" || s == "" {
		return out, nil
	}
	for _, e := range strings.Split(s, ",") {
		f := strings.Split(e, ":")
		if len(f) != 3 {
			return nil, fmt.Errorf("bad tree entry %q", e)
		}
		p := string(lsUnhx(f[1]))
		if p == base || !strings.HasPrefix(p, base+"/") {
			continue
		}
		p = strings.TrimPrefix(p, base+"/")
		out = append(out, fsEnt{Path: p, Kind: f[0], Data: lsUnhx(f[2])})
	}
	sort.Slice(out, func(i, j int) bool { return out[i].Path < out[j].Path })
	return out, nil
}

func lsUnhx(s string) []byte {
	if s == "-" || s == "" {
		return nil
	}
	b, _ := hex.DecodeString(s)
	return b
}

// writeTree materialises a snapshot under root (which must exist and be empty).
func writeTree(root string, ents []fsEnt) error {
	for _, e := range ents {
		p := filepath.Join(root, e.Path)
		switch e.Kind {
		case "d":
			if err := os.MkdirAll(p, 0755); err != nil {
				return err
			}
		case "f":
			if err := os.MkdirAll(filepath.Dir(p), 0755); err != nil {
				return err
			}
			if err := os.WriteFile(p, e.Data, 0644); err != nil {
				return err
			}
		case "l":
			if err := os.MkdirAll(filepath.Dir(p), 0755); err != nil {
				return err
			}
			if err := os.Symlink(string(e.Data), p); err != nil {
				return err
			}
		}
	}
	return nil
}

// normTmp replaces the random suffix of temp chunk files (".tmp-cacnk*") by the rank of the file among
// the temp files of its directory ordered by content, so that trees can be compared across runs.
func normTmp(ents []fsEnt) []fsEnt {
	byDir := map[string][]int{}
	for i, e := range ents {
		if e.Kind == "f" && strings.HasPrefix(filepath.Base(e.Path), ".tmp-cacnk") {
			d := filepath.Dir(e.Path)
			byDir[d] = append(byDir[d], i)
		}
	}
	out := append([]fsEnt{}, ents...)
	for d, idx := range byDir {
		sort.Slice(idx, func(a, b int) bool { return string(ents[idx[a]].Data) < string(ents[idx[b]].Data) })
		for k, i := range idx {
			out[i].Path = fmt.Sprintf("%s/.tmp-cacnk.X%d", d, k)
		}
	}
	sort.Slice(out, func(i, j int) bool { return out[i].Path < out[j].Path })
	return out
}

// diffTrees returns a description of the first difference (temp names normalised), or "".
func diffTrees(a, b []fsEnt) string {
	a, b = normTmp(a), normTmp(b)
	ma := map[string]fsEnt{}
	for _, e := range a {
		ma[e.Path] = e
	}
	mb := map[string]fsEnt{}
	for _, e := range b {
		mb[e.Path] = e
	}
	for _, e := range a {
		o, ok := mb[e.Path]
		if !ok {
			return "only in first: " + e.Kind + " " + e.Path
		}
		if o.Kind != e.Kind || string(o.Data) != string(e.Data) {
			return "differs: " + e.Path
		}
	}
	for _, e := range b {
		if _, ok := ma[e.Path]; !ok {
			return "only in second: " + e.Kind + " " + e.Path
		}
	}
	return ""
}

// errClass projects an error of the store API onto the classes compared with the model.
func lsErrClass(err error) string {
	if err == nil {
		return "ok"
	}
	var cm desync.ChunkMissing
	var ci desync.ChunkInvalid
	var in desync.Interrupted
	switch {
	case errors.As(err, &cm):
		return "missing"
	case errors.As(err, &ci):
		return "invalid"
	case errors.As(err, &in):
		return "interrupted"
	}
	return "other"
}

// zstdSingleFrame checks that b is exactly one standard zstd frame (RFC 8878 section 3.1.1): magic
// 0xFD2FB528, a well-formed frame header, a sequence of blocks ending with a last-block flag,
// the optional checksum, and nothing after it.  It returns the declared content size (-1 if absent).
func zstdSingleFrame(b []byte) (int64, error) {
	if len(b) < 6 {
		return 0, fmt.Errorf("short frame (%d bytes)", len(b))
	}
	if binary.LittleEndian.Uint32(b) != 0xFD2FB528 {
		return 0, fmt.Errorf("bad magic %x", b[:4])
	}
	fhd := b[4]
	pos := 5
	fcsFlag := fhd >> 6
	single := fhd&0x20 != 0
	if fhd&0x08 != 0 {
		return 0, fmt.Errorf("reserved bit set in frame header descriptor")
	}
	checksum := fhd&0x04 != 0
	didFlag := fhd & 0x03
	if !single {
		pos++ // window descriptor
	}
	pos += []int{0, 1, 2, 4}[didFlag]
	fcsLen := []int{0, 2, 4, 8}[fcsFlag]
	if fcsFlag == 0 && single {
		fcsLen = 1
	}
	if pos+fcsLen > len(b) {
		return 0, fmt.Errorf("truncated frame header")
	}
	size := int64(-1)
	switch fcsLen {
	case 1:
		size = int64(b[pos])
	case 2:
		size = int64(binary.LittleEndian.Uint16(b[pos:])) + 256
	case 4:
		size = int64(binary.LittleEndian.Uint32(b[pos:]))
	case 8:
		size = int64(binary.LittleEndian.Uint64(b[pos:]))
	}
	pos += fcsLen
	for {
		if pos+3 > len(b) {
			return 0, fmt.Errorf("truncated block header at %d", pos)
		}
		h := uint32(b[pos]) | uint32(b[pos+1])<<8 | uint32(b[pos+2])<<16
		pos += 3
		last := h&1 != 0
		typ := (h >> 1) & 3
		bs := int(h >> 3)
		switch typ {
		case 0, 2:
			pos += bs
		case 1:
			pos++
		default:
			return 0, fmt.Errorf("reserved block type")
		}
		if pos > len(b) {
			return 0, fmt.Errorf("block exceeds the frame")
		}
		if last {
			break
		}
	}
	if checksum {
		pos += 4
	}
	if pos != len(b) {
		return 0, fmt.Errorf("%d bytes after the end of the first frame (frame ends at %d of %d)", len(b)-pos, pos, len(b))
	}
	return size, nil
}
