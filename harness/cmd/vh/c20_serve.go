package main

// C20, "serves": an HTTP chunk server (library HTTPHandler and the `desync chunk-server` binary) configured
// for one chunk format, over a local store directory that holds chunks in both formats / only the other one.
// Predicate: a name of the OTHER format is refused (never 200); a name of the server's format is answered
// 200 exactly when the upstream store (in ITS configured format) has the chunk, and then the body is in the
// server's format -- one zstd frame of the chunk for <id>.cacnk, the raw bytes for <id> -- whatever format the
// upstream store keeps; HEAD agrees with GET.
// Correspondence: the handler's accept/refuse decision on adversarial paths vs Model/LocalStore.http_id_from_path.

import (
	"bytes"
	"fmt"
	"io"
	"net"
	"net/http"
	"net/http/httptest"
	"os"
	"os/exec"
	"path/filepath"
	"strings"
	"time"

	"github.com/folbricht/desync"

	"vh/internal/vh"
)

type c20ServeCase struct {
	Kind       string `json:"kind"` // serve
	Binary     bool   `json:"binary"`
	ServerUnc  bool   `json:"server_uncompressed"`
	StoreUnc   bool   `json:"upstream_uncompressed"`
	SkipVerify bool   `json:"skip_verify_read"`
	Seed       uint64 `json:"seed"`
	Request    string `json:"request,omitempty"`
	What       string `json:"what,omitempty"`
}

func c20Serve(a vh.Args, o *vh.Oracle, r *vh.Result, c *c20ServeCase) error {
	desync.Digest = desync.SHA256{}
	rng := vh.NewRand(c.Seed)
	dir, err := lsFreshDir(a.Work, "serve")
	if err != nil {
		return err
	}
	// chunk 0: both formats, 1: compressed only, 2: uncompressed only, 3: absent
	datas := [][]byte{rng.Bytes(300), rng.Bytes(700), rng.Bytes(50), rng.Bytes(90)}
	present := map[string]bool{} // "<id>/<unc>"
	for i, d := range datas {
		idh := lsSha256Hex(d)
		os.MkdirAll(filepath.Join(dir, idh[:4]), 0755)
		if i == 0 || i == 1 {
			b, _ := desync.Compress(d)
			os.WriteFile(filepath.Join(dir, idh[:4], idh+".cacnk"), b, 0644)
			present[idh+"/false"] = true
		}
		if i == 0 || i == 2 {
			os.WriteFile(filepath.Join(dir, idh[:4], idh), d, 0644)
			present[idh+"/true"] = true
		}
	}
	var base string
	if c.Binary {
		bin := os.Getenv("VH_DESYNC")
		if bin == "" {
			return nil
		}
		ln, err := net.Listen("tcp", "127.0.0.1:0")
		if err != nil {
			return err
		}
		addr := ln.Addr().String()
		ln.Close()
		cfg := filepath.Join(a.Work, "serve-cfg.json")
		os.WriteFile(cfg, []byte(fmt.Sprintf(`{"store-options": {%q: {"uncompressed": %v}}}`, dir, c.StoreUnc)), 0644)
		args := []string{"--config", cfg, "--digest", "sha256", "chunk-server", "-s", dir, "-l", addr, fmt.Sprintf("--skip-verify-read=%v", c.SkipVerify)}
		if c.ServerUnc {
			args = append(args, "-u")
		}
		cmd := exec.Command(bin, args...)
		cmd.Env = append(os.Environ(), "HOME="+a.Work)
		if err := cmd.Start(); err != nil {
			return err
		}
		defer func() { cmd.Process.Kill(); cmd.Wait() }()
		base = "http://" + addr
		up := false
		for i := 0; i < 100; i++ {
			if conn, err := net.DialTimeout("tcp", addr, 100*time.Millisecond); err == nil {
				conn.Close()
				up = true
				break
			}
			time.Sleep(20 * time.Millisecond)
		}
		if !up {
			return fmt.Errorf("chunk-server did not start listening on %s", addr)
		}
	} else {
		s, err := desync.NewLocalStore(dir, desync.StoreOptions{Uncompressed: c.StoreUnc, SkipVerify: c.SkipVerify})
		if err != nil {
			return err
		}
		var conv desync.Converters
		if !c.ServerUnc {
			conv = desync.Converters{desync.Compressor{}}
		}
		srv := httptest.NewServer(desync.NewHTTPHandler(s, false, true, conv, ""))
		defer srv.Close()
		base = srv.URL
	}
	do := func(method, p string) (int, []byte) {
		req, _ := http.NewRequest(method, base+p, nil)
		resp, err := http.DefaultClient.Do(req)
		if err != nil {
			return -1, nil
		}
		defer resp.Body.Close()
		b, _ := io.ReadAll(resp.Body)
		return resp.StatusCode, b
	}
	fail := func(class, reqs, what string) {
		c.Request, c.What = reqs, what
		r.Fail("predicate", class, fmt.Sprintf("%s server (binary=%v) over a store configured uncompressed=%v, %s: %s", map[bool]string{true: "uncompressed-chunk", false: "compressed-chunk"}[c.ServerUnc], c.Binary, c.StoreUnc, reqs, what), c)
	}
	srvFmt := map[bool]string{true: "", false: ".cacnk"}
	for i, d := range datas {
		idh := lsSha256Hex(d)
		for _, nameUnc := range []bool{false, true} {
			p := "/" + idh[:4] + "/" + idh + srvFmt[nameUnc]
			gs, body := do("GET", p)
			hs, _ := do("HEAD", p)
			r.Count(fmt.Sprintf("serve|%v|%v|%v|%v|%d|%v", c.Binary, c.ServerUnc, c.StoreUnc, c.SkipVerify, i, nameUnc), nameUnc != c.ServerUnc || c.ServerUnc != c.StoreUnc)
			r.Dist(fmt.Sprintf("serve-status:%d", gs))
			if nameUnc != c.ServerUnc { // a name of the other format
				if gs == 200 || hs == 200 {
					fail("serve/other-format-name-accepted", "GET/HEAD "+p, fmt.Sprintf("a name of the other format is answered GET %d / HEAD %d (%d body bytes) instead of being refused", gs, hs, len(body)))
				}
				continue
			}
			want := 404
			if present[fmt.Sprintf("%s/%v", idh, c.StoreUnc)] {
				want = 200
			}
			if gs != want {
				fail("serve/wrong-status", "GET "+p, fmt.Sprintf("status %d, the upstream store %s the chunk in its format", gs, map[int]string{200: "has", 404: "does not have"}[want]))
				continue
			}
			if (hs == 200) != (gs == 200) {
				fail("serve/head-disagrees", "HEAD "+p, fmt.Sprintf("HEAD %d but GET %d", hs, gs))
			}
			if gs != 200 {
				continue
			}
			if c.ServerUnc {
				if !bytes.Equal(body, d) {
					fail("serve/body-not-in-server-format", "GET "+p, fmt.Sprintf("the un-suffixed name was answered with %d bytes that are not the chunk's %d raw bytes (starts %x)", len(body), len(d), body[:min(6, len(body))]))
				}
				continue
			}
			if _, ferr := zstdSingleFrame(body); ferr != nil {
				fail("serve/body-not-in-server-format", "GET "+p, fmt.Sprintf("the .cacnk name was answered with something that is not a zstd frame (%v; %d bytes, starts %x)", ferr, len(body), body[:min(6, len(body))]))
			} else if pl, derr := desync.Decompress(nil, body); derr != nil || !bytes.Equal(pl, d) {
				fail("serve/body-not-in-server-format", "GET "+p, fmt.Sprintf("the .cacnk body does not decompress to the chunk (%v)", derr))
			}
		}
	}
	// accept/refuse on adversarial paths vs the model of idFromPath
	if o != nil && !c.Binary {
		idh := lsSha256Hex(datas[0])
		paths := []string{"/" + idh[:4] + "/" + idh, "/" + idh[:4] + "/" + idh + ".cacnk", "/" + idh[:3] + "/" + idh + ".cacnk", "/0000/" + idh + ".cacnk",
			"/" + idh[:4] + "/" + idh + ".cacnk.cacnk", "/" + idh[:4] + "/" + idh[:62] + ".cacnk", "/" + strings.ToUpper(idh[:4]) + "/" + strings.ToUpper(idh) + ".cacnk",
			"/" + strings.ToUpper(idh[:4]) + "/" + strings.ToUpper(idh), "/" + idh[:4] + "/" + idh + ".CACNK", "/x/" + idh[:4] + "/" + idh + ".cacnk", "/" + idh[:4] + "/" + idh + "/",
			"/" + idh + ".cacnk", "/" + idh[:4] + "//" + idh + ".cacnk", "/abc", "/", "/" + idh[:4] + "/" + idh + "x"}
		for _, p := range paths {
			gs, _ := do("GET", p)
			ans, err := o.Call("c20.httppath", lsB01(!c.ServerUnc), lsHx([]byte(p)))
			if err != nil {
				return err
			}
			r.Corr()
			// net/http redirects paths that are not clean before the handler sees them; only compare verdicts
			if gs == 301 || gs == -1 {
				continue
			}
			if (gs == 400) != (ans == "none") {
				c.Request, c.What = "GET "+p, fmt.Sprintf("handler status %d, model idFromPath = %s", gs, ans)
				r.Fail("corr", "corr:C20/http-path", c.What, c)
			}
		}
	}
	return nil
}

func c20ServeAll(a vh.Args, o *vh.Oracle, r *vh.Result, rng *vh.Rand) error {
	for _, binary := range []bool{false, true} {
		for _, srvUnc := range []bool{false, true} {
			for _, storeUnc := range []bool{false, true} {
				for _, skip := range []bool{true, false} {
					if binary && !skip && a.Tier != "thorough" {
						continue
					}
					c := &c20ServeCase{Kind: "serve", Binary: binary, ServerUnc: srvUnc, StoreUnc: storeUnc, SkipVerify: skip, Seed: rng.U64() % 1000000}
					if err := c20Serve(a, o, r, c); err != nil {
						return err
					}
				}
			}
		}
	}
	return nil
}
