package main

// C06, CLI level, failing INPUT with a healthy store: `desync tar -i --input-format tar` reads a GNU tar
// stream that is cut at generated points (inside a header, inside file data, at a block boundary, at an
// entry boundary) or has a damaged header.  Reference: the library's Tar over the same stream.  If the
// library reports an error the command must exit != 0; if the command exits 0 the index it wrote must
// describe exactly the archive the library produces for that input and every chunk must be readable.

import (
	"archive/tar"
	"bytes"
	"context"
	"crypto/sha256"
	"fmt"
	"io"
	"net/http/httptest"
	"os"
	"os/exec"
	"path"
	"path/filepath"
	"sort"
	"strconv"
	"strings"
	"time"

	"github.com/folbricht/desync"

	"vh/internal/vh"
)

type c06TarInCase struct {
	Op     string `json:"op"` // tar-input
	N      int    `json:"n"`
	TarHex string `json:"tar_hex"` // the (possibly cut / damaged) tar stream given to the command
	How    string `json:"how"`
	Level  string `json:"level"` // cli-tarinput

	Got    string `json:"impl_result,omitempty"`
	LibErr string `json:"library_tar_error,omitempty"`
	Detail string `json:"detail,omitempty"`
}

// c06MakeTar writes a GNU tar stream; grouped: the entries of a directory follow it directly (what tar(1)
// produces); otherwise entries of d0 also appear after entries of the root (a valid tar stream, e.g. after `tar -r`).
func c06MakeTar(rng *vh.Rand, grouped bool) ([]byte, []int) {
	var buf bytes.Buffer
	tw := tar.NewWriter(&buf)
	var bounds []int // offsets at which an entry starts
	mt := time.Unix(1600000000, 0)
	add := func(h *tar.Header, data []byte) {
		tw.Flush()
		bounds = append(bounds, buf.Len())
		h.ModTime = mt
		h.Format = tar.FormatGNU
		tw.WriteHeader(h)
		if data != nil {
			tw.Write(data)
		}
	}
	add(&tar.Header{Typeflag: tar.TypeDir, Name: "d0/", Mode: 0755}, nil)
	nf := 5 + rng.Intn(4)
	for i := 0; i < nf; i++ {
		name := fmt.Sprintf("f%d", i)
		if (grouped && i < nf/2) || (!grouped && i%3 == 0) {
			name = "d0/" + name
		}
		data := rng.Bytes(600 + rng.Intn(5000))
		add(&tar.Header{Typeflag: tar.TypeReg, Name: name, Mode: 0644, Size: int64(len(data))}, data)
	}
	tw.Flush()
	bounds = append(bounds, buf.Len()) // end of the last entry, before the trailer
	tw.Close()
	return buf.Bytes(), bounds
}

func c06TarInCheck(a vh.Args, r *vh.Result, c *c06TarInCase) error {
	bin := os.Getenv("VH_DESYNC")
	if bin == "" {
		return nil
	}
	desync.Digest = desync.SHA512256{}
	input := vh.UnHex(c.TarHex)
	work := filepath.Join(a.Work, "c06tar")
	os.RemoveAll(work)
	sdir := filepath.Join(work, "server")
	if err := os.MkdirAll(sdir, 0755); err != nil {
		return err
	}
	// independent expectation: the entries the stream holds according to archive/tar
	want := map[string]string{".": "dir"}
	var inErr error
	{
		tr := tar.NewReader(bytes.NewReader(input))
		for {
			h, err := tr.Next()
			if err == io.EOF {
				break
			}
			if err != nil {
				inErr = err
				break
			}
			p := path.Clean(h.Name)
			if h.Typeflag == tar.TypeDir {
				want[p] = "dir"
				continue
			}
			b, err := io.ReadAll(tr)
			if err != nil {
				inErr = err
				break
			}
			want[p] = fmt.Sprintf("file:%d:%x", len(b), sha256.Sum256(b))
		}
	}
	// reference: the library on the same stream
	var ref bytes.Buffer
	libErr := desync.Tar(context.Background(), &ref, desync.NewTarReader(bytes.NewReader(input), desync.TarReaderOptions{AddRoot: true}))
	if libErr != nil {
		c.LibErr = libErr.Error()
	}
	srv := &c06Server{dir: sdir, fail: map[string]map[int]bool{}, count: map[string]int{}}
	ts := httptest.NewServer(srv)
	defer ts.Close()
	inFile := filepath.Join(work, "input.tar")
	if err := os.WriteFile(inFile, input, 0644); err != nil {
		return err
	}
	out := filepath.Join(work, "out.caidx")
	ctx, cancel := context.WithTimeout(context.Background(), 60*time.Second)
	defer cancel()
	cmd := exec.CommandContext(ctx, bin, "tar", "-i", "-s", ts.URL+"/", "-n", strconv.Itoa(c.N), "-e", "1", "-b", "1ms",
		"--input-format", "tar", "--tar-add-root", "-m", "1:2:4", out, inFile)
	var stderr bytes.Buffer
	cmd.Stderr = &stderr
	cmd.Env = append(os.Environ(), "HOME="+work)
	err := cmd.Run()
	rc := 0
	if err != nil {
		rc = -1
		if ee, ok := err.(*exec.ExitError); ok {
			rc = ee.ExitCode()
		}
	}
	c.Got = "exit:" + strconv.Itoa(rc)
	c.Detail = strings.TrimSpace(stderr.String())
	if len(c.Detail) > 300 {
		c.Detail = c.Detail[:300]
	}
	key := fmt.Sprintf("tarinput|%d|%s|%d", c.N, c.How, len(input))
	r.Count(key, libErr != nil || inErr != nil)
	if inErr != nil && rc == 0 {
		r.Fail("predicate", "cli-tar/exit0-on-unreadable-input", fmt.Sprintf("desync tar -i (input %s, %d bytes) exited 0 although the tar stream cannot be read to its end: %v", c.How, len(input), inErr), c)
	}
	r.Dist("cli:tar-input " + strings.SplitN(c.How, "@", 2)[0])
	r.Dist("cli-result:tar-input/" + c.Got)
	if libErr != nil && rc == 0 {
		r.Fail("predicate", "cli-tar/exit0-on-failed-input", fmt.Sprintf("desync tar -i (input %s, %d bytes) exited 0 although producing the archive fails: %v", c.How, len(input), libErr), c)
	}
	if libErr == nil && rc != 0 {
		r.Fail("predicate", "cli-tar/error-without-failure", fmt.Sprintf("desync tar -i (input %s) exited %d although the input is readable: %s", c.How, rc, c.Detail), c)
	}
	if rc == 0 {
		f, err := os.Open(out)
		if err != nil {
			r.Fail("predicate", "cli-tar/exit0-but-no-index", fmt.Sprintf("desync tar -i exited 0 but wrote no index: %v", err), c)
			return nil
		}
		idx, err := desync.IndexFromReader(f)
		f.Close()
		if err != nil {
			r.Fail("predicate", "cli-tar/exit0-but-index-unreadable", fmt.Sprintf("desync tar -i exited 0 but its index cannot be read: %v", err), c)
			return nil
		}
		// decode what the index describes back and compare it with the entries of the input
		if inErr == nil {
			var cat bytes.Buffer
			st, _ := desync.NewLocalStore(sdir, desync.StoreOptions{})
			for _, ch := range idx.Chunks {
				chunk, err := st.GetChunk(ch.ID)
				if err != nil {
					r.Fail("predicate", "cli-tar/exit0-but-chunk-not-readable", fmt.Sprintf("desync tar -i exited 0 but chunk %s cannot be read back: %v", ch.ID.String(), err), c)
					return nil
				}
				b, _ := chunk.Data()
				cat.Write(b)
			}
			got := map[string]string{}
			dec := desync.NewArchiveDecoder(bytes.NewReader(cat.Bytes()))
			var derr error
			for {
				node, err := dec.Next()
				if err != nil {
					derr = err
					break
				}
				if node == nil {
					break
				}
				switch nd := node.(type) {
				case desync.NodeDirectory:
					got[path.Clean(nd.Name)] = "dir"
				case desync.NodeFile:
					b, err := io.ReadAll(nd.Data)
					if err != nil {
						derr = err
					}
					got[path.Clean(nd.Name)] = fmt.Sprintf("file:%d:%x", len(b), sha256.Sum256(b))
				}
				if derr != nil {
					break
				}
			}
			cls := "cli-tar/exit0-but-entries-missing"
			if strings.HasPrefix(c.How, "ungrouped") {
				// which entries of a tar stream that is not grouped by directory reach the catar is C05's
				// statement, not C06's: recorded, not judged
				if derr == nil && c07DiffTree(got, want) != "" {
					r.Dist("cli:tar-input ungrouped: entries dropped (not judged here, C05)")
				}
				return nil
			}
			if derr != nil {
				r.Fail("predicate", "cli-tar/exit0-but-archive-malformed", fmt.Sprintf("desync tar -i (input %s) exited 0 but the archive its index describes does not decode: %v", c.How, derr), c)
			} else if d := c07DiffTree(got, want); d != "" {
				var names []string
				for k := range want {
					if _, ok := got[k]; !ok {
						names = append(names, k)
					}
				}
				sort.Strings(names)
				r.Fail("predicate", cls, fmt.Sprintf("desync tar -i (input %s, %d entries) exited 0 but the archive its index describes has %d entries: %s (missing %v)", c.How, len(want), len(got), d, names), c)
			}
		}
		if libErr == nil {
			if d := bkIndexDescribes(idx, ref.Bytes()); d != "" {
				r.Fail("predicate", "cli-tar/exit0-but-index-wrong", fmt.Sprintf("desync tar -i (input %s) exited 0 but the index does not describe the archive of its input: %s", c.How, d), c)
				return nil
			}
			if d := bkReadBack(sdir, idx, ref.Bytes()); d != "" {
				r.Fail("predicate", "cli-tar/exit0-but-chunk-not-readable", fmt.Sprintf("desync tar -i exited 0 but the store is incomplete: %s", d), c)
			}
		} else {
			// what the index describes is not a complete archive: reassemble it and decode it to the end
			var cat bytes.Buffer
			s, _ := desync.NewLocalStore(sdir, desync.StoreOptions{})
			for _, ch := range idx.Chunks {
				if chunk, err := s.GetChunk(ch.ID); err == nil {
					b, _ := chunk.Data()
					cat.Write(b)
				}
			}
			c.Detail = fmt.Sprintf("index covers %d bytes; complete input would give more; the library stops with: %v", idx.Length(), libErr)
		}
	}
	return nil
}

func c06TarInputs(a vh.Args, r *vh.Result, rng *vh.Rand) error {
	if os.Getenv("VH_DESYNC") == "" {
		return nil
	}
	full, bounds := c06MakeTar(rng, true)
	type cut struct {
		how string
		b   []byte
	}
	cuts := []cut{{"complete", full}}
	last := bounds[len(bounds)-1]
	cuts = append(cuts, cut{"cut-before-trailer@" + strconv.Itoa(last), full[:last]})
	nrand := 3
	if a.Tier == "thorough" {
		nrand = 25
	}
	for i := 0; i < nrand; i++ {
		e := 1 + rng.Intn(len(bounds)-2)
		cuts = append(cuts,
			cut{fmt.Sprintf("cut-in-header@%d", bounds[e]+1+rng.Intn(500)), nil},
			cut{fmt.Sprintf("cut-in-data@%d", bounds[e]+512+1+rng.Intn(500)), nil},
			cut{fmt.Sprintf("cut-at-entry@%d", bounds[e]), nil},
			cut{fmt.Sprintf("cut-at-block@%d", bounds[e]+512+512*rng.Intn(2)), nil})
	}
	for i := range cuts {
		if cuts[i].b == nil {
			at, _ := strconv.Atoi(strings.SplitN(cuts[i].how, "@", 2)[1])
			if at > len(full) {
				at = len(full)
			}
			cuts[i].b = full[:at]
		}
	}
	// a damaged header in the middle (checksum no longer matches)
	dm := append([]byte{}, full...)
	dm[bounds[len(bounds)/2]+10] ^= 0x55
	cuts = append(cuts, cut{"damaged-header@" + strconv.Itoa(bounds[len(bounds)/2]), dm})
	// a valid stream whose entries are not grouped by directory
	ung, _ := c06MakeTar(rng, false)
	cuts = append(cuts, cut{"ungrouped-complete", ung})
	for i, cu := range cuts {
		n := []int{1, 4}[i%2]
		c := &c06TarInCase{Op: "tar-input", N: n, TarHex: vh.Hex(cu.b), How: cu.how, Level: "cli-tarinput"}
		if err := c06TarInCheck(a, r, c); err != nil {
			return err
		}
	}
	return nil
}
