package main

// C20: what ends up on disk is a function of the store's format and the chunk's plain bytes only.
//  history: ONE *Chunk object (made by NewChunk, or obtained from GetChunk of a store of some format,
//    directly / through a Cache / through Copy) is handed to StoreChunk of several local stores of either
//    format, in every order, on shared or separate directories; after each step every target directory is
//    judged against the layout predicate (un-suffixed = the raw bytes; .cacnk = one zstd frame of them).
//  content: chunk CONTENTS that look like storage objects -- a complete zstd frame, a truncated one, the
//    bare magic, magic + garbage, another chunk's .cacnk, a hand-assembled frame, gzip/xz magics -- stored in
//    both formats, and a .zst-like file chopped into a store; what StoreChunk accepted, GetChunk must return
//    and Verify(repair) must keep.

import (
	"bytes"
	"context"
	"fmt"
	"os"
	"path/filepath"
	"strings"

	"github.com/folbricht/desync"

	"vh/internal/vh"
)

type c20HistCase struct {
	Kind    string   `json:"kind"`   // history | content | chop
	Origin  string   `json:"origin"` // new | get | cache | copy
	SrcUnc  bool     `json:"src_unc,omitempty"`
	CchUnc  bool     `json:"cache_unc,omitempty"`
	Targets []bool   `json:"targets_unc,omitempty"` // format of each StoreChunk target, in order
	Shared  bool     `json:"shared_dir,omitempty"`  // all targets (and the cache) on one directory
	DataHex string   `json:"data,omitempty"`
	Family  string   `json:"family,omitempty"`
	Step    int      `json:"failing_step,omitempty"`
	What    string   `json:"what,omitempty"`
}

// layoutProblem judges the chunk files of (id, data) under dir for the formats in want.
func layoutProblem(dir string, data []byte, want map[bool]bool) string {
	idh := lsSha256Hex(data)
	for _, unc := range []bool{false, true} {
		ext := ".cacnk"
		if unc {
			ext = ""
		}
		b, err := os.ReadFile(filepath.Join(dir, idh[:4], idh+ext))
		if err != nil {
			if want[unc] {
				return fmt.Sprintf("no %s file for the chunk after StoreChunk returned nil", map[bool]string{true: "un-suffixed", false: ".cacnk"}[unc])
			}
			continue
		}
		if unc {
			if !bytes.Equal(b, data) {
				return fmt.Sprintf("the un-suffixed (uncompressed) chunk file holds %d bytes that are not the chunk's %d raw bytes (starts %x)", len(b), len(data), b[:min(8, len(b))])
			}
			continue
		}
		if _, ferr := zstdSingleFrame(b); ferr != nil {
			return fmt.Sprintf("the .cacnk file is not a zstd frame (%v; starts %x, %d bytes for %d bytes of data)", ferr, b[:min(8, len(b))], len(b), len(data))
		}
		if p, derr := desync.Decompress(nil, b); derr != nil || !bytes.Equal(p, data) {
			return fmt.Sprintf("the .cacnk file does not decompress to the chunk (err=%v)", derr)
		}
	}
	return ""
}

func c20History(a vh.Args, r *vh.Result, c *c20HistCase) error {
	desync.Digest = desync.SHA256{}
	data := vh.UnHex(c.DataHex)
	idh := lsSha256Hex(data)
	id, _ := desync.ChunkIDFromString(idh)
	root, err := lsFreshDir(a.Work, "hist")
	if err != nil {
		return err
	}
	mk := func(name string, unc bool) (desync.LocalStore, string, error) {
		d := filepath.Join(root, name)
		os.MkdirAll(d, 0755)
		s, err := lsLocalStore(d, unc, false)
		return s, d, err
	}
	fail := func(step int, class, what string) {
		c.Step, c.What = step, what
		r.Fail("predicate", class, what, c)
	}
	r.Count(fmt.Sprintf("history|%s|%v|%v|%v|%v|%d", c.Origin, c.SrcUnc, c.CchUnc, c.Targets, c.Shared, len(data)), true)
	r.Dist("history-origin:" + c.Origin)
	// the source store, written by the harness itself (not through StoreChunk)
	srcDir := filepath.Join(root, "src")
	{
		obj, ext := data, ""
		if !c.SrcUnc {
			obj, _ = desync.Compress(data)
			ext = ".cacnk"
		}
		os.MkdirAll(filepath.Join(srcDir, idh[:4]), 0755)
		os.WriteFile(filepath.Join(srcDir, idh[:4], idh+ext), obj, 0644)
	}
	src, err := lsLocalStore(srcDir, c.SrcUnc, false)
	if err != nil {
		return err
	}
	tdir := func(i int) string {
		if c.Shared {
			return "shared"
		}
		return fmt.Sprintf("t%d", i)
	}
	written := map[string]map[bool]bool{} // dir -> formats StoreChunk has been asked to write
	note := func(d string, unc bool) {
		if written[d] == nil {
			written[d] = map[bool]bool{}
		}
		written[d][unc] = true
	}
	check := func(step int) bool {
		for d, want := range written {
			if p := layoutProblem(d, data, want); p != "" {
				fail(step, "history/wrong-object-on-disk", fmt.Sprintf("origin %s, after step %d in %s: %s", c.Origin, step, filepath.Base(d), p))
				return false
			}
		}
		return true
	}
	var chunk *desync.Chunk
	switch c.Origin {
	case "new":
		chunk = desync.NewChunk(data)
	case "get":
		if chunk, err = src.GetChunk(id); err != nil {
			return err
		}
	case "cache":
		cs, cd, err := mk(map[bool]string{true: "shared", false: "cache"}[c.Shared], c.CchUnc)
		if err != nil {
			return err
		}
		if chunk, err = desync.NewCache(src, cs).GetChunk(id); err != nil {
			fail(0, "history/store-fails", fmt.Sprintf("GetChunk through a cache: %v", err))
			return nil
		}
		note(cd, c.CchUnc)
		if !check(0) {
			return nil
		}
	case "copy":
		cs, cd, err := mk(map[bool]string{true: "shared", false: "cache"}[c.Shared], c.CchUnc)
		if err != nil {
			return err
		}
		ts, td, err := mk(tdir(0), c.Targets[0])
		if err != nil {
			return err
		}
		if err := desync.Copy(context.Background(), []desync.ChunkID{id}, desync.NewCache(src, cs), ts, 1, desync.NullProgressBar{}); err != nil {
			fail(0, "history/store-fails", fmt.Sprintf("Copy through a cache: %v", err))
			return nil
		}
		note(cd, c.CchUnc)
		note(td, c.Targets[0])
		check(0)
		return nil
	}
	for i, unc := range c.Targets {
		ts, td, err := mk(tdir(i), unc)
		if err != nil {
			return err
		}
		if err := ts.StoreChunk(chunk); err != nil {
			fail(i+1, "history/store-fails", fmt.Sprintf("StoreChunk #%d (unc=%v) of the same chunk object: %v", i+1, unc, err))
			return nil
		}
		note(td, unc)
		if !check(i + 1) {
			return nil
		}
		// and it is served back
		got, gerr := ts.GetChunk(id)
		var d []byte
		if gerr == nil {
			d, _ = got.Data()
		}
		if gerr != nil || !bytes.Equal(d, data) {
			fail(i+1, "history/not-served-back", fmt.Sprintf("GetChunk after StoreChunk #%d (unc=%v): err=%v", i+1, unc, gerr))
			return nil
		}
	}
	return nil
}

// ---------- contents that look like storage objects ----------

func c20ContentFamilies(rng *vh.Rand) map[string][]byte {
	inner := rng.Bytes(40 + rng.Intn(200))
	frame, _ := desync.Compress(inner)
	text, _ := desync.Compress(bytes.Repeat([]byte("abc"), 500))
	magic := []byte{0x28, 0xb5, 0x2f, 0xfd}
	return map[string][]byte{
		"zstd-complete-frame":       frame,
		"zstd-frame-of-text":        text,
		"zstd-truncated-frame":      frame[:len(frame)/2],
		"zstd-magic-only":           magic,
		"zstd-magic+garbage":        append(append([]byte{}, magic...), rng.Bytes(1+rng.Intn(100))...),
		"zstd-frame+trailing":       append(append([]byte{}, frame...), rng.Bytes(10)...),
		"zstd-hand-frame-2MiB":      buildFrame(inner, frameSpec{WDesc: 0x58, Blocks: "raw"}),
		"zstd-skippable-frame":      append([]byte{0x50, 0x2a, 0x4d, 0x18, 4, 0, 0, 0}, rng.Bytes(4)...),
		"gzip-magic":                append([]byte{0x1f, 0x8b, 0x08, 0}, rng.Bytes(30)...),
		"xz-magic":                  append([]byte{0xfd, 0x37, 0x7a, 0x58, 0x5a, 0}, rng.Bytes(30)...),
		"plain-control":             rng.Bytes(64),
		"magic-at-offset-1-control": append([]byte{0}, frame...),
	}
}

func c20Content(a vh.Args, r *vh.Result, c *c20HistCase) error {
	desync.Digest = desync.SHA256{}
	data := vh.UnHex(c.DataHex)
	idh := lsSha256Hex(data)
	id, _ := desync.ChunkIDFromString(idh)
	unc := c.Targets[0]
	dir, err := lsFreshDir(a.Work, "content")
	if err != nil {
		return err
	}
	s, err := lsLocalStore(dir, unc, false)
	if err != nil {
		return err
	}
	r.Count(fmt.Sprintf("content|%s|%v|%d", c.Family, unc, len(data)), c.Family != "plain-control")
	r.Dist("content-family:" + c.Family)
	fail := func(class, what string) {
		c.What = what
		r.Fail("predicate", class, what, c)
	}
	if err := s.StoreChunk(desync.NewChunk(data)); err != nil {
		fail("content/store-fails", fmt.Sprintf("StoreChunk of a chunk whose content is %s (unc=%v): %v", c.Family, unc, err))
		return nil
	}
	if p := layoutProblem(dir, data, map[bool]bool{unc: true}); p != "" {
		fail("content/wrong-object-on-disk", fmt.Sprintf("chunk whose content is %s (%d bytes, starts %x): %s", c.Family, len(data), data[:min(6, len(data))], p))
		return nil
	}
	got, gerr := s.GetChunk(id)
	var d []byte
	if gerr == nil {
		d, _ = got.Data()
	}
	if gerr != nil || !bytes.Equal(d, data) {
		fail("content/not-served-back", fmt.Sprintf("chunk whose content is %s was accepted by StoreChunk but GetChunk says: %v", c.Family, gerr))
		return nil
	}
	var w lsLockedBuf
	s.Verify(context.Background(), 2, true, &w)
	if ok, _ := s.HasChunk(id); !ok {
		fail("content/verify-removes-valid", fmt.Sprintf("Verify(repair) deleted a valid chunk whose content is %s: %s", c.Family, strings.TrimSpace(w.b.String())))
	}
	return nil
}

// chop a .zst-like file (a zstd frame followed by more frames) into a store: its first chunk starts with the magic
func c20Chop(a vh.Args, r *vh.Result, c *c20HistCase) error {
	desync.Digest = desync.SHA256{}
	unc := c.Targets[0]
	dir, err := lsFreshDir(a.Work, "chop")
	if err != nil {
		return err
	}
	blob := vh.UnHex(c.DataHex)
	file := filepath.Join(a.Work, "blob.zst")
	if err := os.WriteFile(file, blob, 0644); err != nil {
		return err
	}
	s, err := lsLocalStore(dir, unc, false)
	if err != nil {
		return err
	}
	ctx := context.Background()
	idx, _, err := desync.IndexFromFile(ctx, file, 2, 64, 256, 1024, desync.NullProgressBar{})
	if err != nil {
		return err
	}
	r.Count(fmt.Sprintf("chop|%v|%d|%d", unc, len(blob), len(idx.Chunks)), true)
	fail := func(class, what string) {
		c.What = what
		r.Fail("predicate", class, what, c)
	}
	if err := desync.ChopFile(ctx, file, idx.Chunks, s, 2, desync.NullProgressBar{}); err != nil {
		fail("content/store-fails", fmt.Sprintf("ChopFile of a .zst file: %v", err))
		return nil
	}
	var w lsLockedBuf
	s.Verify(ctx, 2, true, &w)
	for i, ch := range idx.Chunks {
		want := blob[ch.Start : ch.Start+ch.Size]
		got, gerr := s.GetChunk(ch.ID)
		var d []byte
		if gerr == nil {
			d, _ = got.Data()
		}
		if gerr != nil || !bytes.Equal(d, want) {
			fail("content/not-served-back", fmt.Sprintf("chunk %d of a chopped .zst file (starts %x) is not served back after chop + verify -r: %v; verify said: %s", i, want[:min(6, len(want))], gerr, strings.TrimSpace(w.b.String())))
			return nil
		}
	}
	return nil
}

func c20ObjectsAll(a vh.Args, r *vh.Result, rng *vh.Rand) error {
	thorough := a.Tier == "thorough"
	// histories: every origin x every order of two/three target formats x shared/separate directories
	orders := [][]bool{{false, true}, {true, false}, {false, false}, {true, true}, {false, true, false}, {true, false, true}}
	reps := 1
	if thorough {
		reps = 8
	}
	for rep := 0; rep < reps; rep++ {
		for _, origin := range []string{"new", "get", "cache", "copy"} {
			for _, ord := range orders {
				for _, shared := range []bool{false, true} {
					for _, srcUnc := range []bool{false, true} {
						if origin == "new" && srcUnc {
							continue
						}
						data, _ := vh.Blob(rng, 1+rng.Intn(3000))
						c := &c20HistCase{Kind: "history", Origin: origin, SrcUnc: srcUnc, CchUnc: !srcUnc, Targets: ord, Shared: shared, DataHex: vh.Hex(data)}
						if origin == "cache" || origin == "copy" {
							c.CchUnc = rng.Bool()
							if rep == 0 {
								c.CchUnc = !srcUnc
							}
						}
						if err := c20History(a, r, c); err != nil {
							return err
						}
					}
				}
			}
		}
	}
	for rep := 0; rep < reps; rep++ {
		for fam, data := range c20ContentFamilies(rng) {
			for _, unc := range []bool{false, true} {
				c := &c20HistCase{Kind: "content", Family: fam, Targets: []bool{unc}, DataHex: vh.Hex(data)}
				if err := c20Content(a, r, c); err != nil {
					return err
				}
			}
		}
		for _, unc := range []bool{false, true} {
			var blob []byte
			for k := 0; k < 4; k++ {
				f, _ := desync.Compress(rng.Bytes(500 + rng.Intn(1500)))
				blob = append(blob, f...)
			}
			c := &c20HistCase{Kind: "chop", Targets: []bool{unc}, DataHex: vh.Hex(blob)}
			if err := c20Chop(a, r, c); err != nil {
				return err
			}
		}
	}
	return nil
}
