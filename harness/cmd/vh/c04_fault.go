package main

// C04, write faults: whenever Index.WriteTo / an index store's StoreIndex / `desync make` reports
// SUCCESS, the bytes that reached the target are exactly the full encoding of the index (and n is
// its length).  Any error is fine.  The target accepts k bytes and then fails (ENOSPC from there
// on, or one EIO): every k in [0, len] for small indexes, block boundaries and a sample for large
// ones; a LocalIndexStore whose file is /dev/full (directly and behind the HTTP index handler);
// `desync make` onto /dev/full, onto a stdout that is /dev/full, and under `ulimit -f`.

import (
	"bytes"
	"fmt"
	"net/http"
	"net/http/httptest"
	"os"
	"os/exec"
	"path/filepath"
	"strconv"
	"strings"
	"syscall"

	"github.com/folbricht/desync"

	"vh/internal/vh"
)

type c04Fault struct {
	Kind   string  `json:"kind"` // "fault"
	Target string  `json:"target"` // writer | local-devfull | http-devfull | cli-devfull | cli-stdout-devfull | cli-fsize
	Digest string  `json:"digest"`
	Step   c04Step `json:"index"`
	Cap    int     `json:"capacity,omitempty"`
	Mode   string  `json:"mode,omitempty"` // enospc | transient
	Seed   uint64  `json:"seed,omitempty"`
	What   string  `json:"what,omitempty"`
}

type c04FaultWriter struct {
	cap    int
	mode   string
	buf    []byte
	failed bool
}

func (w *c04FaultWriter) Write(p []byte) (int, error) {
	room := w.cap - len(w.buf)
	if room < 0 {
		room = 0
	}
	if w.mode == "transient" && w.failed || len(p) <= room {
		w.buf = append(w.buf, p...)
		return len(p), nil
	}
	w.buf = append(w.buf, p[:room]...)
	w.failed = true
	if w.mode == "transient" {
		return room, syscall.EIO
	}
	return room, syscall.ENOSPC
}

func c04RunFault(a vh.Args, o *vh.Oracle, r *vh.Result, f *c04Fault, corr bool) error {
	c04SetDigest(f.Digest)
	fail := func(class, what string) {
		c := *f
		c.What = what
		r.Fail("predicate", class, what, &c)
	}
	r.Dist("fault:" + f.Target)
	switch f.Target {
	case "writer":
		c := f.Step.asCase(f.Digest)
		idx := c04BuildIndex(c)
		var full bytes.Buffer
		idx.WriteTo(&full)
		r.Count(fmt.Sprintf("fault|writer|%s|%d|%d|%s", f.Digest, len(f.Step.Rows), f.Cap, f.Mode), f.Cap < full.Len())
		w := &c04FaultWriter{cap: f.Cap, mode: f.Mode}
		n, err := idx.WriteTo(w)
		complete := bytes.Equal(w.buf, full.Bytes())
		switch {
		case err == nil && !complete:
			fail("fault/writeto-success-incomplete", fmt.Sprintf("Index.WriteTo (%d chunks, %d bytes) onto a writer that fails after %d bytes (%s) returned n=%d err=nil; %d bytes arrived", len(f.Step.Rows), full.Len(), f.Cap, f.Mode, n, len(w.buf)))
		case err == nil && n != int64(full.Len()):
			fail("fault/writeto-count", fmt.Sprintf("Index.WriteTo returned n=%d for %d bytes", n, full.Len()))
		case !bytes.HasPrefix(full.Bytes(), w.buf) && f.Mode == "enospc":
			fail("fault/writeto-not-a-prefix", "the bytes that arrived are not a prefix of the encoding")
		}
		if corr && o != nil && f.Mode == "enospc" {
			ans, oerr := o.Call("c04.writeto", strconv.Itoa(f.Cap), u64s(c.Flags), u64s(c.Min), u64s(c.Avg), u64s(c.Max), c04RowsArg(c))
			if oerr != nil {
				return oerr
			}
			r.Corr()
			p := strings.Split(ans, " ")
			got := "err"
			if err == nil {
				got = "ok"
			}
			if p[0] != got || p[1] != strconv.Itoa(len(w.buf)) {
				c := *f
				r.Fail("corr", "corr:C04/writeto-fault", fmt.Sprintf("capacity %d of %d: WriteTo %s with %d bytes accepted, index_write_to %s with %s", f.Cap, full.Len(), got, len(w.buf), p[0], p[1]), &c)
			}
		}
	case "local-devfull", "http-devfull":
		r.Count(fmt.Sprintf("fault|%s|%s|%d", f.Target, f.Digest, len(f.Step.Rows)), true)
		dir, err := os.MkdirTemp(a.Work, "devfull")
		if err != nil {
			return err
		}
		if err := os.Symlink("/dev/full", filepath.Join(dir, "x.caibx")); err != nil {
			return err
		}
		local, err := desync.NewLocalIndexStore(dir)
		if err != nil {
			return err
		}
		idx := c04BuildIndex(f.Step.asCase(f.Digest))
		if f.Target == "local-devfull" {
			if err := local.StoreIndex("x.caibx", idx); err == nil {
				fail("fault/store-success-on-full-device", fmt.Sprintf("LocalIndexStore.StoreIndex of a %d-chunk index onto a full device (every write fails with ENOSPC) reported success", len(f.Step.Rows)))
			}
			return nil
		}
		var body bytes.Buffer
		idx.WriteTo(&body)
		h := desync.NewHTTPIndexHandler(local, true, "")
		rec := httptest.NewRecorder()
		h.ServeHTTP(rec, httptest.NewRequest("PUT", "/x.caibx", bytes.NewReader(body.Bytes())))
		if rec.Code/100 == 2 {
			fail("fault/http-put-success-on-full-device", fmt.Sprintf("PUT of a %d-chunk index to an index server whose store is on a full device answered %d", len(f.Step.Rows), rec.Code))
		}
	case "cli-devfull", "cli-stdout-devfull", "cli-fsize":
		bin := os.Getenv("VH_DESYNC")
		if bin == "" {
			r.Note("VH_DESYNC not set: CLI fault cases skipped")
			return nil
		}
		r.Count(fmt.Sprintf("fault|%s|%s|%d", f.Target, f.Digest, f.Step.BlobLen), true)
		dir, err := os.MkdirTemp(a.Work, "clifault")
		if err != nil {
			return err
		}
		blob := filepath.Join(dir, "blob")
		data := vh.NewRand(f.Seed).Bytes(f.Step.BlobLen)
		os.WriteFile(blob, data, 0644)
		idxFile := filepath.Join(dir, "out.caibx")
		var cmd *exec.Cmd
		switch f.Target {
		case "cli-devfull":
			cmd = exec.Command(bin, "make", "--digest", f.Digest, "-m", "64:256:1024", "/dev/full", blob)
		case "cli-stdout-devfull":
			cmd = exec.Command(bin, "make", "--digest", f.Digest, "-m", "64:256:1024", "-", blob)
			full, err := os.OpenFile("/dev/full", os.O_WRONLY, 0)
			if err != nil {
				return err
			}
			defer full.Close()
			cmd.Stdout = full
		default: // the index file may grow to 1 block of `ulimit -f`
			cmd = exec.Command("sh", "-c", "ulimit -f 1; exec \"$0\" make --digest \"$1\" -m 64:256:1024 \"$2\" \"$3\"", bin, f.Digest, idxFile, blob)
		}
		err = cmd.Run()
		if err != nil {
			return nil // an error (or death by SIGXFSZ) is fine
		}
		if f.Target != "cli-fsize" {
			fail("fault/cli-success-on-full-device", fmt.Sprintf("`desync make` of a %d-byte blob with the index going to a full device (%s) exited 0", len(data), f.Target))
			return nil
		}
		got, _ := os.ReadFile(idxFile)
		idx, rerr := desync.IndexFromReader(bytes.NewReader(got))
		if rerr != nil || idx.Length() != int64(len(data)) {
			fail("fault/cli-success-incomplete", fmt.Sprintf("`desync make` under a file size limit exited 0 but the index file (%d bytes) does not describe the blob: %v", len(got), rerr))
		}
	default:
		return fmt.Errorf("unknown fault target %s", f.Target)
	}
	return nil
}

func c04Faults(a vh.Args, o *vh.Oracle, r *vh.Result, rng *vh.Rand) error {
	thorough := a.Tier == "thorough"
	rowsList := []int{0, 1, 3, 20, 99, 100, 101, 250}
	if thorough {
		rowsList = append(rowsList, 2, 50, 102, 203, 204, 205, 700, 2000)
	}
	for ri, nrows := range rowsList {
		digest := []string{"sha256", "sha512-256"}[ri%2]
		step := c04GenStep(rng, digest, nrows)
		size := 104 + 40*nrows
		caps := map[int]bool{}
		if size <= 1000 || thorough && size <= 4200 {
			for k := 0; k <= size; k++ {
				caps[k] = true
			}
		} else {
			for _, k := range []int{0, 1, 47, 48, 63, 64, 65, 104, size - 41, size - 40, size - 39, size - 8, size - 1, size, size + 1} {
				caps[k] = true
			}
			for b := 4096; b <= size+4096; b += 4096 {
				for _, d := range []int{-1, 0, 1, 40} {
					caps[b+d] = true
				}
			}
			for t := 0; t < 25; t++ {
				caps[rng.Intn(size)] = true
			}
		}
		n := 0
		for k := 0; k <= size+4097; k++ {
			if !caps[k] {
				continue
			}
			n++
			for _, mode := range []string{"enospc", "transient"} {
				f := &c04Fault{Kind: "fault", Target: "writer", Digest: digest, Step: step, Cap: k, Mode: mode}
				// the model comparison on every capacity of the small indexes, a stride otherwise
				if err := c04RunFault(a, o, r, f, size <= 300 || n%7 == 0 || k >= size-1); err != nil {
					return err
				}
			}
		}
	}
	for _, nrows := range []int{0, 3, 99, 150} {
		for _, target := range []string{"local-devfull", "http-devfull"} {
			digest := "sha512-256"
			f := &c04Fault{Kind: "fault", Target: target, Digest: digest, Step: c04GenStep(rng, digest, nrows)}
			if err := c04RunFault(a, o, r, f, false); err != nil {
				return err
			}
		}
	}
	for _, blobLen := range []int{0, 3000, 60000} {
		for _, target := range []string{"cli-devfull", "cli-stdout-devfull", "cli-fsize"} {
			if target == "cli-fsize" && blobLen < 60000 {
				continue // the index has to outgrow the limit
			}
			f := &c04Fault{Kind: "fault", Target: target, Digest: "sha256", Step: c04Step{BlobLen: blobLen}, Seed: rng.U64()}
			if err := c04RunFault(a, o, r, f, false); err != nil {
				return err
			}
		}
	}
	return nil
}

var _ = http.StatusOK
