package main

// C14 (k) sizes: chunk uploads and downloads through the HTTP chunk server with bodies at and
// just above every size a limit could plausibly sit at: 64 KiB, 1 MiB, 16 MiB and 128 MiB
// (casync's CA_CHUNK_SIZE_LIMIT_MAX), each -1 / 0 / +1 (and more offsets in the thorough tier).
// Uncompressed server over an uncompressed LocalStore, so the body is the raw chunk.  The data is
// a cheap incompressible PRNG stream; the upload is STREAMED (the harness never holds the chunk),
// hashed once while it is generated; the stored file and the download are hashed while read.
// Judged on the implementation alone: 200 for the PUT => the stored object is exactly what was
// sent (same length, same digest); 200 for the GET => the body is exactly what was sent; an
// upload that is refused leaves nothing behind.
// Tiers: quick = 64 KiB, 1 MiB, 16 MiB (-1, 0, +1) with write verification off and on, and
// 128 MiB (0, +1) with verification off (the default of chunk-server); thorough = all four sizes
// with offsets -4096, -1, 0, +1, +4096, verification off and on.

import (
	"crypto/sha256"
	"encoding/hex"
	"fmt"
	"io"
	"net/http"
	"net/http/httptest"
	"os"
	"path/filepath"
	"strconv"
	"strings"
	"time"

	"github.com/folbricht/desync"

	"vh/internal/vh"
)

// deterministic incompressible stream of n bytes
type c14Stream struct {
	s uint64
	n int64
}

func (p *c14Stream) Read(b []byte) (int, error) {
	if p.n <= 0 {
		return 0, io.EOF
	}
	if int64(len(b)) > p.n {
		b = b[:p.n]
	}
	i := 0
	for ; i+8 <= len(b); i += 8 {
		p.s ^= p.s << 13
		p.s ^= p.s >> 7
		p.s ^= p.s << 17
		v := p.s
		b[i], b[i+1], b[i+2], b[i+3], b[i+4], b[i+5], b[i+6], b[i+7] = byte(v), byte(v>>8), byte(v>>16), byte(v>>24), byte(v>>32), byte(v>>40), byte(v>>48), byte(v>>56)
	}
	for ; i < len(b); i++ {
		p.s ^= p.s << 13
		p.s ^= p.s >> 7
		p.s ^= p.s << 17
		b[i] = byte(p.s)
	}
	p.n -= int64(len(b))
	return len(b), nil
}

func c14HashReader(r io.Reader) (string, int64) {
	h := sha256.New()
	n, _ := io.Copy(h, r)
	return hex.EncodeToString(h.Sum(nil)), n
}

func c14SizeFamily(a vh.Args, o *vh.Oracle, r *vh.Result, rng *vh.Rand) error {
	type sz struct {
		base int64
		name string
	}
	bases := []sz{{64 << 10, "64KiB"}, {1 << 20, "1MiB"}, {16 << 20, "16MiB"}, {128 << 20, "128MiB"}}
	offs := []int64{-1, 0, 1}
	if a.Tier == "thorough" {
		offs = []int64{-4096, -1, 0, 1, 4096}
	}
	for _, skipVerify := range []bool{true, false} {
		dir := filepath.Join(a.Work, fmt.Sprintf("sizes-%v", skipVerify))
		os.MkdirAll(dir, 0755)
		ls, err := desync.NewLocalStore(dir, desync.StoreOptions{Uncompressed: true, SkipVerify: true})
		if err != nil {
			return err
		}
		srv := httptest.NewServer(desync.NewHTTPHandler(ls, true, skipVerify, nil, ""))
		for _, b := range bases {
			for _, off := range offs {
				if a.Tier != "thorough" && b.base == 128<<20 && (off < 0 || !skipVerify) {
					continue
				}
				if err := c14SizeOne(a, o, r, srv.URL, dir, b.name, b.base+off, off, skipVerify, rng.U64()|1); err != nil {
					srv.Close()
					return err
				}
			}
		}
		srv.Close()
		os.RemoveAll(dir)
	}
	r.Note("sizes: %s tier covers bodies of 64 KiB, 1 MiB, 16 MiB (offsets %v, write verification off and on) and 128 MiB (%s)", a.Tier, offs,
		map[bool]string{true: "same offsets, verification off and on", false: "offsets 0 and +1, verification off"}[a.Tier == "thorough"])
	return nil
}

func c14SizeOne(a vh.Args, o *vh.Oracle, r *vh.Result, base, dir, name string, n, off int64, skipVerify bool, seed uint64) error {
	t0 := time.Now()
	sentHash, _ := c14HashReader(&c14Stream{s: seed, n: n}) // = the chunk id (SHA-256)
	path := "/" + sentHash[:4] + "/" + sentHash
	file := filepath.Join(dir, sentHash[:4], sentHash)
	// streamed upload
	req, err := http.NewRequest("PUT", base+path, io.NopCloser(&c14Stream{s: seed, n: n}))
	if err != nil {
		return err
	}
	req.ContentLength = n
	putCode := 0
	if resp, err := http.DefaultClient.Do(req); err == nil {
		io.Copy(io.Discard, resp.Body)
		resp.Body.Close()
		putCode = resp.StatusCode
	}
	storedHash, storedLen := "", int64(-1)
	if f, err := os.Open(file); err == nil {
		storedHash, storedLen = c14HashReader(f)
		f.Close()
	}
	// download
	getCode, gotHash, gotLen := 0, "", int64(-1)
	if resp, err := http.Get(base + path); err == nil {
		gotHash, gotLen = c14HashReader(resp.Body)
		resp.Body.Close()
		getCode = resp.StatusCode
	}
	http.DefaultClient.CloseIdleConnections()
	os.Remove(file)
	c := &c14Case{Part: "sizes", Op: fmt.Sprintf("%s%+d", name, off), PayloadLen: int(n), StoreSkip: skipVerify,
		Got: fmt.Sprintf("put %d, stored %d bytes, get %d with %d bytes", putCode, storedLen, getCode, gotLen)}
	r.Count(fmt.Sprintf("sizes|%s|%d|%v", name, off, skipVerify), true)
	r.Dist("part:sizes")
	r.Dist("sizes-base:" + name)
	r.Dist(fmt.Sprintf("sizes-put:%d", putCode))
	r.Sample(map[string]interface{}{"part": "sizes", "bytes": n, "skip_verify_write": skipVerify, "put": putCode, "stored_bytes": storedLen, "get": getCode, "ms": time.Since(t0).Milliseconds()})
	what := func(m string) string {
		return fmt.Sprintf("chunk of %d bytes (%s%+d) through an uncompressed chunk server (skip-verify-write=%v): %s; %s", n, name, off, skipVerify, m, c.Got)
	}
	switch {
	case putCode == 200 && storedLen >= 0 && storedLen < n:
		r.Fail("predicate", "sizes/put-truncated", what(fmt.Sprintf("the upload was answered 200 but only the first %d bytes were stored under the chunk's id (a failure reported as success)", storedLen)), c)
	case putCode == 200 && (storedLen != n || storedHash != sentHash):
		r.Fail("predicate", "sizes/put-ok-not-stored", what("the upload was answered 200 but the stored object is not what was sent"), c)
	case putCode != 200 && storedLen >= 0:
		r.Fail("predicate", "sizes/put-refused-but-stored", what("the upload was refused but an object was left in the store"), c)
	}
	if getCode == 200 && (gotLen != n || gotHash != sentHash) {
		r.Fail("predicate", "sizes/get-wrong-data", what("the download was answered 200 but the body is not the chunk that was sent"), c)
	}
	if putCode == 200 && getCode != 200 {
		r.Fail("predicate", "sizes/stored-not-delivered", what("the chunk was accepted but cannot be downloaded"), c)
	}
	// model: for every body length a PUT of a chunk under its own id is answered 200 and the file is the
	// body (C14_put_200_stores_body); run through the oracle for the sizes whose hex fits a line
	if o != nil {
		r.Corr()
		if n <= 70000 {
			data, _ := io.ReadAll(&c14Stream{s: seed, n: n})
			zt, ct := "-", "-"
			ans, err := o.Call("c14.remote", "put", "1", "1", "1", "-", "1", b01(skipVerify), "0", "1", "1", sentHash, vh.Hex(data), "-", zt, ct)
			if err != nil {
				return err
			}
			f := strings.Split(ans, " ")
			want := "error"
			if putCode == 200 {
				want = "ok"
			}
			if f[0] != want || (putCode == 200 && (len(f) < 3 || f[2] != sentHash+":"+vh.Hex(data))) {
				r.Fail("corr", "corr:C14/sizes", what("model: "+f[0]), c)
			}
		} else if putCode != 200 {
			r.Fail("corr", "corr:C14/sizes", what("the model accepts a chunk sent under its own id whatever its length, the server answered "+strconv.Itoa(putCode)), c)
		}
	}
	return nil
}
