package main

import (
	"fmt"
	"strconv"
	"strings"

	"github.com/folbricht/desync"

	"vh/internal/vh"
)

// Correspondence of AssembleFile's plan / validate / skip / regenerate loop with Model/Regenerate.v
// (oracle command c01.vloop).  The verif build reports the plan the loop ended with and the number
// of attempts (events a.plan / a.planned).  The model computes the validation verdicts from the
// seeds' file contents.  With one validation worker the seed that is marked is the first failing
// one in plan order, and the run must agree with the model exactly (attempts, plan entries and the
// seed of every entry); with several workers which failing seeds are marked depends on timing,
// and the run is held to what Proofs/RegenerateProofs.v proves for every choice: at most
// (stale seeds + 1) attempts when regenerating, (usable file seeds + 1) when skipping, and the
// model's plan itself when the model needs a single attempt.

// planObs extracts the a.plan / a.planned events of a recorded run.
func (rec *c01Recorder) planObs() (string, int) {
	var ents []string
	attempts := 0
	for _, e := range rec.evs {
		switch e.ev {
		case "a.plan":
			ents = append(ents, fmt.Sprintf("%d:%d:%d", e.a, e.b, e.c))
		case "a.planned":
			attempts = int(e.a)
		}
	}
	if len(ents) == 0 {
		return "-", attempts
	}
	return strings.Join(ents, ","), attempts
}

func c01RowSpec(idx desync.Index) string {
	var rows []string
	for _, c := range idx.Chunks {
		rows = append(rows, fmt.Sprintf("%x:%d", c.ID[:], c.Size))
	}
	if len(rows) == 0 {
		return "-"
	}
	return strings.Join(rows, ",")
}

// c01VloopArgs builds the oracle arguments of a case (SHA256 ids, as in the trace cases); ok is
// false when the case is outside the model (a seed that aliases the target, or whose file is gone).
func c01VloopArgs(c *c01Case) ([]string, bool) {
	for _, s := range c.Seeds {
		if s.Kind == "self" || s.Kind == "gone" {
			return nil, false
		}
	}
	save := desync.Digest
	desync.Digest = desync.SHA256{}
	defer func() { desync.Digest = save }()
	blob := vh.UnHex(c.BlobHex)
	sizes, err := chunkSizes(blob, c.Min, c.Avg, c.Max)
	if err != nil {
		return nil, false
	}
	idx := indexOfPieces(blob, sizes, c.Min, c.Avg, c.Max)
	cr := c01Bit(c.Clone)
	null := desync.NewNullChunk(c.Max)
	args := []string{[]string{"bail", "skip", "regen"}[c.Action], fmt.Sprint(c.Min), fmt.Sprint(c.Avg), fmt.Sprint(c.Max),
		c01RowSpec(idx), fmt.Sprintf("n:%s:%x", cr, null.ID[:])}
	for _, s := range c.Seeds {
		sidx := indexOfPieces(vh.UnHex(s.IndexHex), s.Pieces, c.Min, c.Avg, c.Max)
		args = append(args, fmt.Sprintf("f:%s:%s:%s", cr, c01RowSpec(sidx), hexOrDash(vh.UnHex(s.FileHex))))
	}
	return args, true
}

func c01JudgeVloop(o *vh.Oracle, r *vh.Result, c *c01Case) error {
	if c.CancelAt != 0 {
		return nil // a cancelled run may stop anywhere in the loop; the model's loop has no cancellation
	}
	if o == nil || !c.Trace || c.Result == "" || c.Result == "hang" || strings.HasPrefix(c.Result, "panic") ||
		strings.HasPrefix(c.Result, "err:harness") || strings.HasPrefix(c.Result, "plan-not-tiling") {
		return nil
	}
	args, ok := c01VloopArgs(c)
	if !ok {
		r.Dist("vloop:outside-model")
		return nil
	}
	ans, err := o.Call("c01.vloop", args...)
	if err != nil {
		return err
	}
	f := strings.Fields(ans)
	if len(f) != 5 {
		c.VloopModel = ans
		r.Fail("harness", "harness-error", "c01.vloop: "+ans, c)
		return nil
	}
	r.Corr()
	c.VloopModel = ans
	mok := f[0] == "1"
	matt, _ := strconv.Atoi(f[1])
	mplan := f[2]
	stale, _ := strconv.Atoi(f[3])
	usable, _ := strconv.Atoi(f[4])
	act := []string{"bail", "skip", "regen"}[c.Action]
	r.Dist(fmt.Sprintf("vloop:%s:model-attempts=%d", act, matt))
	r.Dist(fmt.Sprintf("vloop:N=%d", c.N))
	if stale > 0 {
		r.Dist("vloop:stale-seeds>0")
	}
	planned := c.Attempts > 0
	if !mok {
		// bail-out with a stale segment in the first plan
		if planned {
			r.Fail("corr", "corr:C01/vloop-bail", "the first plan uses a seed segment that does not validate (model), yet AssembleFile went on to assemble with it", c)
		}
		return nil
	}
	if !planned {
		// the loop never ended with a plan although the model's does
		if strings.HasPrefix(c.Result, "err:") {
			r.Fail("corr", "corr:C01/vloop-ends", fmt.Sprintf("the model's loop ends with a validated plan after %d attempt(s); AssembleFile gave up before assembling: %s", matt, c.Result), c)
		}
		return nil
	}
	bound := 1
	switch c.Action {
	case 1:
		bound = usable + 1
	case 2:
		bound = stale + 1
	}
	if c.Attempts > bound {
		r.Fail("corr", "corr:C01/vloop-bound", fmt.Sprintf("%d attempts, the theorem's bound for this seed set is %d", c.Attempts, bound), c)
		return nil
	}
	if c.N == 1 || matt == 1 {
		if c.Attempts != matt || c.PlanObs != mplan {
			r.Fail("corr", "corr:C01/vloop", fmt.Sprintf("model: %d attempt(s), plan %s; AssembleFile: %d attempt(s), plan %s", matt, c01Short(mplan), c.Attempts, c01Short(c.PlanObs)), c)
		}
	}
	return nil
}

func c01Short(s string) string {
	if len(s) > 160 {
		return s[:160] + "..."
	}
	return s
}

// c01VloopGen: a case built to make the loop work: two to four file seeds that share runs of the
// blob's chunks (so that several seeds match at the same row), some of them stale in a LATER chunk
// of the run (the longer match is the invalid one), in random order.
func c01VloopGen(rng *vh.Rand) c01Case {
	var c c01Case
	c.Min, c.Avg, c.Max = c02Triple(rng)
	blob, shape := c02Blob(rng, c.Min, c.Max, 1)
	if len(blob) > 5000 {
		blob = blob[:5000]
	}
	c.Shape = shape + "+vloop"
	c.BlobHex = vh.Hex(blob)
	sizes, _ := chunkSizes(blob, c.Min, c.Avg, c.Max)
	var chunks [][]byte
	off := 0
	for _, s := range sizes {
		chunks = append(chunks, blob[off:off+s])
		off += s
	}
	ns := 2 + rng.Intn(3)
	start := 0
	if len(chunks) > 0 {
		start = rng.Intn(len(chunks))
	}
	for k := 0; k < ns && len(chunks) > 0; k++ {
		// a prefix of foreign data, then a run of the blob's chunks from (about) the same row
		var data []byte
		var ps []int
		if rng.Chance(1, 2) {
			f := rng.Bytes(1 + rng.Intn(int(c.Max)))
			data, ps = append(data, f...), append(ps, len(f))
		}
		st := start
		if rng.Chance(1, 4) {
			st = rng.Intn(len(chunks))
		}
		run := 1 + rng.Intn(6)
		first := len(ps)
		for i := st; i < len(chunks) && i < st+run; i++ {
			data, ps = append(data, chunks[i]...), append(ps, len(chunks[i]))
		}
		s := c01Seed{Kind: "exact", Pieces: ps, IndexHex: vh.Hex(data), FileHex: vh.Hex(data)}
		if rng.Chance(1, 2) && len(ps) > first {
			// stale in one chunk of the run: the rows before it still match
			f := append([]byte{}, data...)
			row := first + rng.Intn(len(ps)-first)
			o := 0
			for i := 0; i < row; i++ {
				o += ps[i]
			}
			switch rng.Intn(3) {
			case 0:
				f[o+rng.Intn(ps[row])] ^= 0x41
			case 1:
				f = f[:o+rng.Intn(ps[row])] // file ends inside the row
			default:
				f = append(append(append([]byte{}, f[:o]...), 0x77), f[o:]...) // a byte inserted: everything after shifts
			}
			s.Kind, s.FileHex = "stale", vh.Hex(f)
		}
		c.Seeds = append(c.Seeds, s)
	}
	c.Prior = []string{"absent", "empty", "garbage"}[rng.Intn(3)]
	if c.Prior == "garbage" {
		c.PriorHex = vh.Hex(rng.Bytes(rng.Intn(len(blob) + 10)))
	}
	c.Action = rng.Intn(3)
	c.N = []int{1, 1, 2, 4}[rng.Intn(4)]
	c.Sched = rng.U64() % 1000000
	c.Trace = true
	return c
}

// c01TinyPriorGen: in-place extraction onto a target that already holds a few bytes (fewer than,
// exactly, or just more than the minimum / maximum chunk size, never zeros) for blobs with null
// chunks at the start, in the middle or at the end, no seeds, no cloning: what is left of the old
// content must not survive under a null chunk.
func c01TinyPriorGen(rng *vh.Rand) c01Case {
	var c c01Case
	c.Min, c.Avg, c.Max = c02Triple(rng)
	zeros := func(k int) []byte { return make([]byte, k) }
	var blob []byte
	shape := rng.Intn(4)
	if shape == 0 || shape == 3 {
		blob = append(blob, zeros(int(c.Max)*(1+rng.Intn(3))+rng.Intn(int(c.Max)))...)
	}
	blob = append(blob, rng.Bytes(rng.Intn(int(c.Max)*3))...)
	if shape == 1 || shape == 3 {
		blob = append(blob, zeros(int(c.Max)*(1+rng.Intn(2)))...)
		blob = append(blob, rng.Bytes(rng.Intn(int(c.Max)))...)
	}
	if shape == 2 {
		blob = append(blob, zeros(int(c.Max)*(1+rng.Intn(3)))...)
	}
	if len(blob) > 5800 {
		blob = blob[:5800]
	}
	c.BlobHex = vh.Hex(blob)
	c.Shape = fmt.Sprintf("null-chunks-%d+tiny-prior", shape)
	sizes := []int{1, 2, 10, int(c.Min) - 1, int(c.Min), int(c.Min) + 1, int(c.Max) - 1, int(c.Max), int(c.Max) + 1, len(blob) - 1, len(blob) + 3}
	n := sizes[rng.Intn(len(sizes))]
	if n < 1 {
		n = 1
	}
	prior := make([]byte, n)
	for i := range prior {
		prior[i] = byte(0x80 + rng.Intn(127))
	}
	c.Prior, c.PriorHex = "garbage", vh.Hex(prior)
	c.Action = rng.Intn(3)
	c.N = 1 + rng.Intn(3)
	c.Sched = rng.U64() % 1000000
	c.Trace = true
	return c
}
