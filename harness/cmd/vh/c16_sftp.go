package main

// C16, SFTP part: SFTPStore.Prune through a fake ssh (CASYNC_SSH_PATH = this binary, which then serves
// github.com/pkg/sftp's server over stdio on the local file system).  Every case runs in a child process
// of the harness (VH_C16_CHILD=sftp) under a timeout, because a connection-pool deadlock cannot be
// interrupted in-process.

import (
	"context"
	"encoding/json"
	"fmt"
	"io"
	"net/url"
	"os"
	"os/exec"
	"path/filepath"
	"strings"
	"syscall"
	"time"

	"github.com/folbricht/desync"
	"github.com/pkg/sftp"

	"vh/internal/vh"
)

func init() {
	if os.Getenv("VH_FAKE_SSH") == "1" && len(os.Args) >= 4 && os.Args[len(os.Args)-1] == "sftp" {
		// invoked as: <ssh> <host> -s sftp
		srv, err := sftp.NewServer(struct {
			io.Reader
			io.WriteCloser
		}{os.Stdin, os.Stdout})
		if err != nil {
			os.Exit(5)
		}
		srv.Serve()
		os.Exit(0)
	}
	if os.Getenv("VH_C16_CHILD") == "sftp" {
		c16SFTPChild()
	}
}

type sftpJob struct {
	Dir  string   `json:"dir"`
	Unc  bool     `json:"unc"`
	N    int      `json:"n"`
	Keep []string `json:"keep"`
	CancelAt int  `json:"cancel_at"`
	Op   string   `json:"op"` // prune | store-then-list
	Data string   `json:"data,omitempty"`
}

func c16SFTPChild() {
	var job sftpJob
	b, _ := os.ReadFile(os.Getenv("VH_C16_JOB"))
	if json.Unmarshal(b, &job) != nil {
		os.Exit(4)
	}
	self, _ := os.Executable()
	os.Setenv("CASYNC_SSH_PATH", self)
	os.Setenv("VH_FAKE_SSH", "1")
	os.Unsetenv("VH_C16_CHILD")
	desync.Digest = desync.SHA256{}
	u, _ := url.Parse("sftp://localhost" + job.Dir)
	s, err := desync.NewSFTPStore(u, desync.StoreOptions{N: job.N, Uncompressed: job.Unc})
	if err != nil {
		fmt.Println("open-error:", err)
		os.Exit(3)
	}
	switch job.Op {
	case "prune":
		keep := map[desync.ChunkID]struct{}{}
		for _, h := range job.Keep {
			id, _ := desync.ChunkIDFromString(h)
			keep[id] = struct{}{}
		}
		var ctx context.Context = context.Background()
		if job.CancelAt > 0 {
			ctx = &countCtx{Context: context.Background(), at: int32(job.CancelAt)}
		}
		err = s.Prune(ctx, keep)
		fmt.Println("result:", lsErrClass(err))
	case "store":
		err = s.StoreChunk(desync.NewChunk(vh.UnHex(job.Data)))
		fmt.Println("result:", lsErrClass(err))
	}
	s.Close()
	os.Exit(0)
}

// c16RunSFTP runs one job in a child; returns the result class, or "timeout".
func c16RunSFTP(a vh.Args, job sftpJob, timeout time.Duration) (string, error) {
	jf := filepath.Join(a.Work, "sftp-job.json")
	b, _ := json.Marshal(job)
	if err := os.WriteFile(jf, b, 0644); err != nil {
		return "", err
	}
	self, _ := os.Executable()
	cmd := exec.Command(self)
	cmd.Env = append(os.Environ(), "VH_C16_CHILD=sftp", "VH_C16_JOB="+jf)
	cmd.SysProcAttr = &syscall.SysProcAttr{Setpgid: true}
	var out strings.Builder
	cmd.Stdout = &out
	if err := cmd.Start(); err != nil {
		return "", err
	}
	done := make(chan error, 1)
	go func() { done <- cmd.Wait() }()
	select {
	case <-done:
	case <-time.After(timeout):
		syscall.Kill(-cmd.Process.Pid, syscall.SIGKILL)
		<-done
		return "timeout", nil
	}
	for _, l := range strings.Split(out.String(), "\n") {
		if strings.HasPrefix(l, "result: ") {
			return strings.TrimPrefix(l, "result: "), nil
		}
	}
	return "child-failed: " + strings.TrimSpace(out.String()), nil
}

func c16SFTP(a vh.Args, o *vh.Oracle, r *vh.Result, c *c16Case) error {
	desync.Digest = desync.SHA256{}
	dir, err := lsFreshDir(a.Work, "sftp")
	if err != nil {
		return err
	}
	if err := writeTree(dir, c.Tree); err != nil {
		return err
	}
	od, err := c16Outside(a, c)
	if err != nil {
		return err
	}
	before, _ := snapshotTree(dir)
	res, err := c16RunSFTP(a, sftpJob{Dir: dir, Unc: c.Unc, N: c.N, Keep: c.Keep, Op: "prune", CancelAt: c.CancelAt}, 8*time.Second)
	if err != nil {
		return err
	}
	if res == "ok" {
		res = "nil"
	}
	after, _ := snapshotTree(dir)
	if oa, _ := snapshotTree(od); diffTrees(c.Outside, oa) != "" {
		c.What = "SFTP prune changed files OUTSIDE the store directory: " + diffTrees(c.Outside, oa)
		r.Fail("predicate", "sftp/touches-outside", c.What, c)
	}
	unref := 0
	for _, e := range before {
		if id, ok := canonicalID(e.Path, c.Unc); ok && e.Kind != "d" && !lsInSet(c.Keep, id) {
			unref++
		}
	}
	r.Count(fmt.Sprintf("sftpprune|%v|%d|%s|%s|%d|%s", c.Unc, c.N, c.KeepTag, strings.Join(c.Feat, "+"), len(before), res), unref > 0)
	r.Dist("sftp-result:" + res)
	r.Dist(fmt.Sprintf("sftp-n:%d", c.N))
	fail := func(class, what string) {
		c.What = what
		r.Fail("predicate", class, what, c)
	}
	if res == "timeout" {
		cls := "sftp/prune-hangs"
		if c.N == 1 {
			cls = "sftp/prune-deadlock-n1"
		}
		fail(cls, fmt.Sprintf("SFTPStore.Prune did not return within 8 s (pool size n=%d, %d unreferenced chunks)", c.N, unref))
		return nil
	}
	if strings.HasPrefix(res, "child-failed") {
		return fmt.Errorf("sftp child: %s", res)
	}
	am := map[string]fsEnt{}
	for _, e := range after {
		am[e.Path] = e
	}
	for _, e := range before {
		if _, ok := am[e.Path]; ok {
			continue
		}
		if id, ok := canonicalID(e.Path, c.Unc); ok && !lsInSet(c.Keep, id) {
			continue
		}
		fail("sftp/removes-wrong-file", "SFTP prune removed "+e.Path)
	}
	if res == "nil" {
		for _, e := range after {
			if id, ok := canonicalID(e.Path, c.Unc); ok && e.Kind != "d" && !lsInSet(c.Keep, id) {
				cls := "sftp/leaves-unreferenced"
				if c.Unc {
					cls = "sftp/prune-uncompressed-noop"
				}
				if e.Kind == "l" {
					cls = "sftp/leaves-unreferenced-symlinked-chunk"
				}
				if c.CancelAt > 0 {
					cls = "sftp/cancelled-reports-success"
				}
				fail(cls, "SFTP prune returned nil but left the unreferenced chunk "+e.Path)
			}
		}
	}
	// correspondence with Model/Prune.v sftp_prune: only when the tree has no alias names, because the
	// SFTP walk visits entries in directory order, not sorted
	alias := false
	for _, f := range c.Feat {
		if strings.HasPrefix(f, "stray") || strings.HasPrefix(f, "upper") || f == "chunk-named-dir" {
			alias = true
		}
	}
	if o == nil || alias || c.CancelAt > 0 {
		return nil
	}
	ans, err := o.Call("c16.sftpprune", lsB01(c.Unc), lsHx([]byte(dir)), strings.Join(c.Keep, ","), encodeTreeOutside("s", before, c.Outside))
	if err != nil {
		return err
	}
	r.Corr()
	f := strings.SplitN(ans, " ", 2)
	mres := f[0]
	switch {
	case strings.HasPrefix(mres, "missing"):
		mres = "missing"
	case strings.HasPrefix(mres, "errno"):
		mres = "other"
	}
	mt, _ := decodeTree("s", f[1])
	if mres != res {
		c.What = fmt.Sprintf("model result %s, implementation %s", f[0], res)
		r.Fail("corr", "corr:C16/sftp-result", c.What, c)
	} else if d := diffTrees(after, mt); d != "" {
		c.What = "tree after SFTP prune differs from the model: " + d
		r.Fail("corr", "corr:C16/sftp-tree", c.What, c)
	}
	return nil
}

// a store through SFTP that is interrupted leaves "<name><random digits>"; show that prune ignores them
func c16SFTPTemp(a vh.Args, r *vh.Result, unc bool) error {
	dir, err := lsFreshDir(a.Work, "sftp")
	if err != nil {
		return err
	}
	data := []byte("sftp temp file probe")
	idh := lsSha256Hex(data)
	ext := ".cacnk"
	if unc {
		ext = ""
	}
	// what SFTPStoreBase.StoreObject leaves behind when it dies between Create and PosixRename
	left := idh[:4] + "/" + idh + ext + "5577006791947779410"
	if err := writeTree(dir, []fsEnt{{Path: left, Kind: "f", Data: []byte("partial")}}); err != nil {
		return err
	}
	res, err := c16RunSFTP(a, sftpJob{Dir: dir, Unc: unc, N: 2, Op: "prune"}, 20*time.Second)
	if err != nil {
		return err
	}
	after, _ := snapshotTree(dir)
	r.Count(fmt.Sprintf("sftp-temp|%v", unc), true)
	for _, e := range after {
		if e.Path == left {
			r.Fail("predicate", "sftp/temp-file-never-pruned", fmt.Sprintf("SFTP prune (%s) leaves the abandoned temp file %s: SFTP temp names are the chunk name plus random digits, which no prune rule matches", res, left),
				map[string]interface{}{"kind": "sftp-temp", "unc": unc})
		}
	}
	return nil
}

func c16SFTPAll(a vh.Args, o *vh.Oracle, r *vh.Result, rng *vh.Rand) error {
	n := 8
	if a.Tier == "thorough" {
		n = 80
	}
	for i := 0; i < n; i++ {
		g := c16GenTree(rng)
		keep, tag := c16Keep(rng, g.ids)
		c := &c16Case{Kind: "sftpprune", Backend: "sftp", Unc: i%2 == 0, Tree: g.ents, Keep: keep, KeepTag: tag, Feat: lsFeats(g.feat), N: 2 + rng.Intn(2), Outside: g.outside}
		if i%4 == 1 {
			c.CancelAt = 1 + rng.Intn(len(g.ents)+2)
		}
		if i == 2 || i == 3 {
			c.N = 1
		}
		if err := c16SFTP(a, o, r, c); err != nil {
			return err
		}
	}
	for _, unc := range []bool{false, true} {
		if err := c16SFTPTemp(a, r, unc); err != nil {
			return err
		}
	}
	return nil
}
