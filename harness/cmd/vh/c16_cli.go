package main

// C16, CLI: `desync prune -s STORE --yes A.caibx B.caibx ...` where one of the index arguments cannot be
// read (absent, truncated, garbage, a directory), in every position: the command must fail and leave the
// store untouched (an unreadable index means an unknown part of the reference set).  Positive control: all
// indexes readable => exit 0, exactly the unreferenced chunks are gone.

import (
	"fmt"
	"os"
	"os/exec"
	"path/filepath"
	"strings"

	"github.com/folbricht/desync"

	"vh/internal/vh"
)

func c16PruneIndexes(a vh.Args, r *vh.Result, c *c16Case) error {
	bin := os.Getenv("VH_DESYNC")
	if bin == "" {
		return nil
	}
	rng := vh.NewRand(uint64(c.N)) // N carries the seed, Prefix the damage, Keys[0] the position
	desync.Digest = desync.SHA512256{}
	defer func() { desync.Digest = desync.SHA256{} }()
	dir, err := lsFreshDir(a.Work, "prunecli")
	if err != nil {
		return err
	}
	store := filepath.Join(dir, "store")
	os.MkdirAll(store, 0755)
	s, err := lsLocalStore(store, false, false)
	if err != nil {
		return err
	}
	// three indexes over disjoint chunk groups + two unreferenced chunks
	var groups [3][]desync.ChunkID
	for g := 0; g < 3; g++ {
		for k := 0; k < 3; k++ {
			ch := desync.NewChunk(rng.Bytes(40 + rng.Intn(100)))
			if err := s.StoreChunk(ch); err != nil {
				return err
			}
			groups[g] = append(groups[g], ch.ID())
		}
	}
	var unref []desync.ChunkID
	for k := 0; k < 2; k++ {
		ch := desync.NewChunk(rng.Bytes(30))
		s.StoreChunk(ch)
		unref = append(unref, ch.ID())
	}
	var files []string
	for g := 0; g < 3; g++ {
		idx := desync.Index{Index: desync.FormatIndex{FeatureFlags: desync.CaFormatSHA512256, ChunkSizeMin: 1, ChunkSizeAvg: 2, ChunkSizeMax: 4}}
		for k, id := range groups[g] {
			idx.Chunks = append(idx.Chunks, desync.IndexChunk{ID: id, Start: uint64(k), Size: 1})
		}
		name := filepath.Join(dir, fmt.Sprintf("i%d.caibx", g))
		f, err := os.Create(name)
		if err != nil {
			return err
		}
		idx.WriteTo(f)
		f.Close()
		files = append(files, name)
	}
	pos := -1
	if c.Prefix != "none" {
		fmt.Sscan(c.Keys[0], &pos)
		switch c.Prefix {
		case "absent":
			os.Remove(files[pos])
		case "truncated":
			b, _ := os.ReadFile(files[pos])
			os.WriteFile(files[pos], b[:len(b)-20], 0644)
		case "garbage":
			os.WriteFile(files[pos], rng.Bytes(200), 0644)
		case "empty":
			os.WriteFile(files[pos], nil, 0644)
		case "directory":
			os.Remove(files[pos])
			os.Mkdir(files[pos], 0755)
		}
	}
	before, _ := snapshotTree(store)
	out, rerr := exec.Command(bin, append([]string{"prune", "-s", store, "--yes"}, files...)...).CombinedOutput()
	after, _ := snapshotTree(store)
	r.Count(fmt.Sprintf("prune-cli-indexes|%s|%d|%d", c.Prefix, pos, c.N), c.Prefix != "none")
	r.Dist("prune-cli-indexes:" + c.Prefix)
	fail := func(class, what string) {
		c.What = what
		r.Fail("predicate", class, what, c)
	}
	if c.Prefix == "none" {
		if rerr != nil {
			fail("prune-cli/control-fails", "prune with three readable indexes failed: "+strings.TrimSpace(string(out)))
			return nil
		}
		for g := range groups {
			for _, id := range groups[g] {
				if ok, _ := s.HasChunk(id); !ok {
					fail("prune/removes-referenced", "prune with three readable indexes removed the referenced chunk "+id.String())
				}
			}
		}
		for _, id := range unref {
			if ok, _ := s.HasChunk(id); ok {
				fail("prune/leaves-unreferenced", "prune with three readable indexes left the unreferenced chunk "+id.String())
			}
		}
		return nil
	}
	d := diffTrees(before, after)
	switch {
	case d != "":
		fail("prune-cli/prunes-with-unreadable-index", fmt.Sprintf("`desync prune` with index argument %d of 3 unreadable (%s) changed the store (exit error: %v): %s", pos+1, c.Prefix, rerr, d))
	case rerr == nil:
		fail("prune-cli/unreadable-index-exit-0", fmt.Sprintf("`desync prune` with index argument %d of 3 unreadable (%s) exited 0", pos+1, c.Prefix))
	}
	return nil
}

func c16PruneIndexesAll(a vh.Args, r *vh.Result, rng *vh.Rand) error {
	if os.Getenv("VH_DESYNC") == "" {
		r.Note("VH_DESYNC not set: CLI prune cases skipped")
		return nil
	}
	seed := 1 + rng.Intn(100000)
	if err := c16PruneIndexes(a, r, &c16Case{Kind: "prune-cli-indexes", Prefix: "none", N: seed, Keys: []string{"-1"}}); err != nil {
		return err
	}
	for _, dmg := range []string{"absent", "truncated", "garbage", "empty", "directory"} {
		for pos := 0; pos < 3; pos++ {
			c := &c16Case{Kind: "prune-cli-indexes", Prefix: dmg, N: seed + pos, Keys: []string{fmt.Sprint(pos)}}
			if err := c16PruneIndexes(a, r, c); err != nil {
				return err
			}
		}
	}
	return nil
}
