package main

import (
	"bytes"
	"fmt"
	"io"

	"github.com/folbricht/desync"

	"vh/internal/vh"
)

// Chunker.Advance(n): "behaves as if the stream starts at (current position + n)".  After k chunks
// and an Advance the remaining chunks must be the chunks of blob[pos+n:] (the rule applied to the
// rest of the stream), reported at their positions in the whole stream, whether the underlying
// reader can seek (IndexFromFile's file) or not (pipes; the skip is then read and discarded), and
// whether the skip stays inside the chunker's buffer or goes beyond it.

type c02AdvCase struct {
	Kind    string `json:"kind"` // advance
	BlobHex string `json:"blob_hex"`
	Min     uint64 `json:"min"`
	Avg     uint64 `json:"avg"`
	Max     uint64 `json:"max"`
	K       int    `json:"chunks_before"`
	Skip    int    `json:"skip"`
	Seek    bool   `json:"seekable"`
	What    string `json:"what,omitempty"`
}

type onlyReader struct{ r io.Reader }

func (o onlyReader) Read(p []byte) (int, error) { return o.r.Read(p) }

func c02AdvanceOne(r *vh.Result, c *c02AdvCase) error {
	r.Running(c)
	desync.Digest = desync.SHA512256{}
	blob := vh.UnHex(c.BlobHex)
	var rd io.Reader = bytes.NewReader(blob)
	if !c.Seek {
		rd = onlyReader{bytes.NewReader(blob)}
	}
	ch, err := desync.NewChunker(rd, c.Min, c.Avg, c.Max)
	if err != nil {
		return err
	}
	pos := uint64(0)
	for i := 0; i < c.K; i++ {
		start, b, err := ch.Next()
		if err != nil {
			return err
		}
		if len(b) == 0 {
			break
		}
		pos = start + uint64(len(b))
	}
	skip := uint64(c.Skip)
	if pos+skip > uint64(len(blob)) {
		skip = uint64(len(blob)) - pos
	}
	r.Count(fmt.Sprintf("advance|%d|%d|%d|%d|%d|%v|%d", c.Min, c.Avg, c.Max, c.K, c.Skip, c.Seek, len(blob)), true)
	r.Dist(fmt.Sprintf("advance:seekable=%v", c.Seek))
	if skip > 10*c.Max {
		r.Dist("advance:beyond-buffer")
	}
	if err := ch.Advance(int(skip)); err != nil {
		c.What = "Advance failed inside the stream: " + err.Error()
		r.Fail("predicate", "advance/error", c.What, c)
		return nil
	}
	var got []span
	var gotData [][]byte
	for {
		start, b, err := ch.Next()
		if err != nil {
			c.What = "Next failed after Advance: " + err.Error()
			r.Fail("predicate", "advance/error", c.What, c)
			return nil
		}
		if len(b) == 0 {
			break
		}
		got = append(got, span{start, uint64(len(b))})
		gotData = append(gotData, append([]byte{}, b...))
	}
	rest := blob[pos+skip:]
	want, _, err := seqChunks(bytes.NewReader(rest), c.Min, c.Avg, c.Max)
	if err != nil {
		return err
	}
	for i := range want {
		want[i].start += pos + skip
	}
	if spansStr(got) != spansStr(want) {
		c.What = fmt.Sprintf("after %d chunks (position %d) and Advance(%d): chunks %s, the chunks of the rest of the stream are %s", c.K, pos, skip, c01Short(spansStr(got)), c01Short(spansStr(want)))
		r.Fail("predicate", "advance/differs-from-rest-of-stream", c.What, c)
		return nil
	}
	for i, sp := range got {
		if !bytes.Equal(gotData[i], blob[sp.start:sp.start+sp.size]) {
			c.What = fmt.Sprintf("chunk %d after the skip is reported as input[%d:%d] but holds other bytes", i, sp.start, sp.start+sp.size)
			r.Fail("predicate", "advance/wrong-bytes", c.What, c)
			return nil
		}
	}
	return nil
}

func c02Advance(r *vh.Result, rng *vh.Rand, n int) error {
	for i := 0; i < n; i++ {
		mn, av, mx := c02Triple(rng)
		size := int(mx)*(12+rng.Intn(30)) + rng.Intn(int(mx))
		blob := rng.Bytes(size)
		skips := []int{0, 1, 100, int(mx) / 2, 5 * int(mx), 10 * int(mx), 10*int(mx) + 1, 12*int(mx) + 77, size}
		c := &c02AdvCase{Kind: "advance", BlobHex: vh.Hex(blob), Min: mn, Avg: av, Max: mx, K: rng.Intn(4), Skip: skips[rng.Intn(len(skips))], Seek: rng.Chance(1, 2)}
		if err := c02AdvanceOne(r, c); err != nil {
			return err
		}
	}
	return nil
}
