package main

// C08, two more extract situations.
//  extract-inplace-existing: `extract -k` onto a target that already holds (almost) everything -- the state a
//    died in-place extract leaves -- for indexes with runs of NULL chunks and a max chunk size that is not a
//    multiple of 32 KiB: the re-run may request only chunks whose range does not already hash to their id,
//    and the output must be the blob (n = 1, 2, 4).
//  extract-noroom: extract WITHOUT -k whose temp file cannot be created (destination name of 244..255
//    characters: ".<name>.<n>" exceeds NAME_MAX), killed at the k-th chunk request if it gets that far: the
//    destination must hold its previous content (or the complete file).

import (
	"bytes"
	"fmt"
	"net"
	"net/http"
	"os"
	"os/exec"
	"path/filepath"
	"strings"
	"time"

	"github.com/folbricht/desync"

	"vh/internal/vh"
)

func c08ServeChunks(idx desync.Index, blob []byte) (*killStore, string, func(), error) {
	ks := &killStore{objs: map[string][]byte{}}
	for _, ch := range idx.Chunks {
		id := ch.ID.String()
		cb, _ := desync.Compress(blob[ch.Start : ch.Start+ch.Size])
		ks.objs["/"+id[:4]+"/"+id+".cacnk"] = cb
	}
	ln, err := net.Listen("tcp", "127.0.0.1:0")
	if err != nil {
		return nil, "", nil, err
	}
	srv := &http.Server{Handler: ks}
	go srv.Serve(ln)
	return ks, "http://" + ln.Addr().String() + "/", func() { srv.Close() }, nil
}

func c08RunDesync(ks *killStore, killAt int, dir string, args ...string) (string, error) {
	return c08RunDesyncIn(ks, killAt, dir, "", args...)
}

// c08RunDesyncIn: as c08RunDesync, with the command's working directory set to cwd (if not "").
func c08RunDesyncIn(ks *killStore, killAt int, dir, cwd string, args ...string) (string, error) {
	cmd := exec.Command(os.Getenv("VH_DESYNC"), args...)
	cmd.Dir = cwd
	cmd.Env = append(os.Environ(), "HOME="+dir)
	ks.mu.Lock()
	ks.requests, ks.killAt, ks.victim, ks.killed, ks.signal = nil, killAt, cmd, false, 0
	ks.mu.Unlock()
	var stderr bytes.Buffer
	cmd.Stderr = &stderr
	if err := cmd.Start(); err != nil {
		return "", err
	}
	done := make(chan error, 1)
	go func() { done <- cmd.Wait() }()
	select {
	case err := <-done:
		if err == nil {
			return "exit0", nil
		}
		return "failed: " + strings.TrimSpace(stderr.String()), nil
	case <-time.After(60 * time.Second):
		cmd.Process.Kill()
		return "timeout", nil
	}
}

func c08InplaceExisting(a vh.Args, r *vh.Result, c *c08Case) error {
	if os.Getenv("VH_DESYNC") == "" {
		return nil
	}
	desync.Digest = desync.SHA512256{}
	defer func() { desync.Digest = desync.SHA256{} }()
	rng := vh.NewRand(c.Seed)
	max := c.BlobLen // the index's max chunk size (null chunks have exactly this size)
	// real, null run (odd/even count), real data right after it, more real chunks, another null run, tail
	var blob []byte
	var sizes []int
	add := func(b []byte) {
		if len(b) > max { // no chunk of the index may exceed its declared maximum
			b = b[:max-1-len(b)%1000]
		}
		blob = append(blob, b...)
		sizes = append(sizes, len(b))
	}
	add(rng.Bytes(3000 + rng.Intn(9000)))
	for i := 0; i < 1+int(c.Seed%3); i++ {
		add(make([]byte, max))
	}
	add(rng.Bytes(6000 + rng.Intn(20000)))
	add(rng.Bytes(2000 + rng.Intn(4000)))
	add(make([]byte, max))
	add(rng.Bytes(1000 + rng.Intn(3000)))
	add(rng.Bytes(500))
	idx := buildIndex(blob, sizes)
	idx.Index.FeatureFlags = desync.CaFormatSHA512256
	idx.Index.ChunkSizeMin, idx.Index.ChunkSizeAvg, idx.Index.ChunkSizeMax = 500, uint64(max)/2, uint64(max)
	dir, err := lsFreshDir(a.Work, "inplace-existing")
	if err != nil {
		return err
	}
	idxFile := filepath.Join(dir, "blob.caibx")
	f, err := os.Create(idxFile)
	if err != nil {
		return err
	}
	idx.WriteTo(f)
	f.Close()
	// the target: everything written except the last chunk (and the file has its full length)
	out := filepath.Join(dir, "out")
	target := append([]byte{}, blob...)
	last := idx.Chunks[len(idx.Chunks)-1]
	for i := last.Start; i < last.Start+last.Size; i++ {
		target[i] ^= 0x5a
	}
	if c.K == 1 { // a second variant: also the first chunk is missing
		for i := uint64(0); i < idx.Chunks[0].Size; i++ {
			target[i] = 0
		}
	}
	os.WriteFile(out, target, 0644)
	valid := map[string]bool{}
	for _, ch := range idx.Chunks {
		if desync.Digest.Sum(target[ch.Start:ch.Start+ch.Size]) == ch.ID {
			valid[ch.ID.String()] = true
		}
	}
	ks, url, stop, err := c08ServeChunks(idx, blob)
	if err != nil {
		return err
	}
	defer stop()
	res, err := c08RunDesync(ks, 0, dir, "extract", "-k", "-s", url, "-n", fmt.Sprint(c.N), idxFile, out)
	if err != nil {
		return err
	}
	r.Count(fmt.Sprintf("extract-inplace-existing|%d|%d|%d|%d", max, c.N, c.K, c.Seed), true)
	r.Dist(fmt.Sprintf("inplace-existing-max:%d", max))
	fail := func(class, what string) {
		c.What = what
		r.Fail("predicate", class, what, c)
	}
	if res != "exit0" {
		fail("extract/inplace-rerun-fails", "in-place extract onto an existing target: "+res)
		return nil
	}
	cur, _ := os.ReadFile(out)
	if !bytes.Equal(cur, blob) {
		fail("extract/inplace-wrong-output", fmt.Sprintf("in-place extract (-n %d, max chunk %d, null runs) onto an existing target produced a different file", c.N, max))
	}
	ks.mu.Lock()
	reqs := append([]string{}, ks.requests...)
	ks.mu.Unlock()
	for _, p := range reqs {
		id := strings.TrimSuffix(filepath.Base(p), ".cacnk")
		if valid[id] {
			fail("extract/inplace-refetches", fmt.Sprintf("in-place extract (-n %d) onto a target that already held chunk %s (max chunk size %d, runs of null chunks before real data) requested that chunk again; %d requests for %d invalid chunks", c.N, id[:16], max, len(reqs), len(idx.Chunks)-len(valid)))
			break
		}
	}
	return nil
}

func c08NoRoom(a vh.Args, r *vh.Result, c *c08Case) error {
	if os.Getenv("VH_DESYNC") == "" {
		return nil
	}
	desync.Digest = desync.SHA512256{}
	defer func() { desync.Digest = desync.SHA256{} }()
	rng := vh.NewRand(c.Seed)
	blob := rng.Bytes(c.BlobLen)
	idx := buildIndex(blob, randomSizes(rng, len(blob), 400))
	idx.Index.FeatureFlags = desync.CaFormatSHA512256
	dir, err := lsFreshDir(a.Work, "noroom")
	if err != nil {
		return err
	}
	idxFile := filepath.Join(dir, "blob.caibx")
	f, err := os.Create(idxFile)
	if err != nil {
		return err
	}
	idx.WriteTo(f)
	f.Close()
	name := strings.Repeat("n", c.Fsize) // Fsize carries the length of the destination's file name
	out := filepath.Join(dir, name)
	old := []byte("previous content of the destination")
	if err := os.WriteFile(out, old, 0644); err != nil {
		return err
	}
	ks, url, stop, err := c08ServeChunks(idx, blob)
	if err != nil {
		return err
	}
	defer stop()
	res, err := c08RunDesync(ks, c.K, dir, "extract", "-s", url, "-n", fmt.Sprint(c.N), idxFile, out)
	if err != nil {
		return err
	}
	ks.mu.Lock()
	killed := ks.killed
	ks.mu.Unlock()
	cur, rerr := os.ReadFile(out)
	state := "previous"
	switch {
	case rerr != nil:
		state = "gone"
	case bytes.Equal(cur, blob):
		state = "complete"
	case !bytes.Equal(cur, old):
		state = "neither"
	}
	r.Count(fmt.Sprintf("extract-noroom|%d|%d|%d|%d", c.Fsize, c.N, c.K, c.Seed), killed)
	r.Dist(fmt.Sprintf("extract-noroom:name=%d/killed=%v/%s/%s", c.Fsize, killed, strings.SplitN(res, ":", 2)[0], state))
	if state == "gone" || state == "neither" {
		c.What = fmt.Sprintf("extract without -k onto an existing destination whose name has %d characters (no room for the temp name), killed=%v at request %d (%s): the destination is %s the previous nor the complete content (%d bytes)", c.Fsize, killed, c.K, res, map[string]string{"gone": "gone, neither", "neither": "neither"}[state], len(cur))
		r.Fail("predicate", "extract/destination-modified", c.What, c)
	}
	if res == "exit0" && state != "complete" {
		c.What = "extract exited 0 but the destination is not the complete file"
		r.Fail("predicate", "extract/wrong-output", c.What, c)
	}
	return nil
}

// extract-seeddir: `extract -k --seed-dir D idx target` where D also holds the index being extracted and the
// target next to it, with D, the index and the target spelled in different ways; killed at the k-th chunk
// request, then the SAME command again: it must complete with the right output (the half-written target must
// not be taken as a seed for itself).
var c08Spellings = []struct{ name, seedDir, index, target string }{
	{"same", ".", "v2.caibx", "v2"},
	{"dot-vs-dotslash", ".", "./v2.caibx", "./v2"},
	{"abs-vs-relative", "$D", "v2.caibx", "v2"},
	{"trailing-slash", "./", "v2.caibx", "v2"},
	{"abs-slash-vs-mixed", "$D/", "$D/v2.caibx", "./v2"},
	{"relative-vs-abs", ".", "$D/v2.caibx", "$D/v2"},
	{"dotdot-detour", "../work", "v2.caibx", "v2"},
	{"symlinked-dir", "$L", "v2.caibx", "v2"},
}

func c08SeedDir(a vh.Args, r *vh.Result, c *c08Case) error {
	if os.Getenv("VH_DESYNC") == "" {
		return nil
	}
	desync.Digest = desync.SHA512256{}
	defer func() { desync.Digest = desync.SHA256{} }()
	rng := vh.NewRand(c.Seed)
	blob := rng.Bytes(c.BlobLen)
	idx := buildIndex(blob, randomSizes(rng, len(blob), 400))
	idx.Index.FeatureFlags = desync.CaFormatSHA512256
	root, err := lsFreshDir(a.Work, "seeddir")
	if err != nil {
		return err
	}
	d := filepath.Join(root, "work")
	os.MkdirAll(d, 0755)
	f, err := os.Create(filepath.Join(d, "v2.caibx"))
	if err != nil {
		return err
	}
	idx.WriteTo(f)
	f.Close()
	var sp struct{ name, seedDir, index, target string }
	for _, x := range c08Spellings {
		if x.name == c.Signal { // Signal carries the spelling's name
			sp = x
		}
	}
	lnk := filepath.Join(root, "lnk")
	os.Symlink(d, lnk)
	sub := func(x string) string { return strings.ReplaceAll(strings.ReplaceAll(x, "$D", d), "$L", lnk) }
	ks, url, stop, err := c08ServeChunks(idx, blob)
	if err != nil {
		return err
	}
	defer stop()
	args := []string{"extract", "-k", "-n", fmt.Sprint(c.N), "-s", url, "--seed-dir", sub(sp.seedDir), sub(sp.index), sub(sp.target)}
	res, err := c08RunDesyncIn(ks, c.K, root, d, args...)
	if err != nil {
		return err
	}
	ks.mu.Lock()
	killed := ks.killed
	answered := len(ks.requests) - 1
	ks.mu.Unlock()
	r.Count(fmt.Sprintf("extract-seeddir|%s|%d|%d|%d", sp.name, c.N, c.K, c.Seed), killed)
	r.Dist("extract-seeddir:" + sp.name)
	fail := func(class, what string) {
		c.What = what
		r.Fail("predicate", class, what, c)
	}
	if !killed {
		if res != "exit0" {
			fail("extract/unkilled-run-fails", fmt.Sprintf("extract -k --seed-dir %s %s %s: %s", sp.seedDir, sp.index, sp.target, res))
		}
		return nil
	}
	res, err = c08RunDesyncIn(ks, 0, root, d, args...)
	if err != nil {
		return err
	}
	if res != "exit0" {
		fail("extract/inplace-rerun-fails", fmt.Sprintf("`desync extract -k --seed-dir %s %s %s` killed after %d chunks, then the same command again: %s", sp.seedDir, sp.index, sp.target, answered, res))
		return nil
	}
	if cur, _ := os.ReadFile(filepath.Join(d, "v2")); !bytes.Equal(cur, blob) {
		fail("extract/inplace-wrong-output", fmt.Sprintf("re-run of extract -k --seed-dir (%s) produced a different file", sp.name))
	}
	ks.mu.Lock()
	nreq := len(ks.requests)
	ks.mu.Unlock()
	if allowed := len(idx.Chunks) - answered + c.N; nreq > allowed {
		fail("extract/inplace-refetches", fmt.Sprintf("re-run (--seed-dir, %s) requested %d chunks, at most %d were missing", sp.name, nreq, allowed))
	}
	return nil
}

func c08ExtractMoreAll(a vh.Args, r *vh.Result, rng *vh.Rand) error {
	for i, sp := range c08Spellings {
		c := &c08Case{Kind: "extract-seeddir", Signal: sp.name, BlobLen: 6000, N: 1 + i%2, K: 3 + rng.Intn(8), Seed: rng.U64() % 1000000}
		if err := c08SeedDir(a, r, c); err != nil {
			return err
		}
	}
	thorough := a.Tier == "thorough"
	maxes := []int{48 << 10, 40000}
	if thorough {
		maxes = append(maxes, 16<<10, 65536, 33000, 100000)
	}
	for _, max := range maxes {
		for _, n := range []int{1, 2, 4} {
			for k := 0; k < 2; k++ {
				c := &c08Case{Kind: "extract-inplace-existing", BlobLen: max, N: n, K: k, Seed: rng.U64() % 1000000}
				if err := c08InplaceExisting(a, r, c); err != nil {
					return err
				}
			}
		}
	}
	for _, l := range []int{200, 244, 250, 255} {
		for _, k := range []int{2, 5} {
			c := &c08Case{Kind: "extract-noroom", BlobLen: 4000, N: 1 + k%2, K: k, Fsize: l, Seed: rng.U64() % 1000000}
			if err := c08NoRoom(a, r, c); err != nil {
				return err
			}
		}
	}
	return nil
}
