package main

// C06, no fault and no cancellation: ChunkStream on LONG streams (many refills of the chunker's read
// buffer: >= 40*max bytes with a small max) with n >= 2 workers, where ONE chosen store call is stalled
// until the other workers have moved the stream on by several buffers (or nothing moves any more).
// The bytes handed to a worker must stay what they were when the chunk was cut: after nil every chunk of
// the index is read back through a fresh verifying store and compared with the input range.

import (
	"bytes"
	"context"
	"fmt"
	"os"
	"path/filepath"
	"sync"
	"sync/atomic"
	"time"

	"github.com/folbricht/desync"

	"vh/internal/vh"
)

type c06StallCase struct {
	Op       string `json:"op"` // chunkstream-stall
	N        int    `json:"n"`
	BlobHex  string `json:"blob_hex"`
	Min      uint64 `json:"min"`
	Avg      uint64 `json:"avg"`
	Max      uint64 `json:"max"`
	Kind     string `json:"stall_kind"` // has | store
	K        int    `json:"stall_call"` // the K-th call of that kind is stalled
	Progress int    `json:"stall_until_calls"`
	Level    string `json:"level"` // library-stall

	Got     string `json:"impl_result,omitempty"`
	Detail  string `json:"detail,omitempty"`
	Stalled bool   `json:"stalled"`
	Passed  int    `json:"calls_while_stalled"`
}

type stallStore struct {
	inner    desync.WriteStore
	kind     string
	k        int
	progress int
	mu       sync.Mutex
	n        map[string]int
	total    int64
	stalled  bool
	passed   int
}

func (s *stallStore) enter(kind string) {
	atomic.AddInt64(&s.total, 1)
	s.mu.Lock()
	s.n[kind]++
	hit := kind == s.kind && s.n[kind] == s.k
	s.mu.Unlock()
	if !hit {
		return
	}
	// wait until the others made `progress` further calls, or nothing moved for 30 ms, at most 2 s
	start := atomic.LoadInt64(&s.total)
	last, lastChange := start, time.Now()
	deadline := time.Now().Add(2 * time.Second)
	for time.Now().Before(deadline) {
		cur := atomic.LoadInt64(&s.total)
		if int(cur-start) >= s.progress {
			break
		}
		if cur != last {
			last, lastChange = cur, time.Now()
		} else if time.Since(lastChange) > 30*time.Millisecond {
			break
		}
		time.Sleep(200 * time.Microsecond)
	}
	s.mu.Lock()
	s.stalled = true
	s.passed = int(atomic.LoadInt64(&s.total) - start)
	s.mu.Unlock()
}
func (s *stallStore) GetChunk(id desync.ChunkID) (*desync.Chunk, error) { return s.inner.GetChunk(id) }
func (s *stallStore) HasChunk(id desync.ChunkID) (bool, error) {
	s.enter("has")
	return s.inner.HasChunk(id)
}
func (s *stallStore) StoreChunk(c *desync.Chunk) error { s.enter("store"); return s.inner.StoreChunk(c) }
func (s *stallStore) Close() error                      { return s.inner.Close() }
func (s *stallStore) String() string                    { return "stall(" + s.inner.String() + ")" }

func c06StallCheck(a vh.Args, r *vh.Result, c *c06StallCase) error {
	desync.Digest = desync.SHA512256{}
	blob := vh.UnHex(c.BlobHex)
	work := filepath.Join(a.Work, "c06stall")
	os.RemoveAll(work)
	if err := os.MkdirAll(work, 0755); err != nil {
		return err
	}
	target, dir, err := bkNewStore(work, "target")
	if err != nil {
		return err
	}
	ss := &stallStore{inner: target, kind: c.Kind, k: c.K, progress: c.Progress, n: map[string]int{}}
	ch, err := desync.NewChunker(bytes.NewReader(blob), c.Min, c.Avg, c.Max)
	if err != nil {
		return err
	}
	idx, opErr := desync.ChunkStream(context.Background(), ch, ss, c.N)
	c.Got = bkErrClass(opErr)
	if opErr != nil {
		c.Detail = opErr.Error()
	}
	c.Stalled, c.Passed = ss.stalled, ss.passed
	key := fmt.Sprintf("stall|%d|%d|%s|%d|%d", c.N, len(blob), c.Kind, c.K, c.Max)
	r.Count(key, c.Stalled && c.Passed > 0)
	r.Dist("stall-n:" + fmt.Sprint(c.N))
	r.Dist(fmt.Sprintf("stall-refills-passed:%s", bucket(int(uint64(c.Passed/2)*c.Avg/(10*c.Max)))))
	if c.Got != "nil" {
		r.Fail("predicate", "chunkstream/error-without-failure", fmt.Sprintf("ChunkStream (n=%d, %d bytes) returned %s (%s) although nothing failed", c.N, len(blob), c.Got, c.Detail), c)
		return nil
	}
	if d := bkIndexDescribes(idx, blob); d != "" {
		c.Detail = d
		r.Fail("predicate", "chunkstream/nil-but-index-wrong", fmt.Sprintf("ChunkStream (n=%d, %d bytes, one %s call stalled) returned nil but the index does not describe the stream: %s", c.N, len(blob), c.Kind, d), c)
		return nil
	}
	if d := bkReadBack(dir, idx, blob); d != "" {
		c.Detail = d
		r.Fail("predicate", "chunkstream/nil-but-chunk-not-readable", fmt.Sprintf("ChunkStream (n=%d, %d bytes, min/avg/max %d/%d/%d, %s call %d stalled while %d other calls went by) returned nil but: %s", c.N, len(blob), c.Min, c.Avg, c.Max, c.Kind, c.K, c.Passed, d), c)
	}
	return nil
}

func c06Stalls(a vh.Args, r *vh.Result, rng *vh.Rand) error {
	inputs := 2
	if a.Tier == "thorough" {
		inputs = 10
	}
	for ii := 0; ii < inputs; ii++ {
		mx := uint64([]int{128, 192, 256}[rng.Intn(3)])
		min, avg := uint64(48), mx/2
		size := int(mx) * (40 + rng.Intn(40))
		blob := rng.Bytes(size)
		nchunks := size / int(avg)
		for _, n := range []int{2, 3, 4, 8} {
			for _, kind := range []string{"has", "store"} {
				for t := 0; t < 2; t++ {
					// stall a call in the first third of the stream so that the rest can overtake it by several buffers
					k := 1 + rng.Intn(nchunks/3+1)
					if t == 0 {
						k = 1 + rng.Intn(3)
					}
					c := &c06StallCase{Op: "chunkstream-stall", N: n, BlobHex: vh.Hex(blob), Min: min, Avg: avg, Max: mx,
						Kind: kind, K: k, Progress: int(2 * 35 * mx / avg), Level: "library-stall"}
					if err := c06StallCheck(a, r, c); err != nil {
						return err
					}
				}
			}
		}
	}
	return nil
}
