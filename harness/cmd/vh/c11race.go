package main

// Race-detector runs for C11 and C12 (thorough tier): the harness builds itself with -race (cgo + gcc are
// available in the sandbox; if the build fails the step is skipped with a note) and re-runs
//   C11race : the controlled failover/swap schedules plus a free-running hammer on FailoverGroup and SwapStore,
//   C12     : the quick tier of C12 (controlled schedules + the free-running stress child)
// in that binary.  A "WARNING: DATA RACE" report is a failure of class corr:<prop>/data-race (the Coq models
// cannot exhibit data races; this is the test-only coverage DESIGN.md 5 asks for); predicate failures found by
// the child are passed on unchanged.

import (
	"encoding/json"
	"fmt"
	"os"
	"os/exec"
	"path/filepath"
	"runtime"
	"strconv"
	"strings"
	"sync"
	"sync/atomic"
	"time"

	"github.com/folbricht/desync"

	"vh/internal/vh"
)

func init() { props["C11race"] = runC11Race }

func chainsRaceBinary(a vh.Args, r *vh.Result) string {
	if os.Getenv("VH_CHAINS_RACE_CHILD") == "1" {
		return ""
	}
	root := os.Getenv("VH_VERIF")
	if root == "" {
		r.Note("VH_VERIF not set: race-detector run skipped")
		return ""
	}
	out := filepath.Join(a.Work, "vh-race")
	cmd := exec.Command("go", "build", "-race", "-tags", "verif", "-o", out, "./cmd/vh")
	cmd.Dir = filepath.Join(root, "harness")
	cmd.Env = append(os.Environ(), "CGO_ENABLED=1")
	if b, err := cmd.CombinedOutput(); err != nil {
		msg := string(b)
		if len(msg) > 300 {
			msg = msg[len(msg)-300:]
		}
		r.Note("race-detector build not available (%v: %s): race run skipped", err, strings.TrimSpace(msg))
		return ""
	}
	return out
}

// chainsRaceRun runs sub-command prop of the race binary and merges what it finds into r.
func chainsRaceRun(a vh.Args, r *vh.Result, bin, prop, owner string, timeout time.Duration) {
	res := filepath.Join(a.Work, "race-"+prop+".json")
	cmd := exec.Command(bin, prop, "-tier", "quick", "-seed", strconv.FormatUint(a.Seed, 10), "-oracle", a.Oracle, "-out", res)
	cmd.Env = append(os.Environ(), "VH_CHAINS_RACE_CHILD=1", "GORACE=halt_on_error=0")
	var out []byte
	var err error
	done := make(chan struct{})
	go func() { out, err = cmd.CombinedOutput(); close(done) }()
	select {
	case <-done:
	case <-time.After(timeout):
		cmd.Process.Kill()
		<-done
		r.Fail("corr", "corr:"+owner+"/race-run-timeout", fmt.Sprintf("%s under the race detector did not finish in %s", prop, timeout), map[string]interface{}{"conc": "race"})
		return
	}
	text := string(out)
	r.Count("race|"+prop, true)
	r.Dist("race-detector-run:" + prop)
	if k := strings.Index(text, "WARNING: DATA RACE"); k >= 0 {
		end := k + 2500
		if end > len(text) {
			end = len(text)
		}
		r.Fail("corr", "corr:"+owner+"/data-race", "the race detector reports: "+text[k:end], map[string]interface{}{"conc": "race", "sub": prop})
	}
	var child struct {
		Evaluations int          `json:"evaluations"`
		Failures    []vh.Failure `json:"failures"`
	}
	if b, rerr := os.ReadFile(res); rerr == nil && json.Unmarshal(b, &child) == nil {
		r.Dist(fmt.Sprintf("race-detector-cases:%s", prop))
		if r.Extra == nil {
			r.Extra = map[string]interface{}{}
		}
		r.Extra["race_detector_"+prop+"_evaluations"] = child.Evaluations
		for _, f := range child.Failures {
			r.Fail(f.Kind, f.Class, "[under -race] "+f.What, f.Case)
		}
	} else if err != nil {
		tail := text
		if len(tail) > 800 {
			tail = tail[len(tail)-800:]
		}
		r.Fail("corr", "corr:"+owner+"/race-run-crashed", fmt.Sprintf("%s under the race detector: %v: %s", prop, err, tail), map[string]interface{}{"conc": "race"})
	}
}

// runC11Race is what the race binary executes for C11.
func runC11Race(a vh.Args, o *vh.Oracle, r *vh.Result) error {
	r.Rule = "race-detector child of C11"
	rng := vh.NewRand(a.Seed + 77)
	if err := c11Concurrent(vh.Args{Tier: "quick", Seed: a.Seed, Work: a.Work}, o, r, rng); err != nil {
		return err
	}
	c11FailoverLateReports(r, rng, 3000, map[string]interface{}{"conc": "failover-late-reports", "trials": 60000, "late_seed": a.Seed})
	return c11Hammer(r, rng)
}

// c11Hammer: free-running goroutines on a FailoverGroup under a SwapStore while other goroutines swap.
func c11Hammer(r *vh.Result, rng *vh.Rand) error {
	desync.VerifSetYieldHook(nil)
	for round := 0; round < 40; round++ {
		const gens, per = 6, 3
		var specs []string
		for g := 0; g < gens; g++ {
			for k := 0; k < per; k++ {
				spec := fmt.Sprintf("0:%d:1,1:%d:1,2:%d:1/_/n", g*100, g*100+1, g*100+2)
				if k != g%per { // one member per generation never fails
					spec = fmt.Sprintf("0:%d:1,1:%d:1,2:%d:1/%s/e", g*100, g*100+1, g*100+2, strings.Repeat("n", rng.Intn(5)))
				}
				specs = append(specs, spec)
			}
		}
		w, err := c11NewWorld(specs)
		if err != nil {
			return err
		}
		mk := func(g int) desync.Store {
			var ms []desync.Store
			for k := 0; k < per; k++ {
				ms = append(ms, w.members[g*per+k])
			}
			return desync.NewFailoverGroup(ms...)
		}
		sw := desync.NewSwapStore(mk(0))
		var failed, wrong, panics int64
		var panicMsg atomic.Value
		var wg sync.WaitGroup
		stop := make(chan struct{})
		guard := func() {
			if p := recover(); p != nil {
				atomic.AddInt64(&panics, 1)
				panicMsg.Store(fmt.Sprint(p))
			}
		}
		for g := 0; g < 6; g++ {
			wg.Add(1)
			seed := rng.U64()
			go func() {
				defer wg.Done()
				defer guard()
				lr := vh.NewRand(seed)
				for {
					select {
					case <-stop:
						return
					default:
					}
					id := lr.Intn(3)
					switch lr.Intn(4) {
					case 0: // a request that FAILS (no generation has chunk 5): it must come back as ChunkMissing, and come back
						if _, err := sw.GetChunk(c11ID(5)); c11Class(err) != "m" {
							atomic.AddInt64(&failed, 1)
						}
					case 1:
						if _, err := sw.HasChunk(c11ID(id)); err != nil {
							atomic.AddInt64(&failed, 1)
						}
					default:
						ch, err := sw.GetChunk(c11ID(id))
						if err != nil {
							atomic.AddInt64(&failed, 1)
						} else if c11Tag(ch)%100 != id {
							atomic.AddInt64(&wrong, 1)
						}
					}
					runtime.Gosched()
				}
			}()
		}
		swaps := make(chan struct{})
		go func() {
			defer close(swaps)
			defer guard()
			for g := 1; g < gens; g++ {
				time.Sleep(200 * time.Microsecond)
				if err := sw.Swap(mk(g)); err != nil {
					r.Fail("predicate", "swap/swap-fails", "Swap failed under load: "+err.Error(), map[string]interface{}{"conc": "hammer"})
				}
			}
		}()
		// watchdog: requests and swaps must get through; a hang costs 10 s, not the harness timeout
		finished := make(chan struct{})
		go func() { <-swaps; close(stop); wg.Wait(); close(finished) }()
		select {
		case <-finished:
		case <-time.After(10 * time.Second):
			r.Fail("predicate", "swap/request-and-swap-stuck", "free-running load on a SwapStore (GetChunk/HasChunk incl. requests for a chunk no store has, and Swap calls): no progress for 10 s; goroutines:\n"+chainsStuckStacks(), map[string]interface{}{"conc": "hammer"})
			return nil
		}
		if panics > 0 {
			msg, _ := panicMsg.Load().(string)
			r.Fail("predicate", "swap/panic", fmt.Sprintf("free-running load on a SwapStore over FailoverGroups: %d goroutines panicked: %s", panics, msg), map[string]interface{}{"conc": "hammer"})
			return nil
		}
		r.Count(fmt.Sprintf("hammer|%d", round), true)
		r.Dist("conc:hammer")
		if len(w.closedCalls) > 0 {
			r.Fail("predicate", "swap/call-on-closed-store", fmt.Sprintf("free-running load: calls reached closed member stores: %v", w.closedCalls[:1]), map[string]interface{}{"conc": "hammer"})
		}
		if failed > 0 {
			r.Fail("predicate", "failover/fails-with-healthy-member", fmt.Sprintf("free-running load: %d requests failed although every generation has a member that never fails", failed), map[string]interface{}{"conc": "hammer"})
		}
		if wrong > 0 {
			r.Fail("predicate", "swap/wrong-generation-data", fmt.Sprintf("free-running load: %d requests returned a chunk of another id", wrong), map[string]interface{}{"conc": "hammer"})
		}
	}
	return nil
}

// chainsStuckStacks returns the stacks of the goroutines that sit in desync code or on a lock.
func chainsStuckStacks() string {
	buf := make([]byte, 1<<18)
	buf = buf[:runtime.Stack(buf, true)]
	return chainsFilterStacks(string(buf))
}

func chainsFilterStacks(dump string) string {
	var out []string
	for _, g := range strings.Split(dump, "\n\n") {
		if strings.Contains(g, "folbricht/desync.") && (strings.Contains(g, "sync.RWMutex") || strings.Contains(g, "sync.Mutex") || strings.Contains(g, "chan receive") || strings.Contains(g, "semacquire")) {
			ls := strings.Split(g, "\n")
			if len(ls) > 9 {
				ls = ls[:9]
			}
			out = append(out, strings.Join(ls, "\n"))
		}
		if len(out) >= 6 {
			break
		}
	}
	return strings.Join(out, "\n\n")
}

// c11FailoverLateReports: truly parallel failure reports.  The cooperative scheduler runs one goroutine at a time, so
// it cannot put another goroutine's errorFrom between a request's own errorFrom and its next current().  Here a group
// of n >= 3 members (all but the last broken for good) gets one or two requests parked INSIDE each broken member j, at
// the attempt that reaches it (gate at the member's entry); a pilot request then moves the group on to the healthy
// member; finally all parked requests are released at once and run on all cores: their failure reports about members
// 0..n-2 arrive late and concurrently.  Predicate: the last member never fails, so no request may fail, and none may
// call a member twice.  Only a real failure of a real request raises the alarm.
func c11FailoverLateReports(r *vh.Result, rng *vh.Rand, trials int, replay map[string]interface{}) {
	desync.VerifSetYieldHook(nil)
	failed := false
	for trial := 0; trial < trials && !failed; trial++ {
		n := 3 + rng.Intn(2)
		per := 1 + rng.Intn(2)
		var specs []string
		for k := 0; k < n; k++ {
			if k == n-1 {
				specs = append(specs, "0:7:1/_/n")
			} else {
				specs = append(specs, "0:1:1/_/e")
			}
		}
		w, err := c11NewWorld(specs)
		if err != nil {
			return
		}
		type role struct {
			depth   int
			held    bool
			entered chan struct{}
			calls   []int
		}
		var mu sync.Mutex
		roles := map[string]*role{}
		release := make(chan struct{})
		w.onCall = func(m *c11Member, op byte, id int) {
			gid := c12GoroutineID()
			mu.Lock()
			ro := roles[gid]
			if ro != nil {
				ro.calls = append(ro.calls, m.idx)
			}
			hold := ro != nil && !ro.held && ro.depth == m.idx
			if hold {
				ro.held = true
			}
			mu.Unlock()
			if hold {
				ro.entered <- struct{}{}
				<-release
			}
		}
		var ms []desync.Store
		for _, m := range w.members {
			ms = append(ms, m)
		}
		group := desync.NewFailoverGroup(ms...)
		type outcome struct {
			ro  *role
			err error
		}
		results := make(chan outcome, 64)
		start := func(depth int) *role {
			ro := &role{depth: depth, entered: make(chan struct{}, 1)}
			ready := make(chan struct{})
			go func() {
				mu.Lock()
				roles[c12GoroutineID()] = ro
				mu.Unlock()
				close(ready)
				var err error
				func() {
					defer func() {
						if p := recover(); p != nil {
							err = fmt.Errorf("PANIC: %v", p)
						}
					}()
					_, err = group.GetChunk(c11ID(0))
				}()
				results <- outcome{ro, err}
			}()
			<-ready
			return ro
		}
		nreq := 0
		for j := 0; j < n-1; j++ { // requests parked inside member j, reached at their (j+1)-th attempt
			for k := 0; k < per; k++ {
				ro := start(j)
				nreq++
				select {
				case <-ro.entered:
				case <-time.After(5 * time.Second):
					r.Fail("predicate", "chain/concurrent-stall", fmt.Sprintf("a request did not reach member %d of a failover group", j), replay)
					close(release)
					return
				}
			}
		}
		start(-1) // the pilot: moves the group on to the healthy member and is served by it
		nreq++
		first := <-results
		close(release)
		outs := []outcome{first}
		for len(outs) < nreq {
			select {
			case o := <-results:
				outs = append(outs, o)
			case <-time.After(10 * time.Second):
				r.Fail("predicate", "chain/concurrent-stall", "requests of a failover group did not return", replay)
				return
			}
		}
		for _, o := range outs {
			seen := map[int]bool{}
			twice := -1
			for _, m := range o.ro.calls {
				if seen[m] {
					twice = m
				}
				seen[m] = true
			}
			if o.err != nil {
				r.Fail("predicate", "failover/fails-with-healthy-member", fmt.Sprintf("group of %d members, members 0..%d broken, member %d never fails; %d requests parked inside each broken member were released together after the group had moved on to member %d (late, concurrent failure reports): a request failed with %q after calling members %v (trial %d)", n, n-2, n-1, per, n-1, o.err.Error(), o.ro.calls, trial), replay)
				failed = true
				break
			}
			if twice >= 0 {
				r.Fail("predicate", "failover/repeats-member", fmt.Sprintf("group of %d members with late concurrent failure reports: a request called member %d twice (%v) (trial %d)", n, twice, o.ro.calls, trial), replay)
				failed = true
				break
			}
		}
	}
	r.Count("failover-late-reports", true)
	r.Dist("conc:failover-late-reports")
	if r.Extra == nil {
		r.Extra = map[string]interface{}{}
	}
	r.Extra["failover_late_report_trials"] = trials
}
