package main

// C14 — Remote transports preserve data and report missing vs. failed truthfully.
//
// (a) matrix:  RemoteHTTP client -> httptest(HTTPHandler) -> LocalStore for every combination of
//              client / server / upstream compression and verification switches, many chunk sizes;
// (b) script:  RemoteHTTP against a scripted TCP server (status codes, connection resets, bodies
//              that break off), observing the client's result class AND the number of requests
//              the server received;
// (c) session: the casync protocol (Protocol client <-> ProtocolServer) over in-process pipes and,
//              through a fake ssh, RemoteSSH <-> `desync pull`;
// (d) index:   RemoteHTTPIndex / raw HEAD -> httptest(HTTPIndexHandler) -> LocalIndexStore;
// (e) framing: Protocol.WriteMessage / ReadMessage against write_message / read_message.
// Every observation is compared with the extracted Coq model and checked by a Go predicate that
// does not use the model.

import (
	"bufio"
	"bytes"
	"context"
	"encoding/hex"
	"fmt"
	"io"
	"net"
	"net/http"
	"net/http/httptest"
	"net/url"
	"os"
	"path/filepath"
	"sort"
	"strconv"
	"strings"
	"sync"
	"sync/atomic"
	"time"

	"github.com/folbricht/desync"

	"vh/internal/vh"
)

func init() { props["C14"] = runC14 }

type c14Case struct {
	Part string `json:"part"`
	// matrix
	Op        string `json:"op,omitempty"`
	CliUnc    bool   `json:"client_uncompressed,omitempty"`
	CliSkip   bool   `json:"client_skip_verify,omitempty"`
	SrvComp   bool   `json:"server_compressed,omitempty"`
	StoreUnc  bool   `json:"store_uncompressed,omitempty"`
	StoreSkip bool   `json:"store_skip_verify,omitempty"`
	DataHex   string `json:"data_hex,omitempty"`
	Present   bool   `json:"present,omitempty"`
	// script
	Budget int      `json:"error_retry,omitempty"`
	Script []string `json:"script,omitempty"`
	// session
	Level    string   `json:"level,omitempty"`
	Requests []string `json:"requests,omitempty"`
	FailID   string   `json:"failing,omitempty"`
	// index
	Name     string `json:"name,omitempty"`
	Writable bool   `json:"writable,omitempty"`
	// putretry
	Kind       string `json:"kind,omitempty"` // index | chunk
	Upstream   string `json:"server,omitempty"`
	BodyLens   []int  `json:"attempt_body_lengths,omitempty"`
	PayloadLen int    `json:"payload_length,omitempty"`
	Stored     string `json:"server_object,omitempty"`
	// framing
	StreamHex string `json:"stream_hex,omitempty"`
	// results
	Got      string `json:"impl,omitempty"`
	Attempts int    `json:"attempts_seen_by_server,omitempty"`
	Model    string `json:"model,omitempty"`
	Want     string `json:"expected,omitempty"`
}

func c14Short(s string) string {
	if len(s) > 80 {
		return s[:80] + "..."
	}
	return s
}

// ---------- (a) matrix ----------

type c14Counter struct {
	h http.Handler
	n int64
}

func (c *c14Counter) ServeHTTP(w http.ResponseWriter, r *http.Request) {
	atomic.AddInt64(&c.n, 1)
	c.h.ServeHTTP(w, r)
}

func c14ChunkClass(ch *desync.Chunk, err error) string {
	if err != nil {
		if _, ok := err.(desync.ChunkMissing); ok {
			return "missing"
		}
		return "error"
	}
	d, err := ch.Data()
	if err != nil {
		return "data:?"
	}
	return "data:" + vh.Hex(d)
}

func c14Sizes(rng *vh.Rand, tier string) [][]byte {
	out := [][]byte{rng.Bytes(1), {0}, rng.Bytes(2), rng.Bytes(17), bytes.Repeat([]byte{0}, 3000), bytes.Repeat([]byte("abc"), 700), rng.Bytes(1 + rng.Intn(5000))}
	if tier == "thorough" {
		out = append(out, rng.Bytes(70000), bytes.Repeat([]byte{0}, 200000)[:100000+rng.Intn(1000)], rng.Bytes(4096), rng.Bytes(65536))
	}
	return out
}

func c14Matrix(a vh.Args, o *vh.Oracle, r *vh.Result, rng *vh.Rand) error {
	datas := c14Sizes(rng, a.Tier)
	for _, srvComp := range []bool{true, false} {
		for _, storeUnc := range []bool{false, true} {
			for _, storeSkip := range []bool{false, true} {
				dir := filepath.Join(a.Work, fmt.Sprintf("m-%v-%v-%v", srvComp, storeUnc, storeSkip))
				os.MkdirAll(dir, 0755)
				ls, err := desync.NewLocalStore(dir, desync.StoreOptions{Uncompressed: storeUnc, SkipVerify: storeSkip})
				if err != nil {
					return err
				}
				for _, d := range datas {
					if err := ls.StoreChunk(desync.NewChunk(d)); err != nil {
						return err
					}
				}
				var conv desync.Converters
				if srvComp {
					conv = desync.Converters{desync.Compressor{}}
				}
				cnt := &c14Counter{h: desync.NewHTTPHandler(ls, true, false, conv, "")}
				srv := httptest.NewServer(cnt)
				u, _ := url.Parse(srv.URL)
				for _, cliUnc := range []bool{false, true} {
					for _, cliSkip := range []bool{false, true} {
						cli, err := desync.NewRemoteHTTPStore(u, desync.StoreOptions{Uncompressed: cliUnc, SkipVerify: cliSkip, ErrorRetry: 2, ErrorRetryBaseInterval: time.Millisecond})
						if err != nil {
							srv.Close()
							return err
						}
						for di, d := range datas {
							ops := []string{"get", "get-absent", "has", "has-absent", "put"}
							if di < 2 {
								ops = append(ops, "get-corrupt", "get-dir", "has-dir")
							}
							for _, op := range ops {
								c := &c14Case{Part: "matrix", Op: op, CliUnc: cliUnc, CliSkip: cliSkip, SrvComp: srvComp, StoreUnc: storeUnc, StoreSkip: storeSkip, Budget: 2}
								data := d
								if strings.HasSuffix(op, "-absent") || op == "put" {
									data = append([]byte(fmt.Sprintf("absent-%d-", di)), d...)
								}
								if strings.HasSuffix(op, "-corrupt") || strings.HasSuffix(op, "-dir") {
									data = append([]byte(fmt.Sprintf("damaged-%d-", di)), d...)
								}
								c.DataHex = vh.Hex(data)
								if err := c14MatrixOne(a, o, r, c, cli, ls, dir, cnt, data); err != nil {
									srv.Close()
									return err
								}
							}
						}
					}
				}
				srv.Close()
			}
		}
	}
	return nil
}

func c14StoreFile(dir string, id desync.ChunkID, storeUnc bool) string {
	s := id.String()
	if storeUnc {
		return filepath.Join(dir, s[:4], s)
	}
	return filepath.Join(dir, s[:4], s+".cacnk")
}

func c14MatrixOne(a vh.Args, o *vh.Oracle, r *vh.Result, c *c14Case, cli *desync.RemoteHTTP, ls desync.LocalStore, dir string, cnt *c14Counter, data []byte) error {
	id := c15ID(data)
	match := c.CliUnc == !c.SrvComp
	file := c14StoreFile(dir, id, c.StoreUnc)
	switch {
	case strings.HasSuffix(c.Op, "-corrupt"): // a chunk file whose content belongs to other data
		os.MkdirAll(filepath.Dir(file), 0755)
		other := []byte("some other content")
		if !c.StoreUnc {
			other = c15Compress(other)
		}
		os.WriteFile(file, other, 0644)
		defer os.Remove(file)
	case strings.HasSuffix(c.Op, "-dir"): // the chunk's path is a directory: reading it fails
		os.MkdirAll(file, 0755)
		defer os.Remove(file)
	}
	before, berr := os.ReadFile(file)
	if strings.HasSuffix(c.Op, "-dir") {
		before, berr = nil, nil // LocalStore.GetChunk ignores the read error and goes on with no bytes
	}
	atomic.StoreInt64(&cnt.n, 0)
	var got string
	var after []byte
	switch c.Op {
	case "get", "get-absent", "get-corrupt", "get-dir":
		ch, err := cli.GetChunk(id)
		got = c14ChunkClass(ch, err)
	case "has", "has-absent", "has-dir":
		ok, err := cli.HasChunk(id)
		got = map[bool]string{true: "true", false: "false"}[ok]
		if err != nil {
			got = "error"
		}
	case "put":
		err := cli.StoreChunk(desync.NewChunk(data))
		got = "ok"
		if err != nil {
			got = "error"
		}
		after, _ = os.ReadFile(file)
		os.Remove(file)
	}
	c.Got, c.Attempts = got, int(atomic.LoadInt64(&cnt.n))
	key := fmt.Sprintf("matrix|%s|%v%v%v%v%v|%d", c.Op, c.CliUnc, c.CliSkip, c.SrvComp, c.StoreUnc, c.StoreSkip, len(data))
	r.Count(key, true)
	r.Dist("part:matrix")
	r.Dist("matrix-op:" + c.Op)
	r.Dist("matrix-size:" + bucket(len(data)))
	r.Dist("matrix-result:" + strings.SplitN(got, ":", 2)[0])
	r.Sample(map[string]interface{}{"part": "matrix", "op": c.Op, "client_uncompressed": c.CliUnc, "server_compressed": c.SrvComp, "store_uncompressed": c.StoreUnc, "size": len(data), "result": c14Short(got)})
	// predicate
	fail := func(class, what string) {
		r.Fail("predicate", class, fmt.Sprintf("matrix %s (client unc=%v skip=%v, server comp=%v, store unc=%v skip=%v, %d bytes): %s, got %s", c.Op, c.CliUnc, c.CliSkip, c.SrvComp, c.StoreUnc, c.StoreSkip, len(data), what, c14Short(got)), c)
	}
	wantData := "data:" + vh.Hex(data)
	damaged := strings.HasSuffix(c.Op, "-corrupt") || strings.HasSuffix(c.Op, "-dir")
	switch {
	case damaged && got == "missing":
		fail("matrix/failure-reported-missing", "an unreadable or corrupt chunk in the upstream store was reported as missing")
	case damaged && c.Op != "has-dir" && strings.HasPrefix(got, "data:") && (!c.StoreSkip || !c.CliSkip || c.Op == "get-dir"):
		fail("matrix/failure-reported-success", "an unreadable or corrupt chunk was delivered as data although verification was on")
	case damaged:
	case strings.HasPrefix(got, "data:") && got != wantData:
		fail("matrix/wrong-data", "the client received data that differs from the stored chunk")
	case match && c.Op == "get" && got != wantData:
		fail("matrix/present-not-delivered", "a present chunk was not delivered")
	case match && c.Op == "get-absent" && got != "missing":
		fail("matrix/missing-not-missing", "an absent chunk was not reported as ChunkMissing")
	case c.Op == "get" && got == "missing":
		fail("matrix/present-reported-missing", "a present chunk was reported missing")
	case match && c.Op == "has" && got != "true":
		fail("matrix/has-present", "HasChunk on a present chunk")
	case match && c.Op == "has-absent" && got != "false":
		fail("matrix/has-absent", "HasChunk on an absent chunk")
	case c.Op == "has" && got == "false":
		fail("matrix/has-present-false", "a present chunk was reported absent")
	case c.Op == "has-absent" && got == "true":
		fail("matrix/has-absent-true", "an absent chunk was reported present")
	case c.Op == "put":
		stored, ok := c15Decode(after, !c.StoreUnc)
		if match && (got != "ok" || !ok || !bytes.Equal(stored, data)) {
			fail("matrix/put-lost", "StoreChunk did not leave the chunk in the upstream store")
		}
		if got == "ok" && (!ok || !bytes.Equal(stored, data)) {
			fail("matrix/put-ok-not-stored", "StoreChunk reported success but the store does not hold the chunk")
		}
		if got != "ok" && len(after) > 0 {
			fail("matrix/put-error-stored", "StoreChunk reported an error but wrote the chunk")
		}
	}
	if c.Attempts > 2 {
		fail("matrix/attempts", fmt.Sprintf("%d requests with error-retry 2", c.Attempts))
	}
	// model
	if o == nil || len(data) > 20000 && a.Tier != "thorough" {
		return nil
	}
	files := "-"
	blobs := [][]byte{data, c15Compress(data)}
	if berr == nil {
		files = id.String() + ":" + vh.Hex(before)
		blobs = append(blobs, before)
	}
	zt, ct := c15ZTables(blobs...)
	op := strings.SplitN(c.Op, "-", 2)[0]
	ans, err := o.Call("c14.remote", op, "2", b01(c.CliUnc), b01(c.CliSkip), "-", "1", "0", b01(c.SrvComp), b01(c.StoreUnc), b01(c.StoreSkip),
		id.String(), vh.Hex(data), files, zt, ct)
	if err != nil {
		return err
	}
	c.Model = c14Short(ans)
	r.Corr()
	f := strings.Split(ans, " ")
	if f[0] != got {
		r.Fail("corr", "corr:C14/matrix-result", fmt.Sprintf("matrix %s: model %s, implementation %s", c.Op, c14Short(f[0]), c14Short(got)), c)
	}
	if f[1] != strconv.Itoa(c.Attempts) {
		r.Fail("corr", "corr:C14/matrix-attempts", fmt.Sprintf("matrix %s: model %s requests, server saw %d", c.Op, f[1], c.Attempts), c)
	}
	if c.Op == "put" {
		want := "-"
		if len(after) > 0 {
			want = id.String() + ":" + vh.Hex(after)
		}
		if len(f) < 3 || f[2] != want {
			r.Fail("corr", "corr:C14/matrix-put-effect", "the file written by the server differs from the model's store", c)
		}
	}
	return nil
}

// ---------- (b) scripted server ----------

type c14ScriptSrv struct {
	ln     net.Listener
	mu     sync.Mutex
	script []string
	bodies map[string][]byte
	n      int
	wg     sync.WaitGroup
	// what the requests carried, and the object a body-keeping server holds (PUT answered 2xx)
	reqBodies [][]byte
	stored    []byte
	hasObj    bool
}

func c14NewScriptSrv() (*c14ScriptSrv, error) {
	ln, err := net.Listen("tcp", "127.0.0.1:0")
	if err != nil {
		return nil, err
	}
	s := &c14ScriptSrv{ln: ln}
	go func() {
		for {
			conn, err := ln.Accept()
			if err != nil {
				return
			}
			s.wg.Add(1)
			go s.handle(conn)
		}
	}()
	return s, nil
}

func (s *c14ScriptSrv) set(script []string, bodies map[string][]byte) {
	s.wg.Wait()
	s.mu.Lock()
	s.script, s.bodies, s.n = script, bodies, 0
	s.reqBodies, s.stored, s.hasObj = nil, nil, false
	s.mu.Unlock()
}

func (s *c14ScriptSrv) seen() int {
	s.wg.Wait()
	s.mu.Lock()
	defer s.mu.Unlock()
	return s.n
}

func (s *c14ScriptSrv) handle(conn net.Conn) {
	defer s.wg.Done()
	defer conn.Close()
	conn.SetDeadline(time.Now().Add(10 * time.Second))
	req, err := http.ReadRequest(bufio.NewReader(conn))
	if err != nil {
		return
	}
	reqBody, _ := io.ReadAll(req.Body)
	s.mu.Lock()
	k := s.n
	s.n++
	tok := "200"
	if k < len(s.script) {
		tok = s.script[k]
	}
	body := s.bodies[tok]
	s.reqBodies = append(s.reqBodies, reqBody)
	if req.Method == "PUT" && (tok == "200" || tok == "201") {
		s.stored, s.hasObj = reqBody, true
	}
	s.mu.Unlock()
	switch tok {
	case "reset":
		if tc, ok := conn.(*net.TCPConn); ok {
			tc.SetLinger(0)
		}
		return
	case "short":
		fmt.Fprintf(conn, "HTTP/1.1 200 OK\r\nContent-Length: %d\r\nConnection: close\r\n\r\npartial", 1000)
		return
	}
	code, _ := strconv.Atoi(strings.TrimSuffix(tok, "bad"))
	if req.Method == "HEAD" {
		fmt.Fprintf(conn, "HTTP/1.1 %d X\r\nContent-Length: %d\r\nConnection: close\r\n\r\n", code, len(body))
		return
	}
	fmt.Fprintf(conn, "HTTP/1.1 %d X\r\nContent-Length: %d\r\nConnection: close\r\n\r\n", code, len(body))
	conn.Write(body)
}

func c14Retryable(tok string) bool {
	if tok == "reset" || tok == "short" {
		return true
	}
	code, _ := strconv.Atoi(strings.TrimSuffix(tok, "bad"))
	return code >= 500 && code < 600
}

// the property, evaluated directly: what the caller must see for this script and budget
func c14ScriptExpect(op string, budget int, script []string) (string, int) {
	max := budget
	if max < 1 {
		max = 1
	}
	for k := 0; k < max; k++ {
		tok := "200"
		if k < len(script) {
			tok = script[k]
		}
		if c14Retryable(tok) {
			continue
		}
		code, _ := strconv.Atoi(strings.TrimSuffix(tok, "bad"))
		switch op {
		case "get":
			switch {
			case tok == "200":
				return "data", k + 1
			case code == 404:
				return "missing", k + 1
			}
			return "error", k + 1
		case "has":
			switch code {
			case 200:
				return "true", k + 1
			case 404:
				return "false", k + 1
			}
			return "error", k + 1
		default:
			if code == 200 || code == 201 {
				return "ok", k + 1
			}
			return "error", k + 1
		}
	}
	return "error", max
}

func c14ScriptOne(a vh.Args, o *vh.Oracle, r *vh.Result, srv *c14ScriptSrv, op string, budget int, script []string, data []byte) error {
	id := c15ID(data)
	bad := []byte("not the chunk")
	bodies := map[string][]byte{"200": data, "200bad": bad, "404": []byte("chunk not found"), "500": []byte("boom"), "401": []byte("Unauthorized")}
	// pad so that the client never runs past the script
	full := append([]string{}, script...)
	for len(full) < budget+3 || len(full) < 3 {
		full = append(full, "200")
	}
	srv.set(full, bodies)
	u, _ := url.Parse("http://" + srv.ln.Addr().String() + "/")
	cli, err := desync.NewRemoteHTTPStore(u, desync.StoreOptions{Uncompressed: true, ErrorRetry: budget, ErrorRetryBaseInterval: 200 * time.Microsecond, Timeout: 5 * time.Second})
	if err != nil {
		return err
	}
	var got string
	switch op {
	case "get":
		ch, err := cli.GetChunk(id)
		got = c14ChunkClass(ch, err)
		if strings.HasPrefix(got, "data:") {
			if got == "data:"+vh.Hex(data) {
				got = "data"
			} else {
				got = "wrong-data"
			}
		}
	case "has":
		ok, err := cli.HasChunk(id)
		got = map[bool]string{true: "true", false: "false"}[ok]
		if err != nil {
			got = "error"
		}
	case "put":
		got = "ok"
		if err := cli.StoreChunk(desync.NewChunk(data)); err != nil {
			got = "error"
		}
	}
	seen := srv.seen()
	c := &c14Case{Part: "script", Op: op, Budget: budget, Script: script, DataHex: vh.Hex(data), Got: got, Attempts: seen}
	r.Count(fmt.Sprintf("script|%s|%d|%s", op, budget, strings.Join(script, ",")), true)
	r.Dist("part:script")
	r.Dist("script-op:" + op)
	r.Dist(fmt.Sprintf("script-budget:%d", budget))
	r.Dist(fmt.Sprintf("script-len:%d", len(script)))
	r.Dist("script-result:" + got)
	r.Dist(fmt.Sprintf("script-attempts:%d", seen))
	r.Sample(map[string]interface{}{"part": "script", "op": op, "error_retry": budget, "script": script, "result": got, "attempts": seen})
	want, wantN := c14ScriptExpect(op, budget, full)
	c.Want = fmt.Sprintf("%s %d", want, wantN)
	max := budget
	if max < 1 {
		max = 1
	}
	what := fmt.Sprintf("%s with error-retry %d against %v: client saw %s after %d requests, expected %s after %d", op, budget, script, got, seen, want, wantN)
	switch {
	case seen > max:
		r.Fail("predicate", "script/attempts-exceed-budget", what, c)
	case got != want && (got == "missing" || got == "false"):
		r.Fail("predicate", "script/failure-reported-missing", what, c)
	case got != want && (got == "data" || got == "true" || got == "ok" || got == "wrong-data"):
		r.Fail("predicate", "script/failure-reported-success", what, c)
	case got != want && wantN < max+1 && want != "error":
		r.Fail("predicate", "script/transient-failure-visible", what, c)
	case got != want:
		r.Fail("predicate", "script/wrong-result", what, c)
	case seen != wantN:
		r.Fail("predicate", "script/attempt-count", what, c)
	}
	if o == nil {
		return nil
	}
	// model: tokens
	toks := make([]string, len(full))
	for i, t := range full {
		switch t {
		case "reset":
			toks[i] = "T"
		case "short":
			toks[i] = "B"
		default:
			toks[i] = "s" + strings.TrimSuffix(t, "bad")
			if op == "get" {
				if b := bodies[t]; len(b) > 0 {
					toks[i] += ":" + hex.EncodeToString(b)
				}
			}
		}
	}
	var ans string
	mb := strconv.Itoa(budget)
	if budget < 0 { // ErrorRetry is an int; the model's budget is a natural number
		mb = "0"
	}
	switch op {
	case "get":
		ans, err = o.Call("c14.getchunk", mb, id.String(), strings.Join(toks, ","))
	case "has":
		ans, err = o.Call("c14.haschunk", mb, strings.Join(toks, ","))
	default:
		ans, err = o.Call("c14.storeobject", mb, strings.Join(toks, ","))
	}
	if err != nil {
		return err
	}
	c.Model = ans
	r.Corr()
	f := strings.Split(ans, " ")
	mres := strings.SplitN(f[0], ":", 2)[0]
	if mres != got && !(mres == "data" && got == "data") {
		r.Fail("corr", "corr:C14/script-result", fmt.Sprintf("%s error-retry %d %v: model %s, implementation %s", op, budget, script, f[0], got), c)
	}
	if f[1] != strconv.Itoa(seen) {
		r.Fail("corr", "corr:C14/script-attempts", fmt.Sprintf("%s error-retry %d %v: model %s requests, server saw %d", op, budget, script, f[1], seen), c)
	}
	return nil
}

func c14Scripts(a vh.Args, o *vh.Oracle, r *vh.Result, rng *vh.Rand) error {
	srv, err := c14NewScriptSrv()
	if err != nil {
		return err
	}
	defer srv.ln.Close()
	base := []string{"200", "404", "401", "400", "500", "503", "reset", "short"}
	extra := []string{"200bad", "201", "499", "599", "600", "403"}
	budgets := []int{0, 1, 2, 3, 5}
	data := rng.Bytes(40)
	run := func(op string, budget int, script []string) error {
		if op == "has" {
			for _, t := range script {
				if t == "short" { // a HEAD response has no body to break off
					return nil
				}
			}
		}
		return c14ScriptOne(a, o, r, srv, op, budget, script, data)
	}
	ops := []string{"get", "has", "put"}
	if a.Tier == "thorough" {
		budgets = append(budgets, -1) // a negative --error-retry behaves like 0
		// every sequence of length <= 3 over the base alphabet, every budget, every operation
		var seqs [][]string
		for _, x := range base {
			seqs = append(seqs, []string{x})
			for _, y := range base {
				seqs = append(seqs, []string{x, y})
				for _, z := range base {
					seqs = append(seqs, []string{x, y, z})
				}
			}
		}
		for _, op := range ops {
			for _, b := range budgets {
				for _, s := range seqs {
					if err := run(op, b, s); err != nil {
						return err
					}
				}
			}
		}
	} else {
		// every sequence of length <= 2 for get; singles and a sample of pairs for the others
		for _, op := range ops {
			for _, b := range budgets {
				for _, x := range base {
					if err := run(op, b, []string{x}); err != nil {
						return err
					}
					for _, y := range base {
						if op != "get" && !rng.Chance(1, 4) {
							continue
						}
						if err := run(op, b, []string{x, y}); err != nil {
							return err
						}
					}
				}
			}
		}
	}
	// longer random scripts (up to budget+2), biased towards retryable prefixes, with boundary statuses
	n := 150
	if a.Tier == "thorough" {
		n = 3000
	}
	all := append(append([]string{}, base...), extra...)
	retry := []string{"500", "503", "reset", "short", "599"}
	for i := 0; i < n; i++ {
		b := budgets[rng.Intn(len(budgets))]
		l := 1 + rng.Intn(b+2)
		s := make([]string, l)
		for j := range s {
			if rng.Chance(2, 3) && j < l-1 {
				s[j] = retry[rng.Intn(len(retry))]
			} else {
				s[j] = all[rng.Intn(len(all))]
			}
		}
		if err := run(ops[rng.Intn(3)], b, s); err != nil {
			return err
		}
	}
	return nil
}

// ---------- (c) casync protocol sessions ----------

type c14FailStore struct {
	desync.Store
	fail desync.ChunkID
}

func (s c14FailStore) GetChunk(id desync.ChunkID) (*desync.Chunk, error) {
	if id == s.fail {
		return nil, fmt.Errorf("injected store failure")
	}
	return s.Store.GetChunk(id)
}

type c14Session struct {
	dir     string
	present map[string][]byte // name -> data
	ids     map[string]desync.ChunkID
	unc     bool // the upstream local store is uncompressed
}

func c14NewSession(a vh.Args, rng *vh.Rand) (*c14Session, error) { return c14NewSessionFmt(a, rng, false) }

// the store behind the protocol server keeps its chunks compressed (casync's format) or plain
func c14NewSessionFmt(a vh.Args, rng *vh.Rand, unc bool) (*c14Session, error) {
	s := &c14Session{dir: filepath.Join(a.Work, "pstore"), present: map[string][]byte{}, ids: map[string]desync.ChunkID{}, unc: unc}
	if unc {
		s.dir = filepath.Join(a.Work, "pstore-u")
	}
	os.MkdirAll(s.dir, 0755)
	ls, err := desync.NewLocalStore(s.dir, desync.StoreOptions{Uncompressed: unc})
	if err != nil {
		return nil, err
	}
	for i, n := range []string{"p0", "p1", "p2"} {
		d := rng.Bytes(10 + 400*i)
		s.present[n] = d
		s.ids[n] = c15ID(d)
		if err := ls.StoreChunk(desync.NewChunk(d)); err != nil {
			return nil, err
		}
	}
	for _, n := range []string{"m0", "m1"} {
		s.ids[n] = c15ID([]byte("missing " + n))
	}
	return s, nil
}

// extra arguments for `desync pull` so that it opens the store in the right format
func (s *c14Session) remoteExtra(a vh.Args) string {
	if !s.unc {
		return ""
	}
	cfg := filepath.Join(a.Work, "pull-uncompressed.json")
	os.WriteFile(cfg, []byte(fmt.Sprintf(`{"store-options": {%q: {"uncompressed": true}}}`, s.dir)), 0644)
	return " --config " + cfg
}

// run the requests on ONE session; results "D:<hex>", "M", "E" per request
func (s *c14Session) runPipes(reqs []string, failing string) ([]string, error) {
	ls, err := desync.NewLocalStore(s.dir, desync.StoreOptions{SkipVerify: true, Uncompressed: s.unc})
	if err != nil {
		return nil, err
	}
	var store desync.Store = ls
	if failing != "" {
		store = c14FailStore{ls, s.ids[failing]}
	}
	r1, w1 := io.Pipe() // client -> server
	r2, w2 := io.Pipe() // server -> client
	ctx, cancel := context.WithCancel(context.Background())
	defer cancel()
	done := make(chan struct{})
	go func() {
		desync.NewProtocolServer(r1, w2, store).Serve(ctx)
		// the process serving a session exits when Serve returns: its pipe ends close
		r1.Close()
		w2.Close()
		close(done)
	}()
	cli := desync.NewProtocol(r2, w1)
	closeAll := func() { r1.Close(); w1.Close(); r2.Close(); w2.Close() }
	// the handshake and every request run under a timeout: a hang is an observable result
	initDone := make(chan error, 1)
	go func() { _, err := cli.Initialize(desync.CaProtocolPullChunks); initDone <- err }()
	select {
	case err := <-initDone:
		if err != nil {
			closeAll()
			out := make([]string, len(reqs))
			for i := range out {
				out[i] = "E"
			}
			return out, nil
		}
	case <-time.After(5 * time.Second):
		closeAll()
		out := make([]string, len(reqs))
		for i := range out {
			out[i] = "HANG"
		}
		return out, nil
	}
	var out []string
	hung := false
	for _, q := range reqs {
		if hung {
			out = append(out, "HANG")
			continue
		}
		type res struct {
			ch  *desync.Chunk
			err error
		}
		rc := make(chan res, 1)
		go func(id desync.ChunkID) { ch, err := cli.RequestChunk(id); rc <- res{ch, err} }(s.ids[q])
		select {
		case x := <-rc:
			out = append(out, c14PClass(x.ch, x.err))
		case <-time.After(5 * time.Second):
			out = append(out, "HANG")
			hung = true
			closeAll()
		}
	}
	if !hung {
		gb := make(chan struct{})
		go func() { cli.SendGoodbye(); close(gb) }()
		select {
		case <-gb:
		case <-time.After(2 * time.Second):
		}
	}
	closeAll()
	select {
	case <-done:
	case <-time.After(2 * time.Second):
	}
	return out, nil
}

func c14PClass(ch *desync.Chunk, err error) string {
	if err != nil {
		if _, ok := err.(desync.ChunkMissing); ok {
			return "M"
		}
		return "E"
	}
	d, err := ch.Data()
	if err != nil {
		return "E"
	}
	return "D:" + vh.Hex(d)
}

// the same over RemoteSSH with a fake ssh that runs `desync pull` locally
func (s *c14Session) runSSH(a vh.Args, reqs []string) ([]string, error) {
	if os.Getenv("VH_DESYNC") == "" {
		return nil, nil
	}
	// in a child process under a watchdog: a request that never returns is the result "HANG"
	ops := make([]c14SSHOp, len(reqs))
	for i, q := range reqs {
		id := s.ids[q]
		ops[i] = c14SSHOp{"get", id.String()}
	}
	res, _, err := c14RunSSHChild(a, s.dir, 1, ops, 5*time.Second, s.remoteExtra(a))
	return res, err
}

func c14SessionOne(a vh.Args, o *vh.Oracle, r *vh.Result, s *c14Session, level string, reqs []string, failing string) error {
	var got []string
	var err error
	if level == "ssh" {
		got, err = s.runSSH(a, reqs)
		if got == nil && err == nil {
			return nil
		}
	} else {
		got, err = s.runPipes(reqs, failing)
	}
	if err != nil {
		return err
	}
	c := &c14Case{Part: "session", Level: level, Requests: reqs, FailID: failing, Got: c14Short(strings.Join(got, ",")), StoreUnc: s.unc}
	r.Count(fmt.Sprintf("session|%s|%v|%s|%s", level, s.unc, strings.Join(reqs, ","), failing), true)
	r.Dist(fmt.Sprintf("session-store-uncompressed:%v", s.unc))
	r.Dist("part:session")
	r.Dist("session-level:" + level)
	r.Dist(fmt.Sprintf("session-len:%d", len(reqs)))
	r.Sample(map[string]interface{}{"part": "session", "level": level, "requests": reqs, "failing": failing, "replies": c.Got})
	// predicate: every request gets the truthful answer
	sawMissing := false
	for i, q := range reqs {
		want := "M"
		if d, ok := s.present[q]; ok {
			want = "D:" + vh.Hex(d)
		}
		if q == failing {
			want = "E"
		}
		g := got[i]
		switch {
		case g == want:
		case failing != "" && i > indexOf(reqs, failing):
			// after a store failure the session is over; every later answer must be an error
			if g != "E" {
				r.Fail("predicate", "session/reply-after-failure", fmt.Sprintf("%s session (upstream store uncompressed=%v) %v: request %d answered %s after the store failed", level, s.unc, reqs, i, c14Short(g)), c)
			}
		case sawMissing && g == "E":
			r.Fail("predicate", "session/request-after-missing", fmt.Sprintf("%s session (upstream store uncompressed=%v) %v: request %d (%s) failed because the server ended the session after answering MISSING; expected %s", level, s.unc, reqs, i, q, c14Short(want)), c)
		case strings.HasPrefix(g, "D:") && strings.HasPrefix(want, "D:"):
			r.Fail("predicate", "session/wrong-data", fmt.Sprintf("%s session (upstream store uncompressed=%v) %v: request %d delivered other data", level, s.unc, reqs, i), c)
		case g == "M":
			r.Fail("predicate", "session/present-reported-missing", fmt.Sprintf("%s session (upstream store uncompressed=%v) %v: request %d (%s) reported missing", level, s.unc, reqs, i, q), c)
		case strings.HasPrefix(g, "D:"):
			r.Fail("predicate", "session/missing-reported-present", fmt.Sprintf("%s session (upstream store uncompressed=%v) %v: request %d (%s) delivered data", level, s.unc, reqs, i, q), c)
		default:
			r.Fail("predicate", "session/wrong-reply", fmt.Sprintf("%s session (upstream store uncompressed=%v) %v: request %d (%s) answered %s, expected %s", level, s.unc, reqs, i, q, c14Short(g), c14Short(want)), c)
		}
		if _, ok := s.present[q]; !ok && q != failing {
			sawMissing = true
		}
	}
	if o == nil {
		return nil
	}
	// the store as the protocol server reads it: chunk files in the store's own format
	var pres []string
	var datas [][]byte
	for _, n := range []string{"p0", "p1", "p2"} {
		id := s.ids[n]
		file, _ := os.ReadFile(c14StoreFile(s.dir, id, s.unc))
		pres = append(pres, id.String()+":"+vh.Hex(file))
		datas = append(datas, s.present[n], file)
	}
	zt, ct := c15ZTables(datas...)
	ids := make([]string, len(reqs))
	for i, q := range reqs {
		id := s.ids[q]
		ids[i] = id.String()
	}
	fl := "-"
	if failing != "" {
		id := s.ids[failing]
		fl = id.String()
	}
	ans, err := o.Call("c14.session2", b01(s.unc), "1", strings.Join(pres, ","), fl, strings.Join(ids, ","), zt, ct)
	if err != nil {
		return err
	}
	c.Model = c14Short(ans)
	r.Corr()
	if ans != strings.Join(got, ",") {
		r.Fail("corr", "corr:C14/session", fmt.Sprintf("%s session (upstream store uncompressed=%v) %v: model %s, implementation %s", level, s.unc, reqs, c14Short(ans), c.Got), c)
	}
	return nil
}

func indexOf(l []string, x string) int {
	for i, y := range l {
		if y == x {
			return i
		}
	}
	return len(l)
}

func c14Sessions(a vh.Args, o *vh.Oracle, r *vh.Result, rng *vh.Rand) error {
	s, err := c14NewSession(a, rng)
	if err != nil {
		return err
	}
	names := []string{"p0", "p1", "m0", "m1"}
	var seqs [][]string
	for _, x := range names {
		seqs = append(seqs, []string{x})
		for _, y := range names {
			seqs = append(seqs, []string{x, y})
			for _, z := range names {
				seqs = append(seqs, []string{x, y, z})
			}
		}
	}
	seqs = append(seqs, []string{"p0", "p1", "p2", "p0", "p2", "p1", "p0"}, []string{"p0", "p1", "p2", "m0", "p0", "m1", "p1"})
	for _, q := range seqs {
		if err := c14SessionOne(a, o, r, s, "pipe", q, ""); err != nil {
			return err
		}
	}
	for _, q := range [][]string{{"p1"}, {"p0", "p1", "p0"}, {"p1", "p0"}} {
		if err := c14SessionOne(a, o, r, s, "pipe", q, "p1"); err != nil {
			return err
		}
	}
	// the same with an upstream store that keeps its chunks uncompressed
	su, err := c14NewSessionFmt(a, rng, true)
	if err != nil {
		return err
	}
	useqs := [][]string{{"p0"}, {"p1", "p2"}, {"p0", "m0", "p1"}, {"m0", "p2", "m1", "p0"}}
	if a.Tier == "thorough" {
		useqs = seqs
	}
	for _, q := range useqs {
		if err := c14SessionOne(a, o, r, su, "pipe", q, ""); err != nil {
			return err
		}
	}
	for _, q := range [][]string{{"p0", "p1"}, {"p2", "m0", "p0"}} {
		if err := c14SessionOne(a, o, r, su, "ssh", q, ""); err != nil {
			return err
		}
	}
	ssh := [][]string{{"p0", "p1", "p2"}, {"m0"}, {"p0", "m0", "p1"}, {"m0", "m1"}}
	if a.Tier == "thorough" {
		ssh = seqs
	}
	for _, q := range ssh {
		if err := c14SessionOne(a, o, r, s, "ssh", q, ""); err != nil {
			return err
		}
	}
	return nil
}

// ---------- (d) indexes over HTTP ----------

func c14IndexPart(a vh.Args, o *vh.Oracle, r *vh.Result, rng *vh.Rand) error {
	for _, writable := range []bool{true, false} {
		dir := filepath.Join(a.Work, fmt.Sprintf("idx-%v", writable))
		os.MkdirAll(filepath.Join(dir, "sub"), 0755)
		files := map[string][]byte{"a.caibx": c15Index(rng, 3), "empty.caibx": c15Index(rng, 0), "big.caidx": c15Index(rng, 200), "garbage.caibx": []byte("no index here")}
		for n, b := range files {
			os.WriteFile(filepath.Join(dir, n), b, 0644)
		}
		// entries that exist but cannot be opened (ELOOP), and a dangling link (does not exist)
		os.Symlink("loop.caibx", filepath.Join(dir, "loop.caibx"))
		os.Symlink("nowhere.caibx", filepath.Join(dir, "dangling.caibx"))
		is, err := desync.NewLocalIndexStore(dir)
		if err != nil {
			return err
		}
		cnt := &c14Counter{h: desync.NewHTTPIndexHandler(is, writable, "")}
		srv := httptest.NewServer(cnt)
		u, _ := url.Parse(srv.URL)
		cli, err := desync.NewRemoteHTTPIndexStore(u, desync.StoreOptions{ErrorRetry: 2, ErrorRetryBaseInterval: time.Millisecond})
		if err != nil {
			srv.Close()
			return err
		}
		newIdx := c15Index(rng, 5)
		type op struct{ kind, name string }
		ops := []op{}
		for _, n := range []string{"a.caibx", "empty.caibx", "big.caidx", "garbage.caibx", "missing.caibx", "sub", ".", "..", "inner.caibx",
			"loop.caibx", "dangling.caibx", strings.Repeat("n", 300) + ".caibx", "nul%00.caibx"} {
			ops = append(ops, op{"get", n}, op{"head", n})
		}
		for _, n := range []string{"new.caibx", "a.caibx", "sub", "loop.caibx"} {
			ops = append(ops, op{"put", n})
		}
		for _, p := range ops {
			c := &c14Case{Part: "index", Op: p.kind, Name: p.name, Writable: writable, Budget: 2}
			if err := c14IndexOne(a, o, r, c, cli, srv.URL, dir, cnt, newIdx); err != nil {
				srv.Close()
				return err
			}
		}
		srv.Close()
	}
	return nil
}

func c14DirModel(dir string) (string, []string) {
	var out, contents []string
	es, _ := os.ReadDir(dir)
	for _, e := range es {
		if e.IsDir() {
			out = append(out, vh.Hex([]byte(e.Name()))+":D")
			continue
		}
		if _, serr := os.Stat(filepath.Join(dir, e.Name())); serr != nil {
			if !os.IsNotExist(serr) { // exists but cannot be opened (symlink loop)
				out = append(out, vh.Hex([]byte(e.Name()))+":E")
			}
			continue // a dangling link does not exist
		}
		b, _ := os.ReadFile(filepath.Join(dir, e.Name()))
		out = append(out, vh.Hex([]byte(e.Name()))+":F:"+vh.Hex(b))
		contents = append(contents, string(b))
	}
	sort.Strings(out)
	if len(out) == 0 {
		return "-", nil
	}
	return strings.Join(out, ","), contents
}

func c14IndexOne(a vh.Args, o *vh.Oracle, r *vh.Result, c *c14Case, cli *desync.RemoteHTTPIndex, base, dir string, cnt *c14Counter, newIdx []byte) error {
	preModel, contents := c14DirModel(dir)
	realName, _ := url.PathUnescape(c.Name) // the name as the server sees it (r.URL.Path is decoded)
	file := filepath.Join(dir, realName)
	if strings.ContainsRune(realName, 0) {
		file = dir + "/" + realName
	}
	before, berr := os.ReadFile(file)
	st, serr := os.Stat(file)
	isFile := serr == nil && st.Mode().IsRegular()
	unopenable := serr != nil && !os.IsNotExist(serr) // exists / is refused for another reason than "does not exist"
	atomic.StoreInt64(&cnt.n, 0)
	var got string
	switch c.Op {
	case "get":
		idx, err := cli.GetIndex(c.Name)
		if err != nil {
			got = "error"
			if _, ok := err.(desync.NoSuchObject); ok {
				got = "missing"
			}
		} else {
			var w bytes.Buffer
			idx.WriteTo(&w)
			got = "data:" + vh.Hex(w.Bytes())
		}
	case "head":
		code, _ := c15Send(strings.TrimPrefix(base, "http://"), c15Raw("HEAD", "/"+c.Name, nil, nil), "HEAD")
		atomic.StoreInt64(&cnt.n, 1)
		switch code {
		case 200:
			got = "true"
		case 404:
			got = "false"
		default:
			got = "error"
		}
	case "put":
		idx, err := desync.IndexFromReader(bytes.NewReader(newIdx))
		if err != nil {
			return err
		}
		got = "ok"
		if err := cli.StoreIndex(c.Name, idx); err != nil {
			got = "error"
		}
	}
	c.Got, c.Attempts = c14Short(got), int(atomic.LoadInt64(&cnt.n))
	postModel, _ := c14DirModel(dir)
	after, _ := os.ReadFile(file)
	r.Count(fmt.Sprintf("index|%s|%s|%v", c.Op, c.Name, c.Writable), true)
	r.Dist("part:index")
	r.Dist("index-op:" + c.Op)
	r.Dist("index-result:" + strings.SplitN(got, ":", 2)[0])
	r.Sample(map[string]interface{}{"part": "index", "op": c.Op, "name": c.Name, "writable": c.Writable, "result": c14Short(got)})
	fail := func(class, what string) {
		r.Fail("predicate", class, fmt.Sprintf("index %s %q (writable=%v): %s, got %s", c.Op, c.Name, c.Writable, what, c14Short(got)), c)
	}
	canon, okc := c15Recode(before)
	switch c.Op {
	case "get":
		switch {
		case isFile && okc && got != "data:"+vh.Hex(canon):
			fail("index/get-present", "a present index did not arrive unchanged")
		case strings.HasPrefix(got, "data:") && !(isFile && okc && got == "data:"+vh.Hex(canon)):
			fail("index/get-wrong-data", "data delivered for a name that holds no such index")
		case berr != nil && os.IsNotExist(serr) && got != "missing":
			fail("index/get-missing", "a missing index was not reported as NoSuchObject")
		case serr == nil && got == "missing":
			fail("index/get-present-missing", "an existing entry was reported missing")
		case unopenable && got == "missing":
			fail("index/get-failure-reported-missing", fmt.Sprintf("the index cannot be opened (%v) but the client was told it does not exist (NoSuchObject)", serr))
		}
	case "head":
		switch {
		case isFile && got != "true":
			fail("index-head/present", "HEAD on an existing index")
		case os.IsNotExist(serr) && got != "false":
			fail("index-head/missing", "HEAD on a missing index")
		case serr == nil && !isFile && got == "true":
			fail("index-head/directory-name", "HEAD answers 200 for a name that is a directory, not an index")
		case unopenable && got == "false":
			fail("index-head/open-failure-reported-missing", fmt.Sprintf("HEAD answers 404 for an entry that exists but cannot be opened (%v)", serr))
		}
	case "put":
		wantStored, _ := c15Recode(newIdx)
		switch {
		case !c.Writable && (got == "ok" || !bytes.Equal(before, after)):
			fail("index/put-readonly", "a read-only index server accepted a write")
		case c.Writable && c.Name != "sub" && !unopenable && (got != "ok" || !bytes.Equal(after, wantStored)):
			fail("index/put-lost", "StoreIndex did not store the index")
		case got == "ok" && !bytes.Equal(after, wantStored):
			fail("index/put-ok-not-stored", "StoreIndex reported success without storing")
		}
	}
	var err error
	if o != nil {
		seen := map[string]bool{}
		var tab []string
		for _, b := range append(contents, string(newIdx)) {
			if seen[b] {
				continue
			}
			seen[b] = true
			if rc, ok := c15Recode([]byte(b)); ok {
				tab = append(tab, vh.Hex([]byte(b))+":"+vh.Hex(rc))
				if !seen[string(rc)] {
					seen[string(rc)] = true
					tab = append(tab, vh.Hex(rc)+":"+vh.Hex(rc))
				}
			} else {
				tab = append(tab, vh.Hex([]byte(b))+":!")
			}
		}
		var ans string
		ans, err = o.Call("c14.remoteindex", c.Op, "2", "-", b01(c.Writable), vh.Hex([]byte(realName)), vh.Hex(newIdx), preModel, strings.Join(tab, ","))
		if err == nil {
			c.Model = c14Short(ans)
			r.Corr()
			f := strings.Split(ans, " ")
			if f[0] != got {
				r.Fail("corr", "corr:C14/index-result", fmt.Sprintf("index %s %q: model %s, implementation %s", c.Op, c.Name, c14Short(f[0]), c14Short(got)), c)
			}
			if f[1] != strconv.Itoa(c.Attempts) {
				r.Fail("corr", "corr:C14/index-attempts", fmt.Sprintf("index %s %q: model %s requests, server saw %d", c.Op, c.Name, f[1], c.Attempts), c)
			}
			if c.Op == "put" && (len(f) < 3 || f[2] != postModel) {
				r.Fail("corr", "corr:C14/index-put-effect", fmt.Sprintf("index put %q: directory differs from the model's", c.Name), c)
			}
		}
	}
	// restore
	if c.Op == "put" {
		if berr == nil {
			os.WriteFile(file, before, 0644)
		} else if st2, e2 := os.Stat(file); e2 == nil && st2.Mode().IsRegular() {
			os.Remove(file)
		}
	}
	return err
}

// ---------- (e) message framing ----------

func c14Framing(a vh.Args, o *vh.Oracle, r *vh.Result, rng *vh.Rand) error {
	if o == nil {
		return nil
	}
	n := 300
	if a.Tier == "thorough" {
		n = 5000
	}
	types := []uint64{desync.CaProtocolHello, desync.CaProtocolRequest, desync.CaProtocolChunk, desync.CaProtocolMissing, desync.CaProtocolGoodbye, desync.CaProtocolAbort, 0, 1, ^uint64(0)}
	for i := 0; i < n; i++ {
		m := desync.Message{Type: types[rng.Intn(len(types))], Body: rng.Bytes([]int{0, 1, 8, 32, 40, 41, 300}[rng.Intn(7)])}
		var w bytes.Buffer
		if err := desync.NewProtocol(nil, &w).WriteMessage(m); err != nil {
			return err
		}
		ans, err := o.Call("c14.writemsg", strconv.FormatUint(m.Type, 10), vh.Hex(m.Body))
		if err != nil {
			return err
		}
		r.Corr()
		r.Dist("part:framing")
		if ans != vh.Hex(w.Bytes()) {
			r.Fail("corr", "corr:C14/write-message", "WriteMessage bytes differ from write_message", &c14Case{Part: "framing", StreamHex: vh.Hex(w.Bytes()), Model: ans})
		}
		// a stream: the message (possibly damaged) followed by a tail
		stream := append(append([]byte{}, w.Bytes()...), rng.Bytes(rng.Intn(20))...)
		switch rng.Intn(5) {
		case 0:
			stream = stream[:rng.Intn(len(stream)+1)]
		case 1:
			stream[rng.Intn(8)] ^= byte(1 << uint(rng.Intn(8)))
		case 2:
			stream = rng.Bytes(rng.Intn(40))
		}
		got := "error"
		rd := bytes.NewReader(stream)
		if mm, err := desync.NewProtocol(rd, nil).ReadMessage(); err == nil {
			rest, _ := io.ReadAll(rd)
			got = fmt.Sprintf("msg %d %s %s", mm.Type, vh.Hex(mm.Body), vh.Hex(rest))
		}
		ans, err = o.Call("c14.readmsg", vh.Hex(stream))
		if err != nil {
			return err
		}
		r.Corr()
		r.Count("framing|"+vh.Hex(stream[:min(len(stream), 24)]), true)
		if ans != got {
			r.Fail("corr", "corr:C14/read-message", fmt.Sprintf("ReadMessage: model %s, implementation %s", c14Short(ans), c14Short(got)), &c14Case{Part: "framing", StreamHex: vh.Hex(stream), Got: got, Model: ans})
		}
		// predicate: an undamaged message is read back exactly
		if rng.Chance(1, 3) {
			rd := bytes.NewReader(w.Bytes())
			mm, err := desync.NewProtocol(rd, nil).ReadMessage()
			if err != nil || mm.Type != m.Type || !bytes.Equal(mm.Body, m.Body) {
				r.Fail("predicate", "framing/roundtrip", "a written message was not read back", &c14Case{Part: "framing", StreamHex: vh.Hex(w.Bytes())})
			}
		}
	}
	return nil
}

func runC14(a vh.Args, o *vh.Oracle, r *vh.Result) error {
	r.Rule = "case = one client operation observed end to end: (matrix) Get/Has/StoreChunk through RemoteHTTP -> HTTPHandler -> LocalStore for one combination of client/server/upstream compression and verification switches and one chunk; (script) one operation against a scripted server (sequence of statuses / connection resets / broken bodies) with one error-retry value, observing result class and requests received; (session) one casync protocol session with a sequence of present/missing requests; (index) one index GET/HEAD/PUT; (framing) one message stream. Every case is non-trivial; distinct by its parameters"
	desync.Digest = desync.SHA256{}
	rng := vh.NewRand(a.Seed)
	if devnull, err := os.OpenFile(os.DevNull, os.O_WRONLY, 0); err == nil {
		saved := os.Stderr
		os.Stderr = devnull
		defer func() { os.Stderr = saved; devnull.Close() }()
	}
	desync.Log.SetOutput(io.Discard)
	if a.Replay != "" {
		var c c14Case
		if err := readJSON(a.Replay, &c); err != nil {
			return err
		}
		return c14Replay(a, o, r, &c)
	}
	nstd := 10000
	if a.Tier == "thorough" {
		nstd = 30000
	}
	if v, err := strconv.Atoi(os.Getenv("VH_NSTD")); err == nil {
		nstd = v
	}
	if err := runGoStd(a, o, r, rng.Fork(), nstd); err != nil {
		return err
	}
	if err := c14Matrix(a, o, r, rng.Fork()); err != nil {
		return err
	}
	if err := c14Scripts(a, o, r, rng.Fork()); err != nil {
		return err
	}
	if err := c14Sessions(a, o, r, rng.Fork()); err != nil {
		return err
	}
	if err := c14IndexPart(a, o, r, rng.Fork()); err != nil {
		return err
	}
	if err := c14IndexProxy(a, o, r, rng.Fork()); err != nil {
		return err
	}
	if err := c14PutRetries(a, o, r, rng.Fork()); err != nil {
		return err
	}
	if err := c14Overlap(a, o, r, rng.Fork()); err != nil {
		return err
	}
	if err := c14SSHPool(a, o, r, rng.Fork()); err != nil {
		return err
	}
	if err := c14CLIPut(a, o, r, rng.Fork()); err != nil {
		return err
	}
	if err := c14UpFail(a, o, r, rng.Fork()); err != nil {
		return err
	}
	if err := c14SizeFamily(a, o, r, rng.Fork()); err != nil {
		return err
	}
	return c14Framing(a, o, r, rng.Fork())
}

func c14Replay(a vh.Args, o *vh.Oracle, r *vh.Result, c *c14Case) error {
	rng := vh.NewRand(a.Seed)
	switch c.Part {
	case "index-proxy":
		return c14IndexProxy(a, o, r, rng)
	case "putretry":
		return c14PutRetries(a, o, r, rng)
	case "overlap":
		return c14Overlap(a, o, r, rng)
	case "sshpool":
		return c14SSHPool(a, o, r, rng)
	case "cliput":
		return c14CLIPut(a, o, r, rng)
	case "upfail":
		return c14UpFail(a, o, r, rng)
	case "sizes":
		return c14SizeFamily(a, o, r, rng)
	case "script":
		srv, err := c14NewScriptSrv()
		if err != nil {
			return err
		}
		defer srv.ln.Close()
		return c14ScriptOne(a, o, r, srv, c.Op, c.Budget, c.Script, vh.UnHex(c.DataHex))
	case "session":
		s, err := c14NewSessionFmt(a, rng, c.StoreUnc)
		if err != nil {
			return err
		}
		return c14SessionOne(a, o, r, s, c.Level, c.Requests, c.FailID)
	case "matrix":
		return c14Matrix(a, o, r, rng)
	case "index":
		return c14IndexPart(a, o, r, rng)
	default:
		return c14Framing(a, o, r, rng)
	}
}
