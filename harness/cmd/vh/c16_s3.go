package main

// C16, S3 part: S3Store.Prune against a minimal in-harness S3 endpoint (path-style ListObjectsV2 with
// paging, DELETE object), compared with Model/Prune.v s3_prune and with the property predicate.

import (
	"context"
	"encoding/hex"
	"encoding/xml"
	"fmt"
	"net"
	"net/http"
	"net/url"
	"os"
	"sort"
	"strings"
	"sync"

	"github.com/folbricht/desync"
	minio "github.com/minio/minio-go/v6"
	"github.com/minio/minio-go/v6/pkg/credentials"

	"vh/internal/vh"
)

type fakeS3 struct {
	mu      sync.Mutex
	bucket  string
	keys    map[string]bool
	page    int
	lists   int
	reqs    int
	cancelAt int
	cancel  func()
	failAt  int    // fail the failAt-th LIST request (0 = never)
	failHow string // AccessDenied | NoSuchBucket
	delFail int    // refuse the delFail-th DELETE request (0 = never)
	delHow  string // AccessDenied | NoSuchBucket
	refused []string
	deletes []string
	other   []string
}

type s3Contents struct {
	Key          string
	LastModified string
	ETag         string
	Size         int
	StorageClass string
}
type s3ListResult struct {
	XMLName               xml.Name `xml:"ListBucketResult"`
	Name                  string
	Prefix                string
	KeyCount              int
	MaxKeys               int
	IsTruncated           bool
	NextContinuationToken string `xml:",omitempty"`
	EncodingType          string `xml:",omitempty"`
	Contents              []s3Contents
}

func (s *fakeS3) ServeHTTP(w http.ResponseWriter, r *http.Request) {
	s.mu.Lock()
	defer s.mu.Unlock()
	p := strings.TrimPrefix(r.URL.Path, "/")
	parts := strings.SplitN(p, "/", 2)
	q := r.URL.Query()
	s.reqs++
	if s.cancelAt > 0 && s.reqs == s.cancelAt && s.cancel != nil {
		s.cancel() // the caller's context is cancelled while this request is in flight
	}
	switch {
	case r.Method == "GET" && q.Get("list-type") == "2" && (len(parts) == 1 || parts[1] == ""):
		s.lists++
		if s.failAt > 0 && s.lists == s.failAt {
			code := map[string]int{"AccessDenied": 403, "NoSuchBucket": 404}[s.failHow]
			w.Header().Set("Content-Type", "application/xml")
			w.WriteHeader(code)
			fmt.Fprintf(w, `<?xml version="1.0" encoding="UTF-8"?><Error><Code>%s</Code><Message>injected</Message><BucketName>%s</BucketName><Resource>/%s</Resource><RequestId>1</RequestId><HostId>h</HostId></Error>`, s.failHow, s.bucket, s.bucket)
			return
		}
		prefix := q.Get("prefix")
		var ks []string
		for k := range s.keys {
			if strings.HasPrefix(k, prefix) {
				ks = append(ks, k)
			}
		}
		sort.Strings(ks)
		start := q.Get("continuation-token")
		if start == "" {
			start = q.Get("start-after")
		}
		i := 0
		for i < len(ks) && start != "" && ks[i] <= start {
			i++
		}
		ks = ks[i:]
		res := s3ListResult{Name: s.bucket, Prefix: prefix, MaxKeys: s.page, EncodingType: q.Get("encoding-type")}
		if len(ks) > s.page {
			res.IsTruncated = true
			res.NextContinuationToken = ks[s.page-1]
			ks = ks[:s.page]
		}
		for _, k := range ks {
			ek := k
			if q.Get("encoding-type") == "url" {
				ek = url.QueryEscape(k)
			}
			res.Contents = append(res.Contents, s3Contents{Key: ek, LastModified: "2020-01-01T00:00:00.000Z", ETag: "\"0\"", Size: 1, StorageClass: "STANDARD"})
		}
		res.KeyCount = len(ks)
		if os.Getenv("VH_DEBUG") != "" {
			fmt.Fprintf(os.Stderr, "s3 list %s -> %d keys truncated=%v\n", r.URL.String(), len(ks), res.IsTruncated)
		}
		w.Header().Set("Content-Type", "application/xml")
		b, _ := xml.Marshal(res)
		w.Write([]byte(xml.Header))
		w.Write(b)
	case r.Method == "DELETE" && len(parts) == 2:
		if s.delFail > 0 && len(s.deletes)+len(s.refused)+1 == s.delFail {
			s.refused = append(s.refused, parts[1])
			code := map[string]int{"AccessDenied": 403, "NoSuchBucket": 404}[s.delHow]
			w.Header().Set("Content-Type", "application/xml")
			w.WriteHeader(code)
			fmt.Fprintf(w, `<?xml version="1.0" encoding="UTF-8"?><Error><Code>%s</Code><Message>injected</Message><Key>%s</Key><BucketName>%s</BucketName><Resource>/%s/%s</Resource><RequestId>1</RequestId><HostId>h</HostId></Error>`, s.delHow, parts[1], s.bucket, s.bucket, parts[1])
			return
		}
		s.deletes = append(s.deletes, parts[1])
		delete(s.keys, parts[1])
		w.WriteHeader(http.StatusNoContent)
	default:
		s.other = append(s.other, r.Method+" "+r.URL.String())
		http.Error(w, "not implemented", http.StatusNotImplemented)
	}
}

func c16S3(a vh.Args, o *vh.Oracle, r *vh.Result, c *c16Case) error {
	srv := &fakeS3{bucket: "bkt", keys: map[string]bool{}, page: 3, failAt: c.N, failHow: c.Backend}
	if c.N == 0 {
		srv.failHow = ""
	}
	srv.delFail, srv.delHow = c.DelFail, c.DelHow
	for _, k := range c.Keys {
		srv.keys[k] = true
	}
	ln, err := net.Listen("tcp", "127.0.0.1:0")
	if err != nil {
		return err
	}
	hs := &http.Server{Handler: srv}
	go hs.Serve(ln)
	defer hs.Close()
	loc := "s3+http://" + ln.Addr().String() + "/bkt"
	if c.Prefix != "" {
		loc += "/" + strings.TrimSuffix(c.Prefix, "/")
	}
	u, _ := url.Parse(loc)
	st, err := desync.NewS3Store(u, credentials.NewStaticV4("key", "secret", ""), "us-east-1",
		desync.StoreOptions{Uncompressed: c.Unc}, minio.BucketLookupPath)
	if err != nil {
		return err
	}
	keep := map[desync.ChunkID]struct{}{}
	for _, h := range c.Keep {
		id, err := desync.ChunkIDFromString(h)
		if err != nil {
			return err
		}
		keep[id] = struct{}{}
	}
	ctx, cancel := context.WithCancel(context.Background())
	defer cancel()
	srv.mu.Lock()
	srv.cancelAt, srv.cancel = c.CancelAt, cancel
	srv.mu.Unlock()
	perr := st.Prune(ctx, keep)
	res := "nil"
	if perr != nil {
		res = "other"
	}
	srv.mu.Lock()
	var after []string
	for k := range srv.keys {
		after = append(after, k)
	}
	other := append([]string{}, srv.other...)
	if os.Getenv("VH_DEBUG") != "" {
		fmt.Fprintf(os.Stderr, "s3 deletes: %q err=%v\n", srv.deletes, perr)
	}
	srv.mu.Unlock()
	sort.Strings(after)
	if len(other) > 0 {
		r.Note("fake S3: unsupported requests: %v", other)
	}
	afterSet := map[string]bool{}
	for _, k := range after {
		afterSet[k] = true
	}
	canon := func(k string) (string, bool) { // canonical own-format key below the prefix
		if !strings.HasPrefix(k, c.Prefix) {
			return "", false
		}
		return canonicalID(strings.TrimPrefix(k, c.Prefix), c.Unc)
	}
	nontriv := false
	for _, k := range c.Keys {
		if id, ok := canon(k); ok && !lsInSet(c.Keep, id) {
			nontriv = true
		}
	}
	r.Count(fmt.Sprintf("s3prune|%v|%s|%s|%d|%s", c.Unc, c.Prefix, c.KeepTag, len(c.Keys), strings.Join(c.Feat, "+")), nontriv)
	r.Dist("s3-result:" + res)
	fail := func(class, what string) {
		c.What = what
		r.Fail("predicate", class, what, c)
	}
	srv.mu.Lock()
	cancelled := srv.cancelAt > 0 && srv.reqs >= srv.cancelAt
	srv.mu.Unlock()
	if cancelled {
		r.Dist("s3-cancelled:result=" + res)
	}
	srv.mu.Lock()
	injected := srv.failAt > 0 && srv.lists >= srv.failAt || cancelled
	refused := append([]string{}, srv.refused...)
	srv.mu.Unlock()
	if len(refused) > 0 {
		r.Dist("s3-delete-refused:" + c.DelHow + "/result=" + res)
		if res == "nil" {
			fail("s3prune/delete-error-swallowed", fmt.Sprintf("the service refused DELETE %s (%s) and S3Store.Prune returned nil; the unreferenced object is still there", refused[0], c.DelHow))
		}
		// RemoveChunk itself must hand the refusal back
		if id, ok := canon(refused[0]); ok {
			srv.mu.Lock()
			srv.delFail = len(srv.deletes) + len(srv.refused) + 1
			srv.mu.Unlock()
			cid, _ := desync.ChunkIDFromString(id)
			if rerr := st.RemoveChunk(cid); rerr == nil {
				fail("s3/removechunk-swallows-error", fmt.Sprintf("the service refused DELETE %s (%s) and S3Store.RemoveChunk returned nil", refused[0], c.DelHow))
			}
		}
		injected = true
	}
	if injected {
		r.Dist("s3-list-failure:" + c.Backend + "/result=" + res)
	}
	if res != "nil" && !injected {
		fail("s3prune/returns-error", fmt.Sprintf("S3Store.Prune returned %v", perr))
	}
	if len(refused) > 0 {
		return nil
	}
	for _, k := range c.Keys {
		if afterSet[k] {
			if id, ok := canon(k); ok && !lsInSet(c.Keep, id) && res == "nil" {
				cls, extra := "s3prune/leaves-unreferenced", ""
				if cancelled {
					cls, extra = "s3prune/cancelled-reports-success", fmt.Sprintf(" (the context was cancelled at request %d, Prune returned nil)", c.CancelAt)
				} else if injected {
					cls, extra = "s3prune/list-error-swallowed", fmt.Sprintf(" (LIST request %d was answered %s, Prune returned nil)", c.N, c.Backend)
				}
				fail(cls, "unreferenced chunk object left: "+k+extra)
			}
			continue
		}
		id, ok := canon(k)
		switch {
		case !ok:
			fail("s3prune/removes-non-chunk", "removed an object that is not a canonical own-format chunk: "+k)
		case lsInSet(c.Keep, id):
			fail("s3prune/removes-referenced", "removed a referenced chunk: "+k)
		}
	}
	for _, k := range after {
		if !lsInSet(c.Keys, k) {
			fail("s3prune/creates-object", "object appeared: "+k)
		}
	}
	if o == nil || injected {
		return nil
	}
	var hk []string
	sorted := append([]string{}, c.Keys...)
	sort.Strings(sorted)
	for _, k := range sorted {
		hk = append(hk, lsHx([]byte(k)))
	}
	ans, err := o.Call("c16.s3prune", lsHx([]byte(c.Prefix)), lsB01(c.Unc), strings.Join(c.Keep, ","), strings.Join(hk, ","))
	if err != nil {
		return err
	}
	r.Corr()
	var mk []string
	if ans != "-" {
		for _, h := range strings.Split(ans, ",") {
			mk = append(mk, string(lsUnhx(h)))
		}
	}
	sort.Strings(mk)
	if strings.Join(mk, "\n") != strings.Join(after, "\n") {
		c.What = fmt.Sprintf("objects after prune: implementation %q, model %q", after, mk)
		r.Fail("corr", "corr:C16/s3-objects", c.What, c)
	}
	return nil
}

func c16S3All(a vh.Args, o *vh.Oracle, r *vh.Result, rng *vh.Rand) error {
	n := 40
	if a.Tier == "thorough" {
		n = 600
	}
	for i := 0; i < n; i++ {
		c := &c16Case{Kind: "s3prune", Unc: rng.Bool(), Backend: "s3", Prefix: []string{"", "pfx/", "a/b/"}[rng.Intn(3)]}
		feat := map[string]bool{}
		k := 2 + rng.Intn(5)
		var ids []string
		add := func(key, f string) {
			if !lsInSet(c.Keys, key) {
				c.Keys = append(c.Keys, key)
				feat[f] = true
			}
		}
		for j := 0; j < k; j++ {
			id := hex.EncodeToString(rng.Bytes(32))
			ids = append(ids, id)
			for _, unc := range []bool{false, true} {
				if rng.Chance(2, 3) {
					ext := ".cacnk"
					if unc {
						ext = ""
					}
					add(c.Prefix+id[:4]+"/"+id+ext, "chunk")
				}
			}
		}
		for j := rng.Intn(6); j > 0; j-- {
			id := ids[rng.Intn(len(ids))]
			ext := []string{"", ".cacnk"}[rng.Intn(2)]
			switch rng.Intn(9) {
			case 0:
				add(c.Prefix+"README", "junk")
			case 1:
				add(c.Prefix+id[:2]+"/"+id+ext, "short-dir") // idFromName only asks that the id starts with the directory name
			case 2:
				add(c.Prefix+"0000/"+id+ext, "wrong-dir")
			case 3:
				add(c.Prefix+strings.ToUpper(id[:4])+"/"+strings.ToUpper(id)+ext, "upper-case")
			case 4:
				add(c.Prefix+id[:4]+"/sub/"+id+ext, "nested")
			case 5:
				add("other/"+id[:4]+"/"+id+ext, "outside-prefix")
			case 6:
				add(c.Prefix+id+ext, "no-dir")
			case 7:
				add(c.Prefix+id[:4]+"/"+id[:62]+ext, "short-id")
			case 8:
				add(c.Prefix+id[:4]+"/"+id+".cacnk.bak", "near-miss")
			}
		}
		c.Keep, c.KeepTag = c16Keep(rng, ids)
		c.Feat = lsFeats(feat)
		if i%4 == 2 { // cancel the context at every request of the listing/removal sequence in turn
			fc := *c
			fc.Keep, fc.KeepTag = nil, "empty"
			for n := 1; n <= len(fc.Keys)/3+len(fc.Keys)+2; n++ {
				cc := fc
				cc.CancelAt = n
				if err := c16S3(a, o, r, &cc); err != nil {
					return err
				}
			}
		}
		if i%4 == 1 { // refuse every DELETE request in turn
			fc := *c
			fc.Keep, fc.KeepTag = nil, "empty"
			nchunks := 0
			for _, k := range fc.Keys {
				if _, ok := canonicalID(strings.TrimPrefix(k, fc.Prefix), fc.Unc); ok && strings.HasPrefix(k, fc.Prefix) {
					nchunks++
				}
			}
			for n := 1; n <= nchunks; n++ {
				dc := fc
				dc.DelFail, dc.DelHow = n, []string{"AccessDenied", "NoSuchBucket"}[n%2]
				if err := c16S3(a, o, r, &dc); err != nil {
					return err
				}
			}
		}
		if i%4 == 3 { // fail every LIST request in turn (page size 3)
			pages := len(c.Keys)/3 + 2
			for n := 1; n <= pages; n++ {
				fc := *c
				fc.N, fc.Backend = n, []string{"AccessDenied", "NoSuchBucket"}[n%2]
				fc.Keep, fc.KeepTag = nil, "empty"
				if err := c16S3(a, o, r, &fc); err != nil {
					return err
				}
			}
		}
		if i < 2 {
			r.Sample(map[string]interface{}{"kind": "s3prune", "prefix": c.Prefix, "unc": c.Unc, "keys": len(c.Keys), "features": c.Feat})
		}
		if err := c16S3(a, o, r, c); err != nil {
			return err
		}
	}
	return nil
}
