package main

import "vh/internal/vh"

func c16S3(a vh.Args, o *vh.Oracle, r *vh.Result, c *c16Case) error { return nil }

func c16S3All(a vh.Args, o *vh.Oracle, r *vh.Result, rng *vh.Rand) error {
	r.Note("S3/SFTP prune: not yet tied")
	return nil
}
